import eng_memattrs
PID = "C14"
LEAN_MODULE = "Hw.Props.C14"
NS = "Hw.Props.C14."
THEOREMS = [NS + t for t in """C14_register_rules C14_register_flags C14_register_name C14_register_keeps C14_get_after_set C14_get_after_set_noinit C14_get_after_set_history C14_set_frame C14_set_other_attr C14_enumerate_targets C14_enumerate_targets_exact C14_enumerate_targets_conv C14_enumerate_targets_einval C14_enumerate_initiators C14_nr_convention C14_best_target C14_best_initiator C14_best_optimal C14_best_enoent C14_convenience_defaults C14_convenience_ro C14_convenience_static C14_convenience_value C14_capacity C14_locality C14_local_nodes C14_local_nodes_exact C14_local_nodes_order C14_local_nodes_null C14_local_nodes_badflags C14_default_nodeset_disjoint C14_default_nodeset_first C14_refresh_targets C14_refresh_removed C14_refresh_initiator C14_refresh_preserves C14_refresh_lookup C14_dup_preserves """.split()]
CHECK_MODULES = ["Hw.Props.C14"]
TRUSTED = [
    "cpusets are modelled as finite bit masks (Nat); hwloc_bitmap_isincluded/and/andnot/weight/iszero are modelled by their "
    "set meaning (property C03 proves this for the bitmap implementation)",
    "the topology is an environment printed by the harness from the real topology after every topology-changing call "
    "(objects with type/gp_index/os_index/cpuset, NUMA level in logical order); what a restrict removes is C08's business",
    "qsort with compare_nodes_by_os_index is modelled as a stable insertion sort (NUMA os_indexes are distinct)",
]
ASSUMPTIONS = [
    "malloc never fails; topology loaded (HWLOC_TOPOLOGY_STATE_IS_LOADED) for the public calls; at most 64 PUs / NUMA os_indexes in the harness",
    "targets are given with a gp_index (the target_gp_index == -1 path used by OS backends during discovery is not modelled)",
    "get_after_set_history: cpuset initiators of one (attribute,target) pairwise equal-or-disjoint and non-empty (explicit hypothesis); "
    "C14_get_after_set: the initiator is meaningful in the topology (non-empty cpuset inside the root cpuset / existing object)",
    "two input classes are excluded from the verdict stream because the C code is defective there (see corpus/memattrs-known/*.ops): "
    "dup of a topology holding an attribute whose targets were all dropped by a refresh (VERIF_C14_ALLOW_DUP_EMPTIED), and enumeration of an "
    "object initiator added to an existing target before the next refresh (VERIF_C14_ALLOW_UNCACHED_OBJ_INITIATOR)",
]
MODELLED = ("modelled: hwloc/memattrs.c 17-1315 (defaults, register, get_by_name/name/flags, match_internal_location, to_internal_location, "
            "refresh of initiators/targets/attributes, need_refresh, dup, get_targets, get_initiators, get_value, set_value, "
            "get_best_target, get_best_initiator, get_local_numanode_objs, get_default_nodeset) and the memattr part of XML "
            "export/import (topology-xml.c 1424-1600, 2594-2675) as a replay of set_value in load mode; "
            "exercised but not modelled: memory-tier guessing, allocation failure, the object tree itself (given as environment); "
            "proved for the model: every theorem listed; established by the differential tie only: XML round trip persistence")

def run_engines(tier, seed):
    return eng_memattrs.run_engine(tier, seed)

def replay(path):
    print(open(path).read())
    return 0
