import eng_helpers
PID = "C09"
LEAN_MODULE = "Hw.Props.C09"
NS = "Hw.Props.C09."
THEOREMS = [NS + t for t in """C09_oracle C09_tree_of_wf C09_covering_deepest C09_covering_none
C09_covering_eq_brute C09_largest_partition C09_largest_not_included C09_largest_max
C09_largest_eq_brute C09_level_spec C09_iter_inside C09_index_inside
C09_iter_covering C09_iter_by_type C09_common_ancestor C09_common_ancestor_normal_depth
C09_ancestor_by_depth C09_closest_order C09_nodeset_conv C09_same_locality
C09_distrib_count C09_distrib_disjoint C09_distrib_degenerate C09_distrib_chunks
C09_singlify_per_core C09_singlify_no_core_level C09_type_depth_inverse""".split()]
CHECK_MODULES = ["Hw.Props.C09"]
TRUSTED = ["hwloc_bitmap_* enter the model through their set-level meaning on finite sets (Nat masks); the bitmap layer is C03",
           "strcasecmp / strncasecmp modelled as equality / prefix test after ASCII lower-casing"]
ASSUMPTIONS = ["finite query sets; n * totalWeight + totalWeight < 2^32 in hwloc_distrib (the C multiplies in unsigned, the model in Nat)",
               "theorems are stated under WF d and T_order d (DFS numbering of the dump: parent id < child id); Tree d (structural "
               "consequences in quantified form, lean/Hw/Topo/WFLemmas.lean) is derived from them in lean/Hw/Topo/WFTree.lean; both "
               "oracles (wfCheck, treeCheck) are evaluated by the driver on every topology of every run",
               "no input class is excluded: the former defect classes F10 (common ancestor of normal/special mixes) and F32 "
               "(hwloc_get_closest_objs on memory objects) are fixed in /repo and are ordinary generated cases and corpus cases; "
               "queries that dereference a NULL cpuset (cpuset iterators on I/O or Misc levels, hwloc_distrib on roots without "
               "cpuset) are outside the documented preconditions and never generated"]
MODELLED = ("modelled: helper.h covering / largest / inside+covering iterators / ancestors / common ancestor / is_in_subtree / "
            "cache helpers / os-index lookups / hwloc_distrib / cpuset<->nodeset, inlines.h depth+type lookups, traversal.c "
            "hwloc_get_closest_objs, hwloc__get_largest_objs_inside_cpuset, hwloc_bitmap_singlify_per_core, "
            "hwloc_get_obj_with_same_locality, hwloc_get_type_depth, hwloc_get_depth_type, hwloc_get_obj_by_depth; exercised but not "
            "modelled: synthetic/XML loading, hwloc_topology_restrict, Misc insertion (they only produce the topology that is dumped)")


def run_engines(tier, seed):
    return eng_helpers.run_engine(tier, seed)


def replay(path):
    """./check C09 --replay FILE: run the LOAD/query lines of FILE (text before the first ' | ' of each line; '#' lines ignored)
    through hwloc and the model, print both, exit 1 on a difference."""
    import os, shutil
    from common import build_harness, lake_build, BUILD
    from diffrun import read_lines
    lake_build(["hwmodel"])
    eng = eng_helpers.ENGINE
    binp = build_harness("helpers")
    ops = [l.split(" | ")[0].rstrip() for l in read_lines(path) if l.strip() and not l.startswith("#")]
    wd = os.path.join(BUILD, "run", "helpers-replay-%d" % os.getpid())
    os.makedirs(wd, exist_ok=True)
    try:
        print(eng.replay_text(binp, wd, ops))
        bad = eng.fails(binp, os.path.join(wd, "shrink"), ops)
        print("REPLAY: DIFFERS" if bad else "REPLAY: agree")
        return 1 if bad else 0
    finally:
        shutil.rmtree(wd, ignore_errors=True)
