import eng_bitmap
PID = "C03"
LEAN_MODULE = "Hw.Props.C03"
NS = "Hw.Props.C03."
THEOREMS = [NS + t for t in """C03_step_refines C03_reachable_inv C03_isset C03_iszero C03_isfull C03_isequal C03_intersects
C03_isincluded C03_first C03_next C03_last C03_first_unset C03_next_unset C03_last_unset C03_weight_infinite
C03_weight_finite C03_inf_iff C03_to_ith_ulong C03_to_ulong C03_to_ulongs C03_nr_ulongs_infinite C03_nr_ulongs_empty
C03_nr_ulongs_last C03_compare C03_repr_first C03_repr_next C03_repr_last C03_repr_first_unset C03_repr_next_unset
C03_repr_last_unset C03_repr_inf C03_repr_to_ith_ulong C03_repr_weight C03_repr_iszero C03_repr_isfull
C03_repr_isequal C03_repr_intersects C03_repr_isincluded
C03_compare_first C03_compare_inclusion C03_repr_compare C03_repr_compare_first C03_repr_compare_inclusion
C03_alias_or C03_alias_and C03_alias_andnot C03_alias_xor C03_alias_not""".split()]
CHECK_MODULES = ["Hw.Props.C03"]
TRUSTED = ["hwloc_ffsl = __builtin_ffsl and hwloc_weight_long = __builtin_popcountll are modelled by their specification (least set bit / number of set bits)"]
ASSUMPTIONS = ["indexes and 64*ulongs_count below 2^31 (no C integer wrap); malloc never fails"]
MODELLED = ("modelled representation-exactly: every function of hwloc/bitmap.c lines 84-243 and 741-1760; "
            "not modelled: allocation failure, ulongs_allocated, HWLOC_DEBUG magic")

def run_engines(tier, seed):
    return eng_bitmap.run_engine(tier, seed)

def replay(path):
    import sys
    print(open(path).read())
    return 0
