import eng_bitmap
PID = "C03"
LEAN_MODULE = "Hw.Props.C03"
THEOREMS = []
TRUSTED = []
ASSUMPTIONS = ["indexes and 64*ulongs_count below 2^31 (no C integer wrap); malloc never fails"]
MODELLED = "modelled: every function of hwloc/bitmap.c lines 84-243, 741-1760; not modelled: allocation failure, ulongs_allocated"

def run_engines(tier, seed):
    return eng_bitmap.run_engine(tier, seed)

def replay(path):
    return 0
