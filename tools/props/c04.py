import eng_strings
PID = "C04"
LEAN_MODULE = "Hw.Props.C04"
NS = "Hw.Props.C04."
THEOREMS = [NS + t for t in """C04_ret_is_full_length C04_writes_in_bounds C04_truncated_prefix C04_snprintf_hwloc
C04_snprintf_list C04_snprintf_taskset C04_asprintf C04_sscanf_hwloc_defined C04_sscanf_list_defined
C04_sscanf_taskset_defined C04_roundtrip_hwloc C04_roundtrip_taskset C04_roundtrip_list C04_roundtrip_bitmap
C04_sscanf_reads_in_bounds C04_list_sscanf_reads_in_bounds C04_taskset_sscanf_reads_in_bounds
C04_sscanf_writes_in_bounds C04_list_sscanf_writes_in_bounds C04_taskset_sscanf_writes_in_bounds
C04_sscanf_refines C04_list_sscanf_refines C04_taskset_sscanf_refines C04_sscanf_returns C04_cursor_defined
C04_cursor_roundtrip""".split()]
CHECK_MODULES = ["Hw.Props.C04"]
TRUSTED = ["libc strtoul is modelled (Hw.Base.Num.strtoul: whitespace, 0x prefix, octal for base 0, saturation); snprintf is modelled as 'copy min(len,size-1) bytes + NUL, return len' (this build uses snprintf directly: HWLOC_HAVE_CORRECT_SNPRINTF)",
           "parser memory safety is proved on the cursor-level models Hw.Bitmap.Cursor (every read through rd, every ulongs[]/ustr[] store logged); "
           "libc strchr/strncmp/strlen/memcpy/strtoul are modelled incl. the bytes they read (strtoul: white space, sign, 0x, digits, the stopping byte); "
           "the tie measures the furthest byte the REAL parser reads (string prefixes below a PROT_NONE page) and compares it with the model's read log"]
ASSUMPTIONS = ["list format: numbers below 2^21 for the SET-level comparison (outside: 'unsupported' by model and harness alike; the cursor-level model "
               "still walks such strings and its read-safety theorem covers them); sign characters are inside the cursor-level model and the tie, "
               "outside the structural models of Hw.Bitmap.Scan (refinement theorems are stated on the structural domain)",
               "no allocation failure"]
MODELLED = ("modelled: hwloc/bitmap.c 252-739 (three printers as chunk lists + the shared cursor machine, three parsers: structural models "
            "Hw.Bitmap.Scan and cursor-level models Hw.Bitmap.Cursor with read/write logs, proved equal on the structural domain; "
            "hwloc_bitmap_enlarge_by_ulongs sizing), "
            "hwloc_snprintf (= snprintf in this build); not modelled: allocation failure paths")

def run_engines(tier, seed):
    return eng_strings.run_engine(tier, seed)

def replay(path):
    print(open(path).read())
    return 0
