import eng_typestr
PID = "C11"
LEAN_MODULE = "Hw.Props.C11"
NS = "Hw.Props.C11."
THEOREMS = [NS + t for t in """C11_type_roundtrip C11_group_roundtrip C11_osdev_roundtrip_known_bits C11_type_string_roundtrip C11_type_print_contract C11_type_print_terminates
C11_attr_print_contract C11_sscanf_safe C11_sscanf_type_valid C11_F23_e0_input_parses C11_size0_writes_nothing C11_compare_types_laws C11_kinds_partition
C11_level_same_text C11_F11_same_level_different_text""".split()]
CHECK_MODULES = ["Hw.Props.C11"]
TRUSTED = [
    "tools/gen_typestr.py (translator, tie T): enum values by a C printer compiled against the real headers; tables and the "
    "hwloc_type_sscanf chain by a fail-closed token-template parser of the comment-stripped sources",
    "libc modelled, not verified: snprintf(%s %u %llu %d %0Nx) as byte-exact rendering with C99 truncation; strtol(base 10) with "
    "LONG_MAX saturation; strncasecmp/strchr in the C locale",
    "the PCI link speed '%.2f' rendering and hwloc_pci_class_string() are opaque tokens supplied by the harness",
]
ASSUMPTIONS = [
    "char is signed, long is 64 bit, unsigned is 32 bit (checked by the translator against the compiler on every run)",
    "size < 2^63 (tmplen is ssize_t); strings are NUL-terminated; obj->attr is valid for obj->type; bridge downstream type is PCI",
    "round trip: cache type consistent with depth/cache type (asserted by hwloc_topology_check), bridge upstream in {HOST,PCI}, "
    "OS-device word within the 7 known bits (any other word parses back to its known bits: C11_osdev_roundtrip_known_bits)",
    "attr contract: IoNoMemory (Bridge/PCI objects have total_memory = 0, true through load)",
    "no input class is excluded (F06 and F23 are fixed in /repo); F11 stays a known finding: levels mixing unified and data caches are "
    "outside the homogeneity hypothesis of C11_level_same_text and are reported, not judged",
]
MODELLED = ("modelled: traversal.c hwloc_obj_type_string, hwloc__type_match, hwloc__osdev_type_sscanf, hwloc__osdev_types_sscanf, "
            "hwloc_type_sscanf, hwloc__osdev_type_snprintf_short/_normal, hwloc_obj_type_snprintf, hwloc_obj_attr_snprintf, "
            "private.h hwloc_memory_size_snprintf, topology.c hwloc_compare_types, misc.h hwloc__obj_type_is_*; "
            "exercised but not modelled: hwloc_pci_class_string, '%.2f', topology loading for the per-level check; "
            "not covered: hwloc_type_sscanf_as_depth, hwloc_get_type_depth_with_attr")

def run_engines(tier, seed):
    return eng_typestr.run_engine(tier, seed)

def replay(path):
    """re-run a replay file (lines `op | C | model`, comments with #) on the current tree"""
    import os
    from common import build_harness, BUILD
    ops = [l.split(" | ")[0] for l in open(path).read().splitlines() if l and not l.startswith("#")]
    binp = build_harness("typestr")
    wd = os.path.join(BUILD, "run", "typestr-replay-%d" % os.getpid())
    os.makedirs(wd, exist_ok=True)
    fails, outcome = eng_typestr.fails_factory(binp, wd)
    print(eng_typestr.replay_text(ops, outcome, "replay of " + path))
    bad = fails(ops)
    import shutil
    shutil.rmtree(wd, ignore_errors=True)
    return 1 if bad else 0
