import eng_distances
PID = "C13"
LEAN_MODULE = "Hw.Props.C13"
NS = "Hw.Props.C13."
THEOREMS = [NS + t for t in """C13_kind_validation C13_add_then_get C13_get_filter C13_hetero_iff C13_get_nr C13_add_rejects_unchanged_create C13_add_rejects_unchanged_values C13_add_rejects_null_object C13_add_rejects_unchanged_commit C13_compaction_correct C13_compaction_correct_sigma C13_compaction_sigma_exists C13_compaction_objs C13_restrict_invalidates C13_refresh_dropped_iff C13_refresh_subset C13_refresh_valid_fixed C13_refresh_list C13_dup_keeps C13_xml_roundtrip C13_xml_renumber C13_remove_exact_all C13_remove_exact_by_depth C13_remove_exact_release_remove C13_ids_distinct_commit C13_ids_distinct_refresh C13_ids_distinct_sublist C13_transform_remove_null_keeps C13_links_divides C13_links_base C13_links_divider_min C13_closure_adds_min C13_transform_keeps_nonswitch C13_transform_nonswitch_kept C13_transform_first_port C13_transform_merge_no_port C13_group_check_matrix_iff C13_group_refused C13_group_closure_fuel C13_group_ids_partition C13_group_ids_connected C13_group_ids_closure C13_group_matrix_symmetric C13_group_rounds_fuel C13_group_round_shape C13_group_round_disjoint C13_group_round_insert_laminar C13_group_commit_laminar C13_group_closure_not_transitive_witness""".split()]
CHECK_MODULES = ["Hw.Props.C13"]
TRUSTED = ["the harness annotations (live objects after a topology change, object resolution by type/logical index, "
           "depth->type lookups) are taken from the real topology and given to the model as its environment"]
ASSUMPTIONS = ["malloc never fails; object arrays and value matrices passed to add_values are non-NULL",
               "grouping by distances is modelled at the default accuracy only (HWLOC_GROUPING_ACCURACY unset: exact integer comparisons); "
               "commits with the GROUP flag under non-default accuracies (float comparisons) run in a side stream judged for aborts / "
               "sanitizer reports only",
               "predicted GROUP commits: every object of the topology has cpuset == complete_cpuset (true for the synthetic topologies of "
               "the generator; otherwise the harness marks the commit as unpredicted, `ok U`)"]
MODELLED = ("modelled: hwloc/distances.c user API add_create/add_values/add_commit, refresh_one/refresh/restrict compaction, "
            "invalidate, dup, __distances_get filter and *nr convention, get_name, remove, remove_by_depth, release_remove, "
            "the four transforms, XML export/import as a list transfer; hwloc__groups_by_distances at accuracy 0 (check_grouping_matrix, "
            "find_groups_by_min_distance with its rescan loop, give-up rules, factorised group matrix, recursion, Group cpusets / kind / "
            "subkind numbering) composed with the C02 model of hwloc_topology_insert_group_object; exercised but not modelled: grouping "
            "with non-zero accuracies, shmem adoption")


def run_engines(tier, seed):
    return eng_distances.run_engine(tier, seed)


def replay(path):
    """re-run a replay / bare op list (annotations and '||' result columns are ignored) through hwloc and the model"""
    import os, shutil
    from common import build_harness, BUILD
    from diffrun import compare_streams, read_lines
    ops = []
    for l in read_lines(path):
        l = l.split("||")[0].split("|")[0].strip()
        if l and not l.startswith("#"):
            ops.append(l)
    binp = build_harness(eng_distances.ENGINE)
    wd = os.path.join(BUILD, "run", "distances-replay-%d" % os.getpid())
    env = eng_distances.env_for(0, 1)
    txt = eng_distances.replay_text(binp, wd, ops, env)
    shutil.rmtree(wd, ignore_errors=True)
    print(txt)
    return 1 if ("<== DIFFERS" in txt or "# harness exit" in txt) else 0
