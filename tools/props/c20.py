import eng_tools
PID = "C20"
LEAN_MODULE = "Hw.Props.C20"
NS = "Hw.Props.C20."
THEOREMS = [NS + t for t in """C20_calc_fold C20_calc_fold_nodeset C20_calc_ignored_is_identity C20_calc_N_eq_len_I
C20_calc_single C20_calc_largest_roundtrip C20_calc_rejects C20_calc_rejects_bad_level C20_calc_bad_number_of
C20_calc_rejected_range_ignored C20_calc_range_loop_bound
C20_calc_stdin_line_fresh C20_calc_stdin_lines_independent C20_calc_stdin_line_eq_cmdline
C20_distrib_prints_n C20_distrib_rejects C20_distrib_invalid_number
C20_calc_cpukind_filter C20_calc_cpukind_set C20_calc_cpukind_commutes_fold C20_calc_attr_filters_first C20_calc_default_nodes
C20_calc_local_memory C20_calc_attr_loop_extends C20_calc_attr_conservative C20_calc_best_memattr_values""".split()]
CHECK_MODULES = ["Hw.Props.C20"]
TRUSTED = ["the C03/C04/C09/C11 models the calc model is built from (bitmap operators, the three set printers/parsers, covering / "
           "largest / distrib helpers, hwloc_type_sscanf / hwloc_obj_type_snprintf) are tied to the C by their own engines",
           "libc strtol/strtoul/atoi/atol on the byte strings the tools hand them (sign and white-space prefixes are outside the "
           "modelled domain and answered `skip`)",
           "lstopo, hwloc-diff and hwloc-patch are not modelled in Lean: the harness compares them with the library in-process "
           "(byte-identical export, dump equality after reload / after diff|patch)"]
ASSUMPTIONS = ["the tool is always given `-i <synthetic|xml>` (plus optionally --if and --restrict <set|nodeset=set>) first; --restrict "
               "is applied by the harness with the same library calls to the topology whose dump the model receives; the other "
               "topology options (--disallowed, --restrict-flags; hwloc-distrib --ignore) are exercised for crashes only; leading --cpukind options are modelled",
               "no input class is excluded: the former defect classes F40-F44 are fixed in /repo and are ordinary generated and "
               "corpus cases (reversed ranges, non-positive widths, open ranges beyond the level width, invalid -N/-I/-H types, "
               "unnamed objects under os=/misc=, non-numeric hwloc-distrib numbers)",
               "CPU kinds and memory attribute values are what the harness reads through the public API on the topology the tool loads "
               "(hwloc_cpukinds_get_info, hwloc_memattr_get_value / get_initiators: C15 / C14 check those); the NUMA level, the local-node "
               "selection and the default nodeset are the C14 model over the dump",
               "model answers `skip` (exit class and stdout not compared, crashes still are) for: --local-memory-flags / --cpukind / --best-memattr "
               "numbers outside plain decimal (strtoul base 0, atoi overflow), `$` tokens longer than a flag name, MemoryTier infos that are "
               "not 1-4 digits, --help/--version, numbers with white space or signs where libc "
               "accepts them, list-format indexes >= 2^21, loops of more than 4096 iterations, --no-smt on an infinite set",
               "C20_calc_largest_roundtrip is stated under Tree d (derived from WF d and the DFS numbering in Hw/Topo/WFTree.lean) for "
               "finite sets inside the root cpuset; that the printed Type:index names parse back to the same objects is the C11 "
               "round trip, checked by the LRT runs"]
MODELLED = ("modelled: hwloc-calc.h 47-803 (append modes, level and range parsers, object ranges incl. nesting and wrap-around, "
            "special levels by index, os=/misc= names, pci=busid, bracket filters [tier=] [subtype=] [vendor:device], raw sets in three "
            "formats with the format guess, all/root), hwloc-calc.c "
            "main option loop, stdin mode (lineFold / lineOut / stdinLoop: both accumulators reset before every line) and hwloc_calc_output (--cpukind filter, --no-smt, --default-nodes, --single, --largest, -N, -I (incl. cpukind / memorytier), -H, --local-memory with flags and --best-memattr (misc.h parse_flags / best_node helpers), four output formats), "
            "hwloc-distrib.c option loop and output; exercised but not modelled: hwloc_utils_lookup_input_option / "
            "enable_input_format, lstopo.c option parsing and its xml/synthetic back ends, hwloc-diff.c, hwloc-patch.c "
            "(compared with the library by the harness), the graphical/text lstopo back ends (out of the property)")


def run_engines(tier, seed):
    return eng_tools.run_engine(tier, seed)


def replay(path):
    """./check C20 --replay FILE: run the LOAD / tool-run lines of FILE (text before the first ' | ' of each line; '#' lines ignored)
    through the real tools and the model, print both, exit 1 on a difference."""
    import os, shutil
    from common import lake_build, BUILD
    from diffrun import read_lines
    lake_build(["hwmodel"])
    eng = eng_tools.ENGINE
    binp = eng_tools.build_tools_harness()
    ops = [l.split(" | ")[0].rstrip() for l in read_lines(path) if l.strip() and not l.startswith("#")]
    wd = os.path.join(BUILD, "run", "tools-replay-%d" % os.getpid())
    os.makedirs(wd, exist_ok=True)
    try:
        print(eng.replay_text(binp, wd, ops))
        bad = eng.fails(binp, os.path.join(wd, "shrink"), ops)
        print("REPLAY: DIFFERS" if bad else "REPLAY: agree")
        return 1 if bad else 0
    finally:
        shutil.rmtree(wd, ignore_errors=True)
