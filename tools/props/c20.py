import eng_tools
PID = "C20"
LEAN_MODULE = "Hw.Props.C20"
NS = "Hw.Props.C20."
THEOREMS = [NS + t for t in """C20_calc_fold C20_calc_fold_nodeset C20_calc_ignored_is_identity C20_calc_N_eq_len_I
C20_calc_single C20_calc_largest_roundtrip_partial C20_calc_rejects C20_calc_rejects_missing_value
C20_calc_bad_level_exits_zero C20_calc_reversed_range_hangs C20_calc_negative_wrap_aborts
C20_distrib_prints_n C20_distrib_rejects""".split()]
CHECK_MODULES = ["Hw.Props.C20"]
TRUSTED = ["the C03/C04/C09/C11 models the calc model is built from (bitmap operators, the three set printers/parsers, covering / "
           "largest / distrib helpers, hwloc_type_sscanf / hwloc_obj_type_snprintf) are tied to the C by their own engines",
           "libc strtol/strtoul/atoi/atol on the byte strings the tools hand them (sign and white-space prefixes are outside the "
           "modelled domain and answered `skip`)",
           "lstopo, hwloc-diff and hwloc-patch are not modelled in Lean: the harness compares them with the library in-process "
           "(byte-identical export, dump equality after reload / after diff|patch)"]
ASSUMPTIONS = ["the tool is always given `-i <synthetic|xml>` (plus optionally --if) first; the other topology options of hwloc-calc "
               "(--restrict, --cpukind, --disallowed) and of hwloc-distrib (--ignore, --restrict) are exercised for crashes only",
               "excluded input classes (kept out of the generated verdict stream by the syntactic guard risky_loc() of the harness, "
               "probed from corpus/tools-known with a 3 s limit, reported as KNOWN-FINDING): F40 reversed or open-ended index "
               "ranges beyond the level width make hwloc_calc_append_object_range loop ~2^32 times; F41 `type:N:-1` fails "
               "assert(amount != -1 || !wrap); F42 an unusable -N/-I/-H level leaves with status 0 and no output; F43 "
               "`hwloc-distrib abc` (atol = 0) prints nothing and exits 0",
               "model answers `skip` (exit class and stdout not compared, crashes still are) for: bracket filters, pci=busid, "
               "cpukind/memorytier pseudo-levels, --local-memory*, --best-memattr, --default-nodes, --help/--version, list-format "
               "indexes >= 2^21, loops of more than 4096 iterations, --no-smt on an infinite set",
               "C20_calc_largest_roundtrip_partial assumes that every object picked by hwloc_get_first_largest_obj_inside_cpuset is "
               "inside the remaining set (true on well-formed topologies; the textual feed-back is checked by the LRT runs)"]
MODELLED = ("modelled: hwloc-calc.h 47-803 (append modes, level and range parsers, object ranges incl. nesting and wrap-around, "
            "special levels by index, os=/misc= names, raw sets in three formats with the format guess, all/root), hwloc-calc.c "
            "main option loop, stdin mode and hwloc_calc_output (--no-smt, --single, --largest, -N, -I, -H, four output formats), "
            "hwloc-distrib.c option loop and output; exercised but not modelled: hwloc_utils_lookup_input_option / "
            "enable_input_format, lstopo.c option parsing and its xml/synthetic back ends, hwloc-diff.c, hwloc-patch.c "
            "(compared with the library by the harness), the graphical/text lstopo back ends (out of the property)")


def run_engines(tier, seed):
    return eng_tools.run_engine(tier, seed)


def replay(path):
    """./check C20 --replay FILE: run the LOAD / tool-run lines of FILE (text before the first ' | ' of each line; '#' lines ignored)
    through the real tools and the model, print both, exit 1 on a difference."""
    import os, shutil
    from common import lake_build, BUILD
    from diffrun import read_lines
    lake_build(["hwmodel"])
    eng = eng_tools.ENGINE
    binp = eng_tools.build_tools_harness()
    ops = [l.split(" | ")[0].rstrip() for l in read_lines(path) if l.strip() and not l.startswith("#")]
    wd = os.path.join(BUILD, "run", "tools-replay-%d" % os.getpid())
    os.makedirs(wd, exist_ok=True)
    try:
        print(eng.replay_text(binp, wd, ops))
        bad = eng.fails(binp, os.path.join(wd, "shrink"), ops)
        print("REPLAY: DIFFERS" if bad else "REPLAY: agree")
        return 1 if bad else 0
    finally:
        shutil.rmtree(wd, ignore_errors=True)
