import eng_xmlrt
PID = "C05"
LEAN_MODULE = "Hw.Props.C05"
NS = "Hw.Props.C05."
THEOREMS = [NS + t for t in """C05_unescape_escape C05_escape_charwise C05_escape_no_raw_markup C05_escape_amp_only_from_entities
C05_escape_null_iff C05_base64_enc_length C05_base64_dec_writes_in_bounds C05_base64_alphabet C05_base64_roundtrip_partial
C05_num_roundtrip_unsigned C05_num_roundtrip_signed C05_num_roundtrip_hex C05_set_attr_roundtrip
C05_TopoEquiv_refl C05_TopoEquiv_symm C05_TopoEquiv_trans C05_TopoEquiv_fields C05_TopoEquiv_implies_tree_sets
C05_sanitize_idem""".split()]
CHECK_MODULES = ["Hw.Props.C05"]
TRUSTED = [
    "PARTIAL: the object <-> attribute mapping of hwloc/topology-xml.c (3000 lines) and the libxml2 back end are exercised, not "
    "modelled: that export+import reproduces a whole topology is established on the generated topologies of each run (judged by the "
    "proved-equivalence relation TopoEquiv in the Lean driver), while the byte-level building blocks are proved",
    "PARTIAL: base64 decode(encode bs) = bs is proved for the bit arithmetic of one group (C05_base64_roundtrip_partial), the alphabet "
    "inversion, the encoded length and the decoder's write safety; the induction through the decoder state machine is checked "
    "differentially only (every B64D case decodes the encoder's own output)",
    "the un-escaper model reads the original buffer (the C code copies in place; reads are always at or after the cell being written)",
    "harness/dump.h + the canonical X lines of harness/h_xmlrt.c as a faithful reading of both topologies through the public API",
    "libc strtoul/strtoull/atoi/sprintf are modelled (Hw.Base.Num, Hw.Io.Xml.atoi/printInt) and differential-tested (NUM cases)",
]
ASSUMPTIONS = [
    "attribute values are NUL-free byte strings; numbers printed with %u/%lu/%llu are below 2^64",
    "names / subtypes / info strings are compared after hwloc__xml_export_safestrdup (documented: non-printable and non-ASCII characters "
    "are silently dropped on export); distances names, which hwloc exports WITHOUT that filter, are generated from XML-valid characters "
    "only (switch VERIF_XMLRT_RAW_DISTNAMES=1 shows the defect: the XML cannot be reloaded)",
    "topology flags of the original are a subset of {INCLUDE_DISALLOWED, IMPORT_SUPPORT, DONT_CHANGE_BINDING} (NO_DISTANCES / NO_MEMATTRS / "
    "NO_CPUKINDS would make the reload drop user-added attributes by design); memattr initiator cpusets are non-empty subsets of the "
    "topology cpuset; plain userdata holds printable characters without XML markup",
    "excluded input classes (named switches in tools/eng_xmlrt.py and harness/h_xmlrt.c, counted as KNOWN-FINDING lines): <support/> "
    "section of the second export without IMPORT_SUPPORT; memory children whose sets differ from their parent's; stale gp_index "
    "references (distances, memattr targets/initiators) after a Group replacement; v2 export of unnamed latency distances (importer "
    "calls strcmp(NULL, ...)); originals that are not well-formed (object with a cpuset but NULL complete_cpuset) or hold duplicate "
    "memattr initiators after restrict; a Group's depth attribute (not exported, recomputed by every load) is not compared",
    "v2-format exports: only 'same tree and sets' is judged; distances are compared as a multiset",
    "Groups with subtype \"Die\" or kind 104 (INTEL_DIE) are not generated: the importer's backward-compatibility rule turns them into Die "
    "objects in every format version (switch VERIF_XMLRT_DIE_GROUPS=1); originals must pass hwloc_topology_check()",
]
MODELLED = ("modelled: hwloc__nolibxml_export_escape_string, hwloc__nolibxml_import_next_attr (topology-xml-nolibxml.c 48-108, 547-587), "
            "hwloc_encode_to_base64 / hwloc_decode_from_base64 (base64.c), HWLOC_XML_CHAR_VALID / safestrdup, the printf/strto* pairs, "
            "fixup_sets' memory-child rule; exercised only: topology-xml.c object/distances/memattr/cpukind/support/userdata import+export, "
            "topology-xml-libxml.c, the nolibxml tag scanner (find_child/close_tag/get_content)")


def run_engines(tier, seed):
    return eng_xmlrt.run_engine(tier, seed)


def replay(path):
    print(open(path).read())
    return 0
