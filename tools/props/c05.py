import eng_xmlrt
PID = "C05"
LEAN_MODULE = "Hw.Props.C05"
NS = "Hw.Props.C05."
THEOREMS = [NS + t for t in """C05_unescape_escape C05_escape_charwise C05_escape_no_raw_markup C05_escape_amp_only_from_entities
C05_escape_null_iff C05_base64_enc_length C05_base64_dec_writes_in_bounds C05_base64_alphabet C05_base64_roundtrip C05_base64_encode C05_base64_encode_decode C05_base64_group C05_scan_render_attrs C05_next_attr_render C05_obj_attrs_roundtrip C05_obj_export_wellformed C05_obj_scan_render_roundtrip C05_obj_set_value_roundtrip C05_obj_type_value_roundtrip C05_obj_pci_busid_roundtrip C05_obj_bridge_pci_roundtrip C05_info_roundtrip C05_info_scan_render_roundtrip
C05_num_roundtrip_unsigned C05_num_roundtrip_signed C05_num_roundtrip_hex C05_set_attr_roundtrip
C05_TopoEquiv_refl C05_TopoEquiv_symm C05_TopoEquiv_trans C05_TopoEquiv_fields C05_TopoEquiv_implies_tree_sets
C05_sanitize_idem
C05_tree_roundtrip C05_subtree_roundtrip C05_tree_children_preserved C05_tree_fixpoint C05_tree_norm_idem C05_tree_norm_valid
C05_userdata_roundtrip C05_pagetype_roundtrip C05_tree_roundtrip_start_tags_as_bytes C05_tree_export_wellformed C05_tree_second_export C05_tree_second_export_same_attrs
C05_cpukinds_xml_roundtrip C05_memattrs_xml_roundtrip C05_memattr_rebuild C05_distances_xml_roundtrip C05_type_prefix_scan C05_side_roundtrip""".split()]
CHECK_MODULES = ["Hw.Props.C05"]
TRUSTED = [
    "PARTIAL: the start tag of <object> and the <info> elements are modelled and proved at the object level (exportAttrs / importAttrs, tied by "
    "the OBJ lines) and the assembly of the object tree (nesting, <info> / <page_type> / <userdata> child elements, the four child lists, the "
    "parent-kind checks) at the tree level (exportTree / importTree on element trees, tied by the TREE lines, v3 format, nolibxml); the "
    "distances2(hetero) / memattr / cpukind / topology-info elements at the side level (Hw.Io.XmlSide: exportSide / importSide on the element "
    "list after the root object, tied by the SIDE lines; what the importer hands to hwloc_internal_distances_add_by_index / "
    "hwloc_internal_memattr_set_value / hwloc_internal_cpukinds_register, not those core functions, except the find-or-append of set_value); the "
    "support elements of hwloc/topology-xml.c, the v2-format flags, the nolibxml tag scanner below the "
    "start tags and the libxml2 back end are exercised, not modelled: that export+import reproduces a whole topology is "
    "established on the generated topologies of each run (judged by the proved-equivalence relation TopoEquiv in the Lean driver)",
    "the un-escaper model reads the original buffer (the C code copies in place; reads are always at or after the cell being written)",
    "harness/dump.h + the canonical X lines of harness/h_xmlrt.c as a faithful reading of both topologies through the public API",
    "libc strtoul/strtoull/atoi/sprintf are modelled (Hw.Base.Num, Hw.Io.Xml.atoi/printInt) and differential-tested (NUM cases)",
]
ASSUMPTIONS = [
    "attribute values are NUL-free byte strings; attribute names are over [a-z_] (the scanner's strspn set; every name topology-xml.c "
    "emits); numbers printed with %u/%lu/%llu are below 2^64; base64 bytes are below 256",
    "names / subtypes / info strings / distances names are compared after hwloc__xml_export_safestrdup (documented: non-printable and "
    "non-ASCII characters are silently dropped on export)",
    "topology flags of the original are a subset of {INCLUDE_DISALLOWED, IMPORT_SUPPORT, DONT_CHANGE_BINDING} (reloading with NO_DISTANCES / "
    "NO_MEMATTRS / NO_CPUKINDS drops those attributes by design); memattr initiator cpusets are non-empty subsets of the topology cpuset; "
    "plain userdata holds printable characters without XML markup",
    "known classes (known_findings.json): F56 <support/> section of the second export without IMPORT_SUPPORT (compared with those "
    "elements removed); F55 memory children whose sets differ from their parent's (judged against the fixup_sets-normalised original); "
    "F59 duplicate memattr initiators after restrict (not judged; VERIF_XMLRT_JUDGE_DUP_INITIATORS=1 judges them)",
    "the original must pass hwloc_topology_check() and no modifying call of the history may abort: otherwise the case is a VIOLATION",
    "v2-format exports: only 'same tree and sets' is judged, after the importer's documented v2 rule Group(subtype Die | kind 104) -> Die; "
    "distances are compared as a multiset; a Group's depth attribute (not exported, recomputed by every load) is not compared",
]
MODELLED = ("modelled at the object level (Hw.Io.XmlObj): the attribute list hwloc__xml_export_object_contents writes for one object (v3) and "
            "hwloc__xml_import_object_attr + the checks of hwloc__xml_import_object on it, plus <info> elements; tied by the OBJ lines of engine "
            "xmlrt (scanned start tag = exportAttrs, object Valid, importAttrs = reloaded object); modelled at the tree level (Hw.Io.XmlTree): "
            "hwloc__xml_v2export_object + the child elements of hwloc__xml_export_object_contents (page_type, info, userdata plain/base64) and "
            "the two child loops, parent-kind checks and per-kind child placement of hwloc__xml_import_object / hwloc_insert_object_by_parent / "
            "hwloc__xml_import_pagetype / hwloc__xml_import_userdata, tied by the TREE lines (element tree of the real export = exportTree, "
            "TreeValid, importTree = normTree = reloaded tree); outside: ignored objects, re-sorting of out-of-order children, "
            "Group/Bridge depth, floating point (pci_link_speed text), type filters, v2 rules, the Tile/Module/Cluster type spellings; "
            "modelled: hwloc__nolibxml_export_escape_string, hwloc__nolibxml_import_next_attr (topology-xml-nolibxml.c 48-108, 547-587), "
            "hwloc_encode_to_base64 / hwloc_decode_from_base64 (base64.c), HWLOC_XML_CHAR_VALID / safestrdup, the printf/strto* pairs, "
            "fixup_sets' memory-child rule; modelled at the side level (Hw.Io.XmlSide): hwloc___xml_v2export_distances with the EXPORT_ARRAY / "
            "EXPORT_TYPE_GPINDEX_ARRAY chunking (10 per child) and hwloc__xml_import_distances (attribute loop, length / get_content test, the "
            "strtoull and Type:index loops, the bounds and ignore rules), hwloc__xml_export_memattrs / _memattr_target and "
            "hwloc__xml_import_memattr / _memattr_value, hwloc__xml_export_cpukinds / hwloc__xml_import_cpukind, topology <info>, the element "
            "loop of hwloc_look_xml, tied by the SIDE lines (elements of the real export after the root object = exportSide of the structures "
            "read through the public API, importSide of them = normalised original = reloaded structures); exercised only: topology-xml.c "
            "support import+export, "
            "topology-xml-libxml.c, the nolibxml tag scanner (find_child/close_tag/get_content)")


def run_engines(tier, seed):
    return eng_xmlrt.run_engine(tier, seed)


def replay(path):
    print(open(path).read())
    return 0
