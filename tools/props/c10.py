import eng_bind
PID = "C10"
LEAN_MODULE = "Hw.Props.C10"
NS = "Hw.Props.C10."
THEOREMS = [NS + t for t in """C10_reject_before_os C10_reject_before_os_alloc_strict C10_reject_alloc_no_binding_hook
C10_area_len0_quirk C10_os_gets_legal_set C10_fix_semantics C10_enosys_iff_no_hook C10_enosys_alloc_membind
C10_enosys_fallthrough C10_no_fallthrough_otherwise C10_dummy_no_effect C10_dummy_semantics C10_binding_hooks_support
C10_is_thissystem C10_linux_setaffinity_mask""".split()]
CHECK_MODULES = ["Hw.Props.C10"]
TRUSTED = ["the OS model of the live part: sched_setaffinity applies the mask it is given (DESIGN.md section 3 item 3); "
           "the kernel's answers to every other interposed call are inputs of the case (scripted or recorded), never predictions",
           "lean/Hw/Io/BindLinux.lean (what the Linux hooks of topology-linux.c hand to sched_setaffinity / sched_getaffinity / "
           "set_mempolicy / get_mempolicy / mbind / migrate_pages / move_pages) is a differential-tested model without property "
           "theorems except C10_linux_setaffinity_mask; the P0 theorems are about bind.c over an arbitrary hook table",
           "tools/gen_bind.py (flag masks, policy list) and the symbol interposition in harness/h_bind.c"]
ASSUMPTIONS = ["a single-threaded calling process, thread arguments equal to pthread_self(), page-aligned areas (Linux hook model only); the load-restores-binding check alone runs with a second thread that holds a different binding while hwloc_topology_load() runs, and every getter receives a dirty (reused) output bitmap in 3 of 4 calls",
               "malloc / posix_memalign / mmap of a non-zero length succeed",
               "every stub hook that returns non-zero also sets errno (as real hooks do); the errno left by a succeeding hook is not tracked",
               "the live round trip is claimed for subsets of this sandbox's allowed CPUs on a machine whose complete cpuset equals its "
               "allowed cpuset; kernel behaviour, NUMA policies on a one-node machine and other OS ports are not covered (partial)"]
MODELLED = ("modelled: hwloc/bind.c 34-560 and 706-923 (hwloc_fix_cpubind / fix_membind / fix_membind_cpuset incl. cpuset<->nodeset "
            "conversion, policy check, every public entry point incl. the alloc chains, dummy hooks, hwloc_set_binding_hooks support "
            "bits), hwloc_backends_is_thissystem (components.c), the Linux cpubind / membind hooks of topology-linux.c down to the "
            "libc / syscall boundary; exercised but not modelled: topology discovery incl. the x86 backend's bind/restore loop "
            "(checked by sched_getaffinity before/after load), last-CPU location parsing, hwloc_linux_find_kernel_nr_cpus probing")


def run_engines(tier, seed):
    return eng_bind.run_engine(tier, seed)


def replay(path):
    """./check C10 --replay FILE : run the op lines of FILE through hwloc and the model, print both, exit 1 on a difference."""
    import os, shutil
    from common import build_harness, lake_build, BUILD
    from diffrun import read_lines, compare_streams
    lake_build(["hwmodel"])
    eng = eng_bind.ENGINE
    binp = build_harness(eng.harness)
    ops = [l.split(" | hwloc")[0] if False else l for l in read_lines(path) if l.strip() and not l.startswith("#")]
    # replay files written by the engine are annotated "op | C | model": keep the op part only
    clean = []
    for l in ops:
        parts = l.split(" | ")
        if parts[0].startswith(("native", "topo")) and len(parts) >= 2:
            clean.append(parts[0] + " | " + parts[1])
        else:
            clean.append(parts[0])
    wd = os.path.join(BUILD, "run", "bind-replay-%d" % os.getpid())
    try:
        print(eng.replay_text(binp, wd, clean))
        bad = eng.fails(binp, os.path.join(wd, "shrink"), clean)
        print("REPLAY: DIFFERS" if bad else "REPLAY: agree on %d lines" % len(clean))
        return 1 if bad else 0
    finally:
        shutil.rmtree(wd, ignore_errors=True)
