import eng_shmem
PID = "C19"
LEAN_MODULE = "Hw.Props.C19"
NS = "Hw.Props.C19."
THEOREMS = [NS + t for t in """C19_length_suffices C19_passes_agree C19_rounding_matches_C C19_header_layout C19_adopt_decision
C19_adopt_syscall_exits C19_write_decision C19_adopt_equiv C19_adopt_errors C19_guard_table_covers C19_adopted_readonly
C19_adopted_eperm C19_adopted_history_readonly C19_refused_busy C19_allow_exception C19_allow_einval
C19_memattr_query_never_stores C19_adopted_never_faults C19_demanded_eq_step C19_destroy_unmaps""".split()]
CHECK_MODULES = ["Hw.Props.C19"]
TRUSTED = ["the OS model: mmap() with a hint and no MAP_FIXED returns the hint iff the whole range is unmapped, otherwise some other address; "
           "munmap() frees exactly the range; a PROT_READ mapping faults on stores (the harness relies on it, the model calls it `fault`)",
           "tools/gen_shmem.py (regex translator, fails closed) for the guard table, the constants and the expression forms of hwloc/shmem.c; "
           "LP64 natural alignment for sizeof(struct hwloc_shmem_header)",
           "hwloc__topology_dup enters the model only through the trace of sizes it requests from the allocator and through the observable "
           "content of its result (canonical dump + XML/distances/memattrs/cpukinds/infos texts); that both passes issue the same trace and "
           "that the content is preserved is established by the differential engine, not proved"]
ASSUMPTIONS = ["no 64-bit wrap in base + get_length (C19_rounding_matches_C states the bound under which the C mask expressions equal the "
               "arithmetic round-up); page size and alignment are powers of two; malloc never fails",
               "the file is only accessed by the writer and the adopters (no concurrent truncation); lseek/read/write/ftruncate succeed unless "
               "stated (`Err.sys` otherwise); a failed write that already stored its header (EBUSY after ftruncate) is not modelled as a segment",
               "calls on an adopted topology that take no topology argument (hwloc_obj_add_info, hwloc_modify_infos on object infos, direct "
               "stores to objects) cannot be guarded and are outside the call set: objects of an adopted topology are documented as read-only; "
               "hwloc_distances_transform edits the caller's copy only and is not a modifying entry point; no input class is excluded from the "
               "verdict stream"]
MODELLED = ("modelled: all of hwloc/shmem.c (both allocators, get_length, header, write and adopt decision logic in source order, the adopted "
            "state, disadopt/munmap), the adopted_shmem_addr guards with the checks preceding them (extracted), the validation of "
            "hwloc_topology_allow, EBUSY refusal of configuration calls on a loaded topology; exercised but not modelled: hwloc__topology_dup "
            "itself (object tree, distances, memattrs, cpukinds duplication), hwloc_topology_abi_check beyond equal/different, binding hooks "
            "and support arrays of the adopted copy (compared by hash only), XML export")


def run_engines(tier, seed):
    return eng_shmem.run_engine(tier, seed)


def replay(path):
    """./check C19 --replay FILE : run the plan lines of FILE (lines starting with '#' are ignored) through hwloc and the model, print the
    differing protocol lines, exit 1 on a difference."""
    import os, shutil
    from common import build_harness, lake_build, BUILD
    from diffrun import read_lines
    import gen_tables
    gen_tables.generate_all()
    lake_build(["hwmodel"])
    binp = build_harness(eng_shmem.ENGINE, include_c=("shmem",))
    plans = [l for l in read_lines(path) if l.strip() and not l.startswith("#")]
    wd = os.path.join(BUILD, "run", "shmem-replay-%d" % os.getpid())
    os.makedirs(wd, exist_ok=True)
    bad = 0
    try:
        libxml = os.environ.get("HWLOC_LIBXML", "1") != "0"
        sw = None
        for pl in plans:
            txt, rc, nd = eng_shmem.replay_text(binp, wd, pl, libxml, sw)
            print(txt)
            if rc != 0 or nd:
                bad += 1
        if bad:
            print("REPLAY: DIFFERS (%d of %d episodes)" % (bad, len(plans)))
            return 1
        print("REPLAY: agree on %d episodes" % len(plans))
        return 0
    finally:
        shutil.rmtree(wd, ignore_errors=True)
