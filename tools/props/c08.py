import eng_restrict
PID = "C08"
LEAN_MODULE = "Hw.Props.C08"
NS = "Hw.Props.C08."
THEOREMS = [NS + t for t in """C08_consts C08_einval_unchanged C08_einval_cases C08_plan C08_sets_root C08_minus_compl_is_inter
C08_sets_object C08_sets_exact C08_survivors C08_survivors_sets C08_removal_rule C08_pu_rule C08_numa_rule C08_root_kept C08_wf_sets C08_specials C08_specials_local C08_merge_decision C08_merge_exact C08_merge_preserves_setsok C08_wf_sets_whole C08_sets_exact_whole C08_render_links C08_render_no_children C08_render_levels C08_typing_preserved C08_restrict_links C08_restrict_no_children C08_restrict_levels C08_repeat C08_repeat_exact
C08_reorder_without_removal_reachable
C08_restrict_preserves_typing C08_repeat_preserves_typing C08_wf_implies_okT C08_wf_mergeSafe C08_wf_restrict_typing
C08_pus_exact C08_merge_keeps_nonnormal C08_numa_survive C08_numas_exact_bynodeset C08_pu_survive_bynodeset
C08_merge_keeps_pus C08_pus_exact_whole C08_pu_survive_bynodeset_whole C08_restrict_leaf_root C08_repeat_leaf_root C08_render_top C08_render_children_counts C08_render_levels_cover C08_render_type_depth_inverse C08_render_sets C08_setsPres C08_restrict_wf_partial C08_restrict_numa_exists C08_restrict_from_wf_partial
C08_render_pu_level_last C08_render_pu_level C08_restrict_pu_level C08_restrict_keeps_pu_and_numa C08_restrict_protected_exists C08_wf_has_pu_and_numa C08_restrict_from_wf_levels_partial C08_restrict_other_kind_protected C08_restrict_allowed_sets C08_restrict_from_wf_top_partial C08_restrict_unique C08_restrict_wf_top_partial C08_restrict_type_filter C08_wf_cover_pu C08_treeOf_not_from_wf
C08_side_distances C08_side_distances_types_aligned C08_side_distances_repeat C08_side_cpukinds C08_side_memattrs""".split()]
CHECK_MODULES = ["Hw.Props.C08"]
TRUSTED = ["hwloc_bitmap_not / andnot / intersects / isincluded / iszero / set / compare_first enter the model through their "
           "set-level meaning on finite or cofinite sets (Nat masks, CSet); the bitmap layer itself is C03",
           "harness/dump.h + lean/Driver/Topo.lean + buildTree in lean/Driver/Restrict.lean: the BEFORE dump is turned into the "
           "four-list tree the model starts from (objects in DFS order, children lists in list order)",
           "tools/gen_restrict.py (constants printed by the harness compiled against the real headers and topology.c)",
           "side structures: the observation code of harness/h_restrict.c (side_dump: hwloc_distances_get/_get_name/_release, "
           "hwloc_cpukinds_get_nr/_get_info, hwloc_memattr_get_name/_get_flags/_get_targets/_get_initiators/_get_value) and the "
           "parser/renderer lean/Driver/RestrictSide.lean; the state the prediction starts from is ADOPTED from the observation made "
           "before the first restrict (plus the forced efficiencies of the CPU kinds, read from the private struct because no public "
           "call returns them); the models that carry it are the ones of C13/C14/C15 (Hw.Dist, Hw.MemAttrs, Hw.CpuKinds)"]
ASSUMPTIONS = ["the hypotheses of the exactness / link / level / survivor theorems (SetsOK okT, typing typedT, Machine root, PUs are "
               "leaves, PU / NUMA singletons) are PROVED for the tree of every well-formed dump (C08_wf_implies_okT, fold invariant of "
               "treeOf) and proved to be preserved by every call (C08_restrict_preserves_typing, C08_restrict_leaf_root); the driver "
               "still evaluates them on every WF BEFORE dump",
               "mergeSafe (hypothesis of the level-merging theorems about PUs and the root): gp_index distinct over the tree (PROVED from WF: "
               "the rebuilt tree lists every dump object exactly once, C08_wf_mergeSafe) and no KEEP_STRUCTURE filter on the PU type and "
               "the root's type (an API fact: hwloc_topology_set_type_filter refuses it; evaluated by the driver on every BEFORE dump); "
               "proved to be preserved by every call",
               "malloc never fails (the ENOMEM / re-init path of hwloc_topology_restrict is not modelled)"]
MODELLED = ("modelled: hwloc_topology_restrict flag validation, pre-checks, dropped sets incl. CPU-less/memory-less detection, "
            "restrict_object_by_cpuset/_by_nodeset, unlink_and_free_single_object (childless case), hwloc__reorder_children, "
            "hwloc_connect_levels, hwloc_filter_levels_keep_structure (level merging is modelled, the comparison is exact, not modulo); "
            "exercised but not modelled: connect_children/special levels (judged by wfCheck), symmetric_subtree, total_memory "
            "(wfCheck clause), allocation failures; the post-restrict fixups of the side structures (distances invalidation + lazy "
            "refresh with in-place sub-matrix compaction, cpukinds restrict + re-ranking, memattrs need_refresh + lazy refresh) are "
            "MODELLED by composing the C13/C14/C15 models (lean/Hw/Topo/RestrictSide.lean) against the objects and root cpuset of the "
            "tree predicted by the C08 model, and compared with the public-API observation after the restricts (after the last one of "
            "every chain and after half of the others, so that stale caches reach the next call)")


def run_engines(tier, seed):
    return eng_restrict.run_engine(tier, seed)


def replay(path):
    """./check C08 --replay FILE : run the plan lines of FILE (lines starting with '#' ignored; only the text before the
    first ' | ' of each line is used, so a replay written by the check can be fed back) through hwloc and the model."""
    import os, shutil
    from common import build_harness, lake_build, BUILD
    from diffrun import read_lines, compare_streams
    lake_build(["hwmodel"])
    eng = eng_restrict.ENGINE
    binp = build_harness(eng.harness, include_c=eng.include_c)
    ops = [l.split(" | ")[0].rstrip() for l in read_lines(path) if l.strip() and not l.startswith("#")]
    wd = os.path.join(BUILD, "run", "restrict-replay-%d" % os.getpid())
    os.makedirs(wd, exist_ok=True)
    try:
        print(eng.replay_text(binp, wd, ops))
        r, cl, ml = eng.replay_pair(binp, os.path.join(wd, "shrink"), ops)
        nd, _, _ = compare_streams(ops, cl, ml, eng.classify)
        if r.returncode != 0 or nd:
            print("REPLAY: DIFFERS (harness rc=%d, %d differing lines)" % (r.returncode, nd))
            return 1
        print("REPLAY: agree on %d lines" % len(ops))
        return 0
    finally:
        shutil.rmtree(wd, ignore_errors=True)
