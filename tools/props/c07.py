import eng_synthetic
PID = "C07"
LEAN_MODULE = "Hw.Props.C07"
NS = "Hw.Props.C07."
THEOREMS = [NS + t for t in """C07_parse_index_safe C07_loops_write_safe C07_parse_no_loops_overflow C07_scan_reads_initialised
C07_F04_memmove_bounds C07_widths_no_wrap C07_no_divzero C07_error_kinds C07_type_interleave_asserts_hold
C07_xy_never_aborts C07_F69_ignored C07_F67_rejected C07_indexes_length_nodup C07_interleave_perm C07_loops_perm C07_parse_arrays_ok
C07_explicit_list_as_written C07_parse_faithful C07_build_wf_bounded C07_dump_structure C07_export_contract C07_export_contract_zero
C07_export_rejects_unknown_flags C07_126_levels_accepted C07_deeper_level_interleave_ignored C07_trailing_colon_ignored
C07_overlapping_strides_rejected C07_interleave_by_pu
C07_attached_numa_present C07_numa_census_filter_independent C07_unfilterable_types C07_filtered_levels_keep_numas
C07_attached_numa_survive_filters_bounded
C07_build_wf_clauses C07_build_wf_partial C07_build_wf_reduction C07_build_wf_unproved_clauses C07_export_fixpoint_partial
C07_build_wf_rest_clauses C07_build_wf C07_build_wf_rest
C07_order_establishes_sib_partial C07_build_wf_of_order_partial C07_mkNode_orders_leaves C07_export_fixpoint_flags_partial
C07_build_wf_iff_sibOK C07_buildTopo_sib_normal C07_build_wf_of_parse_partial""".split()]
CHECK_MODULES = ["Hw.Props.C07"]
TRUSTED = ["libc strtoul/strtoull/strtol are modelled (Hw.Base.Num.strtoul for unsigned input, Hw.Syn.strtoulS/strtolU32 add glibc's sign, "
           "saturation and (unsigned) truncation); strchr/strspn/strcspn/strncmp/strncasecmp (C locale) are modelled in Hw.Io.Synthetic; "
           "qsort in hwloc_synthetic_indexes_have_duplicates is modelled as 'a sorted permutation' (duplicate <=> not Nodup)",
           "the log of level[] indexes and the capacity guards in front of the loops[] writes are written by hand next to each modelled "
           "statement; they are tied to the code through ASan only (an out-of-bounds access of the real function is a crash of the "
           "forked probe, which the model must predict)",
           "export: the nested cursors of hwloc__export_synthetic_* are modelled as one flat chunk list (agreement of every buffer cell is "
           "checked differentially for all buffer lengths)"]
ASSUMPTIONS = ["allocations above 64 MB fail (ASAN_OPTIONS max_allocation_size_mb=64), mirrored by Hw.Syn.allocLimit",
               "build comparison only for `Regular` descriptions (buildTopo = some): no Group/Die in a run of arity-1 levels, runs in the core's "
               "type order, ascending NUMA indexes per parent; every loaded topology (regular or not) goes through the WF oracle",
               "every description is loaded with the I-cache and MemCache type filters set to KEEP_ALL (so that every level and memory-side "
               "cache written in it is observable) and, for about half of them, once or twice more under generated type filters (library "
               "defaults, KEEP_NONE / KEEP_STRUCTURE / KEEP_IMPORTANT / KEEP_ALL on the types of its levels, biased towards the level that "
               "carries attached NUMA nodes; refused requests included); the NUMA census (count, os_index, local memory, memory-side cache, "
               "cpuset of every NUMA node) is compared for EVERY loaded case, Regular or not, under every filter configuration",
               "under type filters the Regular class also excludes: a level of a KEEP_STRUCTURE type inside a run of arity-1 levels, memory "
               "away from the root when Groups are KEEP_NONE, memory-side caches when MemCache is KEEP_STRUCTURE; the export/reload/export op "
               "re-imports with every type kept and is not issued under Group KEEP_NONE (parked quirk, see harness/h_synthetic.c)"]
MODELLED = ("modelled: hwloc/topology-synthetic.c hwloc_synthetic_process_indexes (+ duplicate check), parse_memory_attr, parse_attrs, "
            "set_default_attrs, backend_synthetic_init, the export functions; hwloc_type_sscanf + hwloc__type_match (traversal.c); "
            "specification level only: hwloc__look_synthetic / insert_attached as buildTopo (abstract level structure) + toDump (the "
            "complete public-API dump: DFS numbering, links, levels, sets, memory totals, attributes) for the Regular class, compared "
            "field by field with the real dump and run through wfCheck on every case; "
            "type filters: hwloc__topology_filter_init + hwloc__topology_set_type_filter as effFilters (compared with "
            "hwloc_topology_get_type_filter through the dump), hwloc_filter_check_keep_object_type in hwloc__look_synthetic as dropPlain / "
            "devirt (levels that are not built; their attached NUMA nodes re-attached by the core: only child, parent, root, or a memory Group); "
            "PROVED for every input string: level[] index safety, loops[] write safety, array length/Nodup/permutation of accepted indexes, "
            "export length contract, one census entry per described NUMA node independent of the normal-type filters, devirt keeps the "
            "number of NUMA nodes and leaves no unbuilt level (every chain), PU/NUMA/Machine cannot be filtered out, parse_faithful (types and arities of canonical descriptions without attributes); "
            "build_wf: all 47 WF clauses for EVERY abstract topology under the side conditions topoOK/puOK/memOK/numaOK/sibOK, which the driver "
            "evaluates on every built case (C07_build_wf; C07_build_wf_clauses = the 45 clauses that need no sibOK, C07_build_wf_rest_clauses = "
            "nodeset-decomposition through the inh/below folds of mkAux and siblings-ordered under sibOK); orderTopo establishes puOK and the "
            "normal-children half of sibOK (C07_order_establishes_sib_partial, C07_mkNode_orders_leaves), the latter for every topology buildTopo returns "
            "(C07_buildTopo_sib_normal, C07_build_wf_of_parse_partial); WF <-> sibOK under the other four (C07_build_wf_iff_sibOK); export_fixpoint for the flag words "
            "NO_ATTRS|IGNORE_MEMORY[|NO_EXTENDED_TYPES][|V1] on name-stable topologies (C07_export_fixpoint_partial, "
            "C07_export_fixpoint_flags_partial, re-evaluated per case against hwloc's string); NOT PROVED (differential / "
            "oracle per case): that topoOK/memOK/numaOK/the memory half of sibOK follow from buildTopo, export_fixpoint under the "
            "other 12 flag words and the re-import step through buildTopo (engine oracle; F34/F35 known), parse_faithful with attributes")

def run_engines(tier, seed):
    return eng_synthetic.run_engine(tier, seed)

def replay(path):
    """./check C07 --replay FILE : run the op lines of FILE through hwloc and the model, print both, exit 1 on a difference
    or a failed round-trip oracle.  Lines starting with '#' are ignored; annotated replay files ("op | C | model") are accepted."""
    import os, shutil
    from common import build_harness, lake_build, BUILD
    from diffrun import read_lines
    lake_build(["hwmodel"])
    eng = eng_synthetic.ENGINE
    binp = build_harness(eng.harness, include_c=eng.include_c)
    ops = [l.split(" | ")[0] for l in read_lines(path) if l.strip() and not l.startswith("#")]
    wd = os.path.join(BUILD, "run", "synthetic-replay-%d" % os.getpid())
    try:
        print(eng.replay_text(binp, wd, ops))
        bad = eng.fails(binp, os.path.join(wd, "shrink"), ops)
        print("REPLAY: DIFFERS" if bad else "REPLAY: agree on %d lines" % len(ops))
        return 1 if bad else 0
    finally:
        shutil.rmtree(wd, ignore_errors=True)
