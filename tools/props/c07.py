import eng_synthetic
PID = "C07"
LEAN_MODULE = "Hw.Props.C07"
NS = "Hw.Props.C07."
THEOREMS = [NS + t for t in """C07_parse_index_safe C07_loops_write_safe C07_parse_no_loops_overflow C07_scan_reads_initialised
C07_F04_memmove_bounds C07_widths_no_wrap C07_no_divzero C07_error_kinds C07_type_interleave_asserts_hold
C07_xy_never_aborts C07_F69_ignored C07_F67_rejected C07_indexes_length_nodup C07_interleave_perm C07_loops_perm C07_parse_arrays_ok
C07_explicit_list_as_written C07_parse_faithful C07_build_wf_bounded C07_dump_structure C07_export_contract C07_export_contract_zero
C07_export_rejects_unknown_flags C07_126_levels_accepted C07_deeper_level_interleave_ignored C07_trailing_colon_ignored
C07_overlapping_strides_rejected C07_interleave_by_pu""".split()]
CHECK_MODULES = ["Hw.Props.C07"]
TRUSTED = ["libc strtoul/strtoull/strtol are modelled (Hw.Base.Num.strtoul for unsigned input, Hw.Syn.strtoulS/strtolU32 add glibc's sign, "
           "saturation and (unsigned) truncation); strchr/strspn/strcspn/strncmp/strncasecmp (C locale) are modelled in Hw.Io.Synthetic; "
           "qsort in hwloc_synthetic_indexes_have_duplicates is modelled as 'a sorted permutation' (duplicate <=> not Nodup)",
           "the log of level[] indexes and the capacity guards in front of the loops[] writes are written by hand next to each modelled "
           "statement; they are tied to the code through ASan only (an out-of-bounds access of the real function is a crash of the "
           "forked probe, which the model must predict)",
           "export: the nested cursors of hwloc__export_synthetic_* are modelled as one flat chunk list (agreement of every buffer cell is "
           "checked differentially for all buffer lengths)"]
ASSUMPTIONS = ["allocations above 64 MB fail (ASAN_OPTIONS max_allocation_size_mb=64), mirrored by Hw.Syn.allocLimit",
               "build comparison only for `Regular` descriptions (buildTopo = some): no Group/Die in a run of arity-1 levels, runs in the core's "
               "type order, ascending NUMA indexes per parent; every loaded topology (regular or not) goes through the WF oracle",
               "I-cache and MemCache type filters are set to KEEP_ALL before loading (so that every level and memory-side cache written in "
               "the description is observable)"]
MODELLED = ("modelled: hwloc/topology-synthetic.c hwloc_synthetic_process_indexes (+ duplicate check), parse_memory_attr, parse_attrs, "
            "set_default_attrs, backend_synthetic_init, the export functions; hwloc_type_sscanf + hwloc__type_match (traversal.c); "
            "specification level only: hwloc__look_synthetic / insert_attached as buildTopo (abstract level structure) + toDump (the "
            "complete public-API dump: DFS numbering, links, levels, sets, memory totals, attributes) for the Regular class, compared "
            "field by field with the real dump and run through wfCheck on every case; "
            "PROVED for every input string: level[] index safety, loops[] write safety, array length/Nodup/permutation of accepted indexes, "
            "export length contract, parse_faithful (types and arities of canonical descriptions without attributes); "
            "build_wf only for a finite family (C07_build_wf_bounded, kernel-evaluated); NOT PROVED (differential / oracle per case): "
            "build_wf in general (wfCheck runs on the real dump of every loaded topology and on the model's dump of every Regular one), "
            "export_fixpoint (engine oracle; F34/F35 known), parse_faithful with attributes")

def run_engines(tier, seed):
    return eng_synthetic.run_engine(tier, seed)

def replay(path):
    print(open(path).read())
    return 0
