import os, time
import eng_linuxparse, eng_snapshots, eng_x86dump
PID = "C18"
LEAN_MODULE = "Hw.Props.C18"
NS = "Hw.Props.C18."
THEOREMS = [NS + t for t in """C18_cpulist_spec C18_cpulist_safe C18_cpulist_empty C18_cpulist_overflow_reachable C18_strtoul_agrees
C18_cpumask_spec C18_cpumask_safe C18_cpumask_finite C18_readfd_bounds C18_readfd_zero_hangs
C18_wf_oracle_exact C18_same_oracle_exact C18_disallowed_oracle_exact C18_xml_oracle_exact C18_same_equivalence C18_xml_equivalence
C18_disallowed_refl C18_disallowed_congr C18_disallowed_inclusion C18_disallowed_objects_trans
C18_readlen_bounds C18_readlen_fails_iff C18_readers_prefix C18_cstr_inside C18_uint_value
C18_uint64_value C18_int_value C18_num_ranges C18_meminfo_first_key C18_meminfo_keeps_iff
C18_strstr_first C18_hugepages_safe C18_fgets_bounds C18_cgname_cpuset_wins C18_cgname_first_match
C18_cgname_terminates C18_cgname_kernel C18_cgname_line_forms C18_cgname_safe C18_mntpnt_standard
C18_mntpnt_first_match C18_mntpnt_rule C18_mntpnt_buffers C18_admin_path C18_admin_replaces
C18_allowed_compose
C18_meminfo_kernel C18_mntpnt_kernel C18_mntpnt_terminates
C18_x86dump_read_safe C18_x86dump_read_table C18_x86dump_line_buffer C18_x86dump_nr_le_lines C18_x86dump_free_leaks_iff
C18_x86dump_find_first C18_x86dump_find_stateless C18_x86dump_find_order_indep C18_x86dump_find_rotation
C18_x86dump_find_order_matters C18_x86dump_summary_iff C18_x86dump_check_iff C18_x86dump_check_nbprocs
C18_x86dump_check_readdir_order""".split()]
CHECK_MODULES = ["Hw.Props.C18"]
TRUSTED = ["(B7) glibc 2.36 sscanf `%x` into an unsigned (white space, sign, `0x`/`0X` consumed even without digits behind it, strtoul "
           "saturation then truncation to 32 bits), literal `=>` matching and fgets are modelled in Hw/Io/X86Dump.lean (scanX / scanLine; "
           "differential-tested through the real cpuiddump_read on every run); the dump file does not change between the two passes of "
           "cpuiddump_read; readdir returns every directory entry once",
           "(A9) glibc 2.36 getmntent_r (fgets into the 4-page buffer, forgetting the rest of an over-long line through a 1024-byte buffer, "
           "strsep on blanks, decode_name), fgets, strstr, strsep, atoi/strtol, snprintf(\"%s\") truncation are modelled in Hw/Io/LinuxCgroup.lean / LinuxNum.lean "
           "(differential-tested through the real callers on every run); the kernel resolves a path below the fsroot as in a tree of plain directories "
           "(empty and `.` components dropped; inputs containing `..` are answered `fsdep` and not compared); read() delivers these small files in one call",
           "libc number scanning (strtoul base 0 with signs, sscanf %lx) is modelled by Hw.LinuxParse.scanNum (differential-tested through both parsers; "
           "agrees with the C04 strtoul model wherever that is defined: C18_strtoul_agrees); read() returns at most the requested count",
           "harness/dump.h as a faithful reading of a topology through the public API; lean/Driver/Topo.lean as its parser",
           "PARTIAL: the Linux and x86 back ends themselves are NOT modelled; that every load is clean / well-formed / deterministic / "
           "consistent is checked by the proved oracles (wfCheck, sameCheck, disallowedCheck, xmlCheck) on the loads of the run, sampled "
           "over configurations and fault sequences"]
ASSUMPTIONS = ["x86dump differential domain: pu indexes reaching hwloc_bitmap_set < 2^17 (a directory entry such as `pu-1` makes the real "
               "code allocate 512 MB; the model answers `big`, the generator stays below); malloc never fails",
               "cpulist differential domain: every index reaching the bitmap layer < 2^17 (larger ones are answered `big` by the model and not compared; "
               "C03 is stated below 2^31); malloc never fails",
               "signed overflow in hwloc__read_path_as_cpulist (finding C18-F1: a number = 2^31-1 as range end or 2^31 as range start, mod 2^32) is "
               "undefined behaviour: the model says `ub`, the C answer is then not compared",
               "snapshots: the 42 Linux + 29 x86 + 2 x86+linux bundled archives; flag subsets of {INCLUDE_DISALLOWED, IMPORT_SUPPORT, DONT_CHANGE_BINDING, "
               "NO_DISTANCES, NO_MEMATTRS, NO_CPUKINDS}; removable paths = regular files, symlinks, directories whose name does not end in a digit",
               "known findings excluded by class (switches in tools/eng_snapshots.py): C18-F2 (XML reload changes complete_cpuset of memory objects), "
               "C18-F3 (hwloc_topology_check assertion `!prev_empty' after topology files were removed)"]
MODELLED = ("modelled literally: hwloc__read_fd, hwloc__read_path_as_cpulist, hwloc__read_path_as_cpumask (topology-linux.c 700-945); "
            "(A9) hwloc_read_path_by_length / _as_int / _as_uint / _as_uint64, hwloc_parse_meminfo_info, hwloc_parse_hugepages_info, "
            "hwloc_find_linux_cgroup_mntpnt, hwloc_read_linux_cgroup_name, hwloc_admin_disable_set_from_cgroup, hwloc_linux__get_allowed_resources; "
            "(B7) cpuiddump_read, cpuiddump_find_by_input, cpuiddump_free, hwloc_x86_check_cpuiddump_input (topology-x86.c 54-170, 1796-1860); relations over dumps; "
            "not modelled (exercised by the snapshots engine under ASan/UBSan/LSan with proved oracles): everything else in topology-linux.c, topology-x86.c, "
            "components.c, the core discovery pipeline")


def run_engines(tier, seed):
    t0 = time.time()
    a = eng_linuxparse.run_engine(tier, seed)
    t1 = time.time()
    b = eng_snapshots.run_engine(tier, seed)
    t2 = time.time()
    x = eng_x86dump.run_engine(tier, seed)
    t3 = time.time()
    out = {"evaluations": a["evaluations"] + b["evaluations"] + x["evaluations"],
           "distinct_nontrivial": a["distinct_nontrivial"] + b["distinct_nontrivial"] + x["distinct_nontrivial"],
           "rule": "linuxparse: " + a["rule"] + " || snapshots: " + b["rule"] + " || x86dump: " + x["rule"],
           "samples": (a.get("samples") or [])[:4] + (b.get("samples") or [])[:4] + (x.get("samples") or [])[:3],
           "problems": a["problems"] + b["problems"] + x["problems"],
           "known_hits": b.get("known_hits", []),
           "distribution": {"linuxparse": a.get("distribution"), "snapshots": b.get("distribution"), "x86dump": x.get("distribution")},
           "x86dump": {k: x.get(k) for k in ("evaluations", "distinct_nontrivial", "benign_repr_diffs", "buckets_hit")},
           "linuxparse": {k: a.get(k) for k in ("evaluations", "distinct_nontrivial", "benign_repr_diffs", "buckets_hit", "corpus_cases")},
           "snapshots": {k: b.get(k) for k in ("evaluations", "cases", "distinct_nontrivial", "sources")},
           "engine_wall_s": {"linuxparse": round(t1 - t0, 1), "snapshots": round(t2 - t1, 1), "x86dump": round(t3 - t2, 1)}}
    return out


def replay(path):
    txt = open(path).read()
    if "SNAPSHOT " in txt and "CASE " in txt:
        return eng_snapshots.replay(path)
    print(txt)
    return 0
