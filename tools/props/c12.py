import eng_dup
PID = "C12"
LEAN_MODULE = "Hw.Props.C12"
NS = "Hw.Props.C12."
THEOREMS = [NS + t for t in """C12_dup_equiv C12_equiv_refl C12_equiv_symm C12_equiv_trans C12_equiv_fields C12_dup_fields C12_dup_caches_invalid
C12_topo_userdata_not_copied C12_dup_then_history_independent C12_dup_commutes_history C12_copy_behaves_as_original C12_equiv_step
C12_bump_disjoint C12_bump_inside C12_bump_aligned C12_bump_fresh C12_provenance_disjoint C12_provenance_distinct_blocks
C12_gen_no_shallow_pointer_copy C12_gen_writes_only_into_copy C12_gen_memcpy_fixed_up C12_gen_fresh_struct_initialised
C12_gen_obj_pointer_members_covered C12_gen_infos_deep_copied""".split()]
TRUSTED = ["tools/gen_dup.py (struct-member parser + statement classifier over the dup functions, fails closed) for the allocation-discipline table Hw.Gen.DupAlloc; "
           "local variables are classified by their last assignment in source order (straight-line approximation)",
           "harness/h_dup.c + harness/dup_walk.h (recording allocator, exhaustive pointer walk, public attribute text, frame/twin comparisons) and "
           "harness/dump.h + lean/Driver/Topo.lean + lean/Driver/Dup.lean (parsers, per-line judgement)",
           "PARTIAL: non-aliasing of the two heaps is CHECKED on generated topologies by the provenance walk (every pointer field reachable from the "
           "copy lies in a block of the recording allocator, every such block is reached exactly once, none intersects a block of the original) and by "
           "ASan/LSan with destroy in both orders; it is not proved.  C12_dup_then_history_independent is a statement about the functional model only",
           "PARTIAL: restrict, Misc/Group insertion, distances add/remove, memattr, cpukinds, topology infos calls are not predicted by the model; after each "
           "the untouched copy is compared with its previous observation and the touched copy with an alone-run twin (in C, by hash of dump + attribute text + XML)"]
ASSUMPTIONS = ["topologies: synthetic presets and bundled XML files; structured model comparison for <= 500 objects (C-side checks for all sizes); "
               "pre-history 0-5 calls, post-history 1-7 calls",
               "topology->userdata is outside the equivalence: hwloc__topology_dup does not copy it (theorem C12_topo_userdata_not_copied; documented only for object userdata)",
               "the recording allocator is malloc-backed, so its blocks are fresh w.r.t. every live block of the original (hypothesis Fresh of C12_provenance_disjoint)"]
MODELLED = ("modelled (predicted exactly): hwloc__topology_dup / hwloc__duplicate_object / hwloc_internal_{distances,memattrs,cpukinds}_dup as a state transformer incl. "
            "cache invalidation; allow, add_info, modify_infos, set_subtype on either copy; tma_shmem_malloc / get_length arithmetic over the recorded allocation trace. "
            "exercised and checked in C: hwloc_bitmap_tma_dup, hwloc__tma_dup_infos, page types, level arrays, every pointer field (provenance), XML export of both copies, "
            "restrict / insert / distances / memattrs / cpukinds histories on either copy, destroy in both orders")


def run_engines(tier, seed):
    return eng_dup.run_engine(tier, seed)


def replay(path):
    print(open(path).read())
    return 0
