import eng_conc
PID = "C17"
LEAN_MODULE = "Hw.Props.C17"
NS = "Hw.Props.C17."
THEOREMS = [NS + t for t in """C17_refresh_validates C17_refresh_validates_history C17_refresh_validates_flags C17_load_validates
C17_load_second_refresh_needed C17_valid_readers_write_free C17_readers_schedule_independent
C17_readers_state_constant C17_unrefreshed_race_exists C17_unrefreshed_memattr_write
C17_registry_inv C17_registry_quiescent C17_entry_refcount C17_only_init_destroy_change C17_init_dup_adopt_take_one
C17_history_refcount C17_stray_fini_breaks""".split()]
CHECK_MODULES = ["Hw.Props.C17"]
TRUSTED = ["tools/gen_conc.py (extraction of the hwloc_components_init/fini critical sections into the instruction IR, of the guarded statement "
           "sequences of hwloc_topology_refresh and of the tail of hwloc_topology_load, of the topology flag values and of the table of "
           "all callers of the cache-(re)building functions; the statements "
           "between the reference-count test and the unlock are one opaque initReg / destroyReg instruction) and the IR semantics "
           "of lean/Hw/Io/Conc.lean (`Reg.exec`), tied to the real functions only sequentially (engine readonly, ops cinit/cfini)",
           "the footprint table `Hw.Conc.events` (which entry point touches which lazy cache) is hand-written from the C and tied to "
           "the real code by engine `readonly` on the generated topologies only; harness/consult.h decides what 'every consulting "
           "entry point' means (35 entries, about 140 public functions)",
           "the table `Hw.Conc.Reg.calls` (which public entry point of topology.c / topology-xml.c / shmem.c performs which "
           "hwloc_components_init / _fini calls on which path: success, rejected arguments, TOO_COMPLEX diff entries, unreadable / "
           "malformed input) is hand-written from the C and tied to the real code by the `reg` ops of engine `readonly`: "
           "hwloc_components_users and the registry pointer are read after every entry point and compared with "
           "`Reg.runHist` over the generated IR; paths that need a failing malloc (adopt failing after its init) are in the "
           "table but not reached by the harness",
           "pthread_mutex_lock/unlock provide mutual exclusion and the hardware/compiler memory model gives sequential consistency "
           "to race-free programs; the observe/commit split is the model's granularity of interleaving",
           "mprotect(PROT_READ) + SIGSEGV reports every store into the copied topology (stores to memory outside the copy - "
           "user buffers, malloc - are not seen by it); stores into the library's own static storage are seen by comparing the .data/.bss "
           "contribution of every library object (taken from the link map of the harness binary) around every read-only call, a byte "
           "being allowed to change once per process (lazy first-use initialisation, F15)"]
ASSUMPTIONS = ["every function-local static environment cache has been initialised once before threads start (Warm); the cold-start "
               "same-value write race is known finding F15",
               "load: with NO_DISTANCES / NO_MEMATTRS the discovery adds no distances / attribute values, so the caches that the tail of "
               "load skips under these flags are valid when it starts (FlaggedOffValid)",
               "reader threads only call the consulting API; the caller-provided buffers are thread-private",
               "C17_history_refcount: the caller only destroys topologies it owns (`liveAfter`), and calls the entry points of "
               "one history sequentially (their interleaving across threads is C17_registry_inv)",
               "each thread of the independent-topology part calls hwloc_topology_init/destroy in pairs (one registry reference per "
               "live topology), no plugins (HWLOC_HAVE_PLUGINS off in this build)"]
MODELLED = ("modelled: the lazy-cache protocol of hwloc/distances.c (hwloc_internal_distances_refresh[_one], invalidate_cached_objs, "
            "hwloc__distances_get), hwloc/memattrs.c (hwloc__imattr_refresh call sites of get_value / get_targets / get_initiators / "
            "get_best_target / get_best_initiator, need_refresh, refresh), the tail of hwloc_topology_load and hwloc_topology_refresh "
            "(topology.c), the refresh call of the XML export entry points, and the reference-counted critical sections of "
            "hwloc_components_init / hwloc_components_fini (components.c, translator), and every public entry point that calls them "
            "(hwloc_topology_init / _dup / _destroy, hwloc_topology_diff_load_xml[buffer] / _export_xml[buffer], "
            "hwloc_shmem_topology_get_length / _write / _adopt) as the sequence of registry calls of each of its paths; exercised on a read-only copy but not modelled: "
            "the bodies of all traversal / printing / set / bitmap / cpukinds / export helpers (their absence of writes is observed, "
            "their results are opaque `content`); not covered: static env caches at cold start (F15), memory-model effects below "
            "'no conflicting access', OS-specific backends running concurrently during load (support run only)")


def run_engines(tier, seed):
    return eng_conc.run_engine(tier, seed)


def replay(path):
    """./check C17 --replay FILE : `trace ...` lines go to the conc driver (generated IR); everything else is replayed through
    harness h_readonly and the model."""
    import os, shutil
    from common import build_harness, lake_build, BUILD
    from diffrun import read_lines
    import gen_tables
    gen_tables.generate_all()
    lake_build(["hwmodel"])
    lines = [l for l in read_lines(path) if l.strip() and not l.startswith("#")]
    traces = [l for l in lines if l.startswith(("trace ", "search ", "ir"))]
    rc = 0
    if traces:
        for l, o in zip(traces, eng_conc._model(traces)):
            print("%s -> %s" % (l, o))
            if "VERDICT" in o and not o.endswith("VERDICT ok") or o.startswith("fail"):
                rc = 1
    ops = [l.split(" | ")[0] for l in lines if l not in traces]
    if ops:
        eng = eng_conc.ENGINE
        binp = build_harness(eng.harness, include_c=eng.include_c)
        wd = os.path.join(BUILD, "run", "readonly-replay-%d" % os.getpid())
        try:
            print(eng.replay_text(binp, wd, ops))
            bad = eng.fails(binp, os.path.join(wd, "shrink"), ops)
            print("REPLAY: DIFFERS" if bad else "REPLAY: agree on %d lines" % len(ops))
            rc = rc or (1 if bad else 0)
        finally:
            shutil.rmtree(wd, ignore_errors=True)
    return rc
