import eng_diff
PID = "C16"
LEAN_MODULE = "Hw.Props.C16"
NS = "Hw.Props.C16."
THEOREMS = [NS + t for t in """C16_build_ret C16_build_too_complex_iff C16_build_tc_entry_iff C16_build_empty_iff_equal
C16_build_no_null_string C16_apply_ok C16_apply_fail_index C16_apply_cases C16_entry_inverse C16_reverse_order_undo
C16_apply_rollback C16_apply_rollback_state C16_reverse_apply_reversed_list C16_reverse_apply_partial
C16_apply_build_infos_partial C16_entries_commute C16_reverse_apply C16_build_distinct_slots C16_apply_build_core
C16_apply_build C16_reverse_apply_build C16_reverse_apply_to_B C16_apply_build_needs_keys_nodup_witness C16_F13c_witness C16_rollback_needs_distinct_names_witness
C16_reverse_apply_chain_witness
C16_diffxml_roundtrip C16_diffxml_roundtrip_bytes C16_diffxml_export_too_complex C16_diffxml_export_order
C16_diffxml_import_total C16_diffxml_import_order C16_diffxml_import_prefix
C16_diffxml_build_roundtrip C16_diffxml_build_ret1_einval C16_diffxml_import_attr_order""".split()]
CHECK_MODULES = ["Hw.Props.C16"]
TRUSTED = ["the observation function of harness/h_diff.c (DFS dump of names, infos, local/total memory, keys, and the opaque "
           "shape tokens standing for type/subtype/os_index/sets/attribute bytes/allowed sets/distances/memattrs/cpukinds)",
           "diff XML: the token level (attribute name/value lists per element) is what the Lean model of the exporter/importer speaks; "
           "the nolibxml text layout and attribute scanner are modelled down to bytes (exact text compared on every nolibxml export), "
           "libxml2's serialiser/parser are trusted to carry the tokens (a repeated attribute name rejects the document, an empty value "
           "arrives as \"\"); the small XML scanner/writer of harness/h_diff.c; glibc atoi = (int)strtol(s,0,10) and strtoull(s,0,0) "
           "are modelled (Hw.Io.XmlDiff) and exercised with boundary strings on every run"]
ASSUMPTIONS = ["topologies are well-formed (C01): (depth, logical_index) identifies an object (KeysInj) and the parent chain is the "
               "ancestor list; malloc/strdup never fail",
               "whole-tree apply-after-build theorems: KeysNodup (no two objects of the tree share a key), DepthsBelowNbl (no object "
               "has depth nb_levels); for the total_memory part of the observation also SameSkeleton (A and B agree per object on "
               "key, ancestor chain, NUMA-ness: functions of shape and type in hwloc, data in the model) and MemConsistent "
               "(total_memory = uint64 sum of the NUMA local memories at or below the object) in A and B",
               "REVERSE application in list order: DistinctSlots (entries address pairwise distinct attributes; proved of every "
               "built diff, false for chains like X:a->b, X:b->c)",
               "InfoNamesDistinct (no infos array holds two pairs with the same name) for the inverse/rollback theorems and the "
               "apply-after-build oracles; inputs outside it are run but classified F13c",
               "hand-built diff lists handed to apply contain no NULL strings (strcmp/strdup(NULL) is undefined); build is proved "
               "and checked never to produce one"]
MODELLED = ("modelled: hwloc/diff.c complete (hwloc_diff_trees, hwloc_topology_diff_build with flags 0 on loaded topologies, "
            "hwloc_apply_diff_one, hwloc_topology_diff_apply incl. the cancel loop and the REVERSE flag); the diff part of topology-xml.c "
            "(hwloc__xml_export_diff, hwloc__xml_import_diff_one, hwloc__xml_import_diff, the TOO_COMPLEX pre-check of the export entry "
            "points, the refname loops of the nolibxml/libxml import_diff callbacks, hwloc___nolibxml_prepare_export_diff's text); "
            "exercised but not modelled: the file variants (export_xml/load_xml), libxml2 itself, hwloc_topology_diff_destroy, "
            "EINVAL/EPERM argument checks (not loaded, adopted shmem, bad flags), allocation failure")

def run_engines(tier, seed):
    return eng_diff.run_engine(tier, seed)

def replay(path):
    print(open(path).read())
    return 0
