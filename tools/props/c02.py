import eng_history
PID = "C02"
LEAN_MODULE = "Hw.Props.C02"
NS = "Hw.Props.C02."
THEOREMS = [NS + t for t in """C02_step_wf C02_history_wf C02_allow_einval_unchanged C02_allow_only_allowed_sets C02_objects_stable
C02_infos_remove C02_infos_replace C02_infos_add C02_infos_add_unique C02_infos_einval
C02_insert_conserves_objects C02_insert_preserves_laminar C02_group_insert C02_group_insert_wf C02_refused_insert_unchanged C02_insert_keeps_order C02_reorder_sorts C02_laminar_check_sound
C02_insert_misc_wf C02_insert_misc_wf_any_position C02_insert_misc_filtered_unchanged C02_insert_misc_einval_unchanged C02_insert_misc_frame C02_insert_misc_frame_fields C02_insert_misc_gp C02_step_misc_wf C02_history_misc_wf""".split()]
TRUSTED = ["harness/dump.h + lean/Driver/Topo.lean (dump and its parser); lean/Driver/History.lean (per-step judgement: WF oracle, model prediction, unchanged-on-failure, gp/type stability); userdata stability is checked in C by the harness",
           "Group insertion: the tree shape after hwloc_topology_insert_group_object (parents, order, merge decisions, moved memory children) is PREDICTED by the model of hwloc___insert_object_by_cpuset (lean/Hw/Topo/Insert.lean) and compared with the real dump; the theorems hold for laminar trees, and the driver evaluates the (proved sound) laminarity check on every real tree before the call", "Misc insertion: the WHOLE dump after hwloc_topology_insert_misc_object (ids, links, ranks, arities, logical indexes, cousins, levels, name, gp order) is PREDICTED by the dump-level model lean/Hw/Topo/MiscInsert.lean (the model of the C02_insert_misc_* theorems) and compared for equality with the real dump; the only input taken from the real result is the new gp_index (next_gp_index is not observable), which must be above every old one",
           "PARTIAL: restrict, distances grouping, memattr/cpukind registration, refresh are not predicted by the model; after each such call the real topology is judged by the proved WF oracle and the stability relations"]
ASSUMPTIONS = ["topologies: synthetic presets and bundled XML files (<= 400 objects), with/without INCLUDE_DISALLOWED, three filter presets; histories of 2-10 calls"]
MODELLED = ("modelled (state predicted exactly): hwloc_topology_allow, hwloc_obj_add_info, hwloc_modify_infos (in-place array code), hwloc_obj_set_subtype, hwloc_topology_insert_misc_object (+ hwloc_insert_object_by_parent for Misc, the Misc part of hwloc_topology_reconnect); "
            "exercised and oracle-judged after every step: restrict, alloc/insert/free group (shape predicted by the insertion model), distances add (with grouping) / remove, memattr register+set, cpukinds register, refresh")

def run_engines(tier, seed):
    return eng_history.run_engine(tier, seed)

def replay(path):
    """./check C02 --replay FILE: run the script lines of FILE (LOAD ... / OP ...; '#' lines ignored) through hwloc and the model with
    both XML back ends, print the judged steps, exit 1 if any step is judged differently from the expected verdict or hwloc aborts."""
    import os, shutil
    from common import build_harness, lake_build, BUILD
    from diffrun import read_lines
    import gen_tables
    gen_tables.generate_all()
    lake_build(["hwmodel"])
    binp = build_harness("history")
    script = [l for l in read_lines(path) if l.strip() and not l.startswith("#")]
    d = os.path.join(BUILD, "run", "history-replay-%d" % os.getpid())
    bad = 0
    try:
        for lx in (0, 1):
            print(eng_history.annotate(binp, d, script, lx))
            if eng_history.script_fails(binp, d, script, lx):
                bad += 1
    finally:
        shutil.rmtree(d, ignore_errors=True)
    print("REPLAY: %s" % ("DIFFERS / FAILS" if bad else "all steps judged as expected"))
    return 1 if bad else 0
