import os, time
import eng_xmlscan
PID = "C06"
LEAN_MODULE = "Hw.Props.C06"
NS = "Hw.Props.C06."
THEOREMS = [NS + t for t in """C06_callback_safe C06_attr_child_content_always_legal C06_scan_mem_safe C06_look_init_safe
C06_backend_init_safe C06_userdata_close_content_safe C06_distances_import_bounds C06_distances_valcap_exact C06_userdata_decode_bounds
C06_f05a_pinned_null_deref C06_f05b_pinned_underflow C06_f05e_pinned_overread C06_f05f_pinned_bare_close_content_overrun
C06_pinned_defects_exact C06_distances_valcap_pinned_wraps
C06_distances_refresh_links C06_distances_refresh_then_walk C06_distances_refresh_running_prev_uaf
C06_distances_refresh_all_patterns_le5 C06_distances_refresh_all_patterns_le5_spec""".split()]
CHECK_MODULES = ["Hw.Props.C06"]
TRUSTED = ["libc as modelled in lean/Hw/Io/XmlScan.lean: strspn/strchr/strncmp/strcmp/strlen read byte by byte and stop at the first deciding byte; "
           "sscanf(\"<topology version=\\\"%u.%u\\\">\") takes the strlen of its input and parses with glibc's %u semantics",
           "PARTIAL: only the nolibxml scanner, backend_init, look_init and the distances array-filling loops are proved; the rest of the loader "
           "(topology-xml.c, libxml2 back end, core) is exercised by engine xmlload under ASan/UBSan/LSan and judged by the proved wfCheck oracle, not proved"]
ASSUMPTIONS = ["the caller's buffer has at least `size` readable bytes (API contract)",
               "legal callback orders: any callback on any live import state in any order, except close_content without a directly preceding "
               "get_content that returned >= 0 on that state (the one consumer that did this, hwloc__xml_import_userdata, is proved not to any more: "
               "C06_userdata_close_content_safe), close_child on the root state, close_tag on a state without tag name; no input class is excluded"]
MODELLED = ("modelled representation-exactly (every read/write index checked): hwloc/topology-xml-nolibxml.c import side — ignore_spaces, next_attr "
            "(incl. the in-place unescaping copy), find_child, close_tag, close_child, get_content, close_content, look_init (header skipping, sscanf "
            "case split), backend_init (buffer case); topology-xml.c: the indexes/u64values filling loops and the nbobjs gate of hwloc__xml_import_distances, the get_content/close_content/close_tag order of hwloc__xml_import_userdata, the base64 decoder's write guards; distances.c: the unlink-and-free-while-iterating loop of hwloc_internal_distances_refresh "
            "(end of every load) over the doubly linked first_dist..last_dist list, every field access checked against the freed mark "
            "(lean/Hw/Attr/DistRefresh.lean; tied to the C by engine xmlload's distances-list class: every subset of dropped <distances2*> "
            "elements of 1..5 on every run, surviving list compared with a document-derived oracle, links probed through the public API).  "
            "Exercised, not modelled: everything else in topology-xml.c, topology-xml-libxml.c, the diff loader, the core (engine xmlload)")


def run_engines(tier, seed):
    t0 = time.time()
    r = eng_xmlscan.run_engine(tier, seed)
    r["xmlscan_wall_s"] = round(time.time() - t0, 1)
    try:
        import eng_xmlload
    except ImportError:
        r["xmlload"] = "engine not present"
        return r
    t1 = time.time()
    l = eng_xmlload.run_engine(tier, seed)
    out = dict(r)
    out["evaluations"] = r.get("evaluations", 0) + l.get("evaluations", 0)
    out["distinct_nontrivial"] = r.get("distinct_nontrivial", 0) + l.get("distinct_nontrivial", 0)
    out["problems"] = list(r.get("problems", [])) + list(l.get("problems", []))
    out["known_hits"] = list(r.get("known_hits", [])) + list(l.get("known_hits", []))
    out["rule"] = "xmlscan: " + r.get("rule", "") + "  ||  xmlload: " + l.get("rule", "")
    out["samples"] = (r.get("samples") or [])[:5] + (l.get("samples") or [])[:5]
    out["xmlload"] = {k: v for k, v in l.items() if k not in ("problems", "samples", "rule")}
    out["xmlload_wall_s"] = round(time.time() - t1, 1)
    return out


def replay(path):
    print(open(path).read())
    return 0
