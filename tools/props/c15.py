import eng_cpukinds
PID = "C15"
LEAN_MODULE = "Hw.Props.C15"
NS = "Hw.Props.C15."
THEOREMS = [NS + t for t in """C15_kinds_partition C15_kinds_capacity C15_kinds_capacity_history C15_kinds_infos
C15_by_cpuset_spec C15_by_cpuset_einval C15_register_einval C15_efficiency_shape C15_forced_range
C15_defect_stale_slot_reachable
C15_ranking_sorted C15_default_key C15_efficiency_values C15_efficiency_forced_consistent C15_sort_algorithm_irrelevant
C15_by_cpuset_exact C15_register_algebra C15_internal_register_refines C15_regG_overwrite C15_refinement
C15_restrict_refines C15_partition_from_refinement C15_infos_from_refinement C15_forced_from_history
C15_efficiency_order_by_cells C15_finding_split_drops_forced
C15_kinds_are_classes C15_internal_register_classes C15_unranked_keeps_order
C15_restrict_cuts_by_root C15_restrict_covers C15_restrict_independent_of_allowed C15_allow_keeps_kinds
C15_allowed_within_root C15_allow_history_reduces C15_kinds_partition_disallowed
C15_rank_shape C15_rank_spec C15_rank_consistent_with_forced C15_forced_strategy_fails C15_strategy_table
C15_strategy_selects C15_rank_by_strategy C15_info_summary C15_env_values C15_env_history_invariant
C15_env_history_ranked C15_rank_consistent_with_forced_history C15_rank_consistent_with_forced_after_rank
C15_env_history_refinement C15_env_allow_history_reduces C15_env_allow_history_ranked
C15_coretype_frequency_lexicographic C15_driver_crosscheck C15_direct_rank
C15_rank_forced_int_range C15_info_strategy_fails C15_nonnumeric_frequency_fails""".split()]
CHECK_MODULES = ["Hw.Props.C15"]
TRUSTED = ["hwloc_bitmap_compare_inclusion / and / andnot / iszero enter the model through their set-level meaning on finite "
           "sets (Nat masks); the bitmap layer itself is C03",
           "libc atoi modelled as (int) strtol base 10 (whitespace, sign, digits, clamp to long, cast mod 2^32); qsort "
           "modelled as insertion sort (only reached with pairwise distinct ranking values; C15_sort_algorithm_irrelevant proves that "
           "every correct sort then returns the same array)",
           "hwloc_topology_restrict / dup / XML export+import enter the model only through what they do to the cpukinds "
           "array, the root cpuset and the allowed cpuset (root := root & set, allowed := allowed & set, EINVAL when the set "
           "misses the ALLOWED cpuset; hwloc_topology_allow: allowed := root [& set]); the INCLUDE_DISALLOWED flag is re-set on "
           "the importing topology of the XML round trip"]
ASSUMPTIONS = ["finite cpusets; fewer than 2^30 kinds (no wrap in 1U<<bits); malloc/realloc never fail; strings in info values "
               "convert within the range of long",
               "correspondence C = model is claimed outside the stale-slot defect class F17 (a register creating a kind in an "
               "array slot vacated by restrict and still holding a non-NULL infos.array): those registers are skipped by the "
               "harness unless VERIF_C15_INCLUDE_STALE_SLOT_DEFECT=1"]
MODELLED = ("modelled: all of hwloc/cpukinds.c except allocation failure paths (register incl. capacity, split/merge loop, info "
            "union, forced-efficiency rule; every ranking strategy of HWLOC_CPUKINDS_RANKING; restrict; dup; get_nr/get_info/"
            "get_by_cpuset), the cpukind part of XML export/import as re-registration; topologies loaded with INCLUDE_DISALLOWED and "
            "hwloc_topology_allow (CUSTOM / ALL / invalid) interleaved with everything else (Hw.Attr.CpuKindsAllowed: kinds never "
            "depend on the allowed cpuset, restrict cuts them by the new root cpuset); hwloc_internal_cpukinds_register is also "
            "driven directly (flags 0 / OVERWRITE / invalid) in `+ireg` side streams, outside the candidate-finding class "
            "'flags-0 split of a kind with a known, different forced efficiency' (corpus/cpukinds.findings/, evidence key "
            "candidate_findings, never a verdict); A7: HWLOC_CPUKINDS_RANKING is re-read by every rank, so histories carry a strategy per "
            "call (Hw.Attr.CpuKindsStrategies: runE / runET / traceTE; the harness op `env` does the setenv inside the process) and "
            "`rank` is characterised on every array for every strategy (Sel table, rank_by_strategy, rank_consistent_with_forced); "
            "the driver re-checks `Ranked` w.r.t. the strategy of the last ranking call and the last-pair info summaries on every "
            "observation (specOK); exercised but not modelled: the topology "
            "tree side of restrict/dup/XML, libxml vs nolibxml parsing")


def run_engines(tier, seed):
    return eng_cpukinds.run_engine(tier, seed)


def replay(path):
    """./check C15 --replay FILE : run the op lines of FILE through hwloc and the model, print both, exit 1 on a difference.
    Lines starting with '#' are ignored.  VERIF_C15_INCLUDE_STALE_SLOT_DEFECT=1 executes stale-slot registers too."""
    import os, shutil
    from common import build_harness, lake_build, BUILD
    from diffrun import read_lines
    lake_build(["hwmodel"])
    binp = build_harness(eng_cpukinds.ENGINE)
    ops = [l for l in read_lines(path) if l.strip() and not l.startswith("#")]
    wd = os.path.join(BUILD, "run", "cpukinds-replay-%d" % os.getpid())
    os.makedirs(wd, exist_ok=True)
    try:
        inc = os.environ.get(eng_cpukinds.SWITCH, "0") not in ("", "0")
        txt, rc, eff, cl, ml = eng_cpukinds.replay_text(binp, wd, ops, True, inc)
        print(txt)
        nd, nb, firsts = eng_cpukinds.compare(eff, cl, ml)
        if rc != 0 or nd:
            print("REPLAY: DIFFERS (harness rc=%d, %d differing lines)" % (rc, nd))
            return 1
        print("REPLAY: agree on %d lines" % len(eff))
        return 0
    finally:
        shutil.rmtree(wd, ignore_errors=True)
