import eng_topoload, eng_setstage
PID = "C01"
LEAN_MODULE = "Hw.Props.C01"
NS = "Hw.Props.C01."
THEOREMS = [NS + t for t in """C01_oracle_exact C01_gp_index_unique C01_pu_os_index_unique C01_numa_os_index_unique
C01_single_machine_root C01_no_filtered_type C01_set_in_complete C01_pu_cpuset C01_numa_nodeset C01_allowed_sets
C01_discovery_by_insertion
C01_setstage_pre_decidable C01_setstage_set_in_complete C01_setstage_set_in_parent C01_setstage_memory_child_shares_cpuset
C01_setstage_siblings_disjoint C01_setstage_nodeset_decomposition C01_setstage_allowed_sets C01_setstage_within_allowed C01_setstage_no_object_lost
C01_setstage_nested_memory_shares_cpuset C01_setstage_nested_memory_within_allowed
C01_links_of_render C01_renderCheck_sound
C01_remove_empty_rule C01_remove_empty_fixpoint C01_remove_empty_idempotent C01_remove_empty_root_removed C01_remove_empty_preserves
C01_remove_empty_preserves_set_clauses C01_remove_empty_preserves_nodeset_decomposition C01_remove_empty_typed C01_remove_empty_keeps_nonempty C01_pipeline_typing C01_pipeline_sets_through_merging C01_total_memory_stage C01_total_memory_clause C01_group_depth_stage
C01_pipeline_compose
C01_symmetric_walk C01_symmetric_rule C01_symmetric_leaf C01_symmetric_ignores_other_children C01_symmetric_meaning C01_pipeline_symmetric
C01_total_memory_dump_clause C01_total_memory_fields C01_pipeline_dump_clauses C01_pipeline_no_new_object C01_pipeline_unique
C01_sets_through_level_merging C01_merge_step_sets C01_pipeline_sets_through_level_merging C01_pipeline_pu_leaf_and_root C01_pipeline_numa_exists""".split()]
TRUSTED = ["C01_discovery_by_insertion is about the model of hwloc___insert_object_by_cpuset (lean/Hw/Topo/Insert.lean); that model is tied to the "
           "code by the C02 history engine, which predicts the exact tree after every hwloc_topology_insert_group_object call (new object = "
           "Group; the type-order table used for other new types is generated from the source by tools/gen_restrict.py but exercised only "
           "through Groups)",
           "the C01_setstage_* theorems are about the model of the set pipeline of hwloc_discover (lean/Hw/Topo/SetStage.lean: 'Fixup root sets', "
           "propagate_nodeset, fixup_sets with hwloc__reorder_children_if_needed, remove_unused_sets); that model is tied to the code by the "
           "set-stage engine: the library built with -DHWLOC_VERIF dumps the whole tree before and after the stage (hook in hwloc_discover, "
           "environment variable HWLOC_VERIF_STAGE_DUMP) and the model must reproduce the AFTER dump from the BEFORE dump exactly; their "
           "precondition PreSets is evaluated on every BEFORE dump (violations are counted in the evidence: setstage.pre_violated); without the hook in the source the engine observes nothing",
           "the C01_remove_empty_* / C01_total_memory_* / C01_group_depth_stage / C01_pipeline_compose theorems are about the models of remove_empty, "
           "propagate_total_memory and hwloc_set_group_depth (lean/Hw/Topo/Stage*.lean) and the existing models of hwloc_filter_levels_keep_structure "
           "and of the connect functions (Restrict.lean, Render.lean); they are tied to the code by the second part of the stage-dump hook "
           "(hooks/stage-dump-2.patch, add-only under HWLOC_VERIF: the tree with local / total memory and Group attributes after hwloc_filter_bridges, "
           "after remove_empty, after hwloc__reconnect(KEEPSTRUCTURE), after propagate_total_memory and after hwloc_set_group_depth): on every load of the "
           "set-stage engine each model run on the previous dump must reproduce the next dump exactly; while the patch is not in the source the blocks "
           "are absent and the comparisons are skipped (evidence counter setstage.stage_absent).  In C01_pipeline_compose the discovery phases between "
           "the set stage and remove_empty (reconnect, PCI / I/O / Misc / annotate back ends, hwloc_filter_bridges) are NOT modelled: they enter as an "
           "arbitrary decoration (I/O and Misc subtrees, Group attributes) under the typing hypothesis typedT, which the engine evaluates on every rm_before dump",
           "the C01_symmetric_* / C01_pipeline_symmetric theorems are about the model of hwloc_propagate_symmetric_subtree on the four-list tree "
           "(lean/Hw/Topo/StageSymmetric.lean); it is tied to the code on every load of the set-stage engine: the harness writes the public "
           "symmetric_subtree, depth and arity of every normal object after hwloc_topology_load (Y lines) and the driver must reproduce them from "
           "the tree of the `final` hook dump (depth = level index in connectLevels); without the second hook the comparison is skipped (okY absent)",
           "harness/dump.h as a faithful reading of the topology through the public API; lean/Driver/Topo.lean as its parser",
           "PARTIAL: that hwloc's loaders (synthetic, XML, Linux, x86, core pipeline) establish WF is NOT proved; it is checked by the proved oracle on every loaded topology of the run"]
ASSUMPTIONS = ["sources: generated synthetic strings, bundled XML files, bundled Linux and x86 snapshots, and sources derived from these with random custom "
               "allowed sets (every type kept, hwloc_topology_allow + XML export, optionally a doubled memory-side cache level: harness/derive.h); "
               "flag subsets of {INCLUDE_DISALLOWED, IMPORT_SUPPORT, DONT_CHANGE_BINDING, NO_DISTANCES, NO_MEMATTRS, NO_CPUKINDS}, plus "
               "IS_THISSYSTEM[|THISSYSTEM_ALLOWED_RESOURCES] on synthetic / XML / derived sources (the allowed sets then depend on the cgroup of the "
               "machine that runs the check: a replay is exact on the same machine only); the live machine is not loaded natively"]
MODELLED = ("modelled: the well-formedness predicate (every clause of the property) and its consequences; "
            "modelled and proved: hwloc___insert_object_by_cpuset and the set pipeline of hwloc_discover (root fixup, propagate_nodeset, fixup_sets, "
            "remove_unused_sets), remove_empty, propagate_total_memory, hwloc_propagate_symmetric_subtree, hwloc_set_group_depth, and their composition with level merging and level connection "
            "(link / level clauses of the rendered dump); not modelled: the back ends, hwloc__attach_memory_object, the I/O / Misc discovery phases and "
            "hwloc_filter_bridges between the set stage and remove_empty; "
            "not modelled: the loaders themselves (exercised: each loaded topology is dumped and judged; hwloc_topology_check() must not abort)")

def run_engines(tier, seed):
    """two engines: `topo-load` (every loaded topology judged by the proved oracle) and `set-stage` (the set pipeline of hwloc_discover
    against its model; needs the HWLOC_VERIF stage-dump hook in the source, observes nothing without it)"""
    a = eng_topoload.run_engine(tier, seed)
    b = eng_setstage.run_engine(tier, seed)
    dist = dict(a.get("distribution", {}))
    dist.update({"setstage." + k: v for k, v in b.get("distribution", {}).items()})
    return {"evaluations": a["evaluations"] + b["evaluations"], "distinct_nontrivial": a["distinct_nontrivial"] + b["distinct_nontrivial"],
            "distribution": dist, "sources": a.get("sources"), "problems": list(a.get("problems", [])) + list(b.get("problems", [])),
            "samples": list(a.get("samples", []))[:4] + list(b.get("samples", []))[:4],
            "engines": {"topo-load": a["evaluations"], "set-stage": b["evaluations"]},
            "setstage_pre_violation_samples": b.get("pre_violation_samples", []),
            "rule": "topo-load: " + a.get("rule", "") + " || set-stage: " + b.get("rule", "")}

def replay(path):
    """./check C01 --replay FILE: load every plan line of FILE ('#' lines ignored; @SNAP@ = extracted snapshot directory) with both XML
    back ends, judge the dump with the Lean oracle, exit 1 if a loaded topology is not well-formed or hwloc aborts."""
    import os, shutil
    from common import build_harness, lake_build, BUILD
    from diffrun import read_lines
    import gen_tables, snapshots
    gen_tables.generate_all()
    lake_build(["hwmodel"])
    binp = build_harness("topoload")
    snapshots.write_sources(os.devnull, "XFC")
    wd = os.path.join(BUILD, "run", "topoload-replay-%d" % os.getpid())
    bad = 0
    try:
        for l in read_lines(path):
            if not l.strip() or l.startswith("#"):
                continue
            l = l.replace("@SNAP@", snapshots.SNAP).replace("@REPO@", eng_setstage.REPO).replace("@ROOT@", eng_setstage.ROOT)
            cid = l.split()[0]
            for lx in (0, 1):
                rr, vv = eng_topoload.replay_case(binp, wd, l, lx)
                v = vv.get(cid, "load failed (no dump)")
                print("%s [HWLOC_LIBXML=%d] -> %s%s" % (l, lx, v, "" if rr.returncode == 0 else "  harness exit %d\n%s" % (rr.returncode, rr.stdout[-1500:])))
                if rr.returncode != 0 or (cid in vv and v != "WF ok"):
                    bad += 1
    finally:
        shutil.rmtree(wd, ignore_errors=True)
    if eng_setstage.hook_present():
        bins = build_harness("setstage")
        wd = os.path.join(BUILD, "run", "setstage-replay-%d" % os.getpid())
        try:
            for l in read_lines(path):
                if not l.strip() or l.startswith("#"):
                    continue
                l = l.replace("@SNAP@", snapshots.SNAP).replace("@REPO@", eng_setstage.REPO).replace("@ROOT@", eng_setstage.ROOT)
                cid = l.split()[0]
                for lx in (0, 1):
                    rr, vv = eng_setstage.replay_case(bins, wd, l, lx)
                    v = vv.get(cid)
                    why = eng_setstage.judge(v) if v else None
                    print("%s [set-stage, HWLOC_LIBXML=%d] -> %s" % (l, lx, "no stage dump (load failed before the stage)" if not v or not v["pre"]
                                                                     else why or (v["pre"] + " / " + v["post"] + "".join(
                                                                         " / " + v.get("s2", {})[k] for k in eng_setstage.STAGES2 if k in v.get("s2", {})))))
                    if rr.returncode != 0 or why:
                        bad += 1
        finally:
            shutil.rmtree(wd, ignore_errors=True)
    print("REPLAY: %s" % ("NOT WELL-FORMED / FAILS" if bad else "every loaded topology is well-formed"))
    return 1 if bad else 0
