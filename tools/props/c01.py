import eng_topoload
PID = "C01"
LEAN_MODULE = "Hw.Props.C01"
NS = "Hw.Props.C01."
THEOREMS = [NS + t for t in """C01_oracle_exact C01_gp_index_unique C01_pu_os_index_unique C01_numa_os_index_unique
C01_single_machine_root C01_no_filtered_type C01_set_in_complete C01_pu_cpuset C01_numa_nodeset C01_allowed_sets""".split()]
TRUSTED = ["harness/dump.h as a faithful reading of the topology through the public API; lean/Driver/Topo.lean as its parser",
           "PARTIAL: that hwloc's loaders (synthetic, XML, Linux, x86, core pipeline) establish WF is NOT proved; it is checked by the proved oracle on every loaded topology of the run"]
ASSUMPTIONS = ["sources: generated synthetic strings, bundled XML files, bundled Linux and x86 snapshots; flag subsets of {INCLUDE_DISALLOWED, IMPORT_SUPPORT, DONT_CHANGE_BINDING, NO_DISTANCES, NO_MEMATTRS, NO_CPUKINDS}; the live machine is not loaded natively"]
MODELLED = ("modelled: the well-formedness predicate (every clause of the property) and its consequences; "
            "not modelled: the loaders themselves (exercised: each loaded topology is dumped and judged; hwloc_topology_check() must not abort)")

def run_engines(tier, seed):
    return eng_topoload.run_engine(tier, seed)

def replay(path):
    print(open(path).read())
    return 0
