import eng_topoload
PID = "C01"
LEAN_MODULE = "Hw.Props.C01"
NS = "Hw.Props.C01."
THEOREMS = [NS + t for t in """C01_oracle_exact C01_gp_index_unique C01_pu_os_index_unique C01_numa_os_index_unique
C01_single_machine_root C01_no_filtered_type C01_set_in_complete C01_pu_cpuset C01_numa_nodeset C01_allowed_sets
C01_discovery_by_insertion""".split()]
TRUSTED = ["C01_discovery_by_insertion is about the model of hwloc___insert_object_by_cpuset (lean/Hw/Topo/Insert.lean); that model is tied to the "
           "code by the C02 history engine, which predicts the exact tree after every hwloc_topology_insert_group_object call (new object = "
           "Group; the type-order table used for other new types is generated from the source by tools/gen_restrict.py but exercised only "
           "through Groups)",
           "harness/dump.h as a faithful reading of the topology through the public API; lean/Driver/Topo.lean as its parser",
           "PARTIAL: that hwloc's loaders (synthetic, XML, Linux, x86, core pipeline) establish WF is NOT proved; it is checked by the proved oracle on every loaded topology of the run"]
ASSUMPTIONS = ["sources: generated synthetic strings, bundled XML files, bundled Linux and x86 snapshots; flag subsets of {INCLUDE_DISALLOWED, IMPORT_SUPPORT, DONT_CHANGE_BINDING, NO_DISTANCES, NO_MEMATTRS, NO_CPUKINDS}; the live machine is not loaded natively"]
MODELLED = ("modelled: the well-formedness predicate (every clause of the property) and its consequences; "
            "not modelled: the loaders themselves (exercised: each loaded topology is dumped and judged; hwloc_topology_check() must not abort)")

def run_engines(tier, seed):
    return eng_topoload.run_engine(tier, seed)

def replay(path):
    """./check C01 --replay FILE: load every plan line of FILE ('#' lines ignored; @SNAP@ = extracted snapshot directory) with both XML
    back ends, judge the dump with the Lean oracle, exit 1 if a loaded topology is not well-formed or hwloc aborts."""
    import os, shutil
    from common import build_harness, lake_build, BUILD
    from diffrun import read_lines
    import gen_tables, snapshots
    gen_tables.generate_all()
    lake_build(["hwmodel"])
    binp = build_harness("topoload")
    snapshots.write_sources(os.devnull, "XFC")
    wd = os.path.join(BUILD, "run", "topoload-replay-%d" % os.getpid())
    bad = 0
    try:
        for l in read_lines(path):
            if not l.strip() or l.startswith("#"):
                continue
            l = l.replace("@SNAP@", snapshots.SNAP)
            cid = l.split()[0]
            for lx in (0, 1):
                rr, vv = eng_topoload.replay_case(binp, wd, l, lx)
                v = vv.get(cid, "load failed (no dump)")
                print("%s [HWLOC_LIBXML=%d] -> %s%s" % (l, lx, v, "" if rr.returncode == 0 else "  harness exit %d\n%s" % (rr.returncode, rr.stdout[-1500:])))
                if rr.returncode != 0 or (cid in vv and v != "WF ok"):
                    bad += 1
    finally:
        shutil.rmtree(wd, ignore_errors=True)
    print("REPLAY: %s" % ("NOT WELL-FORMED / FAILS" if bad else "every loaded topology is well-formed"))
    return 1 if bad else 0
