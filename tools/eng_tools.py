"""Engine `tools` (C20): the real command-line tools (hwloc-calc, hwloc-distrib, lstopo-no-graphics, hwloc-diff, hwloc-patch)
built from VERIF_REPO/utils with the sanitizer flags, run in forked children of the harness on generated topologies
(synthetic descriptions, bundled XML files) and generated command lines, against the Lean model (Hw.Io.Calc) that predicts
stdout and the exit status class from the topology dump and the argv list.  lstopo / hwloc-diff / hwloc-patch are compared with
the library inside the harness (byte-identical export, reload equivalence, diff|patch reproduces the second topology)."""
import os, shutil, glob, hashlib
from concurrent.futures import ThreadPoolExecutor
from common import *
from diffrun import *
from eng_generic import DiffEngine
import snapshots

DUMP_PREFIXES = ("TOPO ", "O ", "L ", "TD ", "END ", "ENUM ", "XKIND ", "XATTR ", "XVAL ", "XINI ", "XINIERR ")
TOOL_TUS = ["calc", "distrib", "diff", "patch", "lstopo"]
NPROC = min(8, NCPU)


def is_dump_line(l):
    return l.startswith(DUMP_PREFIXES)


def utils_inputs():
    files = []
    for d in ("utils/hwloc", "utils/lstopo"):
        files += glob.glob(os.path.join(REPO, d, "*.c")) + glob.glob(os.path.join(REPO, d, "*.h"))
    return files


def build_tools_harness(variant="asan"):
    """harness/h_tools.c + harness/tools/t_*.c (each #includes the tool sources of REPO/utils with main renamed) + the library
    objects of REPO.  Keyed by the content of the harness, of every utils source and of the library build."""
    objdir, objs = build_objs(variant)
    src = os.path.join(HARNESS, "h_tools.c")
    tus = [os.path.join(HARNESS, "tools", "t_%s.c" % t) for t in TOOL_TUS]
    deps = [src] + tus + glob.glob(os.path.join(HARNESS, "*.h")) + utils_inputs()
    key = sha_files(deps) + "-" + os.path.basename(objdir)
    out = os.path.join(BUILD, "bin", "tools-%s" % key)
    if os.path.exists(out):
        return out
    os.makedirs(os.path.dirname(out), exist_ok=True)
    for old in glob.glob(os.path.join(BUILD, "bin", "tools-*")):
        shutil.rmtree(old, ignore_errors=True) if os.path.isdir(old) else os.remove(old)
    tobj = os.path.join(BUILD, "tools-obj-%s" % key)
    for old in glob.glob(os.path.join(BUILD, "tools-obj-*")):
        shutil.rmtree(old, ignore_errors=True)
    os.makedirs(tobj, exist_ok=True)
    flags = cflags(variant) + ["-I" + os.path.join(REPO, "hwloc"), "-I" + HARNESS, "-I" + os.path.join(REPO, "utils", "hwloc"),
                               "-I" + os.path.join(REPO, "utils", "lstopo")]

    def cc(t):
        o = os.path.join(tobj, "t_%s.o" % t)
        r = run(["gcc", "-c"] + flags + [os.path.join(HARNESS, "tools", "t_%s.c" % t), "-o", o])
        return t, o, r.returncode, r.stdout

    with ThreadPoolExecutor(NPROC) as ex:
        res = list(ex.map(cc, TOOL_TUS))
    bad = [(t, o) for t, _, rc, o in res if rc != 0]
    if bad:
        raise RuntimeError("tool build failed (%s):\n%s" % (bad[0][0], bad[0][1][-4000:]))
    cmd = ["gcc"] + flags + [src] + [o for _, o, _, _ in res] + list(objs.values()) + LINK_LIBS + ["-lncursesw", "-o", out]
    r = run(cmd)
    if r.returncode != 0:
        raise RuntimeError("harness build failed (tools):\n%s" % r.stdout[-4000:])
    shutil.rmtree(tobj, ignore_errors=True)
    return out


def classify(op, c, m):
    if is_dump_line(op) or op.startswith("LOAD "):
        return "diff"
    crashed = c.startswith("crash") or c == "timeout" or c in ("<missing>",)
    if crashed:
        return "diff"
    if op.startswith(("LRT ", "NI ", "SL ")) and c.startswith("same=0"):
        return "diff"          # a metamorphic relation of the property fails in the real tool, whatever the model says
    if m.startswith("skip:"):
        return "benign"
    if m == "rc=0 out=?" and c.startswith("rc=0"):
        return "benign"
    return "diff"


class ToolsEngine(DiffEngine):
    def _xml_list(self, workdir):
        p = os.path.join(workdir, "xml.txt")
        if not os.path.exists(p):
            keep = []
            for x in snapshots.xml_files():
                try:
                    if os.path.getsize(x) < 150000:
                        keep.append(x)
                except OSError:
                    pass
            open(p, "w").write("\n".join(keep) + "\n")
        return p

    def _env(self, seed=None, leaks=True, workdir=None, tmp=None):
        e = DiffEngine._env(self, seed, False)
        for k in list(e):
            if k.startswith("HWLOC_"):
                del e[k]
        e["ASAN_OPTIONS"] = "detect_leaks=0:abort_on_error=0:exitcode=99"
        e["UBSAN_OPTIONS"] = "print_stacktrace=1:halt_on_error=1"
        e["HWLOC_HIDE_ERRORS"] = "2"
        e["LC_ALL"] = "C"
        e["TERM"] = "dumb"
        if workdir:
            e["VERIF_TOOLS_XML"] = self._xml_list(workdir)
        if tmp:
            os.makedirs(tmp, exist_ok=True)
            e["VERIF_TOOLS_TMP"] = tmp
        return e

    def one_run(self, binp, workdir, idx, seed, n):
        d = os.path.join(workdir, "r%d" % idx)
        os.makedirs(d, exist_ok=True)
        ops, cout, mout, st, minp = [os.path.join(d, x) for x in ("ops.txt", "c.out", "m.out", "stats.txt", "min.txt")]
        r = run([binp, str(n), ops, cout, st, minp], env=self._env(seed, workdir=workdir, tmp=os.path.join(d, "tmp")))
        res = {"seed": seed, "rc": r.returncode, "san": r.stdout[-3000:] if r.returncode else "",
               "nops": 0, "ndiff": 0, "nbenign": 0, "firsts": [], "ops": [], "c": [], "m": [], "stats": {}}
        if os.path.exists(minp):
            run_model(self.engine, minp, mout, self.model_args)
            o, c, m = read_lines(minp), read_lines(cout), read_lines(mout)
            if r.returncode != 0:
                o = o[:len(c) + 1]
                m = m[:len(c)]
                c = c[:len(o)]
                nd, nb, firsts = compare_streams(o[:len(c)], c, m, self.classify)
            else:
                nd, nb, firsts = compare_streams(o, c, m, self.classify)
            keep = [i for i, l in enumerate(o) if not is_dump_line(l) and not l.startswith("LOAD ")]
            res.update(nops=len(keep), ndiff=nd, nbenign=nb, firsts=firsts, ops=o, c=c, m=m)
            if os.path.exists(st):
                for l in read_lines(st):
                    t = l.split()
                    if len(t) == 2:
                        res["stats"][t[0]] = int(t[1])
        return res

    def replay_pair(self, binp, d, ops):
        ops = [l for l in ops if not is_dump_line(l)]
        os.makedirs(d, exist_ok=True)
        p, c, m, minp = [os.path.join(d, x) for x in ("ops.txt", "c.out", "m.out", "min.txt")]
        open(p, "w").write("\n".join(ops) + "\n")
        r = run([binp, "--replay", p, c, minp], env=self._env(leaks=False, workdir=os.path.dirname(d), tmp=os.path.join(d, "tmp")))
        run_model(self.engine, minp, m, self.model_args)
        return r, (read_lines(c) if os.path.exists(c) else []), read_lines(m), (read_lines(minp) if os.path.exists(minp) else [])

    def fails(self, binp, d, ops):
        r, cl, ml, mi = self.replay_pair(binp, d, ops)
        if r.returncode != 0:
            return True
        nd, _, _ = compare_streams(mi, cl, ml, self.classify)
        return nd > 0

    def shrink(self, binp, workdir, ops):
        """tool runs are independent given the topology: the last LOAD line + the failing (last) run, then its arguments"""
        d = os.path.join(workdir, "shrink")
        ops = [l for l in ops if not is_dump_line(l)]
        loads = [i for i, l in enumerate(ops) if l.startswith("LOAD ")]
        if loads and len(ops) - 1 > loads[-1]:
            cand = [ops[loads[-1]], ops[-1]]
            if self.fails(binp, d, cand):
                # delta-debug the argument list of the failing run (keep the op name and its fixed fields)
                t = cand[1].split(" ")
                fixed = {"CALC": 3, "DISTRIB": 2, "LRT": 1, "NI": 2, "BADARGS": 2, "SL": 2}.get(t[0])
                if fixed is not None and len(t) > fixed + 1:
                    head, args = t[:fixed], t[fixed:]
                    small = ddmin(args, lambda sub: self.fails(binp, d, [cand[0], " ".join(head + sub)]), max_tests=80)
                    if self.fails(binp, d, [cand[0], " ".join(head + small)]):
                        cand = [cand[0], " ".join(head + small)]
                # stdin mode: then the input lines, then the locations of each remaining line
                t = cand[1].split(" ")
                spos = {"CALC": 2, "SL": 1}.get(t[0])
                if spos is not None and len(t) > spos and "%0a" in t[spos]:
                    def with_stdin(lines):
                        return " ".join(t[:spos] + ["".join(x + "%0a" for x in lines) or "%_"] + t[spos + 1:])
                    lines = [x for x in t[spos].split("%0a")]
                    if lines and lines[-1] == "":
                        lines.pop()
                    small = ddmin(lines, lambda sub: self.fails(binp, d, [cand[0], with_stdin(sub)]), max_tests=40)
                    if self.fails(binp, d, [cand[0], with_stdin(small)]):
                        lines = small
                        for i in range(len(lines)):
                            toks = [x for x in lines[i].split("%20") if x]
                            if len(toks) > 1:
                                sm = ddmin(toks, lambda sub: self.fails(binp, d, [cand[0], with_stdin(lines[:i] + ["%20".join(sub)] + lines[i + 1:])]), max_tests=20)
                                if self.fails(binp, d, [cand[0], with_stdin(lines[:i] + ["%20".join(sm)] + lines[i + 1:])]):
                                    lines[i] = "%20".join(sm)
                        cand = [cand[0], with_stdin(lines)]
                return cand
        return ops[loads[-1]:] if loads else ops

    def replay_text(self, binp, workdir, ops):
        r, cl, ml, mi = self.replay_pair(binp, os.path.join(workdir, "shrink"), ops)
        out = ["# engine tools: op | real tool (C) | Lean model      (./check C20 --replay <this file>; dump lines omitted; tokens %XX-escaped)"]
        for i, o in enumerate(mi):
            ci = cl[i] if i < len(cl) else "<none: harness died here>"
            mi_ = ml[i] if i < len(ml) else "<none>"
            if is_dump_line(o) and ci == mi_:
                continue
            bad = ci != mi_ and self.classify(o, ci, mi_) == "diff"
            out.append("%s | %s | %s%s" % (o[:600], ci[:600], mi_[:600], "   <== DIFFERS" if bad else ""))
        if r.returncode != 0:
            out.append("# harness exit %d:\n# %s" % (r.returncode, r.stdout[-2500:].replace("\n", "\n# ")))
        return "\n".join(out) + "\n"

    def run_corpus(self, binp, workdir):
        problems, n = [], 0
        for f in sorted(glob.glob(os.path.join(ROOT, "corpus", self.engine, "*.ops"))):
            ops = [l for l in read_lines(f) if l and not l.startswith("#")]
            n += len([l for l in ops if not l.startswith("LOAD ")])
            if self.fails(binp, os.path.join(workdir, "corpus"), ops):
                problems.append({"what": "corpus case %s: tool and model disagree (or crash)" % os.path.basename(f),
                                 "seed": 0, "replay": self.replay_text(binp, workdir, ops)})
        return n, problems

    def run_engine(self, tier, seed):
        binp = build_tools_harness()
        workdir = os.path.join(BUILD, "run", "%s-%s" % (self.engine, os.getpid()))
        shutil.rmtree(workdir, ignore_errors=True)
        os.makedirs(workdir)
        ncorpus, problems = self.run_corpus(binp, workdir)
        nruns, n = self.sizes[tier]
        seeds = [int(seed) * 1000003 + i for i in range(nruns)]
        with ThreadPoolExecutor(NPROC) as ex:
            results = list(ex.map(lambda a: self.one_run(binp, workdir, a[0], a[1], n), enumerate(seeds)))
        total = sum(r["nops"] for r in results) + ncorpus
        benign = sum(r["nbenign"] for r in results)
        stats, distinct, verdicts = {}, set(), {}
        for r in results:
            for k, v in r["stats"].items():
                stats[k] = stats.get(k, 0) + v
            for o, c, m in zip(r["ops"], r["c"], r["m"]):
                if is_dump_line(o) or o.startswith("LOAD "):
                    continue
                distinct.add(hashlib.md5((o + "|" + c).encode()).digest()[:8])
                kind = ("skipped" if m.startswith("skip:") else "stdout-unpredicted" if m == "rc=0 out=?"
                        else "compared-ok" if c.startswith("rc=0") or "same=1" in c or "equiv=1" in c else "compared-rejected")
                verdicts[kind] = verdicts.get(kind, 0) + 1
        for r in results:
            if problems:
                break
            if r["rc"] != 0 or r["ndiff"] > 0:
                ops = r["ops"]
                if r["ndiff"] > 0:
                    ops = ops[: r["firsts"][0][0] + 1]
                small = self.shrink(binp, workdir, ops)
                what = ("harness abort / sanitizer report" if r["rc"] != 0 and r["ndiff"] == 0 else "tool and model disagree")
                problems.append({"what": what, "seed": r["seed"], "replay": self.replay_text(binp, workdir, small)})
        sample = []
        if results and results[0]["ops"]:
            pairs = [(o, c) for o, c in zip(results[0]["ops"], results[0]["c"]) if not is_dump_line(o) and not o.startswith("LOAD ")]
            sample = ["%s -> %s" % (o[:200], c[:200]) for o, c in pairs[20:28]]
        shutil.rmtree(workdir, ignore_errors=True)
        return {"evaluations": total, "distinct_nontrivial": len(distinct), "benign_repr_diffs": benign,
                "distribution": stats, "verdict_kinds": verdicts, "buckets_hit": len(stats), "corpus_cases": ncorpus,
                "problems": problems, "samples": sample, "rule": self.rule}


ENGINE = ToolsEngine("tools", classify=classify, stateful=False,
                     sizes={"quick": (16, 450), "thorough": (32, 1300)},
                     rule="each run loads topologies (generated synthetic descriptions incl. attached NUMA nodes, caches, groups, "
                          "non-trivial os_index orders, > 64 PUs; bundled XML files with I/O and Misc objects) as each tool loads them and "
                          "runs the real tools in forked children: hwloc-calc on generated option/location lists (all operators, the "
                          "three set formats incl. infinite sets, nested type:range forms, physical/logical, nodeset modes, -N/-I/-H/"
                          "--largest/--single/--no-smt, malformed tokens and options; stdin mode = no location on the command line, 1..5 "
                          "input lines of 1..3 (sometimes 6..13) locations incl. empty / blank-only lines, invalid locations, a missing final newline, "
                          "with every output mode (-I/-N on cpu and memory levels, -H, --largest, plain sets in four formats) and the "
                          "modifiers -n/--ni/--no/--nof, --po/--lo/--pi/--li/-p/-l, --oo, --sep, --single, --no-smt, --cif, --default-nodes, -q, "
                          "both against the model (CALC) and against one command-line run per input line (SL)), hwloc-distrib (n in 0..2*PUs+2, "
                          "--from/--to/--at/--reverse/--single/formats, malformed), lstopo --of xml|synthetic vs the library export "
                          "byte-for-byte + reload, hwloc-diff|hwloc-patch vs the second topology, malformed command lines of all five "
                          "tools; a case = one tool run (or one metamorphic group of runs); stdout and exit-status class are compared "
                          "with the Lean model wherever the model predicts them; any signal, sanitizer report or time-out is a violation")


def run_engine(tier, seed):
    return ENGINE.run_engine(tier, seed)
