"""Engine `xmlrt` (C05): XML export -> import round trips of real topologies under every backend pairing x {buffer,file} x {v3,v2},
judged by the Lean driver (TopoEquiv on the dumps + canonical lines for distances / memattrs / cpukinds / infos / support /
userdata events, second export byte-identical), plus unit correspondences of the nolibxml escaper / attribute scanner, the
base64 codec and the number conversions against their Lean models, byte for byte."""
import os, shutil, hashlib, glob
from concurrent.futures import ThreadPoolExecutor
from common import *
from diffrun import *
import snapshots

# ---- named switches for input classes on which hwloc itself deviates from the property text (see tools/props/c05.py) ----
# Without HWLOC_TOPOLOGY_FLAG_IMPORT_SUPPORT the reloaded topology carries the support bits of the XML loader, so the <support/>
# elements of the second export differ from the first one; the second export is then compared with those elements removed.
EXCLUDE_SUPPORT_SECTION_WHEN_NOT_IMPORTED = True
# A memory object whose (complete_)cpuset differs from its parent's (Linux discovery with offline CPUs) is reloaded with the
# parent's sets (fixup_sets runs on every load): judged against the normalised original and reported as a known class.
EXCLUDE_MEMORY_CHILD_SETS_NORMALISED_ON_LOAD = True

UNIT = ("ESC ", "ATTR ", "B64E ", "B64D ", "NUM ")


def _env(seed=None, extra=None):
    e = dict(os.environ, ASAN_OPTIONS="detect_leaks=1:abort_on_error=0", UBSAN_OPTIONS="print_stacktrace=1", HWLOC_HIDE_ERRORS="2", LC_ALL="C")
    for k in list(e):
        if k.startswith("HWLOC_") and k not in ("HWLOC_HIDE_ERRORS",):
            del e[k]
    if seed is not None:
        e["VERIF_SEED"] = str(seed)
    if extra:
        e.update(extra)
    return e


def classify(c, m):
    if c == m:
        return "same"
    if c == "SIDE ok" and m.startswith("SIDE ok skipped:"):   # a structure the protocol cannot carry (infinite initiator set, hole in objs[])
        return "same"
    if c == "SMUT ok" and m.startswith("SMUT ok "):
        return "same"
    if c == "TMUT ok" and m.startswith("TMUT ok "):      # the model adds its own verdict / hwloc's load status (statistics only)
        return "same"
    if m == "FIX ok-modulo-support" and EXCLUDE_SUPPORT_SECTION_WHEN_NOT_IMPORTED:
        return "known:support-section"
    if m in ("EQ memsets", "FIX memsets") and EXCLUDE_MEMORY_CHILD_SETS_NORMALISED_ON_LOAD:
        return "known:memory-child-sets"
    return "diff"


def split(ops, cl, ml):
    """-> (units, cases).  unit = (op, c, m); case = {'script': [...], 'bad': (op, c, m) | None, 'known': set(), 'verdicts': [...]}"""
    units, cases, cur = [], [], None
    n = min(len(ops), len(cl), len(ml))
    for i in range(n):
        o, c, m = ops[i], cl[i], ml[i]
        if o.startswith(UNIT):
            units.append((o, c, m))
            continue
        if o.startswith("CASE "):
            cur = {"script": [o], "bad": None, "known": set(), "verdicts": [], "crash": False}
            cases.append(cur)
            continue
        if cur is None:
            continue
        if o.startswith("OP ") or o == "RT":
            cur["script"].append(o)
        if o.startswith(("CMP", "FIX ", "CRASH")):
            cur["verdicts"].append(m)
        if o.startswith("OBJ "):
            cur["nobj"] = cur.get("nobj", 0) + 1
        if o == "TJ":
            cur["ntree"] = cur.get("ntree", 0) + 1
        if o.startswith("TM "):
            cur.setdefault("muts", []).append(o.split()[1] + ":" + (m[8:] if m.startswith("TMUT ok ") else "FAIL"))
        if o == "SJ":
            cur["nside"] = cur.get("nside", 0) + 1
            if m.startswith("SIDE ok skipped"):
                cur["nsideskip"] = cur.get("nsideskip", 0) + 1
        if o.startswith(("SD o", "ST o", "SK o")):
            cur["nsideitems"] = cur.get("nsideitems", 0) + 1
            tk = o.split()
            kind = ("distances-hetero" if tk[2] == "1" else "distances-homogeneous") if tk[0] == "SD" else \
                   (("memattr-target-with-initiators" if tk[6:] else "memattr-target-plain") if tk[0] == "ST" else
                    ("cpukind-forced-efficiency" if tk[3] != "-1" else "cpukind"))
            cur.setdefault("sidekinds", []).append(kind)
            if tk[0] == "SD" and int(tk[6]) > 10:
                cur["sidekinds"].append("distances-more-than-10-objects")
            if tk[0] == "ST" and any(x.startswith("c") for x in tk[6::2]):
                cur["sidekinds"].append("memattr-cpuset-initiator")
            if tk[0] == "ST" and any(x.startswith("o") for x in tk[6::2]):
                cur["sidekinds"].append("memattr-object-initiator")
        if o.startswith("SU "):
            cur.setdefault("smuts", []).append(o.split()[1] + ":" + (m[8:] if m.startswith("SMUT ok ") else "FAIL"))
        if o.startswith("TO "):
            cur["ntreeobj"] = cur.get("ntreeobj", 0) + 1
        if o.startswith("CRASH"):
            cur["crash"] = True        # also when a modifying call of the history itself aborts before the export
        if o.startswith("KNOWN "):
            cur["known"].add(o[6:].strip())
            cur["verdicts"].append("KNOWN " + o[6:].strip())
        k = classify(c, m)
        if k.startswith("known:"):
            cur["known"].add(k[6:])
        elif k == "diff" and cur["bad"] is None:
            cur["bad"] = (o[:200], c, m)
    return units, cases


def run_script(binp, d, script, env=None):
    os.makedirs(d, exist_ok=True)
    sp, ops, cout, mout = [os.path.join(d, x) for x in ("script.txt", "ops.txt", "c.out", "m.out")]
    for p in (ops, cout, mout):
        if os.path.exists(p):
            os.remove(p)
    open(sp, "w").write("\n".join(script) + "\n")
    r = run([binp, "replay", sp, ops, cout], env=_env(None, env))
    if os.path.exists(ops):
        run_model("xmlrt", ops, mout)
        o, c, m = read_lines(ops), read_lines(cout), read_lines(mout)
    else:
        o, c, m = [], [], []
    return r, o, c, m


def script_fails(binp, d, script, env=None):
    r, o, c, m = run_script(binp, d, script, env)
    if r.returncode != 0 or len(c) != len(m) or not o:
        return True
    if not script[0].startswith(UNIT) and not any(x.startswith("CMP") for x in o):
        return False          # the topology did not even load (or a known defect class was skipped): not a failure of the property
    return any(classify(x, y) == "diff" for x, y in zip(c, m))


def annotate(binp, d, script, env=None):
    r, o, c, m = run_script(binp, d, script, env)
    out = ["# engine xmlrt; replay: harness h_xmlrt replay <script> <ops-out> <c-out>, then hwmodel xmlrt < ops-out",
           "# CASE <export libxml?> <import libxml?> <B|F> <3|2 format> <source kind> <topology flags> <type filters> <source>"]
    out += script
    out.append("# judged lines (protocol line | expected | Lean model):")
    for i, l in enumerate(o):
        if l.startswith("OBJ ") and i < len(c) and i < len(m) and classify(c[i], m[i]) != "diff":
            continue
        if l.startswith(("CMP", "FIX", "CRASH", "LOADFAIL", "OBJ ")) or l in ("TJ", "SJ") or l.startswith(("TM ", "SU ")) or l.startswith(UNIT):
            ci = c[i] if i < len(c) else "<none>"
            mi = m[i] if i < len(m) else "<none>"
            out.append("#   %s | %s | %s%s" % (l[:1500], ci[:300], mi[:400], "" if classify(ci, mi) != "diff" else "   <== DIFFERS"))
    if r.returncode != 0:
        out.append("# harness exit %d:\n# %s" % (r.returncode, r.stdout[-2500:].replace("\n", "\n# ")))
    return "\n".join(out) + "\n"


def shrink_case(binp, d, script, env=None):
    head = script[:1]
    body = [l for l in script[1:] if l.startswith("OP ")]
    tail = ["RT"]
    if not script_fails(binp, d, head + body + tail, env):
        return script
    if len(body) > 1:
        body = ddmin(body, lambda sub: script_fails(binp, d, head + sub + tail, env), max_tests=150)
    if len(body) == 1 and script_fails(binp, d, head + tail, env):
        body = []
    return head + body + tail


def one_run(binp, workdir, idx, seed, n, sources, units):
    d = os.path.join(workdir, "r%d" % idx)
    os.makedirs(d, exist_ok=True)
    ops, cout, mout = [os.path.join(d, x) for x in ("ops.txt", "c.out", "m.out")]
    r = run([binp, "gen", str(n), sources, ops, cout], env=_env(seed, {"VERIF_XMLRT_UNITS": str(units)}))
    res = {"seed": seed, "rc": r.returncode, "san": r.stdout[-3000:], "units": [], "cases": [], "nlines": 0}
    if os.path.exists(ops):
        run_model("xmlrt", ops, mout)
        o, c, m = read_lines(ops), read_lines(cout), read_lines(mout)
        res["units"], res["cases"] = split(o, c, m)
        res["nlines"] = len(o)
        if len(c) != len(m) or len(o) != len(c):
            res["misaligned"] = (len(o), len(c), len(m))
    return res


def run_engine(tier, seed):
    binp = build_harness("xmlrt", include_c=("topology-xml-nolibxml",))
    workdir = os.path.join(BUILD, "run", "xmlrt-%s" % os.getpid())
    shutil.rmtree(workdir, ignore_errors=True)
    os.makedirs(workdir)
    sources = os.path.join(workdir, "sources.txt")
    nsrc = snapshots.write_sources(sources, "XFC")
    problems, known_hits, ncorpus = [], {}, 0
    for f in sorted(glob.glob(os.path.join(ROOT, "corpus", "xmlrt", "*.script"))):
        script = [l.replace("@SNAP@", snapshots.SNAP).replace("@REPO@", REPO) for l in read_lines(f) if l and not l.startswith("#")]
        ncorpus += 1
        if script_fails(binp, os.path.join(workdir, "corpus"), script):
            problems.append({"what": "corpus case %s fails again" % os.path.basename(f), "seed": 0,
                             "replay": annotate(binp, os.path.join(workdir, "corpus"), script)})
    nruns, n, units = (16, 70, 120) if tier == "quick" else (64, 300, 300)
    seeds = [int(seed) * 1000003 + i for i in range(nruns)]
    with ThreadPoolExecutor(int(os.environ.get("VERIF_JOBS", NCPU))) as ex:
        results = list(ex.map(lambda a: one_run(binp, workdir, a[0], a[1], n, sources, units), enumerate(seeds)))
    stats, distinct, samples = {}, set(), []
    nunits = ncases = njudged = 0

    def bump(k, v=1):
        stats[k] = stats.get(k, 0) + v

    d = os.path.join(workdir, "shrink")
    for r in results:
        for (o, c, m) in r["units"]:
            nunits += 1
            bump("unit." + o.split()[0])
            distinct.add(hashlib.md5((o + "|" + c).encode()).digest()[:8])
            if classify(c, m) == "diff" and not problems:
                problems.append({"what": "unit correspondence: C and model disagree on %s" % o.split()[0], "seed": r["seed"],
                                 "replay": annotate(binp, d, [o])})
        for cs in r["cases"]:
            ncases += 1
            t = cs["script"][0].split(None, 8)
            if len(t) >= 8:
                bump("pairing.export%s-import%s" % (t[1], t[2])); bump("mode." + t[3]); bump("format.v" + t[4]); bump("source." + t[5])
                bump("flags." + t[6])
            for l in cs["script"][1:]:
                if l.startswith("OP "):
                    bump("op." + l.split()[1])
            for v in cs["verdicts"]:
                bump("verdict." + " ".join(v.split()[:2]))
                njudged += 1
            if cs.get("nobj"):
                bump("object-level.start-tags", cs["nobj"])
                njudged += cs["nobj"]
            if cs.get("ntree"):
                bump("tree-level.trees", cs["ntree"])
                bump("tree-level.objects", cs.get("ntreeobj", 0))
                njudged += cs["ntree"]
            if cs.get("nside"):
                bump("side-level.documents", cs["nside"])
                bump("side-level.distances+memattr-targets+cpukinds", cs.get("nsideitems", 0))
                bump("side-level.skipped", cs.get("nsideskip", 0))
                for k in cs.get("sidekinds", []):
                    bump("side-level." + k)
                njudged += cs["nside"]
            for mu in cs.get("smuts", []):
                bump("side-level.mutated-document." + mu)
                njudged += 1
            for mu in cs.get("muts", []):
                bump("tree-level.mutated-document." + mu)
                njudged += 1
            if not cs["verdicts"]:
                bump("not-loaded")
            distinct.add(hashlib.md5("\n".join(cs["script"]).encode()).digest()[:8])
            for k in cs["known"]:
                known_hits[k] = known_hits.get(k, 0) + 1
            if len(samples) < 4 and len(cs["script"]) > 3 and cs["verdicts"]:
                samples.append(" ; ".join(cs["script"][:4])[:400] + " ... -> " + ", ".join(cs["verdicts"]))
            if (cs["bad"] or cs["crash"]) and not problems:
                script = shrink_case(binp, d, cs["script"])
                what = ("abort / sanitizer report inside hwloc during an XML round trip" if cs["crash"]
                        else "XML round trip: %s judged '%s' (expected '%s')" % (cs["bad"][0][:60], cs["bad"][2][:300], cs["bad"][1]))
                problems.append({"what": what, "seed": r["seed"], "replay": annotate(binp, d, script)})
        if (r["rc"] != 0 or r.get("misaligned")) and not problems:
            problems.append({"what": "harness failure (exit %d, lines %s)" % (r["rc"], r.get("misaligned")), "seed": r["seed"],
                             "replay": "# harness output:\n# " + r["san"][-2500:].replace("\n", "\n# ") + "\n"})
    shutil.rmtree(workdir, ignore_errors=True)
    hits = []
    if known_hits.get("support-section"):
        hits.append("F56 second export differs from the first only in <support/> elements when IMPORT_SUPPORT is not set (%d cases; "
                    "compared with those elements removed)" % known_hits["support-section"])
    if known_hits.get("memory-child-sets"):
        hits.append("F55 memory object whose cpuset/complete_cpuset differ from its parent's is reloaded with the parent's sets "
                    "(%d cases; judged against the normalised original)" % known_hits["memory-child-sets"])
    if known_hits.get("duplicate-memattr-initiators"):
        hits.append("F59 restrict clipped two memattr initiator cpusets of one target to the same set (or the later one to a subset of the earlier one); the importer merges the two values "
                    "(%d cases, not judged)" % known_hits["duplicate-memattr-initiators"])
    for k in known_hits:
        if k not in ("support-section", "memory-child-sets", "duplicate-memattr-initiators"):
            hits.append("unlisted class %s (%d cases)" % (k, known_hits[k]))
    return {"evaluations": nunits + njudged, "distinct_nontrivial": len(distinct), "unit_ops": nunits, "roundtrip_cases": ncases,
            "judged_verdicts": njudged, "distribution": stats, "corpus_cases": ncorpus, "sources": nsrc, "known_hits": hits,
            "problems": problems, "samples": samples,
            "rule": "a round-trip case = (source topology: generated synthetic / bundled XML / Linux or x86 snapshot, type filters, flags "
                    "subset of {INCLUDE_DISALLOWED, IMPORT_SUPPORT, DONT_CHANGE_BINDING}) + 0-10 modifying calls (infos, topology infos, "
                    "names, subtypes, misc objects with markup / control / high bytes, restrict, groups, distances incl. heterogeneous and "
                    "kind 0, memattr values, cpukinds with infos, allow, userdata of lengths 0..9 plain and base64) x export backend x "
                    "import backend x {buffer, file} x {v3, v2}; each yields a CMP verdict (TopoEquiv + canonical lines) and a FIX verdict "
                    "(second export byte-identical) and, for v3 nolibxml exports, OBJ verdicts on sampled objects (scanned start tag = exportAttrs of the "
                    "object, importAttrs of it = the reloaded object) and, for topologies of at most 160 objects, one TREE verdict (element tree of the real "
                    "export = exportTree of the original object tree, which is TreeValid; importTree of it = normTree of the original = the reloaded tree) and 4 TMUT verdicts (the export text with a subtree moved / a "
                    "page_type, info or unknown element inserted / an object retyped is loaded by hwloc and imported by the model: a document the model "
                    "rejects must not load); a unit case = one call of the escaper / attribute scanner / base64 encoder / decoder / "
                    "number conversion compared byte for byte with the model; distinct = distinct (script) or (unit call, C result)"}
