"""Engine `bitmap` (C03): random API histories on a pool of real hwloc bitmaps vs the Lean model."""
from eng_generic import DiffEngine


def canon_repr(line):
    """'R count inf w...' -> abstract set: (inf, words with trailing fill stripped)"""
    t = line.split()
    if len(t) < 3 or t[0] != "R":
        return None
    inf = t[2]
    ws = [int(x, 16) for x in t[3:]]
    fill = (1 << 64) - 1 if inf == "1" else 0
    while ws and ws[-1] == fill:
        ws.pop()
    return (inf, tuple(ws))


def classify(op, c, m):
    cc, mm = canon_repr(c), canon_repr(m)
    if cc is not None and mm is not None and cc == mm:
        return "benign"        # same set, different ulongs_count: not constrained by the property
    return "diff"


ENGINE = DiffEngine("bitmap", include_c=("bitmap",), classify=classify,
                    sizes={"quick": (16, 20000), "thorough": (64, 150000)},
                    rule="random API histories over a pool of 8 bitmaps (boundary-biased indexes, 35% forced aliasing of "
                         "destination and operands); a case is one call applied to the current pool state; distinct = distinct "
                         "(function, observed C result incl. full representation) pairs")


def run_engine(tier, seed):
    return ENGINE.run_engine(tier, seed)
