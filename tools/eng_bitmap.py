"""Engine `bitmap` (C03): random API histories on a pool of real hwloc bitmaps vs the Lean model."""
import os, shutil, hashlib
from concurrent.futures import ThreadPoolExecutor
from common import *
from diffrun import *


def canon_repr(line):
    """'R count inf w...' -> abstract set: (inf, words with trailing fill stripped)"""
    t = line.split()
    if len(t) < 3 or t[0] != "R":
        return None
    inf = t[2]
    ws = [int(x, 16) for x in t[3:]]
    fill = (1 << 64) - 1 if inf == "1" else 0
    while ws and ws[-1] == fill:
        ws.pop()
    return (inf, tuple(ws))


def classify(op, c, m):
    cc, mm = canon_repr(c), canon_repr(m)
    if cc is not None and mm is not None and cc == mm:
        return "benign"        # same set, different ulongs_count: not constrained by the property
    return "diff"


def one_run(binp, workdir, idx, seed, nops):
    d = os.path.join(workdir, "r%d" % idx)
    os.makedirs(d, exist_ok=True)
    ops, cout, mout, st = [os.path.join(d, x) for x in ("ops.txt", "c.out", "m.out", "stats.txt")]
    env = dict(os.environ, VERIF_SEED=str(seed), ASAN_OPTIONS="detect_leaks=1:abort_on_error=0")
    r = run([binp, str(nops), ops, cout, st], env=env)
    res = {"seed": seed, "rc": r.returncode, "san": r.stdout[-3000:] if r.returncode else "", "dir": d}
    if os.path.exists(ops):
        run_model("bitmap", ops, mout)
        o, c, m = read_lines(ops), read_lines(cout), read_lines(mout)
        nd, nb, firsts = compare_streams(o, c, m, classify)
        res.update(nops=len(o), ndiff=nd, nbenign=nb, firsts=firsts, ops=o, c=c)
        res["stats"] = dict((l.split()[0], int(l.split()[1])) for l in read_lines(st)) if os.path.exists(st) else {}
    else:
        res.update(nops=0, ndiff=0, nbenign=0, firsts=[], ops=[], c=[], stats={})
    return res


def shrink(binp, workdir, ops):
    d = os.path.join(workdir, "shrink")
    os.makedirs(d, exist_ok=True)
    p, c, m = [os.path.join(d, x) for x in ("ops.txt", "c.out", "m.out")]

    def fails(sub):
        open(p, "w").write("\n".join(sub) + "\n")
        r = run([binp, "--replay", p, c], env=dict(os.environ, ASAN_OPTIONS="detect_leaks=0"))
        if r.returncode != 0:
            return True
        run_model("bitmap", p, m)
        nd, _, _ = compare_streams(sub, read_lines(c), read_lines(m), classify)
        return nd > 0
    return ddmin(ops, fails)


def replay_text(binp, workdir, ops):
    """annotated replay: op, C result, model result"""
    d = os.path.join(workdir, "shrink")
    os.makedirs(d, exist_ok=True)
    p, c, m = [os.path.join(d, x) for x in ("ops.txt", "c.out", "m.out")]
    open(p, "w").write("\n".join(ops) + "\n")
    r = run([binp, "--replay", p, c], env=dict(os.environ, ASAN_OPTIONS="detect_leaks=0"))
    run_model("bitmap", p, m)
    cl, ml = read_lines(c), read_lines(m)
    out = ["# engine bitmap: op | hwloc (C) | Lean model   -- replay: harness bitmap --replay <ops>"]
    for i, o in enumerate(ops):
        ci = cl[i] if i < len(cl) else "<none>"
        mi = ml[i] if i < len(ml) else "<none>"
        out.append("%s | %s | %s%s" % (o, ci, mi, "" if ci == mi else "   <== DIFFERS"))
    if r.returncode != 0:
        out.append("# harness exit %d:\n# %s" % (r.returncode, r.stdout[-1500:].replace("\n", "\n# ")))
    return "\n".join(out) + "\n"


def run_engine(tier, seed, corpus_dir=None):
    binp = build_harness("bitmap", include_c=("bitmap",))
    workdir = os.path.join(BUILD, "run", "bitmap-%s" % os.getpid())
    shutil.rmtree(workdir, ignore_errors=True)
    os.makedirs(workdir)
    nruns, nops = (16, 20000) if tier == "quick" else (64, 150000)
    seeds = [int(seed) * 1000003 + i for i in range(nruns)]
    with ThreadPoolExecutor(NCPU) as ex:
        results = list(ex.map(lambda a: one_run(binp, workdir, a[0], a[1], nops), enumerate(seeds)))
    total = sum(r["nops"] for r in results)
    benign = sum(r["nbenign"] for r in results)
    stats = {}
    distinct = set()
    for r in results:
        for k, v in r["stats"].items():
            stats[k] = stats.get(k, 0) + v
        for o, c in zip(r["ops"], r["c"]):
            t = o.split()
            # distinct behaviours: op name, non-handle args, observed result
            distinct.add(hashlib.md5((t[0] + "|" + c).encode()).digest()[:8])
    problems = []
    for r in results:
        if r["rc"] != 0 or r["ndiff"] > 0:
            ops = r["ops"]
            if r["ndiff"] > 0:
                ops = ops[: r["firsts"][0][0] + 1]
            small = shrink(binp, workdir, ops) if len(ops) < 200000 else ops
            txt = replay_text(binp, workdir, small)
            what = "sanitizer/abort in harness" if r["rc"] != 0 and r["ndiff"] == 0 else "C and model disagree"
            problems.append({"what": what, "seed": r["seed"], "replay": txt, "min_ops": small})
            break  # one minimised replay is enough
    sample = []
    if results and results[0]["ops"]:
        sample = ["%s -> %s" % (o, c) for o, c in list(zip(results[0]["ops"], results[0]["c"]))[100:112]]
    shutil.rmtree(workdir, ignore_errors=True)
    return {"evaluations": total, "distinct_nontrivial": len(distinct), "benign_repr_diffs": benign,
            "distribution": stats, "buckets_hit": len(stats), "problems": problems, "samples": sample,
            "rule": "random API histories over a pool of 8 bitmaps (boundary-biased indexes, 35% forced aliasing of "
                    "destination and operands); a case is one op applied to the current pool state; distinct = distinct "
                    "(op name, observed C result incl. full representation) pairs"}
