"""Engine `distances` (C13): random histories of the distances API on synthetic topologies (add_create /
add_values / add_commit, get*, release(_remove), remove*, transform, interleaved with restrict, refresh,
dup and XML round trips) vs the Lean model `Hw.Attr.Distances`.

No input class is excluded (the former defect classes F03, F12, F17/F27, F18/F29 are fixed in /repo and are ordinary
inputs and corpus cases now)."""
import os, shutil, hashlib
from concurrent.futures import ThreadPoolExecutor
from common import *
from diffrun import *

ENGINE = "distances"
NPROC = min(NCPU, int(os.environ.get("VERIF_NPROC", "16")))


def classify(op, c, m):
    return "diff"


def env_for(idx, seed, side=False):
    env = dict(os.environ, VERIF_SEED=str(seed), ASAN_OPTIONS="detect_leaks=1:abort_on_error=0",
               UBSAN_OPTIONS="print_stacktrace=1")
    env.pop("HWLOC_DEBUG_CHECK", None)
    if idx % 2 == 1:
        env["HWLOC_LIBXML"] = "0"      # odd runs: nolibxml backend for export and import
    else:
        env.pop("HWLOC_LIBXML", None)
    # GROUP flags are generated in every run.  Main runs: default accuracy (HWLOC_GROUPING_ACCURACY unset), the Groups inserted by
    # the commit are PREDICTED by the model (Hw.Grouping + the insertion model).  Side runs: non-default accuracies (float
    # comparisons, not modelled), judged for crashes / sanitizer reports only, as before.
    env["VERIF_GROUP"] = "1"
    for k in ("HWLOC_GROUPING", "HWLOC_GROUPING_ACCURACY", "HWLOC_GROUPING_VERBOSE", "VERIF_GROUP_CRASHONLY"):
        env.pop(k, None)
    if side:
        env["VERIF_GROUP_CRASHONLY"] = "1"
        env["HWLOC_GROUPING_ACCURACY"] = ("try", "0.3", "0.05", "try")[idx % 4]
    return env


def one_run(binp, workdir, idx, seed, nops, side=False):
    d = os.path.join(workdir, "%s%d" % ("s" if side else "r", idx))
    os.makedirs(d, exist_ok=True)
    ops, cout, mout, st = [os.path.join(d, x) for x in ("ops.txt", "c.out", "m.out", "stats.txt")]
    env = env_for(idx, seed, side)
    r = run([binp, str(nops), ops, cout, st], env=env)
    res = {"seed": seed, "idx": idx, "rc": r.returncode, "san": r.stdout[-3000:] if r.returncode else "", "dir": d,
           "side": side}
    if os.path.exists(ops):
        run_model(ENGINE, ops, mout)
        o, c, m = read_lines(ops), read_lines(cout), read_lines(mout)
        nd, nb, firsts = compare_streams(o, c, m, classify)
        distinct = set()
        for oo, cc in zip(o, c):
            t = oo.split(" ", 1)[0]
            key = t + "|" + (cc if t not in ("load", "restrict", "dup", "xml", "create", "values", "commit") else oo.split("|")[0] + cc)
            distinct.add(hashlib.md5(key.encode()).digest()[:8])
        bad = r.returncode != 0 or nd > 0
        res.update(nops=len(o), ndiff=nd, nbenign=nb, firsts=firsts, distinct=distinct,
                   ops=o if bad else [], c=c if bad else [],
                   sample=["%s -> %s" % (a[:200], b[:200]) for a, b in list(zip(o, c))[20:32]] if idx == 0 else [])
        res["stats"] = dict((l.split()[0], int(l.split()[1])) for l in read_lines(st)) if os.path.exists(st) else {}
        if not bad:
            shutil.rmtree(d, ignore_errors=True)      # keep the disk footprint small
    else:
        res.update(nops=0, ndiff=0, nbenign=0, firsts=[], ops=[], c=[], stats={}, distinct=set(), sample=[])
    return res


def _replay(binp, d, ops, env):
    """run the bare ops through the harness (annotations recomputed) and the model; returns (rc, san, eff, c, m)"""
    os.makedirs(d, exist_ok=True)
    p, c, e, m = [os.path.join(d, x) for x in ("in.txt", "c.out", "eff.txt", "m.out")]
    open(p, "w").write("\n".join(ops) + "\n")
    for f in (c, e, m):
        if os.path.exists(f):
            os.remove(f)
    r = run([binp, "--replay", p, c, e], env=dict(env, ASAN_OPTIONS="detect_leaks=0:abort_on_error=0"))
    if os.path.exists(e):
        run_model(ENGINE, e, m)
    rl = lambda f: read_lines(f) if os.path.exists(f) else []
    return r.returncode, r.stdout[-1500:], rl(e), rl(c), rl(m)


def shrink(binp, workdir, ops, env):
    d = os.path.join(workdir, "shrink")

    def fails(sub):
        rc, _, eff, c, m = _replay(binp, d, sub, env)
        if rc != 0:
            return True
        nd, _, _ = compare_streams(eff, c, m, classify)
        return nd > 0
    return ddmin(ops, fails, max_tests=300)


def replay_text(binp, workdir, ops, env):
    rc, san, eff, cl, ml = _replay(binp, os.path.join(workdir, "shrink"), ops, env)
    out = ["# engine distances: op [| annotation] || hwloc (C) || Lean model   -- replay: harness distances --replay <ops> <out> <eff-ops>",
           "# env: " + " ".join("%s=%s" % (k, env[k]) for k in ("HWLOC_LIBXML", "VERIF_GROUP", "VERIF_GROUP_CRASHONLY", "HWLOC_GROUPING_ACCURACY") if k in env)]
    for i, o in enumerate(eff if eff else ops):
        ci = cl[i] if i < len(cl) else "<none>"
        mi = ml[i] if i < len(ml) else "<none>"
        if " ## P 1 ## " in o:      # GROUP commit: the two topology dumps of the annotation are recomputed by every replay
            o = o.split(" ## P 1 ## ")[0] + " ## P 1 ## <dump before> ## <dump after>"
        out.append("%s || %s || %s%s" % (o, ci, mi, "" if ci == mi else "   <== DIFFERS"))
    if rc != 0:
        out.append("# harness exit %d:\n# %s" % (rc, san.replace("\n", "\n# ")))
    return "\n".join(out) + "\n"


def bare(ops):
    return [o.split("|")[0].strip() for o in ops]


def run_corpus(binp, workdir):
    """corpus/distances/*.ops: bare op lists replayed first (regressions + boundary cases)"""
    problems, n = [], 0
    cdir = os.path.join(ROOT, "corpus", ENGINE)
    if not os.path.isdir(cdir):
        return problems, n
    for f in sorted(os.listdir(cdir)):
        if not f.endswith(".ops"):
            continue
        ops = [l for l in read_lines(os.path.join(cdir, f)) if l.strip() and not l.startswith("#")]
        env = env_for(0, 1)
        rc, san, eff, c, m = _replay(binp, os.path.join(workdir, "corpus"), bare(ops), env)
        n += len(eff)
        nd, _, _ = compare_streams(eff, c, m, classify)
        if rc != 0 or nd > 0:
            problems.append({"what": "corpus case %s: %s" % (f, "harness abort" if rc else "C and model disagree"),
                             "seed": 0, "replay": replay_text(binp, workdir, bare(ops), env)})
    return problems, n


def run_engine(tier, seed, corpus_dir=None):
    binp = build_harness(ENGINE)
    workdir = os.path.join(BUILD, "run", "%s-%s" % (ENGINE, os.getpid()))
    shutil.rmtree(workdir, ignore_errors=True)
    os.makedirs(workdir)
    nruns, nops, nside = (16, 40000, 2) if tier == "quick" else (128, 150000, 8)
    seeds = [int(seed) * 1000003 + i for i in range(nruns)]
    problems, ncorpus = run_corpus(binp, workdir)
    jobs = [(i, s, False) for i, s in enumerate(seeds)] + [(i, int(seed) * 7919 + 500000 + i, True) for i in range(nside)]
    with ThreadPoolExecutor(NPROC) as ex:
        allres = list(ex.map(lambda a: one_run(binp, workdir, a[0], a[1], nops if not a[2] else nops // 4, a[2]), jobs))
    results = [r for r in allres if not r["side"]]
    side = [r for r in allres if r["side"]]
    total = sum(r["nops"] for r in results) + ncorpus
    stats, distinct = {}, set()
    for r in results:
        for k, v in r["stats"].items():
            stats[k] = stats.get(k, 0) + v
        distinct |= r["distinct"]
    for r in results:
        if r["rc"] != 0 or r["ndiff"] > 0:
            ops = r["ops"]
            if r["ndiff"] > 0:
                ops = ops[: r["firsts"][0][0] + 1]
            env = env_for(r["idx"], r["seed"])
            small = shrink(binp, workdir, bare(ops), env)
            txt = replay_text(binp, workdir, small, env)
            what = "sanitizer/abort in harness" if r["rc"] != 0 and r["ndiff"] == 0 else "C and model disagree"
            if r["rc"] != 0:
                txt += "# original run output:\n# " + r["san"].replace("\n", "\n# ") + "\n"
            problems.append({"what": what, "seed": r["seed"], "replay": txt, "min_ops": small})
            break  # one minimised replay is enough
    # side stream (GROUP flags at commit with non-default accuracies): harness aborts / sanitizer reports only
    side_info = {"runs": len(side), "ops": sum(r["nops"] for r in side), "diffs": sum(r["ndiff"] for r in side),
                 "aborts": sum(1 for r in side if r["rc"] != 0),
                 "first": ["%s || %s || %s" % f[1:] for r in side for f in r["firsts"][:1]][:2]}
    for r in side:
        if r["rc"] != 0 and not problems:
            problems.append({"what": "sanitizer/abort in harness (crash-only GROUP stream, %s)" % env_for(r["idx"], r["seed"], True).get("HWLOC_GROUPING_ACCURACY"),
                             "seed": r["seed"], "replay": "# VERIF_SEED=%d VERIF_GROUP=1 VERIF_GROUP_CRASHONLY=1 HWLOC_GROUPING_ACCURACY=%s distances %d ops c.out stats\n# %s\n"
                             % (r["seed"], env_for(r["idx"], r["seed"], True).get("HWLOC_GROUPING_ACCURACY"), r["nops"], r["san"].replace("\n", "\n# "))})
    sample = results[0]["sample"] if results else []
    shutil.rmtree(workdir, ignore_errors=True)
    return {"evaluations": total, "distinct_nontrivial": len(distinct), "benign_repr_diffs": 0,
            "distribution": stats, "buckets_hit": len(stats), "problems": problems, "samples": sample,
            "side_stream_group_flags": side_info, "corpus_ops": ncorpus,
            "excluded_input_classes": {},
            "group_commits_predicted": {k: stats.get(k, 0) for k in ("commit_group_created", "commit_group_none", "commit_group_nested_rounds", "commit_block")},
            "candidate_findings": ["hwloc__find_groups_by_min_distance is not the transitive closure its comment promises: newfirstfound is the "
                                   "first object found in a pass, not the smallest, so a member found later with a smaller index is never "
                                   "rescanned (corpus/distances/group-path4-not-transitive.ops: path 0-2-1-3 of minimal cells yields the group "
                                   "{0,1,2}); outside the property (the Groups are consistent with C01), the model follows the code "
                                   "(C13_group_closure_not_transitive_witness)"],
            "rule": "random API histories (120 ops per synthetic topology, 6 topologies, random NVSwitch marking; pools of 4 add "
                    "handles and 8 returned structures); a case is one op applied to the current state; every returned or "
                    "transformed structure is compared in full (name, kind, nbobjs, objects as type:gp_index, values); "
                    "distinct = distinct (op, observed C result) pairs"}
