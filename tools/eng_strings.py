"""Engine `strings` (C04): printers for every buffer length with guard bytes; parsers on valid, mutated and raw strings."""
from eng_generic import DiffEngine

ENGINE = DiffEngine("strings", include_c=("bitmap",), stateful=False,
                    sizes={"quick": (16, 2500), "thorough": (64, 20000)},
                    distinct_key=lambda op, c: op.split()[0] + op.split()[1] + "|" + c,
                    rule="per generated bitmap: every buffer length 0..need+2 for one of the three formats (guard bytes both "
                         "sides, untouched-cell sentinel) + asprintf; per generated string (printer output, token-mutated, "
                         "grammar alphabet, boundary shapes, raw bytes): sscanf into two differently pre-filled destinations; "
                         "distinct = distinct (call, format, observed C result)")


def run_engine(tier, seed):
    return ENGINE.run_engine(tier, seed)
