"""Engine `strings` (C04): printers for every buffer length with guard bytes; parsers on valid, mutated and raw strings."""
import re
from eng_generic import DiffEngine

_EXT = re.compile(r" (maxread|alloc) \d+")


def classify(op, c, m):
    """The property constrains return value, resulting set and that no access is out of bounds (an out-of-bounds read is a
    fault / ASan report, never a mere difference).  HOW FAR inside the string the parser reads and how many words it
    allocates are not constrained: a difference confined to the `maxread` / `alloc` fields (both sides well-formed) is
    counted as benign_repr_diffs (= the read/allocation model no longer mirrors the code; 0 on the pinned tree), not a violation."""
    if _EXT.search(c) and _EXT.search(m) and _EXT.sub("", c) == _EXT.sub("", m):
        return "benign"
    return "diff"


ENGINE = DiffEngine("strings", include_c=("bitmap",), stateful=False, classify=classify,
                    sizes={"quick": (16, 2500), "thorough": (64, 20000)},
                    distinct_key=lambda op, c: op.split()[0] + op.split()[1] + "|" + c,
                    rule="per generated bitmap: every buffer length 0..need+2 for one of the three formats (guard bytes both "
                         "sides, untouched-cell sentinel) + asprintf; per generated string (printer output, token-mutated, "
                         "grammar alphabet, boundary shapes, signs, long inputs, raw bytes): sscanf into two differently pre-filled destinations, "
                         "then on prefixes of the string placed below a PROT_NONE page (furthest index really read, compared with the "
                         "cursor-level model's read log; allocation compared with the model's realloc sizing); "
                         "distinct = distinct (call, format, observed C result)")


def run_engine(tier, seed):
    return ENGINE.run_engine(tier, seed)
