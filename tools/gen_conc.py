"""Translator (tie T) for C17: the critical sections of hwloc_components_init / hwloc_components_fini
(hwloc/components.c) as a small instruction IR.

The two function bodies are taken from /repo's working tree (common.REPO), comments and the
`#ifdef HWLOC_HAVE_PLUGINS` regions (plugins are not built here) are removed, and the remaining text is
walked statement by statement:

    HWLOC_COMPONENTS_LOCK();                    -> lock
    HWLOC_COMPONENTS_UNLOCK();                  -> unlock
    assert(<only users and constants>);         -> (dropped)
    if (<test of users, with ++/-->) { block }  -> [inc|dec] test [inc|dec] brIfNot/brIf L ; block ; L:
    hwloc_components_users++ / -- ;             -> inc / dec
    return;  and the end of the function        -> ret
    any run of other statements                 -> initReg (init) / destroyReg (fini); it must contain the
                                                   registration / reset calls and must not mention the counter,
                                                   the lock macros, return or goto

Anything else FAILS CLOSED (GenError).  The lock macros themselves must be the pthread mutex pair on
`hwloc_components_mutex`, and topology.c must call init/fini exactly once each (hwloc__topology_init /
hwloc_topology_destroy).  Writes lean/Hw/Gen/ComponentsIR.lean deterministically (definitions only, so that the
driver can still be built and search the GENERATED programs when they differ from the model); the two obligations
`C17_gen_ir_matches_init/_fini : Gen.xProg = Model.xProg := by decide` live in lean/Hw/Props/C17.lean.
Also extracted (same file): the numeric topology flags, the guarded step sequences of the tail of hwloc_topology_load and
of hwloc_topology_refresh, and the table of every core function that calls a cache-(re)building function (with whether the call
is guarded by the validity flag) — obligations C17_gen_flags_match / _load_seq_matches / _refresh_seq_matches /
_lazy_callers_match.  Returns the number of generated obligations (6)."""
import os, re
from common import *

OUT = os.path.join(LEAN, "Hw", "Gen", "ComponentsIR.lean")
USERS = "hwloc_components_users"


class GenError(Exception):
    pass


def _strip(text):
    text = re.sub(r"/\*.*?\*/", " ", text, flags=re.S)
    text = re.sub(r"//[^\n]*", " ", text)
    out, skip = [], 0
    for line in text.split("\n"):
        s = line.strip()
        if s.startswith("#"):
            if re.fullmatch(r"#\s*ifdef\s+HWLOC_HAVE_PLUGINS", s):
                if skip:
                    raise GenError("conc translator: nested preprocessor conditionals")
                skip = 1
                continue
            if re.fullmatch(r"#\s*endif.*", s) and skip:
                skip = 0
                continue
            raise GenError("conc translator: unexpected preprocessor directive in a critical section: " + s)
        if not skip:
            out.append(line)
    if skip:
        raise GenError("conc translator: unterminated #ifdef")
    return "\n".join(out)


def _body(src, name):
    m = re.findall(r"^void\s*\n" + name + r"\(void\)\s*\n\{\n(.*?)\n\}\n", src, flags=re.S | re.M)
    if len(m) != 1:
        raise GenError("conc translator: expected exactly one definition of %s, found %d" % (name, len(m)))
    return _strip(m[0])


def _split(text):
    """top-level statements of a block: each ends at a `;` at depth 0 or at a `}` closing back to depth 0"""
    stmts, cur, par, br = [], "", 0, 0
    i = 0
    while i < len(text):
        ch = text[i]
        cur += ch
        if ch in "([":
            par += 1
        elif ch in ")]":
            par -= 1
        elif ch == "{":
            br += 1
        elif ch == "}":
            br -= 1
            if br < 0:
                raise GenError("conc translator: unbalanced braces")
            if br == 0 and par == 0:
                rest = text[i + 1:].lstrip()
                if rest.startswith("else"):
                    pass                      # keep accumulating the else branch
                else:
                    stmts.append(cur.strip()); cur = ""
        elif ch == ";" and par == 0 and br == 0:
            stmts.append(cur.strip()); cur = ""
        i += 1
    if cur.strip():
        raise GenError("conc translator: trailing text: " + cur.strip()[:60])
    if par or br:
        raise GenError("conc translator: unbalanced block")
    return [s for s in stmts if s]


_DECL = re.compile(r"(const\s+)?(unsigned|int|char|struct\s+\w+)\s*\*?\s*\w+\s*;")
_X = r"(\+\+|--)?\s*" + USERS + r"\s*(\+\+|--)?"


def _cond(c):
    """-> (pre, post, branch_when_true)  where pre/post in (None,'inc','dec')"""
    c = re.sub(r"\s+", " ", c.strip())
    pats = [(r"0 != (%s)" % _X, True), (r"(%s) != 0" % _X, True), (r"(%s)" % _X, True),
            (r"0 == (%s)" % _X, False), (r"(%s) == 0" % _X, False), (r"! ?(%s)" % _X, False)]
    for p, nz in pats:
        m = re.fullmatch(p, c)
        if m:
            pre, post = m.group(2), m.group(3)
            if pre and post:
                break
            f = lambda o: None if not o else ("inc" if o == "++" else "dec")
            return f(pre), f(post), nz
    raise GenError("conc translator: unsupported test of the user count: " + c)


def _compile(text, kind, out):
    pend = []                       # run of opaque body statements

    def flush():
        if not pend:
            return
        blob = " ".join(pend)
        for bad in (USERS, "HWLOC_COMPONENTS_LOCK", "HWLOC_COMPONENTS_UNLOCK", "return", "goto", "pthread_mutex"):
            if re.search(r"\b" + bad + r"\b", blob):
                raise GenError("conc translator: %s inside an opaque statement: %s" % (bad, blob[:80]))
        need = (("hwloc_disc_component_register", "hwloc_xml_callbacks_register") if kind == "init"
                else ("hwloc_disc_components = NULL", "hwloc_xml_callbacks_reset"))
        if all(n in blob for n in need):
            out.append("initReg" if kind == "init" else "destroyReg")
        elif any(n in blob for n in need):
            raise GenError("conc translator: registry %s split over several places" % kind)
        # else: local bookkeeping only (no registry access) -> no instruction
        del pend[:]

    for s in _split(text):
        flat = re.sub(r"\s+", " ", s)
        if _DECL.fullmatch(flat):
            continue
        if flat == "HWLOC_COMPONENTS_LOCK();":
            flush(); out.append("lock"); continue
        if flat == "HWLOC_COMPONENTS_UNLOCK();":
            flush(); out.append("unlock"); continue
        if flat == "return;":
            flush(); out.append("ret"); continue
        m = re.fullmatch(r"assert\((.*)\);", flat)
        if m and USERS in m.group(1):
            if not re.fullmatch(r"[\s()!=\-0-9a-z_]*", m.group(1).replace(USERS, "").replace("unsigned", "")):
                raise GenError("conc translator: unexpected assert: " + flat)
            continue
        m = re.fullmatch(r"(\+\+|--)?\s*" + USERS + r"\s*(\+\+|--)?;", flat)
        if m and (bool(m.group(1)) != bool(m.group(2))):
            flush(); out.append("inc" if "++" in flat else "dec"); continue
        if USERS in flat:
            m = re.fullmatch(r"if \((.*?)\) \{(.*)\}", flat)
            if not m or "else" in re.findall(r"\belse\b", flat):
                raise GenError("conc translator: unsupported statement on the user count: " + flat[:100])
            # the condition is everything up to the parenthesis matching the first one
            depth, j = 0, flat.index("(")
            for k in range(j, len(flat)):
                if flat[k] == "(":
                    depth += 1
                elif flat[k] == ")":
                    depth -= 1
                    if depth == 0:
                        break
            cond, rest = flat[j + 1:k], flat[k + 1:].strip()
            if not (rest.startswith("{") and rest.endswith("}")):
                raise GenError("conc translator: if without a braced block: " + flat[:100])
            pre, post, nz = _cond(cond)
            flush()
            if pre:
                out.append(pre)
            out.append("test")
            if post:
                out.append(post)
            at = len(out)
            out.append(None)
            _compile(rest[1:-1], kind, out)
            out[at] = ("brIfNot %d" if nz else "brIf %d") % len(out)
            continue
        pend.append(flat)
    flush()


def extract():
    src = open(os.path.join(REPO, "hwloc", "components.c")).read()
    if not re.search(r"^static pthread_mutex_t hwloc_components_mutex = PTHREAD_MUTEX_INITIALIZER;$", src, re.M):
        raise GenError("conc translator: hwloc_components_mutex is not a statically initialised pthread mutex")
    if not re.search(r"^#define HWLOC_COMPONENTS_LOCK\(\) pthread_mutex_lock\(&hwloc_components_mutex\)$", src, re.M):
        raise GenError("conc translator: HWLOC_COMPONENTS_LOCK is not pthread_mutex_lock(&hwloc_components_mutex)")
    if not re.search(r"^#define HWLOC_COMPONENTS_UNLOCK\(\) pthread_mutex_unlock\(&hwloc_components_mutex\)$", src, re.M):
        raise GenError("conc translator: HWLOC_COMPONENTS_UNLOCK is not pthread_mutex_unlock(&hwloc_components_mutex)")
    if not re.search(r"^static unsigned " + USERS + r" = 0;", src, re.M):
        raise GenError("conc translator: the user count is not a zero-initialised static unsigned")
    progs = {}
    for kind, name in (("init", "hwloc_components_init"), ("fini", "hwloc_components_fini")):
        out = []
        _compile(_body(src, name), kind, out)
        if not out or out[-1] != "ret":
            out.append("ret")               # falling off the end of a void function
        progs[kind] = out
    # every other mention of the counter must be inside these two functions
    n_mentions = len(re.findall(r"\b" + USERS + r"\b", _strip_all_comments(src)))
    n_inside = sum(len(re.findall(r"\b" + USERS + r"\b", _body(src, n))) for n in ("hwloc_components_init", "hwloc_components_fini"))
    if n_mentions != n_inside + 1:          # + the definition
        raise GenError("conc translator: the user count is accessed outside init/fini (%d mentions, %d inside)" % (n_mentions, n_inside))
    topo = _strip_all_comments(open(os.path.join(REPO, "hwloc", "topology.c")).read())
    if len(re.findall(r"\bhwloc_components_init\s*\(\s*\)", topo)) != 1 or len(re.findall(r"\bhwloc_components_fini\s*\(\s*\)", topo)) != 1:
        raise GenError("conc translator: topology.c must call hwloc_components_init() and _fini() exactly once each")
    return progs


def _strip_all_comments(text):
    text = re.sub(r"/\*.*?\*/", " ", text, flags=re.S)
    return re.sub(r"//[^\n]*", " ", text)


# ---------------------------------------------------------------------------------------------- load tail / refresh

FLAG_NAMES = ["HWLOC_TOPOLOGY_FLAG_RESTRICT_TO_CPUBINDING", "HWLOC_TOPOLOGY_FLAG_RESTRICT_TO_MEMBINDING",
              "HWLOC_TOPOLOGY_FLAG_NO_DISTANCES", "HWLOC_TOPOLOGY_FLAG_NO_MEMATTRS", "HWLOC_TOPOLOGY_FLAG_NO_CPUKINDS"]
STEP_OF_CALL = {"hwloc_internal_cpukinds_rank": "rankKinds",
                "hwloc_internal_distances_invalidate_cached_objs": "invalidateDists",
                "hwloc_internal_distances_refresh": "refreshDists",
                "hwloc_internal_memattrs_need_refresh": "needRefreshAttrs",
                "hwloc_internal_memattrs_refresh": "refreshAttrs",
                "hwloc_topology_refresh": "refreshAll"}


def flag_values():
    d = os.path.join(BUILD, "gen")
    os.makedirs(d, exist_ok=True)
    src, exe = os.path.join(d, "conc_consts.c"), os.path.join(d, "conc_consts")
    with open(src, "w") as f:
        f.write('#include <stdio.h>\n#include "hwloc.h"\nint main(void) {\n')
        for n in FLAG_NAMES:
            f.write('  printf("%s %%lu\\n", (unsigned long)(%s));\n' % (n, n))
        f.write("  return 0;\n}\n")
    r = run(["gcc", "-w"] + config_include_dirs() + [src, "-o", exe])
    if r.returncode != 0:
        raise GenError("conc translator: constants printer does not compile:\n" + r.stdout[-1500:])
    vals = {}
    for line in run([exe]).stdout.split("\n"):
        t = line.split()
        if len(t) == 2:
            vals[t[0]] = int(t[1])
    for n in FLAG_NAMES:
        if n not in vals:
            raise GenError("conc translator: no value for " + n)
    return vals


def _c_function(src, rettype, name):
    m = re.findall(r"^" + rettype + r"\s*\n" + name + r"\s*\(([^;{]*?)\)\s*\n\{\n(.*?)\n\}\n", src, flags=re.S | re.M)
    if len(m) != 1:
        raise GenError("conc translator: expected exactly one definition of %s, found %d" % (name, len(m)))
    return m[0][1]


def _drop_cpp(text):
    text = _strip_all_comments(text)
    return "\n".join(l for l in text.split("\n") if not l.strip().startswith("#"))


def _mask(expr, vals):
    """`HWLOC_TOPOLOGY_FLAG_A` or `(A|B)` -> number"""
    names = [x.strip() for x in expr.strip().strip("()").split("|")]
    v = 0
    for n in names:
        if n not in vals:
            raise GenError("conc translator: unknown flag in a guard: " + expr)
        v |= vals[n]
    return v


def _calls_of(stmt):
    return [c for c in re.findall(r"\b(hwloc_\w+)\s*\(", stmt) if c in STEP_OF_CALL]


def _seq(body, vals, allow):
    """guarded step sequence of a function body (top-level statements only)"""
    out = []
    for st in _split(_drop_cpp(body)):
        flat = re.sub(r"\s+", " ", st)
        m = re.fullmatch(r"if \(!\(topology->flags & (HWLOC_TOPOLOGY_FLAG_\w+)\)\) (.*)", flat)
        if m:
            mask, inner = _mask(m.group(1), vals), m.group(2)
            inner = inner[1:-1] if inner.startswith("{") and inner.endswith("}") else inner
            for sub in _split(inner if inner.rstrip().endswith((";", "}")) else inner + ";"):
                calls = _calls_of(sub)
                f = re.sub(r"\s+", " ", sub)
                if len(calls) == 1 and re.fullmatch(calls[0] + r"\(topology\);", f):
                    out.append((STEP_OF_CALL[calls[0]], mask, False))
                elif calls or not any(re.fullmatch(a, f) for a in allow):
                    raise GenError("conc translator: unexpected statement under a NO_* guard: " + f[:120])
            continue
        m = re.fullmatch(r"if \(topology->flags & (HWLOC_TOPOLOGY_FLAG_RESTRICT_TO_(CPU|MEM)BINDING)\) \{(.*)\}", flat)
        if m:
            inner = m.group(3)
            want = "hwloc_get_cpubind" if m.group(2) == "CPU" else "hwloc_get_membind"
            if inner.count("hwloc_topology_restrict(") != 1 or want not in inner or _calls_of(inner):
                raise GenError("conc translator: unexpected restrict-to-binding block: " + flat[:120])
            out.append(("restrictCpubind" if m.group(2) == "CPU" else "restrictMembind", _mask(m.group(1), vals), True))
            continue
        m = re.fullmatch(r"if \(topology->flags & (\([A-Z_| ]+\))\) hwloc_topology_refresh\(topology\);", flat)
        if m:
            out.append(("refreshAll", _mask(m.group(1), vals), True))
            continue
        calls = _calls_of(flat)
        if len(calls) == 1 and re.fullmatch(calls[0] + r"\(topology\);", flat):          # unguarded step
            out.append((STEP_OF_CALL[calls[0]], 0, False))
            continue
        if re.fullmatch(r"topology->state \|= HWLOC_TOPOLOGY_STATE_IS_LOADED;", flat):
            out.append(("setLoaded", 0, False))
            continue
        if _calls_of(flat) or "hwloc_topology_restrict" in flat or not any(re.fullmatch(a, flat) for a in allow):
            raise GenError("conc translator: unexpected statement in the cache-relevant part: " + flat[:140])
    return out


def load_and_refresh_seqs(vals):
    topo = open(os.path.join(REPO, "hwloc", "topology.c")).read()
    load = _c_function(topo, "int", "hwloc_topology_load")
    k = load.find("err = hwloc_discover(topology, &dstatus);")
    e = load.find("\n  return 0;", k)
    if k < 0 or e < 0:
        raise GenError("conc translator: cannot find the tail of hwloc_topology_load")
    allow_load = [r"err = hwloc_discover\(topology, &dstatus\);", r"if \(err < 0\) goto out;",
                  r"if \(getenv\(\"HWLOC_DEBUG_CHECK\"\)\) hwloc_topology_check\(topology\);",
                  r"int force_memtiers = \(getenv\(\"HWLOC_MEMTIERS_REFRESH\"\) != NULL\);",
                  r"if \(force_memtiers \|\| strcmp\(topology->backends->component->name, \"xml\"\)\) hwloc_internal_memattrs_guess_memory_tiers\(topology, force_memtiers\);",
                  r"topology->state &= ~HWLOC_TOPOLOGY_STATE_IS_LOADING;",
                  r"if \(topology->backend_phases & HWLOC_DISC_PHASE_TWEAK\) \{ dstatus\.phase = HWLOC_DISC_PHASE_TWEAK; hwloc_discover_by_phase\(topology, &dstatus, \"TWEAK\"\); \}"]
    lseq = _seq(load[k:e], vals, allow_load)
    refresh = _c_function(topo, "int", "hwloc_topology_refresh")
    allow_refresh = [r"if \(topology->adopted_shmem_addr\) \{ errno = EPERM; return -1; \}", r"return 0;"]
    rseq = _seq(refresh, vals, allow_refresh)
    return lseq, rseq


# ---------------------------------------------------------------------------------------------- who may refresh lazily

LAZY_FILES = ["memattrs.c", "distances.c", "cpukinds.c", "topology-xml.c", "topology.c", "diff.c", "shmem.c", "traversal.c",
              "bind.c", "bitmap.c", "topology-synthetic.c", "misc.c", "pci-common.c"]
LAZY_CALLEES = ["hwloc__imattr_refresh", "hwloc_internal_memattrs_refresh", "hwloc_internal_distances_refresh",
                "hwloc_internal_distances_refresh_one", "hwloc_internal_cpukinds_rank", "hwloc_topology_refresh"]


def lazy_callers():
    """every function of the core files that calls one of the cache-(re)building functions, in source order, with whether
    the call is guarded by the validity flag: (file:function, callee, guarded)"""
    out = []
    for fn in LAZY_FILES:
        src = _strip_all_comments(open(os.path.join(REPO, "hwloc", fn)).read())
        for m in re.finditer(r"^[^\n(){};#]*?\b(\w+)\s*\(([^;{}]*?)\)\s*\n\{\n(.*?)\n\}\n", src, flags=re.S | re.M):
            name, body = m.group(1), m.group(3)
            lines = [l.strip() for l in body.split("\n") if l.strip()]
            for i, l in enumerate(lines):
                for c in LAZY_CALLEES:
                    if re.search(r"\b" + c + r"\s*\(", l):
                        prev = " ".join(lines[max(0, i - 2):i + 1])
                        guarded = False
                        if c == "hwloc__imattr_refresh":
                            a = re.search(r"hwloc__imattr_refresh\s*\(\s*topology\s*,\s*(\w+)\s*\)", l)
                            if not a:
                                raise GenError("conc translator: unexpected hwloc__imattr_refresh call in %s: %s" % (name, l))
                            v = a.group(1)
                            guarded = bool(re.search(r"if \((?:[^;]*&& )?!\(" + v + r"->iflags & HWLOC_IMATTR_FLAG_CACHE_VALID\)\)\s*(?:hwloc__imattr_refresh|$)", " ".join(lines[max(0, i - 1):i + 1]))
                                           or re.search(r"if \(" + v + r"->iflags & HWLOC_IMATTR_FLAG_CACHE_VALID\) continue;", prev))
                        out.append(("%s:%s" % (fn, name), c, guarded))
    return out


def lean_prog(p):
    return "[" + ", ".join("." + i if " " not in i else "." + i for i in p) + "]"


def generate():
    progs = extract()
    vals = flag_values()
    lseq, rseq = load_and_refresh_seqs(vals)
    lazy = lazy_callers()
    seq = lambda q: "[" + ", ".join("(.%s, %d, %s)" % (n, m, "true" if b else "false") for n, m, b in q) + "]"
    L = ["/- GENERATED by tools/gen_conc.py from hwloc/components.c (hwloc_components_init / hwloc_components_fini) — do not edit.",
         "   Definitions only: the obligations `Gen = Model` are in Hw/Props/C17.lean. -/",
         "import Hw.Io.Conc", "namespace Hw.Gen.ComponentsIR", "open Hw.Conc.Reg", "",
         "def initProg : Prog := " + lean_prog(progs["init"]),
         "def finiProg : Prog := " + lean_prog(progs["fini"]),
         "",
         "/-- topology flags as evaluated by the C compiler (include/hwloc.h) -/",
         "def flags : List Nat := [%s]" % ", ".join(str(vals[n]) for n in FLAG_NAMES),
         "/-- the cache-relevant statements of hwloc_topology_load after hwloc_discover, with their flag guards -/",
         "def loadSeq : Hw.Conc.LoadSeq := " + seq(lseq),
         "/-- hwloc_topology_refresh -/",
         "def refreshSeq : Hw.Conc.LoadSeq := " + seq(rseq),
         "/-- every function of the core files calling a cache-(re)building function: (file:function, callee, guarded by the validity flag) -/",
         "def lazyCallers : List (String × String × Bool) := [",
         ",\n".join('  ("%s", "%s", %s)' % (a, b, "true" if g else "false") for a, b, g in lazy) + "]",
         "", "end Hw.Gen.ComponentsIR", ""]
    import gen_tables
    gen_tables.write_if_changed(OUT, "\n".join(L))
    return 6


if __name__ == "__main__":
    print(generate())
    print(open(OUT).read())
