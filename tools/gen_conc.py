"""Translator (tie T) for C17: the critical sections of hwloc_components_init / hwloc_components_fini
(hwloc/components.c) as a small instruction IR.

The two function bodies are taken from /repo's working tree (common.REPO), comments and the
`#ifdef HWLOC_HAVE_PLUGINS` regions (plugins are not built here) are removed, and the remaining text is
walked statement by statement:

    HWLOC_COMPONENTS_LOCK();                    -> lock
    HWLOC_COMPONENTS_UNLOCK();                  -> unlock
    assert(<only users and constants>);         -> (dropped)
    if (<test of users, with ++/-->) { block }  -> [inc|dec] test [inc|dec] brIfNot/brIf L ; block ; L:
    hwloc_components_users++ / -- ;             -> inc / dec
    return;  and the end of the function        -> ret
    any run of other statements                 -> initReg (init) / destroyReg (fini); it must contain the
                                                   registration / reset calls and must not mention the counter,
                                                   the lock macros, return or goto

Anything else FAILS CLOSED (GenError).  The lock macros themselves must be the pthread mutex pair on
`hwloc_components_mutex`, and topology.c must call init/fini exactly once each (hwloc__topology_init /
hwloc_topology_destroy).  Writes lean/Hw/Gen/ComponentsIR.lean deterministically (definitions only, so that the
driver can still be built and search the GENERATED programs when they differ from the model); the two obligations
`C17_gen_ir_matches_init/_fini : Gen.xProg = Model.xProg := by decide` live in lean/Hw/Props/C17.lean.
Returns the number of generated obligations (2)."""
import os, re
from common import *

OUT = os.path.join(LEAN, "Hw", "Gen", "ComponentsIR.lean")
USERS = "hwloc_components_users"


class GenError(Exception):
    pass


def _strip(text):
    text = re.sub(r"/\*.*?\*/", " ", text, flags=re.S)
    text = re.sub(r"//[^\n]*", " ", text)
    out, skip = [], 0
    for line in text.split("\n"):
        s = line.strip()
        if s.startswith("#"):
            if re.fullmatch(r"#\s*ifdef\s+HWLOC_HAVE_PLUGINS", s):
                if skip:
                    raise GenError("conc translator: nested preprocessor conditionals")
                skip = 1
                continue
            if re.fullmatch(r"#\s*endif.*", s) and skip:
                skip = 0
                continue
            raise GenError("conc translator: unexpected preprocessor directive in a critical section: " + s)
        if not skip:
            out.append(line)
    if skip:
        raise GenError("conc translator: unterminated #ifdef")
    return "\n".join(out)


def _body(src, name):
    m = re.findall(r"^void\s*\n" + name + r"\(void\)\s*\n\{\n(.*?)\n\}\n", src, flags=re.S | re.M)
    if len(m) != 1:
        raise GenError("conc translator: expected exactly one definition of %s, found %d" % (name, len(m)))
    return _strip(m[0])


def _split(text):
    """top-level statements of a block: each ends at a `;` at depth 0 or at a `}` closing back to depth 0"""
    stmts, cur, par, br = [], "", 0, 0
    i = 0
    while i < len(text):
        ch = text[i]
        cur += ch
        if ch in "([":
            par += 1
        elif ch in ")]":
            par -= 1
        elif ch == "{":
            br += 1
        elif ch == "}":
            br -= 1
            if br < 0:
                raise GenError("conc translator: unbalanced braces")
            if br == 0 and par == 0:
                rest = text[i + 1:].lstrip()
                if rest.startswith("else"):
                    pass                      # keep accumulating the else branch
                else:
                    stmts.append(cur.strip()); cur = ""
        elif ch == ";" and par == 0 and br == 0:
            stmts.append(cur.strip()); cur = ""
        i += 1
    if cur.strip():
        raise GenError("conc translator: trailing text: " + cur.strip()[:60])
    if par or br:
        raise GenError("conc translator: unbalanced block")
    return [s for s in stmts if s]


_DECL = re.compile(r"(const\s+)?(unsigned|int|char|struct\s+\w+)\s*\*?\s*\w+\s*;")
_X = r"(\+\+|--)?\s*" + USERS + r"\s*(\+\+|--)?"


def _cond(c):
    """-> (pre, post, branch_when_true)  where pre/post in (None,'inc','dec')"""
    c = re.sub(r"\s+", " ", c.strip())
    pats = [(r"0 != (%s)" % _X, True), (r"(%s) != 0" % _X, True), (r"(%s)" % _X, True),
            (r"0 == (%s)" % _X, False), (r"(%s) == 0" % _X, False), (r"! ?(%s)" % _X, False)]
    for p, nz in pats:
        m = re.fullmatch(p, c)
        if m:
            pre, post = m.group(2), m.group(3)
            if pre and post:
                break
            f = lambda o: None if not o else ("inc" if o == "++" else "dec")
            return f(pre), f(post), nz
    raise GenError("conc translator: unsupported test of the user count: " + c)


def _compile(text, kind, out):
    pend = []                       # run of opaque body statements

    def flush():
        if not pend:
            return
        blob = " ".join(pend)
        for bad in (USERS, "HWLOC_COMPONENTS_LOCK", "HWLOC_COMPONENTS_UNLOCK", "return", "goto", "pthread_mutex"):
            if re.search(r"\b" + bad + r"\b", blob):
                raise GenError("conc translator: %s inside an opaque statement: %s" % (bad, blob[:80]))
        need = (("hwloc_disc_component_register", "hwloc_xml_callbacks_register") if kind == "init"
                else ("hwloc_disc_components = NULL", "hwloc_xml_callbacks_reset"))
        if all(n in blob for n in need):
            out.append("initReg" if kind == "init" else "destroyReg")
        elif any(n in blob for n in need):
            raise GenError("conc translator: registry %s split over several places" % kind)
        # else: local bookkeeping only (no registry access) -> no instruction
        del pend[:]

    for s in _split(text):
        flat = re.sub(r"\s+", " ", s)
        if _DECL.fullmatch(flat):
            continue
        if flat == "HWLOC_COMPONENTS_LOCK();":
            flush(); out.append("lock"); continue
        if flat == "HWLOC_COMPONENTS_UNLOCK();":
            flush(); out.append("unlock"); continue
        if flat == "return;":
            flush(); out.append("ret"); continue
        m = re.fullmatch(r"assert\((.*)\);", flat)
        if m and USERS in m.group(1):
            if not re.fullmatch(r"[\s()!=\-0-9a-z_]*", m.group(1).replace(USERS, "").replace("unsigned", "")):
                raise GenError("conc translator: unexpected assert: " + flat)
            continue
        m = re.fullmatch(r"(\+\+|--)?\s*" + USERS + r"\s*(\+\+|--)?;", flat)
        if m and (bool(m.group(1)) != bool(m.group(2))):
            flush(); out.append("inc" if "++" in flat else "dec"); continue
        if USERS in flat:
            m = re.fullmatch(r"if \((.*?)\) \{(.*)\}", flat)
            if not m or "else" in re.findall(r"\belse\b", flat):
                raise GenError("conc translator: unsupported statement on the user count: " + flat[:100])
            # the condition is everything up to the parenthesis matching the first one
            depth, j = 0, flat.index("(")
            for k in range(j, len(flat)):
                if flat[k] == "(":
                    depth += 1
                elif flat[k] == ")":
                    depth -= 1
                    if depth == 0:
                        break
            cond, rest = flat[j + 1:k], flat[k + 1:].strip()
            if not (rest.startswith("{") and rest.endswith("}")):
                raise GenError("conc translator: if without a braced block: " + flat[:100])
            pre, post, nz = _cond(cond)
            flush()
            if pre:
                out.append(pre)
            out.append("test")
            if post:
                out.append(post)
            at = len(out)
            out.append(None)
            _compile(rest[1:-1], kind, out)
            out[at] = ("brIfNot %d" if nz else "brIf %d") % len(out)
            continue
        pend.append(flat)
    flush()


def extract():
    src = open(os.path.join(REPO, "hwloc", "components.c")).read()
    if not re.search(r"^static pthread_mutex_t hwloc_components_mutex = PTHREAD_MUTEX_INITIALIZER;$", src, re.M):
        raise GenError("conc translator: hwloc_components_mutex is not a statically initialised pthread mutex")
    if not re.search(r"^#define HWLOC_COMPONENTS_LOCK\(\) pthread_mutex_lock\(&hwloc_components_mutex\)$", src, re.M):
        raise GenError("conc translator: HWLOC_COMPONENTS_LOCK is not pthread_mutex_lock(&hwloc_components_mutex)")
    if not re.search(r"^#define HWLOC_COMPONENTS_UNLOCK\(\) pthread_mutex_unlock\(&hwloc_components_mutex\)$", src, re.M):
        raise GenError("conc translator: HWLOC_COMPONENTS_UNLOCK is not pthread_mutex_unlock(&hwloc_components_mutex)")
    if not re.search(r"^static unsigned " + USERS + r" = 0;", src, re.M):
        raise GenError("conc translator: the user count is not a zero-initialised static unsigned")
    progs = {}
    for kind, name in (("init", "hwloc_components_init"), ("fini", "hwloc_components_fini")):
        out = []
        _compile(_body(src, name), kind, out)
        if not out or out[-1] != "ret":
            out.append("ret")               # falling off the end of a void function
        progs[kind] = out
    # every other mention of the counter must be inside these two functions
    n_mentions = len(re.findall(r"\b" + USERS + r"\b", _strip_all_comments(src)))
    n_inside = sum(len(re.findall(r"\b" + USERS + r"\b", _body(src, n))) for n in ("hwloc_components_init", "hwloc_components_fini"))
    if n_mentions != n_inside + 1:          # + the definition
        raise GenError("conc translator: the user count is accessed outside init/fini (%d mentions, %d inside)" % (n_mentions, n_inside))
    topo = _strip_all_comments(open(os.path.join(REPO, "hwloc", "topology.c")).read())
    if len(re.findall(r"\bhwloc_components_init\s*\(\s*\)", topo)) != 1 or len(re.findall(r"\bhwloc_components_fini\s*\(\s*\)", topo)) != 1:
        raise GenError("conc translator: topology.c must call hwloc_components_init() and _fini() exactly once each")
    return progs


def _strip_all_comments(text):
    text = re.sub(r"/\*.*?\*/", " ", text, flags=re.S)
    return re.sub(r"//[^\n]*", " ", text)


def lean_prog(p):
    return "[" + ", ".join("." + i if " " not in i else "." + i for i in p) + "]"


def generate():
    progs = extract()
    L = ["/- GENERATED by tools/gen_conc.py from hwloc/components.c (hwloc_components_init / hwloc_components_fini) — do not edit.",
         "   Definitions only: the obligations `Gen = Model` are in Hw/Props/C17.lean. -/",
         "import Hw.Io.Conc", "namespace Hw.Gen.ComponentsIR", "open Hw.Conc.Reg", "",
         "def initProg : Prog := " + lean_prog(progs["init"]),
         "def finiProg : Prog := " + lean_prog(progs["fini"]),
         "", "end Hw.Gen.ComponentsIR", ""]
    import gen_tables
    gen_tables.write_if_changed(OUT, "\n".join(L))
    return 2


if __name__ == "__main__":
    print(generate())
    print(open(OUT).read())
