"""Engine `helpers` (C09): traversal / locality helpers of helper.h, inlines.h, traversal.c on generated topologies
(synthetic, restricted, CPU-less NUMA nodes, attached NUMA / memory-side caches, Misc objects, bundled XML with I/O)
against the Lean model.  The harness writes the op file (LOAD + query lines) and a second file for the model in
which every LOAD line is followed by the canonical dump of the topology; answers are compared line by line."""
import os, shutil
from common import *
from diffrun import *
from eng_generic import DiffEngine
import snapshots

DUMP_PREFIXES = ("TOPO ", "O ", "L ", "TD ", "END ", "ENUM ")


def is_dump_line(l):
    return l.startswith(DUMP_PREFIXES)


class HelpersEngine(DiffEngine):
    def _xml_list(self, workdir):
        p = os.path.join(workdir, "xml.txt")
        if not os.path.exists(p):
            keep = []
            for x in snapshots.xml_files():
                try:
                    if os.path.getsize(x) < 400000:
                        keep.append(x)
                except OSError:
                    pass
            open(p, "w").write("\n".join(keep) + "\n")
        return p

    def _env(self, seed=None, leaks=True, workdir=None):
        e = DiffEngine._env(self, seed, leaks)
        for k in list(e):
            if k.startswith("HWLOC_"):
                del e[k]
        e["HWLOC_HIDE_ERRORS"] = "2"
        e["LC_ALL"] = "C"
        if workdir:
            e["VERIF_HELPERS_XML"] = self._xml_list(workdir)
        return e

    def one_run(self, binp, workdir, idx, seed, n):
        d = os.path.join(workdir, "r%d" % idx)
        os.makedirs(d, exist_ok=True)
        ops, cout, mout, st, minp = [os.path.join(d, x) for x in ("ops.txt", "c.out", "m.out", "stats.txt", "min.txt")]
        r = run([binp, str(n), ops, cout, st, minp], env=self._env(seed, workdir=workdir))
        res = {"seed": seed, "rc": r.returncode, "san": r.stdout[-3000:] if r.returncode else "",
               "nops": 0, "ndiff": 0, "nbenign": 0, "firsts": [], "ops": [], "c": [], "stats": {}}
        if os.path.exists(minp):
            run_model(self.engine, minp, mout, self.model_args)
            o, c, m = read_lines(minp), read_lines(cout), read_lines(mout)
            if r.returncode != 0:
                o = o[:len(c) + 1]
                m = m[:len(c)]
                c = c[:len(o)]
                nd, nb, firsts = compare_streams(o[:len(c)], c, m, self.classify)
            else:
                nd, nb, firsts = compare_streams(o, c, m, self.classify)
            # only query lines count as evaluations / distinct cases
            keep = [i for i, l in enumerate(o) if not is_dump_line(l)]
            res.update(nops=len(keep), ndiff=nd, nbenign=nb, firsts=firsts, ops=o, c=c)
            if os.path.exists(st):
                for l in read_lines(st):
                    t = l.split()
                    if len(t) == 2:
                        res["stats"][t[0]] = int(t[1])
        return res

    def replay_pair(self, binp, d, ops):
        """ops: op-file lines (LOAD + queries; dump lines are dropped and regenerated)"""
        ops = [l for l in ops if not is_dump_line(l)]
        os.makedirs(d, exist_ok=True)
        p, c, m, minp = [os.path.join(d, x) for x in ("ops.txt", "c.out", "m.out", "min.txt")]
        open(p, "w").write("\n".join(ops) + "\n")
        r = run([binp, "--replay", p, c, minp], env=self._env(leaks=False))
        run_model(self.engine, minp, m, self.model_args)
        return r, (read_lines(c) if os.path.exists(c) else []), read_lines(m), (read_lines(minp) if os.path.exists(minp) else [])

    def fails(self, binp, d, ops):
        r, cl, ml, mi = self.replay_pair(binp, d, ops)
        if r.returncode != 0:
            return True
        nd, _, _ = compare_streams(mi, cl, ml, self.classify)
        return nd > 0

    def shrink(self, binp, workdir, ops):
        """queries are independent given the topology: the last LOAD line + the failing (last) query"""
        d = os.path.join(workdir, "shrink")
        ops = [l for l in ops if not is_dump_line(l)]
        loads = [i for i, l in enumerate(ops) if l.startswith("LOAD ")]
        if loads and len(ops) - 1 > loads[-1]:
            cand = [ops[loads[-1]], ops[-1]]
            if self.fails(binp, d, cand):
                return cand
        if loads:
            cand = ops[loads[-1]:]
            if self.fails(binp, d, cand):
                return ddmin_keep_first(cand, lambda sub: self.fails(binp, d, sub))
        return ops

    def replay_text(self, binp, workdir, ops):
        r, cl, ml, mi = self.replay_pair(binp, os.path.join(workdir, "shrink"), ops)
        out = ["# engine helpers: op | hwloc (C) | Lean model      (./check C09 --replay <this file>; dump lines omitted)"]
        for i, o in enumerate(mi):
            ci = cl[i] if i < len(cl) else "<none: harness died here>"
            mi_ = ml[i] if i < len(ml) else "<none>"
            if is_dump_line(o) and ci == mi_:
                continue
            out.append("%s | %s | %s%s" % (o[:300], ci[:300], mi_[:300], "" if ci == mi_ else "   <== DIFFERS"))
        if r.returncode != 0:
            out.append("# harness exit %d:\n# %s" % (r.returncode, r.stdout[-2500:].replace("\n", "\n# ")))
        return "\n".join(out) + "\n"


def ddmin_keep_first(items, fails):
    first, rest = items[0], items[1:]
    small = ddmin(rest, lambda sub: fails([first] + sub), max_tests=60)
    return [first] + small


def distinct_key(op, c):
    t = op.split()
    if is_dump_line(op) or not t:
        return "dump"
    return op + "|" + c          # queries are meaningful only with their topology: counted per (query text, answer)


ENGINE = HelpersEngine("helpers", stateful=False, distinct_key=distinct_key,
                       sizes={"quick": (16, 60000), "thorough": (64, 400000)},
                       rule="each run builds topologies (synthetic strings incl. attached/nested NUMA and memory-side caches, "
                            "hwloc_topology_restrict by cpuset/nodeset with and without REMOVE_CPULESS, inserted Misc objects, bundled "
                            "XML files with I/O) and issues queries on each: every helper for pooled query sets (sub/super sets of "
                            "the root, straddling siblings, empty, outside the root), every object for unary helpers, all pairs up to "
                            "64 objects then sampled, hwloc_distrib for n in 1..2*PUs+1 x until x flags x several root lists; a case = "
                            "one query on one topology; distinct = distinct (query, C answer) pairs; the model answers from the dump "
                            "and cross-checks its brute-force definitions; every dump must pass wfCheck and treeCheck")


def run_engine(tier, seed):
    return ENGINE.run_engine(tier, seed)
