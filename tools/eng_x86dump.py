"""Engine `x86dump` (C18, B7): the CPUID-dump reading layer of hwloc/topology-x86.c (cpuiddump_read, cpuiddump_find_by_input,
cpuiddump_free, hwloc_x86_check_cpuiddump_input) on generated dump files / tables / directories, compared exactly with the Lean
model (lean/Hw/Io/X86Dump.lean through lean/Driver/X86Dump.lean)."""
from eng_generic import DiffEngine


def classify(op, c, m):
    # `big`: a pu index >= 2^17 would reach the bitmap layer (the real code then allocates up to 512 MB): outside the domain
    if m == "big" and not c.startswith("crash"):
        return "benign"
    return "diff"


def dkey(op, c):
    return op[:600] + "|" + c[:120]


ENGINE = DiffEngine("x86dump", include_c=("topology-x86",), stateful=False, classify=classify, distinct_key=dkey,
                    sizes={"quick": (6, 1500), "thorough": (16, 6000)},
                    rule="per case (a) one pu0 dump file (valid lines in several spacings / 0x prefixes, comments, token mutants with signs, "
                         "0x without digits, > 32-bit and > 64-bit numbers, broken `=>`, byte mutations, truncation, lines and comments beyond the "
                         "128-byte fgets buffer, NUL bytes, raw bytes, empty and missing files) read by the real cpuiddump_read, its table "
                         "printed, then a query sequence through cpuiddump_find_by_input and cpuiddump_free (the leak when nr == 0 is "
                         "observed), or (b) an explicit table (masks 0..15 and high mask bits, duplicates / ambiguous keys) queried through "
                         "cpuiddump_find_by_input, or (c) a dump directory (summary-file variants around `Architecture: x86` and the 32-byte "
                         "buffer, pu0..puN-1 with holes, odd names such as `pu`, `pu+1`, `pu 2`, `pu01`, `pu4294967296`) checked by the real "
                         "hwloc_x86_check_cpuiddump_input; compared exactly: table, every answer, leak flag, return code, weight and set")


def run_engine(tier, seed):
    return ENGINE.run_engine(tier, seed)
