#!/bin/bash
# usage: tools/run_all.sh [tier] : run every claimed check sequentially, print one line per property
cd /verif
TIER=${1:-quick}
for p in $(python3 -c "import json;print(' '.join(c['property_id'] for c in json.load(open('MANIFEST.json'))['checks']))"); do
  out=$(./check $p --tier $TIER 2>&1); rc=$?
  echo "$p rc=$rc $(echo "$out" | grep -E '^(OK|VIOLATION)' | tail -1 | cut -c1-140) known=$(echo "$out" | grep -c '^KNOWN-FINDING')"
done
