"""Engine `dup` (C12): hwloc_topology_dup on generated topologies (synthetic / bundled XML, modified by a pre-history), then
independent histories on the two copies.  The Lean driver predicts the internal state of the copy, the effect of the modelled
calls and "the other copy is unchanged"; the harness checks in C: public dump/attribute text/XML equality, the provenance walk
with a recording allocator, frame checks, alone-run twins, destroy in both orders under ASan/LSan."""
import os, shutil, hashlib, glob
from concurrent.futures import ThreadPoolExecutor
from common import *
from diffrun import *
import snapshots

SCRIPT_PREFIXES = ("LOAD ", "OP ", "DUP", "FIN ")


def _env(seed=None, libxml=1):
    e = dict(os.environ, ASAN_OPTIONS="detect_leaks=1:abort_on_error=0", UBSAN_OPTIONS="print_stacktrace=1",
             HWLOC_HIDE_ERRORS="2", HWLOC_LIBXML=str(libxml), LC_ALL="C")
    for k in list(e):
        if k.startswith("HWLOC_") and k not in ("HWLOC_HIDE_ERRORS", "HWLOC_LIBXML"):
            del e[k]
    if seed is not None:
        e["VERIF_SEED"] = str(seed)
    return e


def split_cases(ops, cl, ml):
    cases, cur = [], None
    n = min(len(ops), len(ml))
    for i in range(n):
        o = ops[i]
        if o.startswith("LOAD "):
            cur = {"script": [o], "bad": None, "nsteps": 0, "checks": 0}
            cases.append(cur)
        elif cur is not None and o.startswith(SCRIPT_PREFIXES):
            cur["script"].append(o)
            cur["nsteps"] += 1
        c = cl[i] if i < len(cl) else "<none>"
        if cur is not None:
            if c != ".":
                cur["checks"] += 1
            if ml[i] != c and cur["bad"] is None:
                cur["bad"] = (len(cur["script"]), o, ml[i], c)
    return cases


def run_script(binp, d, script, libxml):
    os.makedirs(d, exist_ok=True)
    sp, ops, cout, mout = [os.path.join(d, x) for x in ("script.txt", "ops.txt", "c.out", "m.out")]
    for f in (ops, cout, mout):
        if os.path.exists(f):
            os.remove(f)
    open(sp, "w").write("\n".join(script) + "\n")
    r = run([binp, "replay", sp, ops, cout], env=_env(None, libxml))
    if os.path.exists(ops):
        run_model("dup", ops, mout)
        o, c, m = read_lines(ops), read_lines(cout), read_lines(mout)
    else:
        o, c, m = [], [], []
    return r, o, c, m


def script_fails(binp, d, script, libxml):
    r, o, c, m = run_script(binp, d, script, libxml)
    if r.returncode != 0:
        return True
    return any(x != y for x, y in zip(c, m)) or len(c) != len(m)


def annotate(binp, d, script, libxml):
    r, o, c, m = run_script(binp, d, script, libxml)
    out = ["# engine dup (HWLOC_LIBXML=%d): script lines; replay: harness h_dup replay <script> <ops> <c.out>; hwmodel dup < ops" % libxml]
    out += script
    out.append("# judged lines (protocol line | expected | Lean driver):")
    last_op = ""
    for i, l in enumerate(o):
        if l.startswith(("OP ", "DUP", "FIN ", "LOAD ")):
            last_op = l
        ci = c[i] if i < len(c) else "<none>"
        mi = m[i] if i < len(m) else "<none>"
        if ci != "." or mi != ".":
            out.append("#   after [%s]: %s | %s | %s%s" % (last_op[:120], l[:160], ci, mi, "" if mi == ci else "   <== DIFFERS"))
    if r.returncode != 0:
        out.append("# harness exit %d:\n# %s" % (r.returncode, r.stdout[-3000:].replace("\n", "\n# ")))
    return "\n".join(out) + "\n"


def shrink(binp, d, script, libxml):
    if not script_fails(binp, d, script, libxml):
        return script
    head, body = script[:1], script[1:]
    if len(body) > 1:
        body = ddmin(body, lambda sub: script_fails(binp, d, head + sub, libxml), max_tests=150)
    return head + body


def one_run(binp, workdir, idx, seed, n, sources):
    d = os.path.join(workdir, "r%d" % idx)
    os.makedirs(d, exist_ok=True)
    ops, cout, mout = [os.path.join(d, x) for x in ("ops.txt", "c.out", "m.out")]
    lx = idx % 2
    r = run([binp, "gen", str(n), sources, ops, cout], env=_env(seed, lx))
    res = {"seed": seed, "rc": r.returncode, "san": r.stdout[-3000:], "libxml": lx, "cases": [], "nlines": 0, "opstat": {}, "distinct": set()}
    if os.path.exists(ops):
        run_model("dup", ops, mout)
        o, c, m = read_lines(ops), read_lines(cout), read_lines(mout)
        res["cases"] = split_cases(o, c, m)
        res["nlines"] = len(o)
        prev = ""
        for l in o:
            if l.startswith("OP "):
                k = "op:" + l.split()[2]
                res["opstat"][k] = res["opstat"].get(k, 0) + 1
                prev = l
            elif l.startswith("RET "):
                res["distinct"].add(hashlib.md5((prev + l).encode()).digest()[:8])
            elif l.startswith("LOAD "):
                t = l.split()
                k = "load:%s:flags=%s" % (t[1], t[2])
                res["opstat"][k] = res["opstat"].get(k, 0) + 1
                res["distinct"].add(hashlib.md5(l.encode()).digest()[:8])
            elif l.startswith(("PROV", "PUBEQ", "RAWEQ", "GPNEXT", "FRAME", "SURV", "TWIN", "OBS", "TRACE", "DUPRET", "BMDUP")):
                k = "check:" + l.split()[0]
                res["opstat"][k] = res["opstat"].get(k, 0) + 1
                if l.startswith("TRACE"):
                    res["distinct"].add(hashlib.md5(l.encode()).digest()[:8])
        for f in (ops, cout, mout):
            os.remove(f)
    return res


def run_engine(tier, seed):
    binp = build_harness("dup", include_c=("bitmap",))
    workdir = os.path.join(BUILD, "run", "dup-%s" % os.getpid())
    shutil.rmtree(workdir, ignore_errors=True)
    os.makedirs(workdir)
    sources = os.path.join(workdir, "sources.txt")
    snapshots.write_sources(sources, "X")
    problems = []
    ncorpus = 0
    for f in sorted(glob.glob(os.path.join(ROOT, "corpus", "dup", "*.script"))):
        script = [l for l in read_lines(f) if l and not l.startswith("#")]
        for lx in (0, 1):
            ncorpus += 1
            if script_fails(binp, os.path.join(workdir, "corpus"), script, lx):
                problems.append({"what": "corpus case %s fails" % os.path.basename(f), "seed": 0,
                                 "replay": annotate(binp, os.path.join(workdir, "corpus"), script, lx)})
                break
    nruns, n = (16, 60) if tier == "quick" else (64, 450)
    seeds = [int(seed) * 1000003 + i for i in range(nruns)]
    with ThreadPoolExecutor(min(NCPU, int(os.environ.get("VERIF_JOBS", "16")))) as ex:
        results = list(ex.map(lambda a: one_run(binp, workdir, a[0], a[1], n, sources), enumerate(seeds)))
    stats, distinct, nchecks, ncases = {}, set(), 0, 0
    samples = []
    for r in results:
        for k, v in r.get("opstat", {}).items():
            stats[k] = stats.get(k, 0) + v
        distinct |= r.get("distinct", set())
        for c in r["cases"]:
            ncases += 1
            nchecks += c["checks"]
            if len(samples) < 3 and len(c["script"]) > 4:
                samples.append(c["script"][:6])
            if c["bad"] and not problems:
                k, op, mans, cans = c["bad"]
                d = os.path.join(workdir, "shrink")
                script = shrink(binp, d, c["script"], r["libxml"])
                problems.append({"what": "dup check '%s' answered '%s' (expected '%s')" % (op[:80], mans[:160], cans), "seed": r["seed"],
                                 "replay": annotate(binp, d, script, r["libxml"])})
        if r["rc"] != 0 and not problems:
            last = r["cases"][-1]["script"] if r["cases"] else ["<none>"]
            d = os.path.join(workdir, "shrink")
            script = shrink(binp, d, last, r["libxml"])
            problems.append({"what": "abort / sanitizer report (ASan/LSan/UBSan) in the dup harness", "seed": r["seed"],
                             "replay": annotate(binp, d, script, r["libxml"]) + "# original harness output:\n# " + r["san"][-2500:].replace("\n", "\n# ") + "\n"})
    shutil.rmtree(workdir, ignore_errors=True)
    return {"evaluations": nchecks, "distinct_nontrivial": len(distinct), "cases": ncases, "distribution": stats, "buckets_hit": len(stats),
            "corpus_cases": ncorpus, "problems": problems, "samples": samples,
            "rule": "a case = load (synthetic preset or bundled XML; flags INCLUDE_DISALLOWED / IMPORT_SUPPORT / NO_DISTANCES / NO_MEMATTRS / NO_CPUKINDS; "
                    "filter presets) + 0-5 modifying calls + hwloc_topology_dup + 1-7 calls on either copy + destroy in a random order; an evaluation = one "
                    "judged line: OBS (model: exact internal state of the copy after dup, predicted state after allow/add_info/modify_infos/set_subtype, "
                    "unchanged public view of the untouched copy), PUBEQ (dump+attribute text+XML of both copies), RAWEQ (attr union bytes, userdata), "
                    "PROV (provenance walk with the recording allocator), LEN (bump model of the allocation trace = hwloc_shmem_topology_get_length), "
                    "GPNEXT, BMDUP (hwloc_bitmap_tma_dup on finite/infinite bitmaps), FRAME/SURV (untouched / surviving copy reports the same), TWIN (each copy vs a run where the other copy is destroyed right "
                    "after dup); distinct = distinct (call, return) pairs + load lines + allocation traces"}
