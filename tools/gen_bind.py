"""Translator (tie T) for C10: flag masks, policy enum and the accepted-policy list of hwloc/bind.c.

Numeric values are obtained by compiling a constants printer against the real headers (macros and enums are
evaluated by the C compiler).  The two ALLFLAGS macros are private to bind.c: their #define lines are lifted
textually (exactly one definition each, else fail closed) into the printer.  The accepted-policy list is the
`policy == HWLOC_MEMBIND_x || ...` chain of hwloc__check_membind_policy (shape-checked, else fail closed).
The flag enums of hwloc.h are parsed for their member names so that the generated obligations can state
`ALLFLAGS = OR of every documented flag` (an "unknown flag bit" is a bit outside the documented enum).
Writes lean/Hw/Gen/BindConsts.lean deterministically; returns the number of generated obligations."""
import os, re, subprocess
from common import *

OUT = os.path.join(LEAN, "Hw", "Gen", "BindConsts.lean")


class GenError(Exception):
    pass


def _one(pattern, text, what, flags=0):
    m = re.findall(pattern, text, flags)
    if len(m) != 1:
        raise GenError("bind translator: expected exactly one %s, found %d" % (what, len(m)))
    return m[0]


def _enum_members(hdr, typedef_name, prefix):
    body = _one(r"typedef\s+enum\s*\{((?:(?!typedef).)*?)\}\s*" + re.escape(typedef_name) + r"\s*;", hdr,
                "enum " + typedef_name, re.S)
    body = re.sub(r"/\*.*?\*/", "", body, flags=re.S)
    names = []
    for item in body.split(","):
        item = item.strip()
        if not item:
            continue
        m = re.fullmatch(r"(" + prefix + r"[A-Z_0-9]+)\s*=\s*[-()<0-9 \t]+", item)
        if not m:
            raise GenError("bind translator: unparseable enum item %r in %s" % (item, typedef_name))
        names.append(m.group(1))
    if not names:
        raise GenError("bind translator: empty enum " + typedef_name)
    return names


def extract():
    bind_c = open(os.path.join(REPO, "hwloc", "bind.c")).read()
    hdr = open(os.path.join(REPO, "include", "hwloc.h")).read()
    cpu_def = _one(r"^#define\s+HWLOC_CPUBIND_ALLFLAGS\s+(\([^\n\\]*\))\s*$", bind_c, "#define HWLOC_CPUBIND_ALLFLAGS", re.M)
    mem_def = _one(r"^#define\s+HWLOC_MEMBIND_ALLFLAGS\s+(\([^\n\\]*\))\s*$", bind_c, "#define HWLOC_MEMBIND_ALLFLAGS", re.M)
    for d in (cpu_def, mem_def):
        if not re.fullmatch(r"\(\s*HWLOC_(CPU|MEM)BIND_[A-Z_]+(\s*\|\s*HWLOC_(CPU|MEM)BIND_[A-Z_]+)*\s*\)", d):
            raise GenError("bind translator: ALLFLAGS macro has an unexpected shape: " + d)
    body = _one(r"hwloc__check_membind_policy\s*\(\s*hwloc_membind_policy_t\s+policy\s*\)\s*\{(.*?)\n\}", bind_c,
                "hwloc__check_membind_policy body", re.S)
    norm = re.sub(r"\s+", " ", body).strip()
    m = re.fullmatch(r"if \((policy == HWLOC_MEMBIND_[A-Z_]+(?: \|\| policy == HWLOC_MEMBIND_[A-Z_]+)*)\) return 0; return -1;", norm)
    if not m:
        raise GenError("bind translator: hwloc__check_membind_policy has an unexpected shape: " + norm)
    accepted = re.findall(r"policy == (HWLOC_MEMBIND_[A-Z_]+)", m.group(1))
    cpu_flags = _enum_members(hdr, "hwloc_cpubind_flags_t", "HWLOC_CPUBIND_")
    mem_flags = _enum_members(hdr, "hwloc_membind_flags_t", "HWLOC_MEMBIND_")
    policies = _enum_members(hdr, "hwloc_membind_policy_t", "HWLOC_MEMBIND_")
    # every use of the masks in bind.c must be the rejecting prologue `flags & ~MASK`
    for mask in ("HWLOC_CPUBIND_ALLFLAGS", "HWLOC_MEMBIND_ALLFLAGS"):
        uses = re.findall(r"[^\n]*\b" + mask + r"\b[^\n]*", bind_c)
        for u in uses:
            if u.startswith("#define"):
                continue
            if not re.search(r"flags & ~" + mask, u):
                raise GenError("bind translator: unexpected use of %s: %s" % (mask, u.strip()))
    return cpu_def, mem_def, accepted, cpu_flags, mem_flags, policies


def evaluate(cpu_def, mem_def, names):
    d = os.path.join(BUILD, "gen")
    os.makedirs(d, exist_ok=True)
    src = os.path.join(d, "bind_consts.c")
    exe = os.path.join(d, "bind_consts")
    with open(src, "w") as f:
        f.write('#include <stdio.h>\n#include "hwloc.h"\n')
        f.write("#define HWLOC_CPUBIND_ALLFLAGS %s\n#define HWLOC_MEMBIND_ALLFLAGS %s\n" % (cpu_def, mem_def))
        f.write("int main(void) {\n")
        for n in names + ["HWLOC_CPUBIND_ALLFLAGS", "HWLOC_MEMBIND_ALLFLAGS"]:
            f.write('  printf("%s %%lld\\n", (long long)(%s));\n' % (n, n))
        f.write("  return 0;\n}\n")
    r = run(["gcc", "-w"] + config_include_dirs() + [src, "-o", exe])
    if r.returncode != 0:
        raise GenError("bind translator: constants printer does not compile:\n" + r.stdout[-1500:])
    r = run([exe])
    if r.returncode != 0:
        raise GenError("bind translator: constants printer failed")
    vals = {}
    for line in r.stdout.split("\n"):
        t = line.split()
        if len(t) == 2:
            vals[t[0]] = int(t[1])
    return vals


def lean_name(c):
    parts = c.lower().split("_")[1:]          # drop HWLOC
    return parts[0] + "".join(p.capitalize() for p in parts[1:])


def int_lit(v):
    return "(%d)" % v if v < 0 else "%d" % v


def generate():
    cpu_def, mem_def, accepted, cpu_flags, mem_flags, policies = extract()
    vals = evaluate(cpu_def, mem_def, cpu_flags + mem_flags + policies)
    for n in cpu_flags + mem_flags + policies + accepted:
        if n not in vals:
            raise GenError("bind translator: no value for " + n)
    for n in cpu_flags + mem_flags:
        if vals[n] <= 0:
            raise GenError("bind translator: flag %s is not positive" % n)
    L = ["/- GENERATED by tools/gen_bind.py from hwloc/bind.c and include/hwloc.h — do not edit. -/",
         "namespace Hw.Gen.BindConsts", ""]
    for n in cpu_flags + mem_flags:
        L.append("def %s : Nat := %d" % (lean_name(n), vals[n]))
    for n in policies:
        L.append("def %s : Int := %s" % (lean_name(n), int_lit(vals[n])))
    L.append("")
    L.append("/-- `%s` as evaluated by the C compiler -/" % cpu_def)
    L.append("def cpubindAllFlags : Nat := %d" % vals["HWLOC_CPUBIND_ALLFLAGS"])
    L.append("/-- `%s` as evaluated by the C compiler -/" % mem_def)
    L.append("def membindAllFlags : Nat := %d" % vals["HWLOC_MEMBIND_ALLFLAGS"])
    L.append("/-- every member of hwloc_cpubind_flags_t / hwloc_membind_flags_t in hwloc.h -/")
    L.append("def cpubindDocumentedFlags : List Nat := [%s]" % ", ".join(lean_name(n) for n in cpu_flags))
    L.append("def membindDocumentedFlags : List Nat := [%s]" % ", ".join(lean_name(n) for n in mem_flags))
    L.append("/-- the policies accepted by hwloc__check_membind_policy, in source order -/")
    L.append("def acceptedPolicies : List Int := [%s]" % ", ".join(lean_name(n) for n in accepted))
    L.append("/-- every member of hwloc_membind_policy_t -/")
    L.append("def allPolicies : List Int := [%s]" % ", ".join(lean_name(n) for n in policies))
    L.append("")
    obligations = [
        ("cpubind_allflags_documented", "cpubindAllFlags = cpubindDocumentedFlags.foldl (· ||| ·) 0"),
        ("membind_allflags_documented", "membindAllFlags = membindDocumentedFlags.foldl (· ||| ·) 0"),
        ("accepted_policies_documented", "acceptedPolicies.all (fun p => allPolicies.contains p) = true"),
        ("mixed_not_accepted", "acceptedPolicies.contains membindMixed = false"),
        ("accepted_are_all_but_mixed", "allPolicies.all (fun p => p == membindMixed || acceptedPolicies.contains p) = true"),
        ("cpubind_dispatch_bits_distinct", "cpubindProcess &&& cpubindThread = 0 ∧ cpubindProcess ≠ 0 ∧ cpubindThread ≠ 0"),
        ("membind_dispatch_bits_distinct", "membindProcess &&& membindThread = 0 ∧ membindProcess ≠ 0 ∧ membindThread ≠ 0"),
    ]
    for name, stmt in obligations:
        L.append("theorem %s : %s := by decide" % (name, stmt))
    L += ["", "end Hw.Gen.BindConsts", ""]
    import gen_tables
    gen_tables.write_if_changed(OUT, "\n".join(L))
    return len(obligations)


if __name__ == "__main__":
    print(generate())
