"""Engine `restrict` (C08): generated plans (load a topology, insert Misc objects, hwloc_topology_allow, 1-4 restricts) run on
the real library; around every hwloc_topology_restrict() the harness dumps the whole topology (harness/dump.h).  The Lean
driver predicts the AFTER state from the BEFORE dump with the model lean/Hw/Topo/Restrict.lean and compares:
return/errno; on EINVAL the AFTER dump must equal the BEFORE dump token for token; on success the DFS sequence of
(gp_index, type, os_index, the four sets, gp_index of the parent) over all objects (= surviving set, sets, parents and the order
of each of the four children lists), the allowed cpuset/nodeset, unchanged flags/filters, and preservation of every clause of
the well-formedness oracle wfCheck.  A good share of the topologies get user distances (homogeneous and mixed-type matrices), CPU
kinds and memory attribute values before the chain (the bundled XML files bring their own); they are observed through the public API
before the first restrict (adopted) and after the restricts (after the last call of a chain and after half of the others, partly with a
mask, so that lazily refreshed caches stay stale across calls), and compared with the prediction of the C13/C14/C15 models composed
in lean/Hw/Topo/RestrictSide.lean over the tree the C08 model predicts.  Level merging (hwloc_filter_levels_keep_structure after the restrict) is MODELLED
(connectLevels + keepStructure), not compared modulo."""
import os, shutil
from common import *
from diffrun import *
from eng_generic import DiffEngine
import snapshots

MAX_XML_BYTES = 400000

class RestrictEngine(DiffEngine):
    sources = None

    def _sources(self, workdir):
        p = os.path.join(workdir, "sources.txt")
        if not os.path.exists(p):
            with open(p, "w") as f:
                for x in snapshots.xml_files():
                    try:
                        if os.path.getsize(x) <= MAX_XML_BYTES:
                            f.write("X %s\n" % x)
                    except OSError:
                        pass
        return p

    def _env(self, seed=None, leaks=True):
        e = DiffEngine._env(self, seed, leaks)
        for k in list(e):
            if k.startswith("HWLOC_"):
                del e[k]
        e["HWLOC_HIDE_ERRORS"] = "2"
        e["LC_ALL"] = "C"
        return e

    @staticmethod
    def _model(trace, mout):
        """run the driver on the trace; keep only the per-op answers"""
        raw = mout + ".raw"
        # VERIF_C08_SELFCHECK=1 (development aid, no verdict value): also compare connectLevels(BEFORE tree) with the BEFORE levels
        args = ["selfcheck"] if os.environ.get("VERIF_C08_SELFCHECK") else []
        run_model("restrict", trace, raw, args)
        with open(raw, errors="replace") as f, open(mout, "w") as g:
            for l in f:
                if l.rstrip("\n") != ".":
                    g.write(l)
        os.remove(raw)

    def one_run(self, binp, workdir, idx, seed, n):
        d = os.path.join(workdir, "r%d" % idx)
        os.makedirs(d, exist_ok=True)
        ops, cout, mout, st, trace = [os.path.join(d, x) for x in ("ops.txt", "c.out", "m.out", "stats.txt", "trace.txt")]
        r = run([binp, str(n), ops, cout, st, trace, self._sources(workdir)], env=self._env(seed))
        res = {"seed": seed, "rc": r.returncode, "san": r.stdout[-3000:] if r.returncode else "",
               "nops": 0, "ndiff": 0, "nbenign": 0, "firsts": [], "ops": [], "c": [], "stats": {}}
        if os.path.exists(ops) and os.path.exists(trace):
            self._model(trace, mout)
            o, c, m = read_lines(ops), read_lines(cout), read_lines(mout)
            if r.returncode != 0:
                o = o[:len(c) + 1]
                m = m[:len(c)]
                c = c[:len(o)]
                nd, nb, firsts = compare_streams(o[:len(c)], c, m, self.classify)
            else:
                nd, nb, firsts = compare_streams(o, c, m, self.classify)
            res.update(nops=len(o), ndiff=nd, nbenign=nb, firsts=firsts, ops=o, c=c)
            if os.path.exists(st):
                for l in read_lines(st):
                    t = l.split()
                    if len(t) == 2:
                        res["stats"][t[0]] = int(t[1])
            try:
                os.remove(trace)
            except OSError:
                pass
        return res

    def shrink(self, binp, workdir, ops):
        """every `topo` line starts from scratch: first cut the history down to the last topology, then delta-debug"""
        d = os.path.join(workdir, "shrink")
        starts = [i for i, o in enumerate(ops) if o.startswith("topo ")]
        if starts and starts[-1] > 0 and self.fails(binp, d, ops[starts[-1]:]):
            ops = ops[starts[-1]:]
        elif not self.fails(binp, d, ops):
            # not reproducible by a replay (a crash that depends on the heap history of the generating process):
            # report the tail instead of delta-debugging a list that never fails
            return ops[-6:]
        return ddmin(ops, lambda sub: self.fails(binp, d, sub))

    def replay_pair(self, binp, d, ops):
        os.makedirs(d, exist_ok=True)
        p, c, m, trace = [os.path.join(d, x) for x in ("ops.txt", "c.out", "m.out", "trace.txt")]
        open(p, "w").write("\n".join(ops) + "\n")
        for f in (c, trace):
            if os.path.exists(f):
                os.remove(f)
        r = run([binp, "--replay", p, c, trace], env=self._env(leaks=False))
        if os.path.exists(trace):
            self._model(trace, m)
        else:
            open(m, "w").close()
        return r, read_lines(c) if os.path.exists(c) else [], read_lines(m)


def distinct_key(op, c):
    t = op.split()
    if t and t[0] in ("restrict", "observe"):
        return op + "|" + c
    return "-"          # loads / Misc inserts are context, not cases


ENGINE = RestrictEngine(
    "restrict", include_c=("topology",), stateful=True, distinct_key=distinct_key,
    sizes={"quick": (16, 4800), "thorough": (64, 20000)},
    rule="each case = one hwloc_topology_restrict(set, flags) on the current state of a loaded topology (generated synthetic "
         "strings incl. attached NUMA nodes and memory-side caches, bundled XML files with I/O objects, Misc objects inserted below "
         "random parents, user Groups (with and without dont_merge) inserted above random objects, custom allowed sets; type filters: default / all KEEP_ALL but Group / KEEP_STRUCTURE everywhere / I/O "
         "kept / random); sets: subset, superset, disjoint, infinite, straddling siblings, single PU/node, one NUMA node, all "
         "but one object/package, object sets, the other kind of set; all 32 flag words plus invalid bits; 1-4 calls "
         "per topology (2-5 when side structures are followed); side structures: 0-3 user distances matrices (homogeneous over "
         "NUMA/PU/Core/Package/caches/Groups/I-O/Misc, mixed types over 2-7 random objects, named or not, 8 kind words), 2-4 CPU kinds "
         "(random subsets, object cpusets, halves, PUs outside the topology; forced efficiencies -1..5 with duplicates; CoreType / "
         "Frequency infos), 0-2 registered memory attributes + 2-8 values on NUMA (80%) or other targets for them and "
         "Bandwidth/Latency/ReadBandwidth/WriteLatency with cpuset and object initiators; public-API observation compared after the "
         "last restrict of a chain and after half of the others; distinct = distinct (set, flags, result) triples")


def run_engine(tier, seed):
    res = ENGINE.run_engine(tier, seed)
    dist = res.get("distribution", {})
    res["evaluations_restrict_calls"] = sum(v for k, v in dist.items() if k.startswith("result."))
    return res
