#!/bin/bash
# usage: tools/seed_try.sh <PID> <seed-dir-with-patch.diff> [name]
# copies the seed into /verif/seeded/<name>, applies the patch to /repo, runs the quick check, reverts, records the result
set -u
PID=$1; SRC=$2; NAME=${3:-$PID}
D=/verif/seeded/$NAME
mkdir -p $D
cp $SRC/patch.diff $D/patch.diff
for f in demo.c demo.sh meta.json; do [ -f $SRC/$f ] && cp $SRC/$f $D/$f; done
cd /verif
if ! git -C /repo apply --check $D/patch.diff 2>/dev/null; then echo "patch does not apply"; exit 2; fi
git -C /repo apply $D/patch.diff
OUT=$(./check $PID --tier quick 2>&1); RC=$?
git -C /repo checkout -- .
echo "$OUT" | tail -25 > $D/check_output.txt
LAST=$(echo "$OUT" | grep -E "^(VIOLATION|OK)" | tail -1)
python3 - "$D" "$PID" "$RC" "$LAST" <<'PY'
import json,sys,os
d,pid,rc,last=sys.argv[1:5]
p=os.path.join(d,'meta.json')
m=json.load(open(p)) if os.path.exists(p) else {}
m.setdefault('property',pid)
m['verif_result']={'check':'./check %s --tier quick'%pid,'exit':int(rc),'verdict_line':last,'caught':int(rc)==1 and last.startswith('VIOLATION')}
json.dump(m,open(p,'w'),indent=1)
print(pid, 'CAUGHT' if m['verif_result']['caught'] else 'MISSED', last)
PY
# restore evidence of the unchanged tree for this property (seed_all.sh does it once at the end: SEED_NO_RESTORE=1)
[ -n "${SEED_NO_RESTORE:-}" ] || ./check $PID --tier quick >/dev/null 2>&1
