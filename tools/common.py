"""Shared machinery for /verif checks: building the implementation under test from /repo's
working tree, building the Lean model, auditing proofs, writing evidence.  stdlib only."""
import hashlib, json, os, re, subprocess, sys, time, shutil, glob
from concurrent.futures import ThreadPoolExecutor

ROOT = os.path.dirname(os.path.dirname(os.path.abspath(__file__)))
REPO = os.environ.get("VERIF_REPO", "/repo")
BUILD = os.path.join(ROOT, ".build")
LEAN = os.path.join(ROOT, "lean")
HARNESS = os.path.join(ROOT, "harness")
EVID = os.path.join(ROOT, "evidence")
REPLAYS = os.path.join(ROOT, "replays")
NCPU = os.cpu_count() or 4

LIB_SOURCES = ["topology", "traversal", "distances", "memattrs", "cpukinds", "components", "bind",
               "bitmap", "pci-common", "diff", "shmem", "misc", "base64", "topology-noos",
               "topology-synthetic", "topology-xml", "topology-xml-nolibxml", "topology-xml-libxml",
               "topology-pci", "topology-linux", "topology-hardwired", "topology-x86"]

VARIANTS = {
    "asan": ["-g", "-O1", "-fsanitize=address,undefined", "-fno-sanitize-recover=all", "-fno-omit-frame-pointer"],
    "tsan": ["-g", "-O1", "-fsanitize=thread"],
    "plain": ["-g", "-O2"],
    # MemorySanitizer (clang only): use of uninitialised memory, which ASan cannot see (support for C06; nolibxml back end only,
    # because libxml2 itself is not instrumented)
    "msan": ["-g", "-O1", "-fsanitize=memory", "-fsanitize-memory-track-origins=2", "-fno-omit-frame-pointer", "-DVERIF_MSAN"],
}
COMPILER = {"msan": "clang-14"}


def compiler(variant):
    return COMPILER.get(variant, "gcc")


def have_compiler(variant):
    return shutil.which(compiler(variant)) is not None
LINK_LIBS = ["-lm", "-ludev", "-lpciaccess", "-lxml2", "-lpthread"]
GUARD = "HWLOC_VERIF"


def log(*a):
    print(*a, file=sys.stderr, flush=True)


def run(cmd, **kw):
    kw.setdefault("stdout", subprocess.PIPE)
    kw.setdefault("stderr", subprocess.STDOUT)
    kw.setdefault("text", True)
    return subprocess.run(cmd, **kw)


def sha_files(paths):
    h = hashlib.sha256()
    for p in sorted(paths):
        h.update(p.encode())
        try:
            with open(p, "rb") as f:
                h.update(f.read())
        except OSError:
            h.update(b"<missing>")
    return h.hexdigest()[:16]


def repo_lib_inputs():
    files = glob.glob(os.path.join(REPO, "hwloc", "*.c")) + glob.glob(os.path.join(REPO, "hwloc", "*.h"))
    for d, _, fs in os.walk(os.path.join(REPO, "include")):
        files += [os.path.join(d, f) for f in fs if f.endswith(".h")]
    return files


def config_include_dirs():
    """-I flags.  Uses /repo's own autogen config.h; if the build products are missing, runs
    configure once out-of-tree."""
    priv = os.path.join(REPO, "include", "private", "autogen", "config.h")
    pub = os.path.join(REPO, "include", "hwloc", "autogen", "config.h")
    incs = ["-I" + os.path.join(REPO, "include")]
    if os.path.exists(priv) and os.path.exists(pub):
        return incs
    cfg = os.path.join(BUILD, "config")
    if not os.path.exists(os.path.join(cfg, "include", "private", "autogen", "config.h")):
        os.makedirs(cfg, exist_ok=True)
        log("[build] running configure out-of-tree (config.h missing in /repo)")
        r = run([os.path.join(REPO, "configure"), "--disable-plugins", "--quiet"], cwd=cfg)
        if r.returncode != 0:
            raise RuntimeError("configure failed:\n" + r.stdout[-2000:])
    return ["-I" + os.path.join(cfg, "include")] + incs


def cflags(variant):
    return (VARIANTS[variant] + ["-DHAVE_CONFIG_H", "-DHWLOC_INSIDE_LIBHWLOC", "-D" + GUARD,
            '-DHWLOC_PLUGINS_PATH="/nonexistent"', '-DRUNSTATEDIR="/var/run"',
            "-I/usr/include/libxml2", "-fvisibility=hidden", "-w"] + config_include_dirs())


def build_objs(variant="asan"):
    """Compile the library sources of /repo's working tree; returns (objdir, {name: path}).
    Cached by content hash of every input."""
    key = sha_files(repo_lib_inputs()) + "-" + variant
    objdir = os.path.join(BUILD, "lib-" + key)
    objs = {s: os.path.join(objdir, s + ".o") for s in LIB_SOURCES}
    if os.path.exists(os.path.join(objdir, ".done")):
        return objdir, objs
    # drop older library builds of the same variant (disk hygiene)
    for d in glob.glob(os.path.join(BUILD, "lib-*-" + variant)):
        shutil.rmtree(d, ignore_errors=True)
    os.makedirs(objdir, exist_ok=True)
    flags = cflags(variant)
    t0 = time.time()

    def cc(s):
        src = os.path.join(REPO, "hwloc", s + ".c")
        r = run([compiler(variant), "-c"] + flags + [src, "-o", objs[s]])
        return s, r.returncode, r.stdout

    with ThreadPoolExecutor(NCPU) as ex:
        res = list(ex.map(cc, LIB_SOURCES))
    bad = [(s, out) for s, rc, out in res if rc != 0]
    if bad:
        raise RuntimeError("library build failed: " + bad[0][0] + "\n" + bad[0][1][-3000:])
    open(os.path.join(objdir, ".done"), "w").close()
    log("[build] libhwloc objects (%s) in %.1fs" % (variant, time.time() - t0))
    return objdir, objs


def build_harness(name, variant="asan", include_c=(), extra_sources=(), extra_flags=(), cxx=False):
    """Build harness/<name>.c against the objects of /repo.  `include_c` lists library sources that
    the harness #includes itself (their objects are left out of the link)."""
    objdir, objs = build_objs(variant)
    src = os.path.join(HARNESS, "h_" + name + ".c")
    deps = [src] + glob.glob(os.path.join(HARNESS, "*.h")) + [os.path.join(HARNESS, s) for s in extra_sources]
    key = sha_files(deps) + "-" + os.path.basename(objdir)
    vname = name if variant == "asan" else "%s.%s" % (name, variant)
    out = os.path.join(BUILD, "bin", "%s-%s" % (vname, key))
    if os.path.exists(out):
        return out
    os.makedirs(os.path.dirname(out), exist_ok=True)
    for old in glob.glob(os.path.join(BUILD, "bin", vname + "-*")):   # older binaries and their link maps
        try:
            os.remove(old)
        except OSError:
            pass
    link_objs = [p for s, p in objs.items() if s not in include_c]
    cmd = ([compiler(variant)] + cflags(variant) + ["-I" + os.path.join(REPO, "hwloc"), "-I" + HARNESS,
           "-I" + os.path.join(REPO, "utils", "hwloc")] + list(extra_flags) +
           [src] + [os.path.join(HARNESS, s) for s in extra_sources] + link_objs + LINK_LIBS + ["-Wl,-Map=" + out + ".map", "-o", out])
    r = run(cmd)
    if r.returncode != 0:
        raise RuntimeError("harness build failed (%s):\n%s" % (name, r.stdout[-4000:]))
    return out


# ---------------------------------------------------------------- Lean side

def lake_build(targets):
    """returns (ok, output)"""
    r = run(["lake", "build"] + list(targets), cwd=LEAN)
    return r.returncode == 0, r.stdout


def hwmodel_path():
    return os.path.join(LEAN, ".lake", "build", "bin", "hwmodel")


FORBIDDEN = re.compile(r"\b(sorry|admit|native_decide|bv_decide|implemented_by|unsafe)\b|^\s*axiom\s|maxHeartbeats\s+0")
ALLOWED_AXIOMS = {"propext", "Classical.choice", "Quot.sound"}


def strip_comments(text):
    text = re.sub(r"/-.*?-/", "", text, flags=re.S)
    return re.sub(r"--.*", "", text)


def audit_sources():
    """grep the Lean library for forbidden constructs (comments stripped)."""
    hits = []
    for d, _, fs in os.walk(os.path.join(LEAN, "Hw")):
        for f in fs:
            if f.endswith(".lean"):
                p = os.path.join(d, f)
                for ln, line in enumerate(strip_comments(open(p).read()).splitlines(), 1):
                    if FORBIDDEN.search(line):
                        hits.append("%s:%d: %s" % (os.path.relpath(p, ROOT), ln, line.strip()))
    return hits


def audit_axioms(module, theorems):
    """`#print axioms` on every registered theorem; returns (ok_names, problems{name: msg})."""
    os.makedirs(os.path.join(BUILD, "audit"), exist_ok=True)
    f = os.path.join(BUILD, "audit", module.replace(".", "_") + ".lean")
    with open(f, "w") as fh:
        fh.write("import %s\n" % module)
        for t in theorems:
            fh.write("#print axioms %s\n" % t)
    r = run(["lake", "env", "lean", f], cwd=LEAN)
    out = r.stdout
    ok, bad = [], {}
    # parse output blocks
    blocks = re.split(r"(?m)^(?=')", out)
    seen = {}
    for b in blocks:
        m = re.match(r"'([^']+)' (depends on axioms: \[([^\]]*)\]|does not depend on any axioms)", b, flags=re.S)
        if m:
            axs = set(x.strip() for x in (m.group(3) or "").replace("\n", " ").split(",") if x.strip())
            seen[m.group(1)] = axs
    for t in theorems:
        full = [k for k in seen if k == t or k.endswith("." + t)]
        if not full:
            bad[t] = "not found / does not compile: " + out[-400:]
            continue
        extra = seen[full[0]] - ALLOWED_AXIOMS
        if extra:
            bad[t] = "uses axioms " + ",".join(sorted(extra))
        else:
            ok.append(t)
    return ok, bad, seen


def leanchecker(module):
    r = run(["lake", "env", "leanchecker", module], cwd=LEAN)
    return r.returncode == 0, r.stdout[-1000:]


# ---------------------------------------------------------------- evidence / verdict

STD_TRUSTED = [
    "Lean 4.33 kernel; axioms limited to propext, Classical.choice, Quot.sound (re-audited by #print axioms on every run)",
    "the statements in lean/Hw/Props as renderings of the English property (DESIGN.md section 4)",
    "the differential harness + line-protocol driver (tie D): model = code is established on the generated cases only",
    "gcc, ASan/UBSan, glibc, this sandbox's kernel",
]


def write_evidence(pid, tier, seed, coverage, wall, violations=0, assumptions=None, level="proof"):
    os.makedirs(EVID, exist_ok=True)
    ev = {"property_id": pid, "tier": tier, "seed": int(seed), "level": level, "coverage": coverage,
          "assumptions": assumptions or [], "wall_s": round(wall, 2), "violations": int(violations)}
    with open(os.path.join(EVID, pid + ".json"), "w") as f:
        json.dump(ev, f, indent=1)
    return ev


def load_known():
    p = os.path.join(ROOT, "known_findings.json")
    if not os.path.exists(p):
        return []
    return json.load(open(p)).get("findings", [])


def write_replay(pid, seed, text, suffix="txt"):
    os.makedirs(REPLAYS, exist_ok=True)
    p = os.path.join(REPLAYS, "%s-%s.%s" % (pid, seed, suffix))
    with open(p, "w") as f:
        f.write(text)
    return p
