"""Generic differential engine: N parallel harness processes each generate an op file + C results,
the compiled Lean driver answers the same op file, the two streams are compared line by line.
On a disagreement or a harness crash the op list is delta-debugged (stateful replay) into a minimal
annotated replay."""
import os, shutil, hashlib, glob
from concurrent.futures import ThreadPoolExecutor
from common import *
from diffrun import *


class DiffEngine:
    def __init__(self, engine, harness=None, include_c=(), classify=None, sizes=None, rule="", stateful=True,
                 distinct_key=None, model_args=(), env=None):
        self.engine = engine
        self.harness = harness or engine
        self.include_c = include_c
        self.classify = classify or (lambda op, c, m: "diff")
        self.sizes = sizes or {"quick": (16, 20000), "thorough": (64, 150000)}
        self.rule = rule
        self.stateful = stateful          # ops depend on earlier ops (shrink by ddmin over prefixes)
        self.distinct_key = distinct_key or (lambda op, c: op.split()[0] + "|" + c)
        self.model_args = list(model_args)
        self.env = env or {}

    def _env(self, seed=None, leaks=True):
        e = dict(os.environ, ASAN_OPTIONS="detect_leaks=%d:abort_on_error=0" % (1 if leaks else 0),
                 UBSAN_OPTIONS="print_stacktrace=1")
        e.update(self.env)
        if seed is not None:
            e["VERIF_SEED"] = str(seed)
        return e

    def one_run(self, binp, workdir, idx, seed, n):
        d = os.path.join(workdir, "r%d" % idx)
        os.makedirs(d, exist_ok=True)
        ops, cout, mout, st = [os.path.join(d, x) for x in ("ops.txt", "c.out", "m.out", "stats.txt")]
        r = run([binp, str(n), ops, cout, st], env=self._env(seed))
        res = {"seed": seed, "rc": r.returncode, "san": r.stdout[-3000:] if r.returncode else "",
               "nops": 0, "ndiff": 0, "nbenign": 0, "firsts": [], "ops": [], "c": [], "stats": {}}
        if os.path.exists(ops):
            run_model(self.engine, ops, mout, self.model_args)
            o, c, m = read_lines(ops), read_lines(cout), read_lines(mout)
            if r.returncode != 0:
                o = o[:len(c) + 1]           # the op after the last answered one crashed
                m = m[:len(c)]
                c = c[:len(o)]
                nd, nb, firsts = compare_streams(o[:len(c)], c, m, self.classify)
            else:
                nd, nb, firsts = compare_streams(o, c, m, self.classify)
            res.update(nops=len(o), ndiff=nd, nbenign=nb, firsts=firsts, ops=o, c=c)
            if os.path.exists(st):
                for l in read_lines(st):
                    t = l.split()
                    if len(t) == 2:
                        res["stats"][t[0]] = int(t[1])
        return res

    def replay_pair(self, binp, d, ops):
        os.makedirs(d, exist_ok=True)
        p, c, m = [os.path.join(d, x) for x in ("ops.txt", "c.out", "m.out")]
        open(p, "w").write("\n".join(ops) + "\n")
        r = run([binp, "--replay", p, c], env=self._env(leaks=False))
        run_model(self.engine, p, m, self.model_args)
        return r, read_lines(c) if os.path.exists(c) else [], read_lines(m)

    def fails(self, binp, d, ops):
        r, cl, ml = self.replay_pair(binp, d, ops)
        if r.returncode != 0:
            return True
        nd, _, _ = compare_streams(ops, cl, ml, self.classify)
        return nd > 0

    def shrink(self, binp, workdir, ops):
        d = os.path.join(workdir, "shrink")
        if not self.stateful:
            # independent cases: find one failing line
            for o in reversed(ops[-50:]):
                if self.fails(binp, d, [o]):
                    return [o]
        return ddmin(ops, lambda sub: self.fails(binp, d, sub))

    def replay_text(self, binp, workdir, ops):
        r, cl, ml = self.replay_pair(binp, os.path.join(workdir, "shrink"), ops)
        out = ["# engine %s: op | hwloc (C) | Lean model      (harness h_%s --replay <ops> <out>)" % (self.engine, self.harness)]
        for i, o in enumerate(ops):
            ci = cl[i] if i < len(cl) else "<none: harness died here>"
            mi = ml[i] if i < len(ml) else "<none>"
            out.append("%s | %s | %s%s" % (o, ci, mi, "" if ci == mi else "   <== DIFFERS"))
        if r.returncode != 0:
            out.append("# harness exit %d:\n# %s" % (r.returncode, r.stdout[-2500:].replace("\n", "\n# ")))
        return "\n".join(out) + "\n"

    def run_corpus(self, binp, workdir):
        """replay minimised past failures first"""
        problems = []
        n = 0
        for f in sorted(glob.glob(os.path.join(ROOT, "corpus", self.engine, "*.ops"))):
            ops = [l for l in read_lines(f) if l and not l.startswith("#")]
            n += len(ops)
            if self.fails(binp, os.path.join(workdir, "corpus"), ops):
                problems.append({"what": "corpus case %s: C and model disagree (or harness crash)" % os.path.basename(f),
                                 "seed": 0, "replay": self.replay_text(binp, workdir, ops)})
        return n, problems

    def run_engine(self, tier, seed):
        binp = build_harness(self.harness, include_c=self.include_c)
        workdir = os.path.join(BUILD, "run", "%s-%s" % (self.engine, os.getpid()))
        shutil.rmtree(workdir, ignore_errors=True)
        os.makedirs(workdir)
        ncorpus, problems = self.run_corpus(binp, workdir)
        nruns, n = self.sizes[tier]
        seeds = [int(seed) * 1000003 + i for i in range(nruns)]
        with ThreadPoolExecutor(NCPU) as ex:
            results = list(ex.map(lambda a: self.one_run(binp, workdir, a[0], a[1], n), enumerate(seeds)))
        total = sum(r["nops"] for r in results) + ncorpus
        benign = sum(r["nbenign"] for r in results)
        stats, distinct = {}, set()
        for r in results:
            for k, v in r["stats"].items():
                stats[k] = stats.get(k, 0) + v
            for o, c in zip(r["ops"], r["c"]):
                distinct.add(hashlib.md5(self.distinct_key(o, c).encode()).digest()[:8])
        for r in results:
            if problems:
                break
            if r["rc"] != 0 or r["ndiff"] > 0:
                ops = r["ops"]
                if r["ndiff"] > 0:
                    ops = ops[: r["firsts"][0][0] + 1]
                small = self.shrink(binp, workdir, ops)
                what = ("sanitizer report / abort in the real code" if r["rc"] != 0 and r["ndiff"] == 0
                        else "C and model disagree")
                problems.append({"what": what, "seed": r["seed"], "replay": self.replay_text(binp, workdir, small)})
        sample = []
        if results and results[0]["ops"]:
            k = min(100, max(0, len(results[0]["ops"]) - 12))
            sample = ["%s -> %s" % (o, c) for o, c in list(zip(results[0]["ops"], results[0]["c"]))[k:k + 8]]
        shutil.rmtree(workdir, ignore_errors=True)
        return {"evaluations": total, "distinct_nontrivial": len(distinct), "benign_repr_diffs": benign,
                "distribution": stats, "buckets_hit": len(stats), "corpus_cases": ncorpus, "problems": problems,
                "samples": sample, "rule": self.rule}
