"""Engine `shmem` (C19): shared-memory topologies.  Parallel harness processes (harness/h_shmem.c) run episodes
   load -> modify -> get_length -> write -> adopt -> compare -> modifying calls -> destroy -> re-adopt
on synthetic and bundled XML topologies; every protocol line is answered by the Lean model (`hwmodel shmem`,
lean/Driver/Shmem.lean) and compared exactly with what the real code did.

An episode is one plan line; a disagreement is shrunk on the plan (fewer modifications, simpler variant, offset 0)
and reported with the differing protocol lines.  No input class is excluded: the replays of the former findings
F14 / F16 / F30 / F31 (fixed in /repo) are ordinary corpus cases (corpus/shmem/F*.plan)."""
import os, shutil, hashlib, glob, re
from concurrent.futures import ThreadPoolExecutor
from common import *
from diffrun import *
import snapshots

ENGINE = "shmem"
SWITCHES = []


def harness_env(seed=None, libxml=True, switches=None, leaks=True):
    e = dict(os.environ, ASAN_OPTIONS="detect_leaks=%d:abort_on_error=0:allow_user_segv_handler=1" % (1 if leaks else 0),
             UBSAN_OPTIONS="print_stacktrace=1", LC_ALL="C", HWLOC_HIDE_ERRORS="2")
    for k in list(e):
        if k.startswith("HWLOC_") and k != "HWLOC_HIDE_ERRORS":
            del e[k]
    if not libxml:
        e["HWLOC_LIBXML"] = "0"
    for s in SWITCHES:                      # switches given to ./check are honoured (they turn known findings into verdicts)
        if s in os.environ:
            e[s] = os.environ[s]
    if switches is not None:
        for s in SWITCHES:
            e.pop(s, None)
        e.update(switches)
    if seed is not None:
        e["VERIF_SEED"] = str(seed)
    return e


def compare(ops, c_lines, m_lines):
    """exact comparison; returns (ndiff, nforeign, firsts[(index, episode, op, c, m)]).
    `foreign`: the ORIGINAL topology itself is judged not well-formed by the C01 oracle (a defect of whatever built it,
    not of shmem); the same verdict on its adopted copy is then what C19 demands."""
    ndiff = nforeign = 0
    firsts = []
    ep = None
    orig_wf = "ok"
    n = max(len(ops), len(c_lines), len(m_lines))
    for i in range(n):
        o = ops[i] if i < len(ops) else "<none>"
        c = c_lines[i] if i < len(c_lines) else "<missing>"
        m = m_lines[i] if i < len(m_lines) else "<missing>"
        if o.startswith("EP "):
            ep = o.split()[1]
            orig_wf = "ok"
        if c == m:
            continue
        if o == "END orig" and m.startswith("stored wf=FAIL"):
            orig_wf = m[len("stored wf="):]
            nforeign += 1
            continue
        if o.startswith("END a") and orig_wf != "ok" and m == "EQUIV ok wf=" + orig_wf:
            nforeign += 1
            continue
        ndiff += 1
        if len(firsts) < 6:
            firsts.append((i, ep, o if len(o) < 400 else o[:400] + " ...", c, m))
    return ndiff, nforeign, firsts


def run_pair(binp, d, mode_args, env):
    """runs the harness, then the model on its op file; returns (rc, output, ops, c, m)"""
    os.makedirs(d, exist_ok=True)
    ops, cout, mout = [os.path.join(d, x) for x in ("ops.txt", "c.out", "m.out")]
    for p in (ops, cout, mout):
        if os.path.exists(p):
            os.remove(p)
    r = run([binp] + mode_args(d, ops, cout), env=env)
    o = c = m = []
    if os.path.exists(ops):
        run_model(ENGINE, ops, mout)
        o, c, m = read_lines(ops), read_lines(cout), read_lines(mout)
    return r.returncode, r.stdout[-3000:], o, c, m


def replay_plan(binp, d, plan_lines, libxml=True, switches=None):
    os.makedirs(d, exist_ok=True)
    plan = os.path.join(d, "plan.txt")
    with open(plan, "w") as f:
        f.write("\n".join(plan_lines) + "\n")
    return run_pair(binp, d, lambda dd, ops, cout: ["replay", plan, dd, ops, cout], harness_env(None, libxml, switches, leaks=False))


def plan_fails(binp, d, plan_line, libxml, switches=None):
    rc, out, o, c, m = replay_plan(binp, d, [plan_line], libxml, switches)
    if rc != 0:
        return True
    if len(c) < len(o):
        return True
    nd, _, _ = compare(o, c, m)
    return nd > 0


def shrink_plan(binp, d, plan_line, libxml, switches=None):
    """<id> <kind> <tflags> <miscall> <seed> <nmods> <offpages> <variant> <source...>"""
    t = plan_line.split(None, 8)
    if len(t) < 9:
        return plan_line

    def mk(tt):
        return " ".join(tt)
    best = t
    # fewest modifications
    for nm in range(0, int(t[5])):
        cand = best[:5] + [str(nm)] + best[6:]
        if plan_fails(binp, d, mk(cand), libxml, switches):
            best = cand
            break
    for idx, val in ((7, "0"), (6, "0"), (3, "0"), (2, "0")):
        if best[idx] != val:
            cand = list(best)
            cand[idx] = val
            if plan_fails(binp, d, mk(cand), libxml, switches):
                best = cand
    return mk(best)


def replay_text(binp, d, plan_line, libxml=True, switches=None, why=""):
    rc, out, o, c, m = replay_plan(binp, d, [plan_line], libxml, switches)
    nd, nf, firsts = compare(o, c, m)
    sw = " ".join("%s=%s" % kv for kv in sorted((switches or {}).items()))
    L = ["# engine shmem (C19).  Replay: ./check C19 --replay <this file>   (HWLOC_LIBXML=%s%s)" % ("default" if libxml else "0", " " + sw if sw else ""),
         "# plan line: <id> <kind> <topology flags> <misc filter all> <seed> <nmods> <offset pages> <variant> <source>",
         plan_line]
    if why:
        L.append("# " + why)
    L.append("# %d protocol lines, %d differ; differing lines:  op | hwloc (C) | Lean model" % (len(o), nd))
    for i, ep, op, cc, mm in firsts:
        L.append("#   [%d] %s | %s | %s" % (i, op, cc, mm))
    if rc != 0 or len(c) < len(o):
        last = o[len(c)] if len(c) < len(o) else (o[-1] if o else "<none>")
        L.append("# harness exit %d while executing: %s" % (rc, last[:300]))
        L.append("# " + out[-2500:].replace("\n", "\n# "))
    return "\n".join(L) + "\n", rc, nd


def one_run(binp, workdir, idx, seed, n, sources, libxml):
    d = os.path.join(workdir, "r%d" % idx)
    os.makedirs(d, exist_ok=True)
    plan, st = os.path.join(d, "plan.txt"), os.path.join(d, "stats.txt")
    rc, out, o, c, m = run_pair(binp, d, lambda dd, ops, cout: ["gen", str(n), sources, dd, plan, ops, cout, st],
                                harness_env(seed, libxml))
    nd, nf, firsts = compare(o[:len(c)] if rc != 0 else o, c, m[:len(c)] if rc != 0 else m)
    stats = {}
    if os.path.exists(st):
        for l in read_lines(st):
            t = l.split()
            if len(t) == 2:
                stats[t[0]] = int(t[1])
    plans = {}
    for l in (read_lines(plan) if os.path.exists(plan) else []):
        if l and not l.startswith("#"):
            plans[l.split()[0]] = l
    distinct = set()
    for a, b in zip(o, c):
        k = a.split(None, 1)[0] if a else ""
        if k in ("O", "L", "TD", "TOPO"):
            continue
        key = (a if k in ("mod", "aux", "trace") else k) + "|" + b
        distinct.add(hashlib.md5(key.encode()).digest()[:8])
    sample = ["%s -> %s" % (a[:140], b) for a, b in zip(o, c) if a.split(None, 1)[0] in ("trace", "write", "adopt", "mod", "allow", "destroy", "file", "len0")][:10]
    last_ep = None
    for a in o:
        if a.startswith("EP "):
            last_ep = a.split()[1]
    return {"seed": seed, "rc": rc, "san": out if rc else "", "nops": len(o), "ndiff": nd, "nforeign": nf, "firsts": firsts,
            "stats": stats, "plans": plans, "distinct": distinct, "libxml": libxml, "last_ep": last_ep, "sample": sample,
            "episodes": len(plans)}


def run_engine(tier, seed):
    binp = build_harness(ENGINE, include_c=("shmem",))
    workdir = os.path.join(BUILD, "run", "%s-%s" % (ENGINE, os.getpid()))
    shutil.rmtree(workdir, ignore_errors=True)
    os.makedirs(workdir)
    sources = os.path.join(workdir, "sources.txt")
    nsrc = snapshots.write_sources(sources, "X")
    seed = int(seed)
    nruns, n = (8, 300) if tier == "quick" else (32, 1800)
    problems = []
    ncorpus = 0
    for f in sorted(glob.glob(os.path.join(ROOT, "corpus", ENGINE, "*.plan"))):
        for pl in [l for l in read_lines(f) if l.strip() and not l.startswith("#")]:
            ncorpus += 1
            if plan_fails(binp, os.path.join(workdir, "corpus"), pl, True):
                txt, _, _ = replay_text(binp, os.path.join(workdir, "corpus"), pl, True, why="corpus case " + os.path.basename(f))
                problems.append({"what": "corpus case %s: C and model disagree (or harness crash)" % os.path.basename(f), "seed": 0, "replay": txt})
    jobs = [(i, seed * 1000003 + i, n, sources, i % 2 == 0) for i in range(nruns)]
    with ThreadPoolExecutor(min(NCPU, 8)) as ex:
        results = list(ex.map(lambda a: one_run(binp, workdir, *a), jobs))
    stats, distinct = {}, set()
    for r in results:
        for k, v in r["stats"].items():
            stats[k] = stats.get(k, 0) + v
        distinct |= r["distinct"]
    total = sum(r["nops"] for r in results) + ncorpus
    foreign = sum(r["nforeign"] for r in results)
    for r in results:
        if problems:
            break
        if r["rc"] != 0 or r["ndiff"] > 0:
            ep = r["firsts"][0][1] if r["ndiff"] > 0 else r["last_ep"]
            pl = r["plans"].get(ep)
            d = os.path.join(workdir, "shrink")
            if pl is None:
                problems.append({"what": "harness failure outside any episode", "seed": r["seed"], "replay": r["san"]})
                continue
            if plan_fails(binp, d, pl, r["libxml"]):
                pl = shrink_plan(binp, d, pl, r["libxml"])
                txt, rc2, nd2 = replay_text(binp, d, pl, r["libxml"])
            else:
                txt, rc2, nd2 = replay_text(binp, d, pl, r["libxml"], why="NOT reproduced when the episode is replayed alone; original run: seed %d, "
                                            "first difference: %r; harness output: %s" % (r["seed"], r["firsts"][:1], r["san"][-1500:].replace("\n", " / ")))
            what = ("signal / sanitizer report / abort in the real code" if r["ndiff"] == 0 else
                    "C and model disagree: %s | C: %s | model: %s" % (r["firsts"][0][2][:80], r["firsts"][0][3], r["firsts"][0][4]))
            problems.append({"what": what, "seed": r["seed"], "replay": txt})
    sample = results[0]["sample"] if results else []
    shutil.rmtree(workdir, ignore_errors=True)
    must_hit = ["write_ok", "write_err", "adopt_ok", "adopt_einval", "adopt_ebusy", "adopt_fail", "mod_eperm", "mod_einval", "mod_ebusy", "f14", "f16",
                "kind_S", "kind_X", "dist", "mattr", "kinds", "misc", "restrict", "infos", "allow", "readopt", "twoseg", "origfirst"]
    missed = [b for b in must_hit if not stats.get(b)]
    return {"evaluations": total, "distinct_nontrivial": len(distinct), "foreign_not_wf_originals": foreign,
            "distribution": stats, "episodes": sum(r["episodes"] for r in results), "sources": nsrc, "corpus_cases": ncorpus,
            "must_hit_missed": missed, "problems": problems, "samples": sample,
            "excluded_input_classes": "none",
            "rule": "an episode = (synthetic string or bundled XML file, topology flags, Misc/I-O filters, 0-8 modifications among restrict / "
                    "distances add / memattr register+values / cpukinds register / misc insert / infos, file offset in {0,1,2,3,16,17,64} pages, "
                    "1 or 2 segments, original destroyed before or after the comparison); an evaluation = one protocol line (dump lines "
                    "included) answered by hwloc and by the model; distinct = distinct (line kind or full mod/aux/trace line, C answer) pairs"}
