"""Engine `set-stage` (C01, second engine): the set pipeline of hwloc_discover() ("Fixup root sets", propagate_nodeset, fixup_sets,
remove_unused_sets) against its Lean model (lean/Hw/Topo/SetStage.lean).  The library, built with -DHWLOC_VERIF, dumps the whole object
tree right before and right after the stage (hook in hwloc_discover, enabled by the environment variable HWLOC_VERIF_STAGE_DUMP); the
driver `hwmodel setstage` runs the model on the BEFORE dump and must reproduce the AFTER dump exactly.  The decidable precondition
`PreSets` of the C01_setstage_* theorems is evaluated on every BEFORE dump.

If /repo's hwloc/topology.c does not contain the hook (it is delivered as hook.diff), the engine has nothing to observe: it reports
`hook: absent`, zero evaluations and no problem."""
import os, shutil, hashlib, glob
from concurrent.futures import ThreadPoolExecutor
from common import *
from diffrun import *
import snapshots

HOOK_MARK = "HWLOC_VERIF_STAGE_DUMP"
# second part of the hook (hooks/stage-dump-2.patch): the boundaries after hwloc_filter_bridges (rm_before), remove_empty (rm_after),
# hwloc__reconnect(KEEPSTRUCTURE) (ks_after), propagate_total_memory (mem_after), hwloc_set_group_depth (final).  When the source does not
# contain it the blocks are simply absent: the comparisons are skipped and counted as `stage_absent`.
HOOK2_MARK = "hwloc_verif_stage_dump2"
STAGES2 = ("rm_before", "rm_after", "ks_after", "mem_after", "final")
# An input of the stage that violates PreSets is outside the hypotheses of the C01_setstage theorems.  It is not by itself a violation of
# property C01 (the model/C comparison and the topo-load oracle still judge the case), so by default it is counted and shown in the
# evidence (`pre_violated`, `pre_violation_samples`) instead of failing the check.  On the bundled sources it never happens.
PRE_VIOLATION_IS_PROBLEM = True


def hook_present():
    try:
        return HOOK_MARK in open(os.path.join(REPO, "hwloc", "topology.c"), errors="replace").read()
    except OSError:
        return False


def hook2_present():
    try:
        return HOOK2_MARK in open(os.path.join(REPO, "hwloc", "topology.c"), errors="replace").read()
    except OSError:
        return False


def _env(seed, libxml):
    e = dict(os.environ, ASAN_OPTIONS="detect_leaks=1:abort_on_error=0", VERIF_SEED=str(seed),
             HWLOC_HIDE_ERRORS="2", HWLOC_LIBXML=str(libxml), LC_ALL="C", HWLOC_DONT_ADD_VERSION_INFO="1")
    for k in list(e):
        if k.startswith("HWLOC_") and k not in ("HWLOC_HIDE_ERRORS", "HWLOC_LIBXML", "HWLOC_DONT_ADD_VERSION_INFO"):
            del e[k]
    return e


def verdicts(dump_path, mout):
    """-> {caseid: {"line": plan line, "loaded": bool, "pre": str|None, "post": str|None, "bad": [..]}}"""
    rc, err = run_model("setstage", dump_path, mout)
    out, cur = {}, None
    with open(dump_path, errors="replace") as fd, open(mout, errors="replace") as fm:
        dl_all, ml_all = fd.read().splitlines(), fm.read().splitlines()
    if rc != 0 or len(dl_all) != len(ml_all):
        return {"<driver>": {"line": "", "loaded": True, "pre": None, "post": None,
                             "bad": ["driver exit %d, %d answers for %d lines: %s" % (rc, len(ml_all), len(dl_all), err[-300:])]}}
    stage, mem, first = None, set(), None
    for dl, ml in zip(dl_all, ml_all):
        if dl.startswith("CASE "):
            line = dl[5:]
            cur = out.setdefault(line.split()[0], {"line": line, "loaded": False, "pre": None, "post": None, "bad": [],
                                                   "nested": 0, "disallowed": False, "s2": {}})
            stage, mem, first = None, set(), None
        elif cur is None:
            continue
        # coverage, read from the library's own dump: memory objects whose parent is a memory object (BEFORE block), and whether the
        # stage had something to remove (AFTER block: no INCLUDE_DISALLOWED and root complete sets != allowed sets)
        if dl.startswith("STAGE "):
            stage, mem, first = dl.split(), set(), None
        elif dl.startswith("O ") and stage:
            t = dl.split()
            if len(t) >= 10:
                if first is None:
                    first = t
                    if stage[1] == "after":
                        cur["disallowed"] = int(stage[2]) % 2 == 0 and (stage[3] != t[7] or stage[4] != t[9])
                if t[5] == "M":
                    mem.add(t[3])
                    if t[4] in mem and stage[1] == "before":
                        cur["nested"] += 1
        if dl.startswith("CASE "):
            continue
        if dl.startswith("LOADED "):
            cur["loaded"] = dl.split()[2] == "1"
            if ml != ".":
                cur["bad"].append(ml)
        elif dl.startswith("END2 "):
            cur["s2"][dl.split()[1]] = ml
            if ml.startswith("UNSUPPORTED2 "):
                cur["s2_unsupported"] = ml
            elif not ml.startswith("ok2 "):
                cur["bad"].append(ml)
        elif dl.startswith("ENDY "):
            cur["symy"] = ml
            if not ml.startswith("okY "):
                cur["bad"].append(ml)
        elif dl == "END before":
            cur["pre"] = ml
            if not ml.startswith("pre "):
                cur["bad"].append(ml)
        elif dl == "END after":
            cur["post"] = ml
            if not ml.startswith("ok "):
                cur["bad"].append(ml)
        elif ml != ".":
            cur["bad"].append("%s <- %s" % (ml, dl[:120]))
    return out


def one_run(binp, workdir, idx, seed, n, sources):
    d = os.path.join(workdir, "r%d" % idx)
    os.makedirs(d, exist_ok=True)
    plan, dump, mout = [os.path.join(d, x) for x in ("plan.txt", "dump.txt", "m.out")]
    r = run([binp, "gen", str(n), sources, plan, dump], env=_env(seed, idx % 2))
    res = {"seed": seed, "rc": r.returncode, "san": r.stdout[-3000:], "plan": read_lines(plan) if os.path.exists(plan) else [],
           "verdicts": {}, "libxml": idx % 2}
    if os.path.exists(dump):
        res["verdicts"] = verdicts(dump, mout)
    return res


def replay_case(binp, workdir, plan_line, libxml):
    d = os.path.join(workdir, "replay")
    os.makedirs(d, exist_ok=True)
    plan, dump, mout = [os.path.join(d, x) for x in ("plan.txt", "dump.txt", "m.out")]
    open(plan, "w").write(plan_line + "\n")
    r = run([binp, "replay", plan, dump], env=_env(0, libxml))
    v = verdicts(dump, mout) if os.path.exists(dump) else {}
    return r, v


def judge(v):
    """-> None when the case is fine, else a description"""
    if v["bad"]:
        return "model and C disagree on the set stage: " + "; ".join(v["bad"])[:600]
    if v["loaded"] and (v["pre"] is None or v["post"] is None):
        return "the topology loaded but the stage dump is incomplete (before=%s after=%s)" % (v["pre"], v["post"])
    if v["pre"] is not None and v["post"] is None:
        return "a BEFORE block without an AFTER block"
    s2 = v.get("s2", {})
    if s2 and not v.get("s2_unsupported"):
        if v["loaded"] and any(k not in s2 for k in STAGES2):
            return "the topology loaded but the later stage dumps are incomplete: " + ",".join(sorted(s2))
        if "rm_before" not in s2:
            return "later stage dumps without rm_before: " + ",".join(sorted(s2))
        if v["loaded"] and not v.get("symy"):
            return "the topology loaded but the symmetric_subtree record (Y lines) is missing"
    if PRE_VIOLATION_IS_PROBLEM and v["pre"] is not None and v["pre"] != "pre ok":
        return "the input of the stage violates the precondition PreSets of the C01_setstage theorems: " + v["pre"]
    return None


RULE = ("each case = (source, type-filter assignment, flag subset) loaded with the HWLOC_VERIF stage hook writing the tree before 'Fixup root "
        "sets' and after remove_unused_sets/fixup_sets: generated synthetic strings, synthetic topologies re-imported from XML with random "
        "custom allowed sets (disallowed PUs/NUMA nodes), the bundled XML files (file and buffer, both XML back ends), the bundled Linux and "
        "x86 snapshots, and derived sources (kind R, harness/derive.h: any of the former loaded with every type kept, random subsets of its "
        "PUs / NUMA nodes made the allowed sets, exported to current or v2 XML and re-loaded, so that the stage sees disallowed resources "
        "below memory-side caches, i.e. memory objects nested in memory objects); IS_THISSYSTEM|THISSYSTEM_ALLOWED_RESOURCES on ~10 % of "
        "the non-back-end cases; the MemCache filter keeps memory-side caches in about half of the cases; the model's output must equal the AFTER dump (allowed sets, every object's four sets, parent, list kind, order) and "
        "the BEFORE dump must satisfy PreSets; non-trivial = the stage ran; distinct = distinct (kind, flags, filters, source) tuples")


def run_engine(tier, seed, sizes=None):
    if not hook_present():
        return {"evaluations": 0, "distinct_nontrivial": 0, "distribution": {"hook": "absent"}, "problems": [], "samples": [],
                "rule": "the HWLOC_VERIF stage-dump hook (hook.diff) is not in %s/hwloc/topology.c: nothing observed" % REPO}
    binp = build_harness("setstage")
    workdir = os.path.join(BUILD, "run", "setstage-%s" % os.getpid())
    shutil.rmtree(workdir, ignore_errors=True)
    os.makedirs(workdir)
    sources = os.path.join(workdir, "sources.txt")
    nsrc = snapshots.write_sources(sources, "XFC")
    pre_samples = []
    problems, stats, distinct, samples = [], {"hook": "present", "hook2": "present" if hook2_present() else "absent",
                                              "stage_ran": 0, "load_failed_before_stage": 0, "corpus": 0}, set(), []

    def account(v, seed_, libxml, record=True):
        why = judge(v)
        if why and len(problems) < 3:
            problems.append({"what": why, "seed": seed_,
                             "replay": "# plan line (harness h_setstage replay <plan> <dump>; hwmodel setstage < dump; HWLOC_LIBXML=%d)\n%s\n# %s\n"
                                       % (libxml, v["line"], why)})
        if v["post"] and v["post"].startswith("ok "):
            f = dict(x.split("=") for x in v["post"].split()[1:])
            stats["objects"] = stats.get("objects", 0) + int(f["objs"])
            if int(f["changed"]):
                stats["stage_changed_some_set"] = stats.get("stage_changed_some_set", 0) + 1
            if int(f["reordered"]):
                stats["children_reordered"] = stats.get("children_reordered", 0) + 1
            if int(f["special"]):
                stats["with_io_or_misc"] = stats.get("with_io_or_misc", 0) + 1
        if v["pre"] and v.get("disallowed"):
            stats["disallowed_removed"] = stats.get("disallowed_removed", 0) + 1
        if v["pre"] and v.get("nested"):
            stats["nested_memory"] = stats.get("nested_memory", 0) + 1
            stats["nested_memory_objects"] = stats.get("nested_memory_objects", 0) + v["nested"]
            if v.get("disallowed"):
                stats["nested_memory_and_disallowed_removed"] = stats.get("nested_memory_and_disallowed_removed", 0) + 1
        s2 = v.get("s2", {})
        if v["pre"] and v["loaded"] and not s2:
            stats["stage_absent"] = stats.get("stage_absent", 0) + 1
        if v.get("s2_unsupported"):
            stats["stage2.unsupported"] = stats.get("stage2.unsupported", 0) + 1
            if len(pre_samples) < 5:
                pre_samples.append("%s -> %s" % (v["line"][:200], v["s2_unsupported"]))
        if "rm_before" in s2 and "rm_after" not in s2 and not v.get("s2_unsupported"):
            stats["stage2.root_removed_load_failed"] = stats.get("stage2.root_removed_load_failed", 0) + 1
        for nm, ml in s2.items():
            if not ml.startswith("ok2 "):
                continue
            stats["stage2.%s.compared" % nm] = stats.get("stage2.%s.compared" % nm, 0) + 1
            f = dict(x.split("=") for x in ml.split()[2:])
            for key, cond in (("removed", lambda x: x > 0), ("miscmoved", lambda x: x > 0), ("merged", lambda x: x > 0),
                              ("nonzero", lambda x: x > 0), ("groups", lambda x: x > 0), ("grouplevels", lambda x: x > 1),
                              ("numa", lambda x: x > 1)):
                if key in f and cond(int(f[key])):
                    stats["stage2.%s.%s" % (nm, key)] = stats.get("stage2.%s.%s" % (nm, key), 0) + 1
            for key in ("typed", "alive", "exact", "dumphyp", "dumpclauses", "osunique", "setq", "tight", "setw"):
                if key in f and int(f[key]) == 0:
                    stats["stage2.%s.not_%s" % (nm, key)] = stats.get("stage2.%s.not_%s" % (nm, key), 0) + 1
        sy = v.get("symy")
        if sy and sy.startswith("okY n="):
            f = dict(x.split("=") for x in sy.split()[1:])
            stats["symmetric.compared"] = stats.get("symmetric.compared", 0) + 1
            stats["symmetric.objects"] = stats.get("symmetric.objects", 0) + int(f["n"])
            if int(f["asym"]):
                stats["symmetric.some_asymmetric"] = stats.get("symmetric.some_asymmetric", 0) + 1
                stats["symmetric.asymmetric_objects"] = stats.get("symmetric.asymmetric_objects", 0) + int(f["asym"])
            if int(f["multi"]):
                stats["symmetric.walked"] = stats.get("symmetric.walked", 0) + 1
        elif sy:
            stats["symmetric." + sy.split()[1]] = stats.get("symmetric." + sy.split()[1], 0) + 1
        if v["loaded"] and s2 and "final" in s2 and not sy:
            stats["symmetric.missing"] = stats.get("symmetric.missing", 0) + 1
        if v["pre"]:
            stats["stage_ran"] += 1
            k = "pre_ok" if v["pre"] == "pre ok" else "pre_violated"
            stats[k] = stats.get(k, 0) + 1
            if k == "pre_violated" and len(pre_samples) < 5:
                pre_samples.append("%s -> %s" % (v["line"][:200], v["pre"]))
        else:
            stats["load_failed_before_stage"] += 1

    # corpus first
    for f in sorted(glob.glob(os.path.join(ROOT, "corpus", "setstage", "*.plan"))):
        for l in read_lines(f):
            if not l or l.startswith("#"):
                continue
            l = l.replace("@SNAP@", snapshots.SNAP).replace("@REPO@", REPO).replace("@ROOT@", ROOT)
            for lx in (0, 1):
                rr, vv = replay_case(binp, workdir, l, lx)
                stats["corpus"] += 1
                cid = l.split()[0]
                if rr.returncode != 0 or cid not in vv:
                    problems.append({"what": "corpus case %s (%s): harness exit %d" % (cid, os.path.basename(f), rr.returncode), "seed": 0,
                                     "replay": "# plan line (HWLOC_LIBXML=%d)\n%s\n# %s\n" % (lx, l, rr.stdout[-1500:].replace("\n", "\n# "))})
                else:
                    account(vv[cid], 0, lx)
    nruns, n = sizes or ((16, 500) if tier == "quick" else (64, 4000))
    seeds = [int(seed) * 1000003 + 500 + i for i in range(nruns)]
    with ThreadPoolExecutor(NCPU) as ex:
        results = list(ex.map(lambda a: one_run(binp, workdir, a[0], a[1], n, sources), enumerate(seeds)))
    for r in results:
        cases = [l for l in r["plan"] if l and not l.startswith("#")]
        for l in r["plan"]:
            if l.startswith("# derived "):
                t = l.split()
                for k, v in zip(t[2::2], t[3::2]):
                    stats["derived." + k] = stats.get("derived." + k, 0) + int(v)
        for l in cases:
            t = l.split(None, 4)
            if len(t) < 5:
                continue
            cid, kind = t[0], t[1]
            stats["kind." + kind] = stats.get("kind." + kind, 0) + 1
            if kind == "R":
                stats["kind.R.from_" + t[4].split()[1]] = stats.get("kind.R.from_" + t[4].split()[1], 0) + 1
            if len(t[3]) > 15 and t[3][15] in "023":
                stats["filter.memcache_kept"] = stats.get("filter.memcache_kept", 0) + 1
            if int(t[2]) & 4:
                stats["thissystem_allowed_resources"] = stats.get("thissystem_allowed_resources", 0) + 1
            if int(t[2]) & 1:
                stats["include_disallowed"] = stats.get("include_disallowed", 0) + 1
            v = r["verdicts"].get(cid)
            if v is None:
                if r["rc"] == 0 and "<driver>" not in r["verdicts"]:
                    problems.append({"what": "case %s has no CASE record in the dump" % cid, "seed": r["seed"], "replay": l + "\n"})
                continue
            account(v, r["seed"], r["libxml"])
            if v["pre"]:
                distinct.add(hashlib.md5(" ".join(t[1:]).encode()).digest()[:8])
                if len(samples) < 6:
                    samples.append("%s -> %s / %s" % (" ".join(t[1:])[:140], v["pre"], v["post"]))
        if "<driver>" in r["verdicts"] and len(problems) < 3:
            problems.append({"what": "model driver failed: " + r["verdicts"]["<driver>"]["bad"][0], "seed": r["seed"], "replay": "driver failure\n"})
        if r["rc"] != 0 and len(problems) < 3:
            last = cases[-1] if cases else "<none>"
            problems.append({"what": "abort / sanitizer report while loading (set-stage harness)", "seed": r["seed"],
                             "replay": "# plan line (HWLOC_LIBXML=%d)\n%s\n# harness exit %d\n# %s\n" % (
                                 r["libxml"], last, r["rc"], r["san"][-2500:].replace("\n", "\n# "))})
    shutil.rmtree(workdir, ignore_errors=True)
    return {"evaluations": stats["stage_ran"] + stats["load_failed_before_stage"], "distinct_nontrivial": len(distinct),
            "distribution": stats, "sources": nsrc, "problems": problems, "samples": samples, "rule": RULE,
            "pre_violation_samples": pre_samples}


if __name__ == "__main__":
    import sys, json
    r = run_engine(sys.argv[1] if len(sys.argv) > 1 else "quick", int(os.environ.get("VERIF_SEED", "1")))
    print(json.dumps({k: v for k, v in r.items() if k != "rule"}, indent=1)[:6000])
