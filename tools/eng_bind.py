"""Engine `bind` (C10): generated binding calls on native / XML / synthetic topologies (with and without IS_THISSYSTEM,
HWLOC_THISSYSTEM, topology pid) through three hook tables — logging stub hooks with arbitrary presence masks and
scripted answers (exact tie to the abstract hook-table model and its effect log), the dummy hooks, and the real Linux
hooks under libc / syscall() interposition with a scripted kernel — plus the live round trip against the real kernel."""
import os, threading
from eng_generic import DiffEngine
from common import REPO


class BindEngine(DiffEngine):
    def __init__(self):
        super().__init__("bind", sizes={"quick": (16, 12000), "thorough": (48, 120000)},
                         distinct_key=lambda op, c: " ".join(op.split()[:6]) + "|" + c,
                         rule="episodes = one loaded topology (native / 14 synthetic / 12 bundled XML incl. the two with complete != "
                              "allowed sets; IS_THISSYSTEM flag, HWLOC_THISSYSTEM, HWLOC_SYNTHETIC, topology pid varied) followed by "
                              "20-80 calls over all 18 entry points with sets drawn relative to the topology (valid subset, singleton, "
                              "exact topology / complete set, covering, disallowed bits, empty, out of range, infinite), all flag words "
                              "incl. unknown bits, all policies incl. invalid, zero lengths, pids 0/self/nonexistent; hook tables: "
                              "stub tables with random presence masks and scripted answers, dummy hooks, Linux hooks with scripted "
                              "kernel answers; live part: set/get/last_cpu_location round trip on subsets of the allowed CPUs and "
                              "sched_getaffinity before/after hwloc_topology_load for flag and component subsets (run 0 only); "
                              "distinct = distinct (op head, observed C result) pairs",
                         env={"VERIF_XMLDIR": os.path.join(REPO, "tests", "hwloc", "xml"),
                              "HWLOC_HIDE_ERRORS": "2"})
        self.live = {"quick": 120, "thorough": 1023}
        self.tier = "quick"
        self._tl = threading.local()

    def run_engine(self, tier, seed):
        self.tier = tier
        return super().run_engine(tier, seed)

    def _env(self, seed=None, leaks=True):
        e = super()._env(seed, leaks)
        e["VERIF_BIND_LIVE"] = str(getattr(self._tl, "live", 0))
        return e

    def one_run(self, binp, workdir, idx, seed, n):
        # the live part binds the calling thread for real: only in run 0 (the other runs stay scripted)
        self._tl.live = self.live[self.tier] if idx == 0 else 0
        try:
            return super().one_run(binp, workdir, idx, seed, n)
        finally:
            self._tl.live = 0


    def shrink(self, binp, workdir, ops):
        """keep the leading `native` facts line (every later prediction depends on it)"""
        from diffrun import ddmin
        d = os.path.join(workdir, "shrink")
        head = [o for o in ops[:1] if o.startswith("native")]
        rest = ops[len(head):]
        return head + ddmin(rest, lambda sub: self.fails(binp, d, head + sub))


ENGINE = BindEngine()


def run_engine(tier, seed):
    return ENGINE.run_engine(tier, seed)
