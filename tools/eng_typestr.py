"""Engine `typestr` (C11): hwloc_type_sscanf / hwloc_obj_type_snprintf / hwloc_obj_attr_snprintf /
hwloc_compare_types / kind predicates of the real library vs the Lean model interpreting the generated tables.

Flow per run:  harness `gen` (ops only, nothing under test is called)  ->  Lean model answers  ->  harness `--replay`
on the real code  ->  line-by-line comparison + the property's own oracles on the C answers alone.
No input class is excluded: the former defect classes F06 (endless loop on OS-device words with an unknown bit) and
F23 (type_match reading past a pattern on byte 0xE0) are fixed in /repo (56af888, 2710d74); their old failing inputs
are ordinary corpus cases (corpus/typestr/boundary.ops) and the generators keep producing both classes.  A model answer
`loops` / `oobT` (never produced by the current model) or a watchdog hit in the harness is a disagreement/violation."""
import os, shutil, hashlib
from concurrent.futures import ThreadPoolExecutor
from common import *
from diffrun import *

ENGINE = "typestr"
XMLDIR = os.path.join(REPO, "tests", "hwloc", "xml")


F11_XML = """<?xml version="1.0" encoding="UTF-8"?>
<!DOCTYPE topology SYSTEM "hwloc2.dtd">
<topology version="2.0">
  <object type="Machine" os_index="0" cpuset="0x00000003" complete_cpuset="0x00000003" allowed_cpuset="0x00000003" nodeset="0x00000001" complete_nodeset="0x00000001" allowed_nodeset="0x00000001" gp_index="1">
    <object type="NUMANode" os_index="0" cpuset="0x00000003" complete_cpuset="0x00000003" nodeset="0x00000001" complete_nodeset="0x00000001" gp_index="2" local_memory="1048576"/>
    <object type="L1Cache" cpuset="0x00000001" complete_cpuset="0x00000001" nodeset="0x00000001" complete_nodeset="0x00000001" gp_index="3" cache_size="32768" depth="1" cache_linesize="64" cache_associativity="8" cache_type="0">
      <object type="PU" os_index="0" cpuset="0x00000001" complete_cpuset="0x00000001" nodeset="0x00000001" complete_nodeset="0x00000001" gp_index="4"/>
    </object>
    <object type="L1Cache" cpuset="0x00000002" complete_cpuset="0x00000002" nodeset="0x00000001" complete_nodeset="0x00000001" gp_index="5" cache_size="32768" depth="1" cache_linesize="64" cache_associativity="8" cache_type="1">
      <object type="PU" os_index="1" cpuset="0x00000002" complete_cpuset="0x00000002" nodeset="0x00000001" complete_nodeset="0x00000001" gp_index="6"/>
    </object>
  </object>
</topology>
"""
F11_OBJ = "5 1 0 32768 64 8 0 0 0 0 0 0 0 0 0 0 - 0 x 0 0 0 0 0"


def harness_env(seed=1):
    return dict(os.environ, VERIF_SEED=str(seed), VERIF_XMLDIR=XMLDIR,
                ASAN_OPTIONS="detect_leaks=0:abort_on_error=0", UBSAN_OPTIONS="print_stacktrace=1",
                HWLOC_COMPONENTS_VERBOSE="0", HWLOC_HIDE_ERRORS="2")


def lean_consts():
    """a few enumerator values, read from the generated table (never hard-coded)"""
    import re
    txt = open(os.path.join(LEAN, "Hw", "Gen", "TypeTables.lean")).read()
    return {m.group(1): int(m.group(2)) for m in re.finditer(r"^def (\w+) : Nat := (\d+)$", txt, flags=re.M)}


_K = None


def in_roundtrip_scope(flags, o):
    """hypotheses of C11_type_roundtrip / C11_group_roundtrip on an <obj> token list"""
    global _K
    if _K is None:
        _K = lean_consts()
    K = _K
    if int(flags) & K["FLAG_SHORT_NAMES"]:
        return False
    ty, depth, ct, up, osw = int(o[0]), int(o[1]), int(o[2]), int(o[8]), int(o[22], 16)
    if ty >= K["T_MISC"] + 1:
        return False
    if K["T_L1CACHE"] <= ty <= K["T_L5CACHE"]:
        return depth == ty - K["T_L1CACHE"] + 1 and ct in (K["CACHE_UNIFIED"], K["CACHE_DATA"])
    if K["T_L1ICACHE"] <= ty <= K["T_L3ICACHE"]:
        return depth == ty - K["T_L1ICACHE"] + 1 and ct == K["CACHE_INSTRUCTION"]
    if ty == K["T_BRIDGE"]:
        return up in (K["BRIDGE_HOST"], K["BRIDGE_PCI"])
    if ty == K["T_OS_DEVICE"]:
        return osw < 128
    return True


def own_oracle(op, c):
    """the property's own demands on the C answer alone (None = fine)"""
    t = op.split()
    k = t[0]
    if k == "rtl":
        in_roundtrip_scope(t[1], t[2:])      # (initialises the constants table)
        # an object of a loaded topology: every flag word without SHORT_NAMES must parse back (no consistency hypothesis)
        if c.endswith("loops"):
            return "hwloc_obj_type_snprintf does not terminate"
        if not (int(t[1]) & _K["FLAG_SHORT_NAMES"]) and int(t[2]) <= _K["T_MISC"] and not c.endswith("match=1"):
            return "object of a loaded topology: the text printed without SHORT_NAMES does not parse back to the same type/attributes"
        return None
    if k == "rt":
        if c.endswith("loops"):
            return "hwloc_obj_type_snprintf does not terminate"
        if in_roundtrip_scope(t[1], t[2:]) and not c.endswith("match=1"):
            return "text printed without SHORT_NAMES does not parse back to the same type/attributes"
        o = t[2:]
        if int(o[0]) == _K["T_OS_DEVICE"] and not (int(t[1]) & _K["FLAG_SHORT_NAMES"]):
            # any type word: the text parses back to exactly the known bits (C11_osdev_roundtrip_known_bits)
            ct = c.split()
            want = "%x" % (int(o[22], 16) & 127)
            if ct[2:6] != ["R", "0", str(_K["T_OS_DEVICE"]), "osdev"] or ct[6] != want:
                return "OS-device text does not parse back to the known bits 0x%s of the type word" % want
        return None
    if k == "lvl":
        if not c.startswith("L same"):
            return "objects of one (attribute-homogeneous) level print different type texts"
        return None
    if k == "tstr":
        return None
    if k in ("tsn", "asn"):
        o = t[3:] if k == "tsn" else t[4:]
        if k == "asn" and o[0] in ("16", "17") and o[6] != "0":
            # outside the hypothesis IoNoMemory (I/O objects have total_memory = 0 through load): the Bridge/PCI branch prints
            # at (string,size) instead of (tmp,tmplen); C and model are still compared byte for byte
            return None
        ct = c.split()
        if len(ct) < 3 or ct[0] != "P":
            return "malformed answer"
        if "GUARD" in ct[3:]:
            return "wrote outside the given size (guard bytes damaged)"
        if "UNSTABLE" in ct[3:]:
            return "two identical calls disagree"
        if ct[1] == "loops":
            return "does not terminate"
        size = t[2]
        if size not in ("null", "0"):
            if ct[2] == "NONUL":
                return "size>0 but no NUL within size"
            n = (len(ct[2]) - 1) // 2
            ret = int(ct[1])
            if n != min(ret, int(size) - 1):
                return "content length %d is not min(ret=%d, size-1=%d)" % (n, ret, int(size) - 1)
    return None


def table_oracle(ops, cl):
    """laws of hwloc_compare_types / kind predicates on the C answers alone; returns (why, [ops]) or None"""
    global _K
    if _K is None:
        _K = lean_consts()
    K = _K
    cmpv, kind = {}, {}
    for o, c in zip(ops, cl):
        t = o.split()
        if t[0] == "cmp":
            cmpv[(int(t[1]), int(t[2]))] = None if c == "V U" else int(c.split()[1])
        elif t[0] == "kind" and int(t[1]) <= K["T_MISC"]:
            kind[int(t[1])] = [int(x) for x in c.split()[1:]]
    n = K["T_MISC"] + 1
    if len(cmpv) < n * n or len(kind) < n:
        return None
    for a in range(n):
        nm = kind[a][0] + kind[a][1] + kind[a][2]
        if nm > 1 or (nm == 0) != (a == K["T_MISC"]):
            return "type %d is not in exactly one of normal/memory/io/misc" % a, ["kind %d" % a]
        for b in range(n):
            x, y = cmpv[(a, b)], cmpv[(b, a)]
            if (x is None) != (y is None) or (x is not None and x != -y):
                return "hwloc_compare_types is not antisymmetric on (%d,%d)" % (a, b), ["cmp %d %d" % (a, b), "cmp %d %d" % (b, a)]
        x = cmpv[(K["T_MACHINE"], a)]
        if x is None or x > 0:
            return "Machine is not the highest type (vs %d)" % a, ["cmp %d %d" % (K["T_MACHINE"], a)]
        if kind[a][0]:
            x = cmpv[(a, K["T_PU"])]
            if x is None or x > 0:
                return "PU is not the deepest normal type (vs %d)" % a, ["cmp %d %d" % (a, K["T_PU"]), "kind %d" % a]
    return None


def classify(op, c, m):
    return "diff"


def compare(ops, cl, ml):
    """returns list of (index, op, c, m, why)"""
    bad = []
    n = max(len(ops), len(cl), len(ml))
    for i in range(n):
        op = ops[i] if i < len(ops) else "<none>"
        c = cl[i] if i < len(cl) else "<missing>"
        m = ml[i] if i < len(ml) else "<missing>"
        why = None
        if c != m:
            why = "C and model disagree"
        else:
            o = own_oracle(op, c)
            if o:
                why = "property oracle: " + o
        if why:
            bad.append((i, op, c, m, why))
            if len(bad) >= 5:
                break
    return bad


def run_c(binp, ops_path, out_path, seed=1):
    r = run([binp, "--replay", ops_path, out_path], env=harness_env(seed))
    return r.returncode, r.stdout[-3000:]


def one_run(binp, workdir, idx, seed, nops):
    d = os.path.join(workdir, "r%d" % idx)
    os.makedirs(d, exist_ok=True)
    raw, ops, cout, mout, st = [os.path.join(d, x) for x in ("raw.txt", "ops.txt", "c.out", "m.out", "stats.txt")]
    res = {"seed": seed, "idx": idx, "rc": 0, "san": "", "ops": [], "c": [], "bad": [], "skipped": {}, "stats": {}}
    r = run([binp, "gen", str(nops), raw, st, str(idx)], env=harness_env(seed))
    if r.returncode != 0 or not os.path.exists(raw):
        res.update(rc=r.returncode or 99, san="generator failed: " + r.stdout[-2000:])
        return res
    rc, err = run_model(ENGINE, raw, mout)
    rops, rm = read_lines(raw), read_lines(mout)
    if rc != 0 or len(rm) != len(rops):
        res.update(rc=98, san="model driver failed (%d answers for %d ops): %s" % (len(rm), len(rops), err[-500:]))
        return res
    keep_ops, keep_m = rops, rm          # nothing is excluded
    open(ops, "w").write("\n".join(keep_ops) + "\n")
    rc, out = run_c(binp, ops, cout, seed)
    cl = read_lines(cout) if os.path.exists(cout) else []
    res.update(rc=rc, san=out if rc else "", ops=keep_ops, c=cl, m=keep_m)
    res["bad"] = compare(keep_ops, cl, keep_m)
    if not res["bad"] and rc == 0 and idx == 0:
        tb = table_oracle(keep_ops, cl)
        if tb:
            res["table"] = tb
    if os.path.exists(st):
        res["stats"] = dict((l.split()[0], int(l.split()[1])) for l in read_lines(st))
    return res


def fails_factory(binp, workdir):
    d = os.path.join(workdir, "shrink")
    os.makedirs(d, exist_ok=True)
    p, c, m = [os.path.join(d, x) for x in ("ops.txt", "c.out", "m.out")]

    def outcome(sub):
        open(p, "w").write("\n".join(sub) + "\n")
        if os.path.exists(c):
            os.remove(c)
        rc, out = run_c(binp, p, c)
        run_model(ENGINE, p, m)
        cl = read_lines(c) if os.path.exists(c) else []
        ml = read_lines(m)
        return rc, out, cl, ml

    def fails(sub):
        rc, out, cl, ml = outcome(sub)
        return rc != 0 or bool(compare(sub, cl, ml))
    return fails, outcome


def shrink_bytes(op, fails):
    """string-level minimisation of an `ssc` op: drop bytes while the disagreement persists"""
    t = op.split()
    if t[0] != "ssc":
        return op
    h = t[2][1:]
    bs = [h[i:i + 2] for i in range(0, len(h), 2)]
    small = ddmin(bs, lambda sub: fails(["ssc %s x%s" % (t[1], "".join(sub))]), max_tests=200) if len(bs) > 1 else bs
    return "ssc %s x%s" % (t[1], "".join(small))


def unhex(tok):
    try:
        return bytes.fromhex(tok[1:]).decode("latin-1")
    except Exception:
        return tok


def annotate(op):
    t = op.split()
    if t[0] == "ssc":
        return 'hwloc_type_sscanf(%r, &type, %s)' % (unhex(t[2]), "NULL, 0" if t[1] == "null" else "&attr, %s" % t[1])
    if t[0] in ("tsn", "asn", "rt", "rtl"):
        return "%s flags=%s%s obj: type=%s depth=%s cachetype=%s upstream=%s ostypes=0x%s" % (
            {"tsn": "hwloc_obj_type_snprintf", "asn": "hwloc_obj_attr_snprintf", "rt": "type_snprintf then type_sscanf", "rtl": "type_snprintf then type_sscanf (loaded object)"}[t[0]],
            t[1], "" if t[0] in ("rt", "rtl") else " size=" + t[2], *(lambda o: (o[0], o[1], o[2], o[8], o[22]))(t[{"tsn": 3, "asn": 4, "rt": 2, "rtl": 2}[t[0]]:]))
    return op


def replay_text(ops, outcome, why=""):
    rc, out, cl, ml = outcome(ops)
    lines = ["# engine typestr: op | hwloc (C) | Lean model      replay: <harness typestr> --replay <ops-file> <out-file>", "# " + why]
    for i, o in enumerate(ops):
        ci = cl[i] if i < len(cl) else "<none>"
        mi = ml[i] if i < len(ml) else "<none>"
        lines.append("# " + annotate(o))
        lines.append("%s | %s | %s%s" % (o, ci, mi, "" if ci == mi else "   <== DIFFERS"))
    if rc != 0:
        lines.append("# harness exit %d:\n# %s" % (rc, out[-1800:].replace("\n", "\n# ")))
    return "\n".join(lines) + "\n"


def probe(binp, workdir, op):
    """run one op on the real code; returns (rc, answer)"""
    d = os.path.join(workdir, "probe")
    os.makedirs(d, exist_ok=True)
    p, c = os.path.join(d, "ops.txt"), os.path.join(d, "c.out")
    open(p, "w").write(op + "\n")
    if os.path.exists(c):
        os.remove(c)
    rc, out = run_c(binp, p, c)
    cl = read_lines(c) if os.path.exists(c) else []
    return rc, (cl[0] if cl else ""), out


def run_engine(tier, seed, corpus_dir=None):
    binp = build_harness(ENGINE)
    workdir = os.path.join(BUILD, "run", "%s-%s" % (ENGINE, os.getpid()))
    shutil.rmtree(workdir, ignore_errors=True)
    os.makedirs(workdir)
    nruns, nops = (8, 40000) if tier == "quick" else (48, 150000)
    seeds = [int(seed) * 1000003 + i for i in range(nruns)]
    with ThreadPoolExecutor(min(NCPU, 8 if tier == "quick" else NCPU)) as ex:
        results = list(ex.map(lambda a: one_run(binp, workdir, a[0], a[1], nops), enumerate(seeds)))
    # corpus (minimised past failures) replayed first in spirit: they are ordinary ops
    cdir = corpus_dir or os.path.join(ROOT, "corpus", ENGINE)
    fails, outcome = fails_factory(binp, workdir)
    problems = []
    if os.path.isdir(cdir):
        for f in sorted(os.listdir(cdir)):
            ops = [l for l in read_lines(os.path.join(cdir, f)) if l and not l.startswith("#")]
            if ops and fails(ops):
                small = ddmin(ops, fails)
                if len(small) == 1:
                    small = [shrink_bytes(small[0], fails)]
                rc_, out_, cl_, ml_ = outcome(small)
                bad_ = compare(small, cl_, ml_)
                why_ = bad_[0][4] if bad_ else "sanitizer report / abort in the harness"
                pr_ = {"what": "%s (corpus case %s)" % (why_, f), "seed": seed, "replay": replay_text(small, outcome, why_)}
                problems.append(pr_)
    total = sum(len(r["ops"]) for r in results)
    stats, skipped, dist = {}, {}, {}
    distinct = set()
    for r in results:
        for k, v in r["stats"].items():
            stats[k] = stats.get(k, 0) + v
        for k, v in r["skipped"].items():
            skipped[k] = skipped.get(k, 0) + v
        for o, c in zip(r["ops"], r["c"]):
            t = o.split()
            distinct.add(hashlib.md5(("|".join(t[:1] + t[1:2] + t[3:]) + "|" + c).encode()).digest()[:8])
            ct = c.split()
            key = t[0]
            if t[0] == "ssc":
                key += "_ok" if ct[:2] == ["R", "0"] else "_fail"
            elif t[0] in ("tsn", "asn"):
                if t[2] == "null":
                    key += "_null0"
                elif t[2] == "0":
                    key += "_size0"
                else:
                    ret = int(ct[1]) if len(ct) > 1 and ct[1].lstrip("-").isdigit() else -1
                    key += "_trunc" if ret >= int(t[2]) else "_exactfit" if ret == int(t[2]) - 1 else "_fits"
            elif t[0] in ("rt", "rtl"):
                key += "_match" if c.endswith("match=1") else "_nomatch"
            dist[key] = dist.get(key, 0) + 1
    for r in results:
        if r.get("table") and not problems:
            why, tops = r["table"]
            problems.append({"what": "property oracle: " + why, "seed": r["seed"], "replay": replay_text(tops, outcome, why), "min_ops": tops})
    for r in results:
        if problems:
            break
        if r["rc"] != 0 or r["bad"]:
            if r["bad"]:
                i, op, c, m, why = r["bad"][0]
                small = [op]
                if not fails(small):          # depends on earlier ops (only lvl topology caching could): keep prefix
                    small = ddmin(r["ops"][: i + 1], fails)
                else:
                    small = [shrink_bytes(op, fails)]
            else:
                why = "sanitizer report / abort in the harness"
                cl = r["c"]
                small = r["ops"][len(cl): len(cl) + 1] or r["ops"][-1:]
                if not (small and fails(small)):
                    small = ddmin(r["ops"], fails) if r["ops"] else []
                else:
                    small = [shrink_bytes(small[0], fails)]
            txt = replay_text(small, outcome, why) if small else (why + "\n" + r["san"])
            problems.append({"what": why, "seed": r["seed"], "replay": txt, "min_ops": small})
    # known finding F11 (not fixed): fixed probe, reported on every run
    known_hits = []
    # F11: a unified and a data L1 in one level (hwloc_type_cmp ignores the cache type) print different texts
    xp = os.path.join(workdir, "f11.xml")
    open(xp, "w").write(F11_XML)
    f11_op = "lvl fx%s 1 2 0 %s" % (xp.encode().hex(), F11_OBJ)
    rc, ans, out = probe(binp, workdir, f11_op)
    f11 = ans == "L differ"
    if f11:
        known_hits.append("id=F11 a level holding a unified and a data L1 cache (loads and passes hwloc_topology_check) prints 'L1' and 'L1d': "
                          "outside the homogeneity hypothesis of C11_level_same_text; probe: XML in tools/eng_typestr.py F11_XML, depth 1")
    samples = []
    for r in results:
        if r["ops"]:
            for j in (5, len(r["ops"]) // 3, len(r["ops"]) // 2, len(r["ops"]) - 3):
                if 0 <= j < len(r["c"]):
                    samples.append("%s -> %s" % (annotate(r["ops"][j]), r["c"][j]))
        if len(samples) >= 12:
            break
    shutil.rmtree(workdir, ignore_errors=True)
    return {"evaluations": total, "distinct_nontrivial": len(distinct), "distribution": dist, "generator_buckets": stats,
            "excluded_input_classes": "none", "known_hits": known_hits, "f11_confirmed": f11,
            "problems": problems, "samples": samples[:12],
            "rule": "part 0: exhaustive (20x20 compare_types, kinds, type strings, every type x 64 flag words, all 128 OS-device subsets x "
                    "name modes x sizes 0..72, every chain pattern at every prefix length x case x tail); other parts: objects of loaded "
                    "synthetic/XML topologies, harness-built objects with arbitrary attributes, all sizes 0..need+1 for a sample, and "
                    "grammar/mutated/random strings to hwloc_type_sscanf; an evaluation = one call of the real function compared with the "
                    "model (+ the property's own oracle); distinct = distinct (op without size, C answer) pairs"}
