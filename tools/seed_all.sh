#!/bin/bash
# usage: tools/seed_all.sh : re-apply every seeded change of /verif/seeded/*/ to /repo in turn, run the quick check of its property,
# revert, and print CAUGHT/MISSED (updates meta.json verif_result).  /repo must be clean; nothing else may run ./check meanwhile.
cd /verif
if [ -n "$(git -C /repo status --short | grep -v '^??')" ]; then echo "/repo not clean"; exit 2; fi
for d in seeded/C*/; do
  name=$(basename $d); pid=${name%%-*}
  if ! git -C /repo apply --check /verif/$d/patch.diff 2>/dev/null; then echo "$name PATCH-DOES-NOT-APPLY (the code it changed was modified by a later fix)"; continue; fi
  SEED_NO_RESTORE=1 tools/seed_try.sh $pid /verif/$d $name 2>&1 | tail -1
  git -C /repo checkout -- .
done
git -C /repo status --short | grep -v '^??'
# evidence and replays of the unchanged tree
git -C /verif checkout replays/ 2>/dev/null
tools/run_all.sh quick
