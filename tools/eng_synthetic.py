"""Engine `synthetic` (C07): hwloc_backend_synthetic_init / hwloc_topology_set_synthetic / load / export_synthetic
against the Lean model (parse, buildTopo, exportChunks + the cursor machine).

Every call is first tried in a forked child, so a crash of the real code is an observation ("crash"), never a dead harness.
Known findings (known_findings.json, status known) are reported with one KNOWN-FINDING line per class and do not fail
the check: F34, F35 (round trip under the legacy export flags), F78 (Group KEEP_NONE, root-attached memory).  No input class is excluded."""
import os
from eng_generic import DiffEngine
from diffrun import compare_streams

# model verdict -> (switch, description)
KNOWN_CLASSES = {}      # no input class is excluded any more (F04, F67, F69 ... are fixed and are ordinary cases)
KNOWN_TEXT = {
    "F34": "id=F34 hwloc_topology_export_synthetic(NO_EXTENDED_TYPES) writes caches as generic 'Cache:n', which hwloc_type_sscanf does not accept: the exported string cannot be re-imported (EINVAL)",
    "F78": "id=F78 with the Group type filter set to KEEP_NONE a NUMA node whose locality has no exact object hangs from the root even when the root has a single child of the same cpuset (objects are inserted bottom-up, that child does not exist yet); the export then starts with '[NUMANode...]' and its re-import (same filters) attaches the nodes to that child: export/import/export is not a fixpoint",
    "F35": "id=F35 under V1 / NO_EXTENDED_TYPES / IGNORE_MEMORY a Die or the Group holding NUMA nodes is exported as a plain 'Group:n'; on re-import the core merges it away when it has a single child: export/import/export is not a fixpoint",
}
# fix-op oracle: round trip failures that are known findings
def _fix_known(op, c):
    t = op.split()
    flags = int(t[1]) if len(t) > 1 and t[1].isdigit() else 0
    if "load2=EINVAL" in c and (flags & 1) and b"Cache:" in bytes.fromhex(c.split()[1]):
        return "F34"
    if (flags & 13) and ("same=0" in c or "rt=0" in c) and "load2=ok" in c and b"Group:" in bytes.fromhex(c.split()[1]):
        return "F35"
    # F78: Group KEEP_NONE (caller-set filter), memory exported as attached to the root although a single child covers the root
    flt = t[2].split("@")[1] if len(t) > 2 and "@" in t[2] else ""
    if len(flt) > 13 and flt[13] == "1" and "load2=ok" in c and ("same=0" in c or "rt=0" in c) and bytes.fromhex(c.split()[1]).startswith(b"["):
        return "F78"
    return None

known_hits = {}


def _on(name):
    v = os.environ.get(name, "")
    return v not in ("", "0")


def classify(op, c, m):
    kind = op.split()[0] if op.split() else ""
    if c == "crash" and m in KNOWN_CLASSES:
        sw, what = KNOWN_CLASSES[m]
        if _on(sw):
            return "diff"
        known_hits[what] = known_hits.get(what, 0) + 1
        return "same"
    if kind == "load" and c == "load ok" and m in ("load ok regular", "load ok other"):
        return "same"
    if kind == "export" and m == "export skip" and c.startswith("ret "):
        return "same"
    if kind == "fix" and m == "fix skip" and c.startswith("fix "):
        return "same"
    if kind == "numas" and m == "numas skip" and c.startswith("numas ") and c.split()[1].isdigit():
        return "same"
    return "diff"


def oracle_bad(op, c):
    """property-level oracle on the C answers alone (model and C may agree on a violation)"""
    if not op.startswith("fix "):
        return False
    if "same=0" in c or "rt=0" in c or "load2=" in c and "load2=ok" not in c or "export2-fail" in c:
        kf = _fix_known(op, c)
        if kf:
            known_hits[kf] = known_hits.get(kf, 0) + 1
            return False
        return True
    return False


class SynEngine(DiffEngine):
    def one_run(self, binp, workdir, idx, seed, n):
        res = super().one_run(binp, workdir, idx, seed, n)
        for i, (o, c) in enumerate(zip(res["ops"], res["c"])):
            if oracle_bad(o, c):
                res["ndiff"] += 1
                res["firsts"] = sorted(res["firsts"] + [(i, o, c, "<oracle: export/reload/export is not a fixpoint or loses structure>")])[:5]
        return res

    def shrink(self, binp, workdir, ops):
        # every op is self-contained: look for a single failing op, never delta-debug thousands of ops
        d = os.path.join(workdir, "shrink")
        for o in reversed(ops[-40:]):
            if self.fails(binp, d, [o]):
                return [o]
        return ops[-3:]

    def fails(self, binp, d, ops):
        r, cl, ml = self.replay_pair(binp, d, ops)
        if r.returncode != 0:
            return True
        nd, _, _ = compare_streams(ops, cl, ml, self.classify)
        return nd > 0 or any(oracle_bad(o, c) for o, c in zip(ops, cl))


ASAN = "log_path=stdout:detect_leaks=1:abort_on_error=0:allocator_may_return_null=1:max_allocation_size_mb=64"

ENGINE = SynEngine("synthetic", include_c=("topology-synthetic",), stateful=False, classify=classify,
                   sizes={"quick": (8, 260), "thorough": (16, 1000)},
                   env={"ASAN_OPTIONS": ASAN, "HWLOC_HIDE_ERRORS": "2", "LC_ALL": "C", "UBSAN_OPTIONS": "log_path=stdout:print_stacktrace=1"},
                   distinct_key=lambda op, c: " ".join(op.split()[:3])[:200] + "|" + c[:200],
                   rule="per generated description (typed/untyped grammar, 122..128 levels, token mutations, boundary numbers, "
                        "token alphabet, raw bytes, index notations): init on a junk-filled level array + set_synthetic vs `parse`; "
                        "if accepted and small: public-API dump -> wfCheck + NUMA census + comparison with `buildTopo`, under the historic "
                        "filters (I-caches, MemCache KEEP_ALL) and under 0-2 generated type-filter configurations (hex@F tokens); `numas` = "
                        "live NUMA census through the public API; export_synthetic for "
                        "16 flag words x buffer lengths (all of 0..need+1 for a third of the topologies) vs exportChunks/emitAll; "
                        "export/reload/export fixpoint; distinct = distinct (op, flags/cap, C answer)")


def run_engine(tier, seed):
    known_hits.clear()
    r = ENGINE.run_engine(tier, seed)
    r["known_hits"] = [(KNOWN_TEXT[k] + " (%d generated cases)" % v) if k in KNOWN_TEXT else
                       "%s (excluded input class; %d generated cases)" % (k, v)
                       for k, v in sorted(known_hits.items())]
    return r
