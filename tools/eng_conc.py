"""Engines of C17.

`readonly` (tie D, deterministic): harness/h_readonly.c runs every consulting entry point of harness/consult.h on a
PROT_READ copy of generated topologies (refreshed: nothing may fault; unrefreshed / partially validated: exactly the
calls the model's footprint table says write must fault, at the location the footprint names), compares the flag
transitions of hwloc_topology_refresh and of consulting calls on the writable topology with the model, checks the
flags after load / refresh against the model's CachesValid, runs hwloc_components_init/fini sequentially against
the GENERATED IR, and runs histories of every public entry point that reaches the component registry (all paths) over a
pool of independent topologies, comparing hwloc_components_users after every op with the model (ops `reg`, `reglive`).

`conc` (tie T + search): the driver prints the generated IR and explores every interleaving of 2-4 threads running
init/fini rounds of the GENERATED programs; a violated invariant comes back as a failing schedule (the replay).

Support only (evidence, never an obligation): harness/h_tsan.c under -fsanitize=thread."""
import os, re, shutil, subprocess, time
from eng_generic import DiffEngine
from common import *
from diffrun import read_lines, ddmin


def _classify(op, c, m):
    if op.startswith(("load ", "loadbind ")) and c == "load-failed":
        return "benign"
    return "diff"


class ReadonlyEngine(DiffEngine):
    def __init__(self):
        super().__init__("readonly", include_c=("components",), classify=_classify,
                         sizes={"quick": (16, 5000), "thorough": (48, 40000)},
                         distinct_key=lambda op, c: " ".join(op.split()[:2]) + "|" + " ".join(op.split()[4:]) + "|" + c,
                         rule="episodes = one topology (12 synthetic descriptions / the bundled XML files, KEEP_ALL or KEEP_STRUCTURE "
                              "filters; 10 % of the loads with IS_THISSYSTEM + RESTRICT_TO_CPUBINDING / _MEMBINDING, 12 % with NO_DISTANCES / NO_MEMATTRS / NO_CPUKINDS combinations) + a modification history (distances over NUMA/PU/Core/Package, user and standard memattrs with "
                              "cpuset / object initiators, cpukinds, restrict with REMOVE_CPULESS / ADAPT_MISC, groups, misc) + "
                              "hwloc_topology_refresh; the topology is copied with hwloc__topology_dup into a bump arena that is then "
                              "mprotect(PROT_READ); all 35 consulting entries (every memattr query on every attribute) run on the "
                              "refreshed copy, a random mix on unrefreshed / partially validated copies (negative control) and on the "
                              "writable unrefreshed original (flag transitions); hwloc_components_init/fini sequences from empty and "
                              "non-empty registries; registry histories (`reg` lines, 5 places per episode, 2-10 ops each): every public "
                              "entry point that reaches the component registry (topology init / set_* / set_components / load / dup / "
                              "destroy / export_xml[buffer] / free_xmlbuffer / diff_build / diff_load_xml[buffer] / "
                              "diff_export_xml[buffer] / diff_destroy / shmem get_length / write / adopt) on its success path and on "
                              "every early error path (invalid description, missing / unwritable file, malformed / truncated / "
                              "wrong-root XML, empty buffer, load failing after a successful set, source not loaded, already loaded, "
                              "TOO_COMPLEX entry first / middle / last / alone in a hand-built list or from diff_build, bad flags, bad "
                              "fd, wrong length, busy address) over a pool of 6 independent topologies (empty / inited / configured / "
                              "loaded / load-failed / adopted) that outlives the episodes, interleaved with the episode's topology T "
                              "(loaded, modified-unrefreshed, refreshed), its read-only copy A and outstanding bare references; "
                              "hwloc_components_users / the registry pointer are read after every op and compared with the model "
                              "(Reg.runHist over the generated IR), `reglive` compares the count with the number of live topologies; "
                              "distinct = distinct (entry, cache state, observed result)",
                         env={"VERIF_XMLDIR": os.path.join(REPO, "tests", "hwloc", "xml"), "HWLOC_HIDE_ERRORS": "2"})

    def fails(self, binp, d, ops):
        """while shrinking, an op that lost its episode (no-topology / no-arena / state-mismatch) is not the failure looked for"""
        from diffrun import compare_streams
        r, cl, ml = self.replay_pair(binp, d, ops)
        if r.returncode != 0:
            return True
        art = ("no-topology", "no-arena", "state-mismatch", "unbalanced", "no-slot")
        nd, _, _ = compare_streams(ops, cl, ml, lambda op, c, m: "same" if c.startswith(art) else self.classify(op, c, m))
        return nd > 0

    def shrink(self, binp, workdir, ops):
        """the failing op needs its episode: keep the last `load` (+ the structural lines after it) and the failing line"""
        d = os.path.join(workdir, "shrink")
        if ops and ops[-1].startswith(("reg ", "reglive ")):
            # a registry history: the pool outlives the episodes, the count depends on every topology alive -> keep the lines
            # that create / destroy topologies or registry references, drop the consulting calls
            keep = ("load ", "loadbind ", "arena ", "drop", "reg ", "cinit ", "cfini ")
            cand = [o for o in ops[:-1] if o.startswith(keep)] + ops[-1:]
            if self.fails(binp, d, cand):
                return ddmin(cand, lambda sub: self.fails(binp, d, sub))
            return ddmin(ops, lambda sub: self.fails(binp, d, sub))
        last = max([i for i, o in enumerate(ops) if o.startswith(("load ", "loadbind "))] or [0])
        tail = ops[last:]
        if not self.fails(binp, d, tail):
            return ddmin(ops, lambda sub: self.fails(binp, d, sub))
        struct = ("load ", "loadbind ", "mods ", "refresh ", "arena ", "drop")
        keep = [o for o in tail[:-1] if o.startswith(struct)]
        rest = [o for o in tail[:-1] if not o.startswith(struct)]
        # only structural lines + the failing one?
        cand = keep + tail[-1:]
        if self.fails(binp, d, cand):
            # drop the structural lines that are not needed (stateful: order kept)
            return ddmin(cand, lambda sub: self.fails(binp, d, sub))
        return ddmin(tail, lambda sub: self.fails(binp, d, sub))

    def run_engine(self, tier, seed):
        res = super().run_engine(tier, seed)
        dist = res.get("distribution", {})
        if not res["problems"]:
            if dist.get("wdist", 0) + dist.get("wattr", 0) == 0:
                res["problems"].append({"what": "negative control: no consulting call faulted on an unrefreshed read-only copy "
                                                "(the read-only check cannot see writes)", "seed": seed, "replay": "distribution: %r\n" % dist})
            for k, why in (("reg_toocomplex", "no diff export of a list with a TOO_COMPLEX entry ran"),
                           ("reg_err", "no early-error path of a registry entry point ran"),
                           ("reg_with_T", "no registry op ran while the episode's topology was alive"),
                           ("reg_pool_inited", "no registry op ran while a merely initialised topology was alive"),
                           ("reg_adopt_ok", "no shared-memory adopt succeeded"), ("reglive", "no live-count comparison ran")):
                if dist.get(k, 0) == 0:
                    res["problems"].append({"what": "registry histories lost coverage: " + why, "seed": seed,
                                            "replay": "distribution: %r\n" % dist})
            if dist.get("ro", 0) == 0:
                res["problems"].append({"what": "no consulting call completed on a read-only copy", "seed": seed,
                                        "replay": "distribution: %r\n" % dist})
        return res


ENGINE = ReadonlyEngine()


# ---------------------------------------------------------------------------------------------- conc

def _model(lines):
    r = subprocess.run([hwmodel_path(), "conc"], input="\n".join(lines) + "\n", stdout=subprocess.PIPE,
                       stderr=subprocess.PIPE, text=True)
    return r.stdout.splitlines()


SEARCHES = {"quick": ["search 2 1", "search 2 2", "search 3 1"],
            "thorough": ["search 2 1", "search 2 2", "search 2 3", "search 3 1", "search 3 2", "search 4 1"]}


def run_conc(tier, seed):
    lines = ["ir"] + SEARCHES[tier]
    out = _model(lines)
    problems, samples, states = [], [], 0
    if len(out) != len(lines):
        problems.append({"what": "driver `conc` did not answer", "seed": seed, "replay": "\n".join(out) + "\n"})
        return {"evaluations": 0, "distinct_nontrivial": 0, "problems": problems, "samples": [], "rule": ""}
    ir = out[0]
    for l, o in zip(lines[1:], out[1:]):
        samples.append("%s -> %s" % (l, o))
        m = re.match(r"ok states=(\d+)$", o)
        if m:
            states += int(m.group(1))
            continue
        sched = o.split("schedule=")[-1] if "schedule=" in o else ""
        nthr = l.split()[1]
        tr = _model(["trace %s %s" % (nthr, sched)]) if sched else ["<no schedule>"]
        problems.append({"what": "interleaving search of the generated hwloc_components_init/fini IR: " + o.split(" schedule=")[0],
                         "seed": seed,
                         "replay": "# generated IR: %s\n# %s -> %s\ntrace %s %s\n# final state: %s\n" % (ir, l, o, nthr, sched, tr[0])})
        break
    return {"evaluations": states, "distinct_nontrivial": states, "problems": problems, "samples": [ir] + samples,
            "ir_matches_model": ir.endswith("matches-model=1"),
            "rule": "every reachable state of every interleaving of N threads x R init/fini rounds of the GENERATED programs "
                    "(N,R) in %s: no access outside the mutex, lock free -> (registry <-> users>0), a thread between init and "
                    "fini sees the registry, torn down at the end, no deadlock" % [s.split()[1:] for s in SEARCHES[tier]]}


# ---------------------------------------------------------------------------------------------- tsan (support only)

def run_tsan(tier, seed):
    """-> dict attached to the evidence; never a verdict"""
    info = {"ran": False}
    try:
        binp = build_harness("tsan", variant="tsan")
    except Exception as e:
        info["error"] = "tsan build failed: %s" % str(e)[-400:]
        return info
    wd = os.path.join(BUILD, "run", "tsan-%d" % os.getpid())
    os.makedirs(wd, exist_ok=True)
    env = dict(os.environ, VERIF_SEED=str(seed), VERIF_XMLDIR=os.path.join(REPO, "tests", "hwloc", "xml"),
               HWLOC_HIDE_ERRORS="2", TSAN_OPTIONS="halt_on_error=0 report_signal_unsafe=0 exitcode=0")
    runs = []
    try:
        cfgs = [("readers", 2), ("readers", 4), ("readers", 16), ("independent", 4)]
        if tier == "thorough":
            cfgs += [("independent", 16), ("readers-cold", 4), ("readers-unrefreshed", 4)]
        else:
            cfgs += [("readers-cold", 4), ("readers-unrefreshed", 4)]
        for mode, nthr in cfgs:
            r = run([binp, mode, str(nthr), "3" if tier == "quick" else "10", os.path.join(wd, "s")], env=env, cwd=wd, timeout=600)
            out = r.stdout
            reports = out.count("WARNING: ThreadSanitizer")
            m = re.search(r"RESULT (.*)", out)
            first = ""
            if reports:
                i = out.index("WARNING: ThreadSanitizer")
                first = out[i:i + 1500]
            runs.append({"mode": mode, "threads": nthr, "rc": r.returncode, "tsan_reports": reports,
                         "result": m.group(1) if m else out[-300:], "first_report": first})
        info.update(ran=True, runs=runs)
    except Exception as e:
        info["error"] = str(e)[-400:]
    finally:
        shutil.rmtree(wd, ignore_errors=True)
    return info


def run_engine(tier, seed):
    t0 = time.time()
    conc = run_conc(tier, seed)
    ro = ENGINE.run_engine(tier, seed)
    out = dict(ro)
    out["evaluations"] = ro["evaluations"] + conc["evaluations"]
    out["distinct_nontrivial"] = ro["distinct_nontrivial"] + conc["distinct_nontrivial"]
    out["problems"] = conc["problems"] + ro["problems"]
    out["samples"] = conc["samples"][:4] + (ro.get("samples") or [])[:6]
    out["rule"] = "conc: " + conc["rule"] + " || readonly: " + ro["rule"]
    out["conc_states"] = conc["evaluations"]
    out["ir_matches_model"] = conc.get("ir_matches_model")
    if os.environ.get("VERIF_C17_NO_TSAN") != "1":
        out["tsan_support"] = run_tsan(tier, seed)
        known = []
        for r in out["tsan_support"].get("runs", []):
            if r["mode"] == "readers-cold" and r["tsan_reports"]:
                known.append("F15 cold-start race on function-local static environment caches: %d TSan reports with %d threads "
                             "(support run without warm-up)" % (r["tsan_reports"], r["threads"]))
        if known:
            out["known_hits"] = list(out.get("known_hits", [])) + known
    out["engine_wall_s"] = round(time.time() - t0, 1)
    return out
