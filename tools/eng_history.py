"""Engine `history` (C02): generated histories of public modifying calls on real topologies; after every step the
dump is judged by the Lean driver: WF oracle, model prediction for allow/infos/subtype, unchanged-on-documented-failure,
gp_index/type stability; userdata stability is checked in the harness."""
import os, shutil, hashlib, glob
from concurrent.futures import ThreadPoolExecutor
from common import *
from diffrun import *
import snapshots


def _env(seed=None, libxml=1):
    """`libxml` is the process configuration code: bit 0 = HWLOC_LIBXML; codes 2, 3 additionally run the whole process under
    HWLOC_CPUKINDS_RANKING=none (the CPU-kind side-structure invariant "efficiencies all -1 or 0..nr-1" must hold under the documented
    ranking strategies too: C02-r8); the code travels with every replay / shrink of the case"""
    e = dict(os.environ, ASAN_OPTIONS="detect_leaks=1:abort_on_error=0", HWLOC_HIDE_ERRORS="2", HWLOC_LIBXML=str(libxml % 2), LC_ALL="C")
    for k in list(e):
        if k.startswith("HWLOC_") and k not in ("HWLOC_HIDE_ERRORS", "HWLOC_LIBXML"):
            del e[k]
    if libxml >= 2:
        e["HWLOC_CPUKINDS_RANKING"] = "none"
    if seed is not None:
        e["VERIF_SEED"] = str(seed)
    return e


def split_cases(ops, cl, ml):
    """-> list of cases: {'script': [LOAD, OP...], 'bad': (step index, op, model answer) or None}"""
    cases, cur = [], None
    n = min(len(ops), len(ml))
    for i in range(n):
        o = ops[i]
        if o.startswith("LOAD "):
            cur = {"script": [o], "bad": None, "nsteps": 0}
            cases.append(cur)
        elif o.startswith("OP ") and cur is not None:
            if o != "OP load":
                cur["script"].append(o)
            cur["nsteps"] += 1
        c = cl[i] if i < len(cl) else "<none>"
        if cur is not None and ml[i] != c and cur["bad"] is None:
            cur["bad"] = (len(cur["script"]), o, ml[i], c)
    return cases


def run_script(binp, d, script, libxml):
    os.makedirs(d, exist_ok=True)
    sp, ops, cout, mout = [os.path.join(d, x) for x in ("script.txt", "ops.txt", "c.out", "m.out")]
    open(sp, "w").write("\n".join(script) + "\n")
    r = run([binp, "replay", sp, ops, cout], env=_env(None, libxml))
    if os.path.exists(ops):
        run_model("history", ops, mout)
        o, c, m = read_lines(ops), read_lines(cout), read_lines(mout)
    else:
        o, c, m = [], [], []
    return r, o, c, m


def script_fails(binp, d, script, libxml):
    r, o, c, m = run_script(binp, d, script, libxml)
    if r.returncode != 0:
        return True
    return any(x != y for x, y in zip(c, m)) or len(c) != len(m)


def annotate(binp, d, script, libxml):
    r, o, c, m = run_script(binp, d, script, libxml)
    out = ["# engine history (HWLOC_LIBXML=%d%s): script lines; replay: harness h_history replay <script> <ops> <c.out>" % (libxml % 2, " HWLOC_CPUKINDS_RANKING=none" if libxml >= 2 else "")]
    out += script
    out.append("# judged steps (op -> C return -> model verdict):")
    op, ret = "", ""
    for i, l in enumerate(o):
        if l.startswith("OP "):
            op = l
        elif l.startswith("RET "):
            ret = l
        elif l.startswith("END ") or l.startswith("UD "):
            mi = m[i] if i < len(m) else "<none>"
            ci = c[i] if i < len(c) else "<none>"
            out.append("#   %s | %s | %s%s" % (op, ret, mi, "" if mi == ci else "   <== expected " + ci))
    if r.returncode != 0:
        out.append("# harness exit %d:\n# %s" % (r.returncode, r.stdout[-2500:].replace("\n", "\n# ")))
    return "\n".join(out) + "\n"


def one_run(binp, workdir, idx, seed, n, sources):
    d = os.path.join(workdir, "r%d" % idx)
    os.makedirs(d, exist_ok=True)
    ops, cout, mout = [os.path.join(d, x) for x in ("ops.txt", "c.out", "m.out")]
    lx = idx % 2 + (2 if idx % 8 in (4, 5) else 0)
    r = run([binp, "gen", str(n), sources, ops, cout], env=_env(seed, lx))
    res = {"seed": seed, "rc": r.returncode, "san": r.stdout[-3000:], "libxml": lx, "cases": [], "nlines": 0}
    if os.path.exists(ops):
        run_model("history", ops, mout)
        o, c, m = read_lines(ops), read_lines(cout), read_lines(mout)
        res["cases"] = split_cases(o, c, m)
        res["nlines"] = len(o)
        res["opstat"] = {}
        for l in o:
            if l.startswith("OP "):
                k = l.split()[1]
                res["opstat"][k] = res["opstat"].get(k, 0) + 1
        res["distinct"] = set(hashlib.md5(l.encode()).digest()[:8] for l in o if l.startswith("OP ") or l.startswith("RET "))
    return res


def run_engine(tier, seed):
    binp = build_harness("history")
    workdir = os.path.join(BUILD, "run", "history-%s" % os.getpid())
    shutil.rmtree(workdir, ignore_errors=True)
    os.makedirs(workdir)
    sources = os.path.join(workdir, "sources.txt")
    snapshots.write_sources(sources, "X")
    problems = []
    ncorpus = 0
    for f in sorted(glob.glob(os.path.join(ROOT, "corpus", "history", "*.script"))):
        script = [l for l in read_lines(f) if l and not l.startswith("#")]
        for lx in (0, 1):
            ncorpus += 1
            if script_fails(binp, os.path.join(workdir, "corpus"), script, lx):
                problems.append({"what": "corpus case %s fails again" % os.path.basename(f), "seed": 0,
                                 "replay": annotate(binp, os.path.join(workdir, "corpus"), script, lx)})
                break
    nruns, n = (16, 300) if tier == "quick" else (64, 2500)
    seeds = [int(seed) * 1000003 + i for i in range(nruns)]
    with ThreadPoolExecutor(NCPU) as ex:
        results = list(ex.map(lambda a: one_run(binp, workdir, a[0], a[1], n, sources), enumerate(seeds)))
    stats, distinct, nsteps, ncases = {}, set(), 0, 0
    samples = []
    for r in results:
        for k, v in r.get("opstat", {}).items():
            stats[k] = stats.get(k, 0) + v
        distinct |= r.get("distinct", set())
        for c in r["cases"]:
            ncases += 1
            nsteps += c["nsteps"]
            if len(samples) < 3 and len(c["script"]) > 3:
                samples.append(c["script"][:5])
            if c["bad"] and not problems:
                k, op, mans, cans = c["bad"]
                script = c["script"][:k]
                d = os.path.join(workdir, "shrink")
                if script_fails(binp, d, script, r["libxml"]):
                    head, body = script[:1], script[1:]
                    body = ddmin(body, lambda sub: script_fails(binp, d, head + sub, r["libxml"]), max_tests=120) if len(body) > 1 else body
                    script = head + body
                problems.append({"what": "history step judged '%s' (expected '%s') after %s" % (mans, cans, op), "seed": r["seed"],
                                 "replay": annotate(binp, d, script, r["libxml"])})
        if r["rc"] != 0 and not problems:
            last = r["cases"][-1]["script"] if r["cases"] else ["<none>"]
            d = os.path.join(workdir, "shrink")
            head, body = last[:1], last[1:]
            if script_fails(binp, d, last, r["libxml"]) and len(body) > 1:
                body = ddmin(body, lambda sub: script_fails(binp, d, head + sub, r["libxml"]), max_tests=120)
            problems.append({"what": "abort / sanitizer report inside hwloc during a history", "seed": r["seed"],
                             "replay": annotate(binp, d, head + body, r["libxml"]) + "# original harness output:\n# " + r["san"][-1500:].replace("\n", "\n# ") + "\n"})
    shutil.rmtree(workdir, ignore_errors=True)
    return {"evaluations": nsteps, "distinct_nontrivial": len(distinct), "histories": ncases, "distribution": stats, "corpus_cases": ncorpus,
            "problems": problems, "samples": samples,
            "rule": "a case = one public modifying call applied to the current topology of a generated history (2-10 calls after a load of a "
                    "synthetic or bundled XML topology, with/without INCLUDE_DISALLOWED, three filter presets): allow, add_info, modify_infos, "
                    "set_subtype (model-predicted), insert_misc, restrict, alloc/insert/free group (valid, straddling, equal, empty, nodeset-only, "
                    "dont_merge), distances add with/without grouping, distances remove, memattr register+set, cpukinds register, refresh "
                    "(oracle-judged); every step is followed by a full dump; distinct = distinct (call line, return line)"}
