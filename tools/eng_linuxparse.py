"""Engine `linuxparse` (C18): the static parsers of hwloc/topology-linux.c (cpulist, cpumask, read_fd) on generated
file contents, compared exactly with the Lean model (lean/Hw/Io/LinuxParse.lean)."""
from eng_generic import DiffEngine


def classify(op, c, m):
    # `big`: an index >= 2^17 reaches the bitmap layer (the list-based model is quadratic there, the real code allocates up
    # to 512 MB): outside the differential domain, whatever the C side answered (the harness caps allocations, see ASAN_OPTIONS)
    if m == "big" and not c.startswith("crash"):
        return "benign"
    # `ub`: the source has signed overflow on this input (finding C18-F1).  UBSan traps `nextfirst-1` and the final
    # `prevlast+1`, but gcc folds the in-loop `prevlast+1 <= nextfirst-1`, so the real answer may be anything: not compared.
    # (The converse IS compared: a trap where the model sees no overflow is a disagreement.)
    if m == "ub" and not c.startswith("crash"):
        return "benign"
    return "diff"


def dkey(op, c):
    t = op.split()
    return t[0] + "|" + (t[1][:400] if len(t) > 1 else "") + "|" + (t[2][:80] if len(t) > 2 else "") + "|" + c[:80]


ENGINE = DiffEngine("linuxparse", include_c=("topology-linux",), stateful=False, classify=classify, distinct_key=dkey,
                    sizes={"quick": (16, 1500), "thorough": (64, 12000)},
                    env={"ASAN_OPTIONS": "detect_leaks=1:abort_on_error=0:max_allocation_size_mb=96:allocator_may_return_null=1"},
                    rule="per case one file content (well-formed kernel cpulists / cpumasks of many widths incl. files larger than a page, "
                         "boundary indexes, 45 weird numbers (wrap-around, sign, hex/octal, saturation), token mutants, raw bytes with NULs, "
                         "empty files, missing files) parsed by the real static function into differently pre-filled destinations, or one "
                         "hwloc__read_fd run under a scripted read() (full, short, over-long, failing reads); compared exactly: return "
                         "code and resulting set / final size and byte count; distinct = distinct (op, content, C answer)")


def run_engine(tier, seed):
    return ENGINE.run_engine(tier, seed)
