"""Engine `linuxparse` (C18): the static parsers of hwloc/topology-linux.c (cpulist, cpumask, read_fd) on generated
file contents, compared exactly with the Lean model (lean/Hw/Io/LinuxParse.lean)."""
from eng_generic import DiffEngine


def classify(op, c, m):
    # `big`: an index >= 2^17 reaches the bitmap layer (the list-based model is quadratic there, the real code allocates up
    # to 512 MB): outside the differential domain, whatever the C side answered (the harness caps allocations, see ASAN_OPTIONS)
    if m == "big" and not c.startswith("crash"):
        return "benign"
    # `ub`: the source has signed overflow on this input (finding C18-F1).  UBSan traps `nextfirst-1` and the final
    # `prevlast+1`, but gcc folds the in-loop `prevlast+1 <= nextfirst-1`, so the real answer may be anything: not compared.
    # (The converse IS compared: a trap where the model sees no overflow is a disagreement.)
    if m == "ub" and not c.startswith("crash"):
        return "benign"
    return "diff"


def dkey(op, c):
    t = op.split()
    return t[0] + "|" + (t[1][:400] if len(t) > 1 else "") + "|" + (t[2][:80] if len(t) > 2 else "") + "|" + c[:80]


ASAN = "detect_leaks=1:abort_on_error=0:max_allocation_size_mb=96:allocator_may_return_null=1"
# stream `old`: the parser cases (unchanged sizes and, seed for seed, unchanged content)
ENGINE = DiffEngine("linuxparse", include_c=("topology-linux",), stateful=False, classify=classify, distinct_key=dkey,
                    sizes={"quick": (16, 1500), "thorough": (64, 12000)},
                    env={"ASAN_OPTIONS": ASAN, "VERIF_LP_STREAM": "old"},
                    rule="per case one file content (well-formed kernel cpulists / cpumasks of many widths incl. files larger than a page, "
                         "boundary indexes, 45 weird numbers (wrap-around, sign, hex/octal, saturation), token mutants, raw bytes with NULs, "
                         "empty files, missing files) parsed by the real static function into differently pre-filled destinations, or one "
                         "hwloc__read_fd run under a scripted read() (full, short, over-long, failing reads); compared exactly: return "
                         "code and resulting set / final size and byte count; distinct = distinct (op, content, C answer)")


def classify_fs(op, c, m):
    # `fsdep`: an input containing `..` (path resolution below the fsroot is modelled for plain trees only): not compared
    if m == "fsdep" and not c.startswith("crash"):
        return "benign"
    return classify(op, c, m)


def dkey_fs(op, c):
    return op[:600] + "|" + c[:80]


# stream `fs` (A9): the numeric / meminfo / hugepages readers and the cgroup handling on files under a scratch fsroot
ENGINE_FS = DiffEngine("linuxparse", include_c=("topology-linux",), stateful=False, classify=classify_fs, distinct_key=dkey_fs,
                       sizes={"quick": (16, 700), "thorough": (64, 3000)},
                       env={"ASAN_OPTIONS": ASAN, "VERIF_LP_STREAM": "fs"},
                       rule="per case a set of files written under a scratch fsroot (numbers around 2^31/2^32/2^63/2^64 and the 11/22-byte "
                            "buffers, meminfo texts with the key around byte 4095, hugepages directories, /proc/self/cpuset and cgroup files with "
                            "lines around 256 bytes, /proc/mounts with cgroup/cgroup2/cpuset lines, escapes, comments, lines beyond 4 pages, "
                            "cgroup.controllers and cpuset files incl. names cut at 255 bytes, NUL bytes, token mutants) and one call of the real "
                            "hwloc_read_path_as_int/uint/uint64, hwloc_parse_meminfo_info, hwloc_parse_hugepages_info, "
                            "hwloc_read_linux_cgroup_name, hwloc_find_linux_cgroup_mntpnt, hwloc_admin_disable_set_from_cgroup or "
                            "hwloc_linux__get_allowed_resources; compared exactly with the Lean model (hugepages list as a sorted multiset)")


def run_engine(tier, seed):
    a = ENGINE.run_engine(tier, seed)
    b = ENGINE_FS.run_engine(tier, seed)
    dist = dict(a.get("distribution") or {})
    for k, v in (b.get("distribution") or {}).items():
        dist[k] = dist.get(k, 0) + v
    dist = {k: v for k, v in dist.items() if v}
    return {"evaluations": a["evaluations"] + b["evaluations"], "distinct_nontrivial": a["distinct_nontrivial"] + b["distinct_nontrivial"],
            "benign_repr_diffs": a["benign_repr_diffs"] + b["benign_repr_diffs"], "distribution": dist, "buckets_hit": len(dist),
            "corpus_cases": a["corpus_cases"], "problems": a["problems"] + b["problems"],
            "samples": (a.get("samples") or [])[:4] + (b.get("samples") or [])[:4], "rule": a["rule"] + " || fsroot: " + b["rule"],
            "fs_stream": {k: b.get(k) for k in ("evaluations", "distinct_nontrivial", "benign_repr_diffs")}}
