"""Engine `xmlscan` (C06): the static nolibxml scanner callbacks of hwloc on byte buffers under a scripted consumer,
against the Lean model Hw.XmlScan (every read/write bounds-checked in the model; ASan on exact-size heap blocks in C)."""
import os
from eng_generic import DiffEngine
from common import *
import snapshots


def classify(op, c, m):
    # the distances probe: when an index names no PU or a PU twice, what hwloc_distances_get() returns is C13's business;
    # the model then only predicts the load result
    if op.startswith("dist ") and m.endswith(" *") and c.startswith(m[:-2]):
        return "same"
    return "diff"


def distinct_key(op, c):
    t = op.split()
    # a case = (callback, its observable result without the whole-buffer hash)
    return t[0] + "|" + " ".join(x for x in c.split() if not x.startswith(("H=", "B=")))


class XmlScanEngine(DiffEngine):
    def run_engine(self, tier, seed):
        src = os.path.join(BUILD, "run", "xmlscan-sources-%d.txt" % os.getpid())
        os.makedirs(os.path.dirname(src), exist_ok=True)
        snapshots.write_sources(src, "X")
        self.env = dict(self.env, VERIF_XML_SOURCES=src)
        try:
            r = DiffEngine.run_engine(self, tier, seed)
        finally:
            try:
                os.remove(src)
            except OSError:
                pass
        return r


ENGINE = XmlScanEngine(
    "xmlscan", include_c=("topology-xml-nolibxml",), classify=classify, distinct_key=distinct_key,
    sizes={"quick": (16, 25000), "thorough": (48, 120000)},
    rule="buffers: valid v3 / v2 exports of synthetic topologies annotated with infos (escaped characters), userdata, distances, Misc; "
         "the bundled XML files (first 6000 bytes); hand-written small documents truncated at EVERY byte; structure-aware mutants "
         "(garbage tokens, structural bytes, deletions, truncation next to =\" and >); random bytes.  Each buffer is scanned by a "
         "scripted consumer following hwloc__xml_import_object (attrs*, (child|content)*, close) with illegal-order noise; a case = "
         "one callback invocation in the current buffer/cursor state; compared: return value, cursor offsets, extracted name/value/"
         "tag/content bytes, all buffer bytes after the in-place edits (hash); distinct = distinct (callback, observable result)")


def run_engine(tier, seed):
    return ENGINE.run_engine(tier, seed)
