"""Extraction of the bundled Linux / x86 snapshots into BUILD/snapshots (cached), and source lists."""
import os, glob, tarfile, shutil
from common import *

SNAP = os.path.join(BUILD, "snapshots")


def _extract(archive, kind):
    name = os.path.basename(archive)[:-len(".tar.bz2")]
    dest = os.path.join(SNAP, kind, name)
    stamp = os.path.join(dest, ".stamp")
    sig = "%d-%d" % (os.path.getsize(archive), int(os.path.getmtime(archive)))
    if os.path.exists(stamp) and open(stamp).read() == sig:
        pass
    else:
        shutil.rmtree(dest, ignore_errors=True)
        os.makedirs(dest)
        try:
            with tarfile.open(archive, "r:bz2") as tf:
                tf.extractall(dest)
        except Exception as e:
            log("[snapshots] cannot extract %s: %s" % (archive, e))
            return None
        open(stamp, "w").write(sig)
    subs = [d for d in glob.glob(os.path.join(dest, "*")) if os.path.isdir(d)]
    return subs[0] if subs else None


def linux_snapshots():
    out = []
    for a in sorted(glob.glob(os.path.join(REPO, "tests", "hwloc", "linux", "*.tar.bz2"))):
        d = _extract(a, "linux")
        if d:
            out.append(d)
    return out


def x86_snapshots():
    out = []
    for a in sorted(glob.glob(os.path.join(REPO, "tests", "hwloc", "x86", "*.tar.bz2"))):
        d = _extract(a, "x86")
        if d:
            out.append(d)
    return out


def xml_files():
    return sorted(glob.glob(os.path.join(REPO, "tests", "hwloc", "xml", "*.xml")) +
                  glob.glob(os.path.join(REPO, "tests", "hwloc", "linux", "*.xml")) +
                  glob.glob(os.path.join(REPO, "tests", "hwloc", "x86", "*.xml")))


def write_sources(path, kinds="XFC"):
    n = 0
    with open(path, "w") as f:
        if "X" in kinds:
            for x in xml_files():
                f.write("X %s\n" % x); n += 1
        if "F" in kinds:
            for d in linux_snapshots():
                f.write("F %s\n" % d); n += 1
        if "C" in kinds:
            for d in x86_snapshots():
                f.write("C %s\n" % d); n += 1
    return n
