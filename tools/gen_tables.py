"""Translator (tie T): regenerates lean/Hw/Gen/*.lean from /repo's working tree on every run.
Each generator fails closed (raises) when it cannot parse the construct it expects."""
import os, re, subprocess
from common import *

GEN_DIR = os.path.join(LEAN, "Hw", "Gen")


def write_if_changed(path, text):
    os.makedirs(os.path.dirname(path), exist_ok=True)
    if os.path.exists(path) and open(path).read() == text:
        return False
    with open(path, "w") as f:
        f.write(text)
    return True


def generate_all():
    """returns {'obligations': {pid: n}}"""
    info = {"obligations": {}}
    import gen_typestr
    info["obligations"]["C11"] = gen_typestr.generate()
    import gen_bind
    info["obligations"]["C10"] = gen_bind.generate()
    import gen_shmem
    info["obligations"]["C19"] = gen_shmem.generate()
    import gen_conc
    info["obligations"]["C17"] = gen_conc.generate()
    import gen_dup
    info["obligations"]["C12"] = gen_dup.generate()
    import gen_restrict
    info["obligations"]["C08"] = gen_restrict.generate()
    return info
