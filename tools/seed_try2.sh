#!/bin/bash
# usage: tools/seed_try2.sh <PID> <seed-dir-with-patch.diff> [name]
# like seed_try.sh but leaves /repo untouched: the patch is applied to a scratch copy of /repo's working tree and the check runs with
# VERIF_REPO pointing at it (used while other sub-agents copy /repo).  The final confirmation (tools/seed_all.sh) applies to /repo itself.
set -u
PID=$1; SRC=$2; NAME=${3:-$(basename $(readlink -f $2))}
D=/verif/seeded/$NAME
mkdir -p $D
[ "$(readlink -f $SRC)" != "$(readlink -f $D)" ] && { cp $SRC/patch.diff $D/patch.diff; for f in demo.c demo.sh meta.json; do [ -f $SRC/$f ] && cp $SRC/$f $D/$f; done; }
S=/tmp/seedrepo_$$
rm -rf $S; mkdir -p $S
rsync -a --exclude .git --exclude '*.o' --exclude '*.lo' --exclude '.libs' /repo/ $S/
cd $S
if ! patch -p1 --dry-run -s < $D/patch.diff >/dev/null 2>&1; then echo "patch does not apply"; rm -rf $S; exit 2; fi
patch -p1 -s < $D/patch.diff
cd /verif
OUT=$(VERIF_REPO=$S ./check $PID --tier quick 2>&1); RC=$?
rm -rf $S
echo "$OUT" | tail -25 > $D/check_output.txt
LAST=$(echo "$OUT" | grep -E "^(VIOLATION|OK)" | tail -1)
python3 - "$D" "$PID" "$RC" "$LAST" <<'PY'
import json,sys,os
d,pid,rc,last=sys.argv[1:5]
p=os.path.join(d,'meta.json')
m=json.load(open(p)) if os.path.exists(p) else {}
m.setdefault('property',pid)
m['verif_result']={'check':'VERIF_REPO=<scratch copy of /repo with the patch> ./check %s --tier quick'%pid,'exit':int(rc),'verdict_line':last,'caught':int(rc)==1 and last.startswith('VIOLATION')}
json.dump(m,open(p,'w'),indent=1)
print(pid, 'CAUGHT' if m['verif_result']['caught'] else 'MISSED', last)
PY
./check $PID --tier quick >/dev/null 2>&1
