"""Engine `cpukinds` (C15): generated histories of hwloc_cpukinds_register / hwloc_topology_restrict / dup /
XML export+import / refresh on a real synthetic topology vs the Lean model (lean/Hw/Attr/CpuKinds.lean).
Side streams (`+ireg`): about a third of the registrations go through hwloc_internal_cpukinds_register directly (op
`ireg`: flags 0 as the discovery backends pass, OVERWRITE, invalid; no ranking afterwards) vs `internalRegister`.

Disallowed PUs: about half of the episodes load the topology with HWLOC_TOPOLOGY_FLAG_INCLUDE_DISALLOWED (op `initd`) and call
hwloc_topology_allow (op `allow`: CUSTOM with sets chosen against the root / allowed cpusets and the current kinds, ALL,
invalid) before and between registrations, restricts, dups and XML round trips, so that kinds are registered over PUs that
are in the topology but not allowed.  Model: lean/Hw/Attr/CpuKindsAllowed.lean (restrict is refused iff the set misses the
ALLOWED cpuset, kinds are cut by the new ROOT cpuset, `allow` never touches the kinds); every observation carries
allowed=<hex> dis=<flag>.  Coverage counters: dis_episodes, allow_*, reg_over_disallowed, restrict_ok_strict,
restrict_keeps_disallowed_kind_pu (a successful restrict after which some kind still owns a disallowed PU),
restrict_einval_misses_allowed, dup_strict / xml_strict (allowed strictly inside root, kinds present), by_disallowed_idx.

Observation after every op (public API only, exact comparison): errno class, get_nr, and for every kind
get_info's cpuset (hex mask), efficiency, info pairs in order; plus the private forced_efficiency (exact),
and get_by_cpuset / get_nr / get_info answers for generated queries.
Private, compared by rule (not constrained by the property beyond the array bound):
  alloc=  nr_cpukinds_allocated: a different value is benign as long as nr <= alloc and 2*oldnr+1 <= alloc
  stale=  infos.array != NULL flags of the unused slots: benign if the C side has none (slots cleared = defect class gone)

Known finding (stale slot after restrict, see Props/C15.lean `C15_defect_stale_slot_reachable`): a register that
would create a kind in a vacated slot holding a stale non-NULL infos.array is written as `regskip` and not executed unless
VERIF_C15_INCLUDE_STALE_SLOT_DEFECT=1; harness and model must agree on which registers those are."""
import os, shutil, hashlib, re
from concurrent.futures import ThreadPoolExecutor
from common import *
from diffrun import *

ENGINE = "cpukinds"
STRATEGIES = ["dflt", "no_forced_efficiency", "forced_efficiency", "coretype+frequency", "coretype+frequency_strict",
              "coretype", "frequency", "frequency_max", "frequency_base", "none", "bogus_value"]
ENVVALS = ["dflt", "default", "no_forced_efficiency", "forced_efficiency", "coretype+frequency", "coretype+frequency_strict",
           "coretype", "frequency", "frequency_max", "frequency_base", "none", "bogus_value"]   # = envvals[] of the harness
KNOWN_ID = "F20"
SWITCH = "VERIF_C15_INCLUDE_STALE_SLOT_DEFECT"

PROBE_OPS = ["env dflt", "init ff", "reg f -1 0 A=1", "reg f0 -1 0 B=2", "restrict f0", "reg 30 -1 0 C=3"]

_nr = re.compile(r"\bnr=(\d+)")
_alloc = re.compile(r"alloc=(\d+)")
_stale = re.compile(r"stale=(\S*)")
_hit = re.compile(r" stalehit=([01])")


def split_line(l):
    pub, _, priv = l.partition(" ;; ")
    m = _hit.search(pub)
    hit = m.group(1) if m else None
    pub = _hit.sub("", pub)
    a = _alloc.search(priv)
    s = _stale.search(priv)
    return pub, hit, (int(a.group(1)) if a else None), (s.group(1) if s else "")


def compare(ops, c_lines, m_lines):
    """returns (ndiff, nbenign, firsts[(index, op, c, m, why)])"""
    ndiff = nbenign = 0
    firsts = []
    prev_nr = 0
    n = max(len(ops), len(c_lines), len(m_lines))
    for i in range(n):
        op = ops[i] if i < len(ops) else "<none>"
        c = c_lines[i] if i < len(c_lines) else "<missing>"
        m = m_lines[i] if i < len(m_lines) else "<missing>"
        mnr = _nr.search(c)
        cur_nr = int(mnr.group(1)) if mnr else prev_nr
        if c != m:
            why = None
            cp, ch, ca, cs = split_line(c)
            mp, mh, ma, ms = split_line(m)
            if cp != mp:
                why = "public observation differs"
            elif ch != mh and not (ch == "0" and mh == "1"):
                why = "stale-slot prediction differs (C says hit, model says clean)"
            elif cs != ms and cs != "":
                why = "stale slot contents differ"
            elif ca != ma and not (ca is not None and ca >= cur_nr and
                                   (not op.startswith("reg ") or "rc=ok" not in c or ca >= 2 * prev_nr + 1)):
                why = "array bound violated: alloc=%s nr=%d oldnr=%d" % (ca, cur_nr, prev_nr)
            if why is None:
                nbenign += 1
            else:
                ndiff += 1
                if len(firsts) < 5:
                    firsts.append((i, op, c, m, why))
        prev_nr = cur_nr
    return ndiff, nbenign, firsts


def harness_env(seed=None, strat="dflt", libxml=True, include_stale=True, ireg=False):
    env = dict(os.environ, ASAN_OPTIONS="detect_leaks=1:abort_on_error=0", UBSAN_OPTIONS="print_stacktrace=1",
               VERIF_C15_STRATEGY=strat)
    env.pop("HWLOC_CPUKINDS_RANKING", None)
    if seed is not None:
        env["VERIF_SEED"] = str(seed)
    if not libxml:
        env["HWLOC_LIBXML"] = "0"
    else:
        env.pop("HWLOC_LIBXML", None)
    env[SWITCH] = "1" if include_stale else "0"
    env["VERIF_C15_IREG"] = "1" if ireg else "0"
    return env


def one_run(binp, workdir, idx, seed, nops, strat, libxml, ireg=False, mix=None):
    """mix: None | "mix" (HWLOC_CPUKINDS_RANKING changes between / inside episodes, a quarter of them ranking-focused) |
    "rank" (same, every episode ranking-focused: every strategy re-ranks every scenario)"""
    d = os.path.join(workdir, "r%d" % idx)
    os.makedirs(d, exist_ok=True)
    ops, cout, mout, st = [os.path.join(d, x) for x in ("ops.txt", "c.out", "m.out", "stats.txt")]
    env = harness_env(seed, strat, libxml, ireg=ireg)
    env.pop("VERIF_C15_ENVMIX", None)
    env.pop("VERIF_C15_PROFILE", None)
    if mix:
        env["VERIF_C15_ENVMIX"] = "1"
        if mix == "rank":
            env["VERIF_C15_PROFILE"] = "4"
    r = run([binp, str(nops), ops, cout, st], env=env)
    res = {"seed": seed, "rc": r.returncode, "san": r.stdout[-3000:] if r.returncode else "", "dir": d,
           "strat": (mix if mix else strat) + ("+ireg" if ireg else ""), "libxml": libxml}
    if os.path.exists(ops):
        run_model(ENGINE, ops, mout)
        o, c, m = read_lines(ops), read_lines(cout), read_lines(mout)
        nd, nb, firsts = compare(o, c, m)
        if r.returncode != 0 and nd == 0 and len(c) < len(o):
            pass
        res.update(nops=len(o), ndiff=nd, nbenign=nb, firsts=firsts, ops=o, c=c)
        res["stats"] = dict((l.split()[0], int(l.split()[1])) for l in read_lines(st)) if os.path.exists(st) else {}
    else:
        res.update(nops=0, ndiff=0, nbenign=0, firsts=[], ops=[], c=[], stats={})
    return res


def replay_once(binp, d, ops, strat="dflt", libxml=True, include_stale=False):
    """run an op list through C (replay mode) and the model; returns (rc, eff_ops, c_lines, m_lines, san)"""
    os.makedirs(d, exist_ok=True)
    p, c, m, e = [os.path.join(d, x) for x in ("ops.txt", "c.out", "m.out", "eff.txt")]
    with open(p, "w") as f:
        f.write("\n".join(ops) + "\n")
    env = harness_env(None, strat, libxml, include_stale)
    env["ASAN_OPTIONS"] = "detect_leaks=0:abort_on_error=0"
    r = run([binp, "--replay", p, c, e], env=env)
    run_model(ENGINE, e, m)
    return r.returncode, read_lines(e), read_lines(c), read_lines(m), r.stdout[-2500:]


def strat_of(ops, default="dflt"):
    for o in ops:
        t = o.split()
        if len(t) == 2 and t[0] == "env":
            return t[1]
    return default


def shrink(binp, workdir, ops, libxml):
    """episodes are independent (every `init` builds a fresh topology): keep the `env` line and the `init` of the
    failing episode fixed, delta-debug the ops after it"""
    d = os.path.join(workdir, "shrink")
    env_head = [o for o in ops[:1] if o.startswith("env ")]
    inits = [i for i, o in enumerate(ops) if o.startswith(("init ", "initd "))]
    if inits:
        # the value of HWLOC_CPUKINDS_RANKING in force when the failing episode starts (`env` lines set it for real)
        envs = [o for o in ops[:inits[-1]] if o.startswith("env ")]
        env_head = envs[-1:] if envs else env_head
    strat = strat_of(env_head)
    if inits:
        head, body = env_head + [ops[inits[-1]]], ops[inits[-1] + 1:]
    else:
        head, body = env_head, ops[len(env_head):]

    def fails(sub):
        rc, eff, c, m, _ = replay_once(binp, d, head + sub, strat, libxml)
        if rc != 0:
            return True
        nd, _, _ = compare(eff, c, m)
        return nd > 0
    if not fails(body):
        # not reproducible from the last episode alone (should not happen): fall back to the whole prefix
        head, body = env_head, ops[len(env_head):]
        if not fails(body):
            return ops
        keep = [o for o in body]
        return head + ddmin(keep, lambda sub: any(x.startswith(("init ", "initd ")) for x in sub[:1]) and fails(sub))
    return head + ddmin(body, fails)


def replay_text(binp, workdir, ops, libxml=True, include_stale=False):
    d = os.path.join(workdir, "shrink")
    strat = strat_of(ops)
    rc, eff, cl, ml, san = replay_once(binp, d, ops, strat, libxml, include_stale)
    out = ["# engine cpukinds: op | hwloc (C) | Lean model",
           "# replay: ./check C15 --replay <this file>   (HWLOC_CPUKINDS_RANKING=%s, HWLOC_LIBXML=%s)" % (
               strat, "default" if libxml else "0")]
    for i, o in enumerate(eff):
        ci = cl[i] if i < len(cl) else "<none>"
        mi = ml[i] if i < len(ml) else "<none>"
        out.append("%s\n#   C: %s\n#   M: %s%s" % (o, ci, mi, "" if ci == mi else "   <== DIFFERS"))
    if rc != 0:
        out.append("# harness exit %d:\n# %s" % (rc, san.replace("\n", "\n# ")))
    return "\n".join(out) + "\n", rc, eff, cl, ml


def probe_known(binp, workdir):
    """does the stale-slot defect still reproduce?  (executed with the switch on, no verdict)"""
    d = os.path.join(workdir, "probe")
    rc, eff, c, m, san = replay_once(binp, d, PROBE_OPS, "dflt", True, include_stale=True)
    nd, _, firsts = compare(eff, c, m)
    if rc != 0 or nd > 0:
        what = "AddressSanitizer/abort" if rc != 0 else "kind reports infos it was never registered with"
        m1 = re.search(r"ERROR: AddressSanitizer: (\S+)", san)
        return ("%s stale slot after restrict: ops [%s] -> %s%s" % (
            KNOWN_ID, "; ".join(PROBE_OPS[1:]), what, " (" + m1.group(1) + ")" if m1 else ""))
    return None


FINDING2_FILE = os.path.join(ROOT, "corpus", "cpukinds.findings", "ireg-split-drops-forced.txt")


def probe_split_forced(binp, workdir):
    """internal entry point, flags 0: does a split still give the split-off kind the NEW forced efficiency (even UNKNOWN)
    instead of keeping the known one?  (no verdict: the generated ireg stream stays outside that class)"""
    ops = [l for l in read_lines(FINDING2_FILE) if l and not l.startswith("#")]
    rc, eff, c, m, san = replay_once(binp, os.path.join(workdir, "probe2"), ops, "dflt", True)
    nd, _, firsts = compare(eff, c, m)
    if rc == 0 and nd == 0:
        return ("C15-ireg-split hwloc_internal_cpukinds_register flags=0: a partly covered kind with forced efficiency 5 is "
                "split and the split-off kind gets the new value -1 (whole-kind registration keeps 5): " + c[3])
    return ("C15-ireg-split no longer reproduces (C differs from the model on %s): update the split branch of "
            "CpuKinds.regLoop / flatNew / AMap.regG" % FINDING2_FILE)


def run_engine(tier, seed, corpus_dir=None):
    binp = build_harness(ENGINE)
    workdir = os.path.join(BUILD, "run", "%s-%s" % (ENGINE, os.getpid()))
    shutil.rmtree(workdir, ignore_errors=True)
    os.makedirs(workdir)
    seed = int(seed)
    if tier == "quick":
        nops = 50000
        plan = [("dflt", i % 2 == 0) for i in range(10)] + [(s, i % 2 == 1) for i, s in enumerate(STRATEGIES[1:7])]
        # rotate the side-stream strategies with the seed so that every one is visited over a few seeds
        side = STRATEGIES[1:]
        plan = [("dflt", i % 2 == 0) for i in range(10)] + [(side[(seed + i) % len(side)], i % 2 == 1) for i in range(6)]
    else:
        nops = 400000
        plan = [("dflt", i % 2 == 0) for i in range(28)] + [(s, (i + j) % 2 == 0) for j in range(2) for i, s in enumerate(STRATEGIES[1:])]
    jobs = [(i, seed * 1000003 + i, nops, s, lx) for i, (s, lx) in enumerate(plan)]
    # A7: streams in which HWLOC_CPUKINDS_RANKING changes between the calls of one process (every value in every stream)
    nmix, nrank = (2, 3) if tier == "quick" else (4, 8)
    mixjobs = [(1000 + i, seed * 1000003 + 1000 + i, nops, "dflt", i % 2 == 0, i % 3 == 2, "mix" if i < nmix else "rank")
               for i in range(nmix + nrank)]
    if os.environ.get("VERIF_C15_NO_MIX", "0") not in ("", "0"):   # development knob: the streams as they were before A7
        mixjobs = []
    # side streams through the internal entry point (flags 0 / OVERWRITE / invalid, no ranking), default strategy and one other
    nireg = 2 if tier == "quick" else 6
    jobs += [(len(plan) + i, seed * 1000003 + len(plan) + i, nops, ("dflt" if i % 2 == 0 else STRATEGIES[1 + (seed + i) % (len(STRATEGIES) - 1)]),
              i % 4 < 2, True) for i in range(nireg)]
    jobs += mixjobs
    # corpus first
    problems = []
    corpus = os.path.join(ROOT, "corpus", ENGINE)
    ncorpus = 0
    if os.path.isdir(corpus):
        for fn in sorted(os.listdir(corpus)):
            ops = [l for l in read_lines(os.path.join(corpus, fn)) if l and not l.startswith("#")]
            rc, eff, c, m, san = replay_once(binp, os.path.join(workdir, "corpus"), ops, strat_of(ops))
            nd, _, firsts = compare(eff, c, m)
            ncorpus += len(eff)
            if rc != 0 or nd:
                txt, *_ = replay_text(binp, workdir, ops)
                problems.append({"what": "corpus case %s fails" % fn, "seed": seed, "replay": txt})
    with ThreadPoolExecutor(min(NCPU, 8 if tier == "quick" else 16)) as ex:
        results = list(ex.map(lambda a: one_run(binp, workdir, *a), jobs))
    total = sum(r["nops"] for r in results) + ncorpus
    benign = sum(r["nbenign"] for r in results)
    stats = {}
    distinct = set()
    per_strategy = {}
    for r in results:
        per_strategy[r["strat"]] = per_strategy.get(r["strat"], 0) + r["nops"]
        for k, v in r["stats"].items():
            stats[k] = stats.get(k, 0) + v
        for o, c in zip(r["ops"], r["c"]):
            t = o.split()
            if t[0] in ("env", "init", "initd"):
                continue
            distinct.add(hashlib.md5((t[0] + "|" + c.partition(" ;; ")[0]).encode()).digest()[:8])
    for r in results:
        if problems:
            break
        if r["rc"] != 0 or r["ndiff"] > 0:
            ops = r["ops"]
            if r["ndiff"] > 0:
                ops = ops[: r["firsts"][0][0] + 1]
            # keep only the last episode(s): cut at the last `init` before the failing line when that still fails
            small = shrink(binp, workdir, ops, r["libxml"])
            txt, rc2, eff, cl, ml = replay_text(binp, workdir, small, r["libxml"])
            if r["rc"] != 0 and r["ndiff"] == 0:
                what = "sanitizer report / abort inside hwloc (strategy %s)" % r["strat"]
                if rc2 == 0:
                    txt += "# (not reproduced in replay mode; original harness output:)\n# " + r["san"].replace("\n", "\n# ") + "\n"
            else:
                what = "C and model disagree (%s; strategy %s)" % (r["firsts"][0][4], r["strat"])
            problems.append({"what": what, "seed": r["seed"], "replay": txt, "min_ops": small})
    known_hits = []
    try:
        k = probe_known(binp, workdir)
        if k:
            known_hits.append(k)
    except Exception as e:   # the probe must never turn into a verdict
        log("[cpukinds] known-finding probe failed to run: %s" % e)
    candidate_findings = []   # evidence only (not listed in known_findings.json, never a verdict)
    try:
        candidate_findings.append(probe_split_forced(binp, workdir))
    except Exception as e:
        log("[cpukinds] split-forced probe failed to run: %s" % e)
    sample = []
    if results and results[0]["ops"]:
        sample = ["%s -> %s" % (o, c) for o, c in list(zip(results[0]["ops"], results[0]["c"]))[40:50]]
    shutil.rmtree(workdir, ignore_errors=True)
    must_hit = ["split", "merge", "newtail", "restrict_removed", "xml", "dup", "by_idx", "by_exdev", "by_enoent",
                "by_einval", "ranked", "unranked", "reg_einval", "outside_root",
                "dis_episodes", "allow_ok", "allow_einval", "allow_strict", "reg_over_disallowed", "restrict_ok_strict",
                "restrict_keeps_disallowed_kind_pu", "restrict_einval_misses_allowed", "restrict_removed_strict",
                "dup_strict", "xml_strict", "by_disallowed_idx",
                "env_switch", "rank_episodes", "rk_forced_distinct", "rk_forced_ties", "rk_forced_partial", "rk_forced_none",
                "rk_override", "rk_restrict", "rawset", "rawswap", "rawrank", "raw_negative_forced"]
    # every value of HWLOC_CPUKINDS_RANKING must have re-ranked >= 2 kinds with both outcomes (`none` can only fail)
    must_hit += ["sweep_%s_unranked" % v for v in ENVVALS] + ["sweep_%s_ranked" % v for v in ENVVALS if v != "none"]
    missed = [b for b in must_hit if not stats.get(b)]
    return {"evaluations": total, "distinct_nontrivial": len(distinct), "benign_repr_diffs": benign,
            "distribution": stats, "per_strategy_ops": per_strategy, "must_hit_missed": missed,
            "excluded_input_class": "registers that would create a kind in a stale array slot (%d skipped, switch %s)" % (
                stats.get("regskip", 0), SWITCH),
            "known_hits": known_hits, "candidate_findings": candidate_findings,
            "problems": problems, "samples": sample,
            "rule": "episodes of 8-48 public calls on a synthetic topology of 8/12/16 PUs, half of them loaded with INCLUDE_DISALLOWED "
                    "and hwloc_topology_allow (CUSTOM subsets / ALL / invalid) before and between the other calls (register over subsets of a 16(+2)-PU "
                    "universe incl. EQUAL/CONTAINS/INCLUDED/INTERSECTS shapes, NULL/empty sets, non-zero flags; restrict; dup; XML "
                    "round trip with libxml and nolibxml; refresh), 2-4 get_by_cpuset queries after each; a case is one op line "
                    "applied to the current topology; distinct = distinct (op kind, public observation) pairs; "
                    "A7: `mix` / `rank` streams switch HWLOC_CPUKINDS_RANKING (12 values incl. unset, `default`, unrecognised) between "
                    "the calls of one process (op `env` does the setenv) and build ranking scenarios (forced efficiencies all known "
                    "and distinct / ties / partially unknown / unknown x CoreType, FrequencyMaxMHz, FrequencyBaseMHz absent / distinct "
                    "/ equal across kinds / missing in one kind / non-numeric / zero / beyond 2^20) that are re-ranked under EVERY "
                    "value (counters sweep_<value>_ranked / _unranked)"}
