#!/usr/bin/env python3
"""Prints (markdown) the per-property summary used in DESIGN.md section 11.6 from MANIFEST.json, tools/props/*.py and evidence/*.json."""
import json, os, sys, importlib
ROOT = os.path.dirname(os.path.dirname(os.path.abspath(__file__)))
sys.path.insert(0, os.path.join(ROOT, "tools")); sys.path.insert(0, os.path.join(ROOT, "tools", "props"))
m = json.load(open(os.path.join(ROOT, "MANIFEST.json")))
print("| id | theorems (+generated obligations) | tie | engines | quick: evaluations / wall | known findings printed |")
print("|----|------|-----|---------|------|------|")
for c in m["checks"]:
    pid = c["property_id"]
    prop = importlib.import_module(pid.lower())
    ev = {}
    try:
        ev = json.load(open(os.path.join(ROOT, "evidence", pid + ".json")))
    except Exception:
        pass
    cov = ev.get("coverage", {})
    nth = len(prop.THEOREMS)
    ob = cov.get("obligations", nth)
    tie = "T+D" if ob > nth else "D"
    print("| %s | %d%s | %s | %s | %s / %ss (%s) | %s |" % (pid, nth, (" (+%d)" % (ob - nth)) if ob > nth else "", tie, c.get("engine", ""),
          cov.get("evaluations", "?"), ev.get("wall_s", "?"), ev.get("tier", "?"), len(cov.get("known_hits", []) or [])))
