"""Engine `xmlload` (C06, loader part): structure-aware fuzzing of hwloc_topology_set_xmlbuffer / set_xml / load and
hwloc_topology_diff_load_xmlbuffer with both XML back ends (harness/h_xmlload.c, ASan+UBSan+LSan, alarm watchdog).
Every harness process must exit 0; every topology that loads (and its XML re-import and its dup) is dumped and must
be accepted by the proved well-formedness oracle (`hwmodel topo` -> `WF ok`).

Known defect classes of /repo (F05a..., see the header of h_xmlload.c) are recognised by the harness on the mutant before
it is loaded and skipped (counted in `distribution`); VERIF_INCLUDE_F05A=1 ... re-enables a class, the engine then
reports it.  Known non-well-formed outcomes are listed in KNOWN_NONWF (verdict regex -> finding id) and reported through
`known_hits` unless the matching switch is set."""
import os, re, shutil, hashlib, glob
from concurrent.futures import ThreadPoolExecutor
from common import *
from diffrun import *
import snapshots

# verdict regex -> finding id (non-WF classes that are known; each re-enabled as a problem by VERIF_INCLUDE_<ID>=1)
# All of them have one root cause: hwloc_look_xml() has no validity gate on the sets / indexes of the imported objects (see the
# FIXME at topology-xml.c:1984-1993) and the core neither rejects nor repairs them.  A non-WF verdict is "known" when EVERY
# reason token of the verdict ("WF FAIL tok1@obj,tok2@obj,...") matches an entry whose switch is not set.
KNOWN_NONWF = [
    (r"^pu-osindex-unique$", "F05p"),                       # two PU objects with the same os_index are accepted
    (r"^cpuset-is-disjoint-union-of-children$", "F05q"),    # overlapping / non-covering sibling cpusets are accepted
    (r"^allowed-sets$", "F05r"),                            # allowed_cpuset/nodeset not included in the root sets
    (r"^numa-nodeset$", "F05s"),                            # NUMA node nodeset inconsistent with its position
    (r"^gp-index-unique$", "F05t"),                         # duplicate gp_index / id values are accepted
    (r"^set-in-complete$", "F05u"),                         # cpuset/nodeset not included in complete_cpuset/complete_nodeset
    (r"^pu-cpuset$", "F05v"),                               # PU complete_cpuset is not exactly its os_index bit
    (r"^memcache-nodeset$", "F05w"),                        # MemCache nodeset differs from the nodes below it
    (r"^nodeset-decomposition$", "F05x"),                   # nodeset != union of memory children and normal children nodesets
    (r"^pu-level-deepest$", "F05y"),                        # a PU with (bogus) children / PUs not all at the deepest level
    (r"^dump-unparsable:bad-O-line:\d+$", "F05z"),          # an object keeps an infinitely-set bitmap (e.g. cpuset="0xf...f")
    (r"^root-is-machine$", "F60a"),                        # type attribute of the root object is taken as is
    (r"^level0-is-root$", "F60a"),
    (r"^numa-osindex-unique$", "F60b"),                    # two NUMA nodes with the same os_index
    (r"^memory-child-shares-cpuset$", "F60c"),             # memory child cpuset differs from its parent's
    (r"^sets-presence$", "F60d"),                          # object without complete_cpuset/complete_nodeset (cf. F05d, F05h) is kept
    (r"^total-memory$", "F60e"),                           # total_memory sums wrap around 64 bits
]


# second net for the crash classes whose pre-load predicate is an over-approximation that a mutant can still escape
# (malformed tags are undecidable for a text predicate): sanitizer report signature -> finding id.  A harness failure with
# one of these signatures is reported through known_hits (not problems) unless VERIF_INCLUDE_<ID>=1.
KNOWN_CRASH = [
    (r"null pointer passed as argument 2[\s\S]{0,900}hwloc_connect_levels", "F05o"),
    (r"null pointer of type '(const )?struct hwloc_bitmap_s'", "F05h"),       # objects without complete_* sets (F05d / F05h root cause)
    (r"hwloc_bitmap_(or|set|compare_first|isincluded|and|copy|dup)\b[\s\S]{0,300}(propagate_nodeset|hwloc__xml_import_object)", "F05h"),
    (r"strcmp[\s\S]{0,400}hwloc__xml_import_distances|topology-xml\.c:14\d\d:\d+: runtime error: null pointer passed as argument 1", "F05c"),
    (r"memattrs\.c:9\d\d[\s\S]{0,80}Assertion|Assertion[^\n]*memattrs\.c", "F05l"),
    (r"Assertion[^\n]*traversal\.c|traversal\.c:\d+[^\n]*Assertion", "F05m"),
    (r"heap-buffer-overflow[\s\S]{0,1500}hwloc_internal_distances", "F05j"),
    (r"topology-xml-libxml\.c:(19\d|28\d)[\s\S]{0,200}null pointer passed as argument", "F05g"),
]


def known_crash(out):
    for rx, fid in KNOWN_CRASH:
        if re.search(rx, out or "") and not _switch(fid):
            return fid
    return None


def known_nonwf(verdict_values):
    """finding ids when every reason token of every non-WF verdict is known (and not re-enabled), else None"""
    ids = set()
    for v in verdict_values:
        if not v.startswith("WF FAIL "):
            return None
        for tok in v[len("WF FAIL "):].split(","):
            tok = tok.split("@")[0].strip()
            fid = next((f for rx, f in KNOWN_NONWF if re.search(rx, tok)), None)
            if not fid or _switch(fid):
                return None
            ids.add(fid)
    return sorted(ids)

KEEP_ENV = ("HWLOC_HIDE_ERRORS", "HWLOC_LIBXML", "HWLOC_DONT_ADD_VERSION_INFO")


def _env(seed, libxml, extra=None):
    e = dict(os.environ, ASAN_OPTIONS="detect_leaks=1:abort_on_error=0:allocator_may_return_null=1",
             UBSAN_OPTIONS="print_stacktrace=1", VERIF_SEED=str(seed), HWLOC_HIDE_ERRORS="2", HWLOC_LIBXML=str(libxml),
             LC_ALL="C", HWLOC_DONT_ADD_VERSION_INFO="1")
    for k in list(e):
        if k.startswith("HWLOC_") and k not in KEEP_ENV:
            del e[k]
    if extra:
        e.update(extra)
    return e


def _switch(fid):
    v = os.environ.get("VERIF_INCLUDE_" + fid.upper(), "")
    return v not in ("", "0")


def verdicts(dump_path, mout):
    """exactly as eng_topoload.verdicts(): tag -> oracle answer"""
    run_model("topo", dump_path, mout)
    out = {}
    with open(dump_path, errors="replace") as fd, open(mout, errors="replace") as fm:
        for dl, ml in zip(fd, fm):
            if dl.startswith("END "):
                out[dl.split()[1]] = ml.strip()
    return out


def classify(rc, out):
    """failure kind of one harness process (None = clean)"""
    if rc == 0:
        return None
    fr = re.search(r" in (\S+) /\S*/hwloc/([\w.-]+\.c):(\d+)", out)
    where = "@%s" % fr.group(1) if fr else ""
    m = re.search(r"HARNESS-CHECK-FAILED: (.*)", out)
    if m:
        return "check:" + re.sub(r"\d+", "N", m.group(1))[:60]
    m = re.search(r"ERROR: AddressSanitizer: (\S+)", out)
    if m:
        return "asan:" + m.group(1) + where
    m = re.search(r"runtime error: (.*)", out)
    if m:
        return "ubsan:" + re.sub(r"0x[0-9a-f]+|\d+", "N", m.group(1))[:50] + where
    if "ERROR: LeakSanitizer" in out:
        return "leak" + where
    m = re.search(r"Assertion `(.*?)' failed", out)
    if m:
        return "assert:" + m.group(1)[:60]
    if rc == -14:
        return "hang(watchdog 20 s)"
    return "signal %d" % -rc if rc < 0 else "exit %d" % rc


def replay_bytes(binp, workdir, data, libxml, mode, flags, u, tagdir="rp", extra_env=None, size=None):
    """returns (kind or None, harness output, {tag: verdict}, status line)"""
    d = os.path.join(workdir, tagdir)
    os.makedirs(d, exist_ok=True)
    f, dump, mout = [os.path.join(d, x) for x in ("case.xml", "dump.txt", "m.out")]
    with open(f, "wb") as fh:
        fh.write(data)
    if os.path.exists(dump):
        os.remove(dump)
    cmd = [binp, "replay", f, dump, mode, str(flags), "u" if u else "-"]
    if size is not None:
        cmd.append("size=%d" % size)
    r = run(cmd, env=_env(0, libxml, extra_env), errors="replace")
    kind = classify(r.returncode, r.stdout)
    v = {}
    if os.path.exists(dump) and os.path.getsize(dump):
        v = verdicts(dump, mout)
    m = re.search(r"^case: (\S+)", r.stdout, flags=re.M)
    return kind, r.stdout, v, (m.group(1) if m else "crashed")


def nonwf_kind(v):
    """canonical failure kind of a non-WF verdict set"""
    bad = sorted(set(re.sub(r"\d+", "N", x) for x in v.values() if x != "WF ok"))
    return "nonwf:" + ";".join(bad)[:200] if bad else None


def minimise(binp, workdir, data, libxml, mode, flags, u, want, tagdir="min", extra_env=None):
    """ddmin over lines then bytes; `want` = failure kind to preserve (crash kind or nonwf kind)"""
    def fails_bytes(b):
        kind, _, v, _ = replay_bytes(binp, workdir, b, libxml, mode, flags, u, tagdir, extra_env)
        if want.startswith("nonwf:"):
            return kind is None and nonwf_kind(v) == want
        return kind == want
    if not fails_bytes(data):
        return data, False
    lines = data.splitlines(keepends=True)
    if len(lines) > 1:
        lines = ddmin(lines, lambda ls: fails_bytes(b"".join(ls)), max_tests=300)
        data = b"".join(lines)
    if len(data) <= 3000:
        toks = [bytes([c]) for c in data]
        # attribute-sized chunks first (cheaper), then bytes
        parts = re.split(rb'(?<=")(?= )', data)
        if len(parts) > 1:
            parts = ddmin(parts, lambda ps: fails_bytes(b"".join(ps)), max_tests=250)
            data = b"".join(parts)
            toks = [bytes([c]) for c in data]
        if len(toks) <= 1500:
            toks = ddmin(toks, lambda ts: fails_bytes(b"".join(ts)), max_tests=400)
            data = b"".join(toks)
    return data, True


def show_xml(data):
    try:
        s = data.decode("ascii")
        if all(c == "\n" or c == "\t" or 32 <= ord(c) < 127 for c in s):
            return s if s.endswith("\n") else s + "\n"
    except UnicodeDecodeError:
        pass
    return "(python bytes literal) " + repr(data) + "\n"


def describe(libxml, mode, flags, u, data, report, what, size=None):
    fl = int(flags)
    return ("# %s\n# back end: HWLOC_LIBXML=%d (%s)   mode: %s (%s)   topology flags: 0x%x   filters: %s   userdata import callback: %s%s\n"
            "# replay: HWLOC_LIBXML=%d xmlload replay <file> <dump> %s %d %s\n# ---- minimal XML (%d bytes) ----\n%s# ---- report ----\n%s\n" % (
                what, libxml, "libxml2" if libxml else "nolibxml", mode,
                {"B": "hwloc_topology_set_xmlbuffer+load", "F": "hwloc_topology_set_xml+load", "D": "hwloc_topology_diff_load_xmlbuffer"}.get(mode, "?"),
                fl & 0xffff, ("default", "all KEEP_ALL", "io KEEP_IMPORTANT", "?")[(fl >> 16) & 3], "yes" if u else "no",
                "" if size is None else "   size argument: %d" % size,
                libxml, mode, fl, "u" if u else "-", len(data), show_xml(data),
                "\n".join("# " + l for l in report.splitlines()[:25])))


def one_run(binp, workdir, idx, seed, n, sources):
    d = os.path.join(workdir, "r%d" % idx)
    os.makedirs(d, exist_ok=True)
    libxml = idx % 2
    r = run([binp, "gen", str(n), sources, d], env=_env(seed, libxml), errors="replace")
    plan = read_lines(os.path.join(d, "plan.txt")) if os.path.exists(os.path.join(d, "plan.txt")) else []
    res = {"seed": seed, "rc": r.returncode, "out": r.stdout[-12000:], "libxml": libxml, "plan": plan, "verdicts": {},
           "kind": classify(r.returncode, r.stdout), "culprit": None, "badwf": []}
    dump = os.path.join(d, "dump.txt")
    if os.path.exists(dump) and os.path.getsize(dump):
        res["verdicts"] = verdicts(dump, os.path.join(d, "m.out"))
    cases = [l.split() for l in plan if l and not l.startswith("#")]
    if res["kind"] and cases:
        t = cases[-1]
        f = os.path.join(d, t[0] + ".xml")
        if os.path.exists(f):
            res["culprit"] = (t, open(f, "rb").read())
    # bytes of the cases with a non-WF verdict (original, re-import "r" or dup "d")
    bad = {}
    for tag, v in res["verdicts"].items():
        if v != "WF ok":
            bad.setdefault(tag.rstrip("rd"), {})[tag] = v
    for t in cases:
        if t[0] in bad and len(res["badwf"]) < 40:
            f = os.path.join(d, t[0] + ".xml")
            if os.path.exists(f):
                res["badwf"].append((t, open(f, "rb").read(), bad[t[0]]))
    shutil.rmtree(d, ignore_errors=True)
    return res


def corpus_cases():
    """(path, name, mode, u, known_id or None)"""
    out = []
    for f in sorted(glob.glob(os.path.join(ROOT, "corpus", "xmlload", "*.xml"))):
        base = os.path.basename(f)[:-4]
        name, _, mu = base.rpartition(".")
        if not name or not mu or mu[0] not in "BFD":
            continue
        kid = None
        m = re.match(r"known-(f05[a-z])", name)
        if m:
            kid = m.group(1).upper()
        out.append((f, name, mu[0], "u" in mu[1:], kid))
    return out


def run_engine(tier, seed, sizes=None):
    binp = build_harness("xmlload")
    workdir = os.path.join(BUILD, "run", "xmlload-%s" % os.getpid())
    shutil.rmtree(workdir, ignore_errors=True)
    os.makedirs(workdir)
    sources = os.path.join(workdir, "sources.txt")
    nsrc = snapshots.write_sources(sources, "X")
    problems, known_hits, stats, samples = [], [], {"loaded": 0, "failed": 0, "corpus": 0}, []
    seen_kinds = set()

    def add_problem(what, seed_, libxml, mode, flags, u, data, want, report, extra_env=None):
        if want in seen_kinds or len(problems) >= 6:
            return
        seen_kinds.add(want)
        if len(seen_kinds) <= 3:
            small, repro = minimise(binp, workdir, data, libxml, mode, flags, u, want, extra_env=extra_env)
        else:   # budget: only the first three kinds are minimised, the others are replayed once
            small = data
            kind, out, v, _ = replay_bytes(binp, workdir, data, libxml, mode, flags, u, extra_env=extra_env)
            repro = (kind == want) or (kind is None and nonwf_kind(v) == want)
            what += " (not minimised)"
        if repro:
            kind, out, v, _ = replay_bytes(binp, workdir, small, libxml, mode, flags, u, extra_env=extra_env)
            report = out if kind else "\n".join("%s: %s" % kv for kv in sorted(v.items()))
        else:
            if "hang" in str(want):
                # a watchdog kill that a replay of the very same bytes does not reproduce is machine load (16 cores shared, ASan),
                # not a hang of the loader: counted, not reported as a violation
                stats["watchdog-unreproduced"] = stats.get("watchdog-unreproduced", 0) + 1
                return
            what += " (NOT reproduced by a single replay of the case)"
        problems.append({"what": what, "seed": seed_, "replay": describe(libxml, mode, flags, u, small, report, what)})

    # 1. corpus: minimised past inputs; `known-f05x.*` only when VERIF_INCLUDE_F05X is set
    for f, name, mode, u, kid in corpus_cases():
        if kid and not _switch(kid):
            continue
        data = open(f, "rb").read()
        for lx in (0, 1):
            kind, out, v, status = replay_bytes(binp, workdir, data, lx, mode, 1 << 16, u, "corpus")
            stats["corpus"] += 1
            nw = nonwf_kind(v)
            if kind:
                add_problem("corpus input %s: %s" % (os.path.basename(f), kind), 0, lx, mode, 1 << 16, u, data, kind, out)
            elif nw and known_nonwf([x for x in v.values() if x != "WF ok"]):
                known_hits.append("corpus %s: %s" % (os.path.basename(f), ",".join(known_nonwf([x for x in v.values() if x != "WF ok"]))))
            elif nw:
                add_problem("corpus input %s loads but is not well-formed: %s" % (os.path.basename(f), nw), 0, lx, mode, 1 << 16, u, data, nw, str(v))

    # 2. generated cases
    nruns, n = sizes or ((8, 150) if tier == "quick" else (32, 3000))
    seeds = [int(seed) * 1000003 + i for i in range(nruns)]
    with ThreadPoolExecutor(min(NCPU, 8)) as ex:
        results = list(ex.map(lambda a: one_run(binp, workdir, a[0], a[1], n, sources), enumerate(seeds)))
    distinct = set()
    for r in results:
        for l in r["plan"]:
            t = l.split()
            if not t or t[0].startswith("#"):
                continue
            status = t[6] if len(t) > 6 else "crashed"
            stats["mode." + t[1]] = stats.get("mode." + t[1], 0) + 1
            stats[status] = stats.get(status, 0) + 1
            if len(t) > 6 and not status.startswith("skipped"):
                distinct.add((t[1], t[5], r["libxml"]))
            if status == "loaded" and len(samples) < 6 and t[1] != "D":
                samples.append("libxml=%d mode=%s flags=%s u=%s len=%s hash=%s -> loaded, %s" % (r["libxml"], t[1], t[2], t[3], t[4], t[5], r["verdicts"].get(t[0])))
        nv = sum(1 for v in r["verdicts"].values())
        stats["dumps_judged"] = stats.get("dumps_judged", 0) + nv
        for t, data, bad in r["badwf"]:
            nw = nonwf_kind(bad)
            kids = known_nonwf(bad.values())
            unmut = set(l.split()[2] for l in r["plan"] if l.startswith("# unmutated ") and len(l.split()) > 2)
            if not kids and t[0] not in unmut and not _switch("F60"):
                # catch-all for MUTATED documents only: same root cause as F05p..F60e (hwloc_look_xml has no validity gate on the
                # structure / sets / indexes it is given, FIXME at topology-xml.c:1984-1993).  A non-WF verdict for an UNMUTATED valid
                # document (or its re-import / dup) stays a violation.
                toks = sorted(set(tok.split("@")[0].strip() for v in bad.values() if v.startswith("WF FAIL ") for tok in v[len("WF FAIL "):].split(",")))
                msg = "F60: non-WF topology accepted by the loader from a mutated document (%s)" % ",".join(toks)[:200]
                if msg not in known_hits:
                    known_hits.append(msg)
                stats["known-F60"] = stats.get("known-F60", 0) + 1
                continue
            if kids:
                for kid in kids:
                    known_hits.append("%s: non-WF topology accepted by the loader (%s)" % (kid, next(rx for rx, f in KNOWN_NONWF if f == kid).strip("^$")))
                    stats["known-" + kid] = stats.get("known-" + kid, 0) + 1
                continue
            add_problem("loaded topology is not well-formed: " + ";".join("%s: %s" % kv for kv in sorted(bad.items()))[:300],
                        r["seed"], r["libxml"], t[1], int(t[2]), t[3] == "1", data, nw, str(bad))
        for fid, pat in (("F05i", "hwloc__xml_import_diff_one"), ("F05k", "hwloc__xml_import_object")):
            m = re.search(r"^\s*(\d+)\s+\d+\s+" + pat + r"\s*$", r["out"], flags=re.M)
            if m:
                known_hits.append("%s: leak suppressed by allocation stack (%s)" % (fid, pat))
                stats["known-" + fid] = stats.get("known-" + fid, 0) + int(m.group(1))
        if r["kind"] and known_crash(r["out"]):
            kid = known_crash(r["out"])
            known_hits.append("%s: known crash class escaped its pre-load predicate (%s); the rest of that harness process was lost" % (kid, r["kind"]))
            stats["escaped-" + kid] = stats.get("escaped-" + kid, 0) + 1
        elif r["kind"]:
            if r["culprit"]:
                t, data = r["culprit"]
                add_problem("harness process failed: " + r["kind"], r["seed"], r["libxml"], t[1], int(t[2]), t[3] == "1", data, r["kind"], r["out"])
            elif r["kind"] not in seen_kinds:
                seen_kinds.add(r["kind"])
                problems.append({"what": "harness process failed outside a case: " + r["kind"], "seed": r["seed"],
                                 "replay": "# HWLOC_LIBXML=%d VERIF_SEED=%d xmlload gen %d\n# %s\n" % (r["libxml"], r["seed"], n, r["out"][-3000:].replace("\n", "\n# "))})
    shutil.rmtree(workdir, ignore_errors=True)
    ev = sum(v for k, v in stats.items() if k in ("loaded", "failed", "crashed"))
    return {"evaluations": ev + stats["corpus"], "distinct_nontrivial": len(distinct), "distribution": stats, "sources": nsrc,
            "problems": problems, "known_hits": sorted(set(known_hits)), "samples": samples,
            "rule": "each case = a valid XML document (bundled file, re-export v3/v2 of a loaded bundled file, annotated synthetic topology "
                    "exported v3/v2, topology-diff export) with 1-4 structure-aware mutations (attribute values/names, tags, elements, version, "
                    "truncation, bytes; 5% random bytes, 5% unmutated), loaded by set_xmlbuffer (70%), set_xml (15%) or diff_load_xmlbuffer (15%) "
                    "with random topology flags / type filters / userdata import callback, both XML back ends; evaluation = a case that was "
                    "loaded or cleanly refused (skipped known-defect classes are not counted); non-trivial distinct = distinct (mode, content "
                    "hash, back end); every loaded topology + its XML re-import + its dup judged by wfCheck"}
