"""Engine `xmlload` (C06, loader part): structure-aware fuzzing of hwloc_topology_set_xmlbuffer / set_xml / load and
hwloc_topology_diff_load_xmlbuffer with both XML back ends (harness/h_xmlload.c, ASan+UBSan+LSan, alarm watchdog).
Every harness process must exit 0; every topology that loads (and its XML re-import and its dup) is dumped and must
be accepted by the proved well-formedness oracle (`hwmodel topo` -> `WF ok`).

No input class is excluded any more: the crash / leak / assert classes F05a..F05o are fixed in /repo and their minimal inputs are
ordinary corpus cases (corpus/xmlload/fixed-f05*.xml) that must load or fail cleanly.  A crash, sanitizer report, leak or
(reproducible) watchdog hit on ANY input is a violation.
Known non-well-formed outcomes (the loader has no validity gate on the structure / sets / indexes it is given) are classified by
KNOWN_NONWF: a non-WF load of a MUTATED document is a known finding when its set of failing clauses CONTAINS the clause of a
listed id (first match in list order = fixed priority), else the catch-all F60; the id is always printed in the hit text.
A non-WF load of an UNMUTATED valid document (or of its re-import / dup) is always a violation.

Distances-list class (C06-r2, see harness/h_xmlload.c): every harness process first enumerates EVERY subset of dropped elements in
documents with k = 1..5 <distances2>/<distances2hetero> elements (62 patterns, realised by retargeting <indexes> to non-existing
objects), then filter-driven drops (type filter KEEP_NONE on a matrix's object type); ~7 % of the random cases are of the class too.
The harness checks the surviving list against an oracle recomputed from the document (order, names, objects, values) and probes the
list links through the public API (append / remove first / remove last / remove all).  The pointer-level loop itself is proved:
Hw.Props.C06.C06_distances_refresh_links.  Coverage counters: distribution keys `distdrop.*`."""
import os, re, shutil, hashlib, glob
from concurrent.futures import ThreadPoolExecutor
from common import *
from diffrun import *
import snapshots

# clause regex -> finding id, in PRIORITY ORDER (first entry one of whose clauses fails wins); VERIF_INCLUDE_<ID>=1 turns an id
# back into a violation.  One root cause: hwloc_look_xml() has no validity gate on what it imports (FIXME in topology-xml.c).
KNOWN_NONWF = [
    (r"^pu-osindex-unique$", "F05p"),                       # two PU objects with the same os_index are accepted
    (r"^cpuset-is-disjoint-union-of-children$", "F05q"),    # overlapping / non-covering sibling cpusets are accepted
    (r"^allowed-sets$", "F05r"),                            # allowed_cpuset/nodeset not included in the root sets
    (r"^numa-nodeset$", "F05s"),                            # NUMA node nodeset inconsistent with its position
    (r"^gp-index-unique$", "F05t"),                         # duplicate gp_index / id values are accepted
    (r"^set-in-complete$", "F05u"),                         # cpuset/nodeset not included in complete_cpuset/complete_nodeset
    (r"^pu-cpuset$", "F05v"),                               # PU complete_cpuset is not exactly its os_index bit
    (r"^memcache-nodeset$", "F05w"),                        # MemCache nodeset differs from the nodes below it
    (r"^nodeset-decomposition$", "F05x"),                   # nodeset != union of memory children and normal children nodesets
    (r"^pu-level-deepest$", "F05y"),                        # a PU with (bogus) children / PUs not all at the deepest level
    (r"^dump-unparsable:bad-O-line:\d+$", "F05z"),          # an object keeps an infinitely-set bitmap (e.g. cpuset="0xf...f")
    (r"^root-is-machine$", "F60a"),                        # type attribute of the root object is taken as is
    (r"^level0-is-root$", "F60a"),
    (r"^numa-osindex-unique$", "F60b"),                    # two NUMA nodes with the same os_index
    (r"^memory-child-shares-cpuset$", "F60c"),             # memory child cpuset differs from its parent's
    (r"^sets-presence$", "F60d"),                          # object without complete_cpuset/complete_nodeset (cf. F05d, F05h) is kept
    (r"^total-memory$", "F60e"),                           # total_memory sums wrap around 64 bits
]


def failing_clauses(verdict_values):
    """set of failing clause names over all non-WF verdicts of one case ("WF FAIL tok1@obj,tok2,..."); None if a verdict is unparsable"""
    toks = set()
    for v in verdict_values:
        if v == "WF ok":
            continue
        if not v.startswith("WF FAIL "):
            return None
        for tok in v[len("WF FAIL "):].split(","):
            tok = tok.split("@")[0].strip()
            if tok:
                toks.add(tok)
    return toks


def classify_nonwf(verdict_values, mutated=True):
    """(finding id, matched clause, all clauses) for a known non-WF outcome of a mutated document, else None (= violation)"""
    toks = failing_clauses(verdict_values)
    if not toks or not mutated:
        return None
    for rx, fid in KNOWN_NONWF:
        hit = sorted(t for t in toks if re.search(rx, t))
        if hit and not _switch(fid):
            return fid, hit[0], sorted(toks)
    if not _switch("F60"):
        return "F60", "other", sorted(toks)
    return None


TYPE_NAMES = ["Machine", "Package", "Die", "Core", "PU", "L1Cache", "L2Cache", "L3Cache", "L4Cache", "L5Cache", "L1iCache", "L2iCache",
              "L3iCache", "Group", "NUMANode", "MemCache", "Bridge", "PCIDev", "OSDev", "Misc"]
DD_ORACLE_ENV = {"VERIF_DISTORACLE": "1"}


def none_types(fl):
    """names of the types given a KEEP_NONE filter by the harness (bit 20 + type of the flags word)"""
    return [n for i, n in enumerate(TYPE_NAMES) if (int(fl) >> (20 + i)) & 1]


KEEP_ENV = ("HWLOC_HIDE_ERRORS", "HWLOC_LIBXML", "HWLOC_DONT_ADD_VERSION_INFO")


def _env(seed, libxml, extra=None):
    e = dict(os.environ, ASAN_OPTIONS="detect_leaks=1:abort_on_error=0:allocator_may_return_null=1",
             MSAN_OPTIONS="halt_on_error=1:exit_code=86:allocator_may_return_null=1",
             UBSAN_OPTIONS="print_stacktrace=1", VERIF_SEED=str(seed), HWLOC_HIDE_ERRORS="2", HWLOC_LIBXML=str(libxml),
             LC_ALL="C", HWLOC_DONT_ADD_VERSION_INFO="1")
    for k in list(e):
        if k.startswith("HWLOC_") and k not in KEEP_ENV:
            del e[k]
    if extra:
        e.update(extra)
    return e


def _switch(fid):
    v = os.environ.get("VERIF_INCLUDE_" + fid.upper(), "")
    return v not in ("", "0")


def verdicts(dump_path, mout):
    """exactly as eng_topoload.verdicts(): tag -> oracle answer"""
    run_model("topo", dump_path, mout)
    out = {}
    with open(dump_path, errors="replace") as fd, open(mout, errors="replace") as fm:
        for dl, ml in zip(fd, fm):
            if dl.startswith("END "):
                out[dl.split()[1]] = ml.strip()
    return out


def classify(rc, out):
    """failure kind of one harness process (None = clean)"""
    if rc == 0:
        return None
    fr = re.search(r" in (\S+) /\S*/hwloc/([\w.-]+\.c):(\d+)", out)
    where = "@%s" % fr.group(1) if fr else ""
    m = re.search(r"HARNESS-CHECK-FAILED: (.*)", out)
    if m:
        return "check:" + re.sub(r"\d+", "N", m.group(1))[:60]
    m = re.search(r"ERROR: AddressSanitizer: (\S+)", out)
    if m:
        return "asan:" + m.group(1) + where
    m = re.search(r"WARNING: MemorySanitizer: (\S+)", out)
    if m:
        return "msan:" + m.group(1) + where
    m = re.search(r"runtime error: (.*)", out)
    if m:
        return "ubsan:" + re.sub(r"0x[0-9a-f]+|\d+", "N", m.group(1))[:50] + where
    if "ERROR: LeakSanitizer" in out:
        return "leak" + where
    m = re.search(r"Assertion `(.*?)' failed", out)
    if m:
        return "assert:" + m.group(1)[:60]
    if rc == -14:
        return "hang(watchdog 20 s)"
    return "signal %d" % -rc if rc < 0 else "exit %d" % rc


def replay_bytes(binp, workdir, data, libxml, mode, flags, u, tagdir="rp", extra_env=None, size=None):
    """returns (kind or None, harness output, {tag: verdict}, status line)"""
    d = os.path.join(workdir, tagdir)
    os.makedirs(d, exist_ok=True)
    f, dump, mout = [os.path.join(d, x) for x in ("case.xml", "dump.txt", "m.out")]
    with open(f, "wb") as fh:
        fh.write(data)
    if os.path.exists(dump):
        os.remove(dump)
    cmd = [binp, "replay", f, dump, mode, str(flags), "u" if u else "-"]
    if size is not None:
        cmd.append("size=%d" % size)
    r = run(cmd, env=_env(0, libxml, extra_env), errors="replace")
    kind = classify(r.returncode, r.stdout)
    v = {}
    if os.path.exists(dump) and os.path.getsize(dump):
        v = verdicts(dump, mout)
    m = re.search(r"^case: (\S+)", r.stdout, flags=re.M)
    return kind, r.stdout, v, (m.group(1) if m else "crashed")


def nonwf_kind(v):
    """canonical failure kind of a non-WF verdict set"""
    bad = sorted(set(re.sub(r"\d+", "N", x) for x in v.values() if x != "WF ok"))
    return "nonwf:" + ";".join(bad)[:200] if bad else None


def minimise(binp, workdir, data, libxml, mode, flags, u, want, tagdir="min", extra_env=None):
    """ddmin over lines then bytes; `want` = failure kind to preserve (crash kind or nonwf kind)"""
    def fails_bytes(b):
        kind, _, v, _ = replay_bytes(binp, workdir, b, libxml, mode, flags, u, tagdir, extra_env)
        if want.startswith("nonwf:"):
            return kind is None and nonwf_kind(v) == want
        return kind == want
    if not fails_bytes(data):
        return data, False
    lines = data.splitlines(keepends=True)
    if len(lines) > 1:
        lines = ddmin(lines, lambda ls: fails_bytes(b"".join(ls)), max_tests=300)
        data = b"".join(lines)
    if len(data) <= 3000:
        toks = [bytes([c]) for c in data]
        # attribute-sized chunks first (cheaper), then bytes
        parts = re.split(rb'(?<=")(?= )', data)
        if len(parts) > 1:
            parts = ddmin(parts, lambda ps: fails_bytes(b"".join(ps)), max_tests=250)
            data = b"".join(parts)
            toks = [bytes([c]) for c in data]
        if len(toks) <= 1500:
            toks = ddmin(toks, lambda ts: fails_bytes(b"".join(ts)), max_tests=400)
            data = b"".join(toks)
    return data, True


def show_xml(data):
    try:
        s = data.decode("ascii")
        if all(c == "\n" or c == "\t" or 32 <= ord(c) < 127 for c in s):
            return s if s.endswith("\n") else s + "\n"
    except UnicodeDecodeError:
        pass
    return "(python bytes literal) " + repr(data) + "\n"


def describe(libxml, mode, flags, u, data, report, what, size=None, env=None):
    fl = int(flags)
    return ("# %s\n# back end: HWLOC_LIBXML=%d (%s)   mode: %s (%s)   topology flags: 0x%x   filters: %s   userdata import callback: %s%s\n"
            "# replay: %sHWLOC_LIBXML=%d xmlload replay <file> <dump> %s %d %s\n# ---- minimal XML (%d bytes) ----\n%s# ---- report ----\n%s\n" % (
                what, libxml, "libxml2" if libxml else "nolibxml", mode,
                {"B": "hwloc_topology_set_xmlbuffer+load", "F": "hwloc_topology_set_xml+load", "D": "hwloc_topology_diff_load_xmlbuffer"}.get(mode, "?"),
                fl & 0xffff, ("default", "all KEEP_ALL", "io KEEP_IMPORTANT", "?")[(fl >> 16) & 3] +
                ("".join(", then %s KEEP_NONE" % n for n in none_types(fl))), "yes" if u else "no",
                "" if size is None else "   size argument: %d" % size,
                "".join("%s=%s " % kv for kv in sorted((env or {}).items())), libxml, mode, fl, "u" if u else "-", len(data), show_xml(data),
                "\n".join("# " + l for l in report.splitlines()[:25])))


# documented environment variables that change what the loader does AFTER the import (memory tiers are re-guessed / forced on top of
# the imported subtypes); a quarter of the harness processes run under one of them (C06-r8)
PROCESS_ENVS = [None, None, None, None, None, None, {"HWLOC_MEMTIERS_REFRESH": "1"}, {"HWLOC_MEMTIERS_REFRESH": "1"},
                None, None, {"HWLOC_MEMTIERS": "0x1=HBM;0x2=DRAM"}, {"HWLOC_MEMTIERS_GUESS": "all", "HWLOC_MEMTIERS_REFRESH": "1"},
                None, None, {"HWLOC_MEMTIERS": "none"}, {"HWLOC_MEMTIERS_REFRESH": "1"}]
KEEP_ENV = KEEP_ENV + ("HWLOC_MEMTIERS_REFRESH", "HWLOC_MEMTIERS", "HWLOC_MEMTIERS_GUESS")


def one_run(binp, workdir, idx, seed, n, sources, libxml=None, tag="r"):
    d = os.path.join(workdir, "%s%d" % (tag, idx))
    os.makedirs(d, exist_ok=True)
    if libxml is None:
        libxml = idx % 2
    extra = PROCESS_ENVS[idx % len(PROCESS_ENVS)]
    r = run([binp, "gen", str(n), sources, d], env=_env(seed, libxml, extra), errors="replace")
    plan = read_lines(os.path.join(d, "plan.txt")) if os.path.exists(os.path.join(d, "plan.txt")) else []
    res = {"seed": seed, "rc": r.returncode, "out": r.stdout[-12000:], "libxml": libxml, "plan": plan, "verdicts": {}, "extra": extra,
           "kind": classify(r.returncode, r.stdout), "culprit": None, "badwf": []}
    dump = os.path.join(d, "dump.txt")
    if os.path.exists(dump) and os.path.getsize(dump):
        res["verdicts"] = verdicts(dump, os.path.join(d, "m.out"))
    cases = [l.split() for l in plan if l and not l.startswith("#")]
    # cases of the distances-list class whose document is pristine apart from the retargeted <indexes>: replayed with the oracle
    res["dd_oracle"] = set(l.split()[2] for l in plan if l.startswith("# distdrop-plan ") and "mut" not in l.split()[-1])
    if res["kind"] and cases:
        t = cases[-1]
        f = os.path.join(d, t[0] + ".xml")
        if os.path.exists(f):
            res["culprit"] = (t, open(f, "rb").read())
    # bytes of the cases with a non-WF verdict (original, re-import "r" or dup "d")
    bad = {}
    for tag, v in res["verdicts"].items():
        if v != "WF ok":
            bad.setdefault(tag.rstrip("rd"), {})[tag] = v
    for t in cases:
        if t[0] in bad and len(res["badwf"]) < 40:
            f = os.path.join(d, t[0] + ".xml")
            if os.path.exists(f):
                res["badwf"].append((t, open(f, "rb").read(), bad[t[0]]))
    shutil.rmtree(d, ignore_errors=True)
    return res


def corpus_cases():
    """(path, name, mode, u)"""
    out = []
    for f in sorted(glob.glob(os.path.join(ROOT, "corpus", "xmlload", "*.xml"))):
        base = os.path.basename(f)[:-4]
        name, _, mu = base.rpartition(".")
        if not name or not mu or mu[0] not in "BFD":
            continue
        out.append((f, name, mu[0], "u" in mu[1:]))
    return out


def run_engine(tier, seed, sizes=None):
    binp = build_harness("xmlload")
    workdir = os.path.join(BUILD, "run", "xmlload-%s" % os.getpid())
    shutil.rmtree(workdir, ignore_errors=True)
    os.makedirs(workdir)
    sources = os.path.join(workdir, "sources.txt")
    nsrc = snapshots.write_sources(sources, "X")
    problems, known_hits, stats, samples = [], [], {"loaded": 0, "failed": 0, "corpus": 0}, []
    seen_kinds = set()

    def add_problem(what, seed_, libxml, mode, flags, u, data, want, report, extra_env=None):
        if want in seen_kinds or len(problems) >= 6:
            return
        seen_kinds.add(want)
        if len(seen_kinds) <= 3:
            small, repro = minimise(binp, workdir, data, libxml, mode, flags, u, want, extra_env=extra_env)
        else:   # budget: only the first three kinds are minimised, the others are replayed once
            small = data
            kind, out, v, _ = replay_bytes(binp, workdir, data, libxml, mode, flags, u, extra_env=extra_env)
            repro = (kind == want) or (kind is None and nonwf_kind(v) == want)
            what += " (not minimised)"
        if repro:
            kind, out, v, _ = replay_bytes(binp, workdir, small, libxml, mode, flags, u, extra_env=extra_env)
            report = out if kind else "\n".join("%s: %s" % kv for kv in sorted(v.items()))
        else:
            if "hang" in str(want):
                # a watchdog kill that a replay of the very same bytes does not reproduce is machine load (16 cores shared, ASan),
                # not a hang of the loader: counted, not reported as a violation
                stats["watchdog-unreproduced"] = stats.get("watchdog-unreproduced", 0) + 1
                return
            what += " (NOT reproduced by a single replay of the case)"
        problems.append({"what": what, "seed": seed_, "replay": describe(libxml, mode, flags, u, small, report, what, env=extra_env)})

    def known_hit(cls, where):
        fid, clause, toks = cls
        msg = "%s: non-WF topology accepted by the loader (clause %s) [%s]" % (fid, clause if fid != "F60" else ",".join(toks)[:160], where)
        key = (fid, clause if fid != "F60" else tuple(toks))
        stats["known-" + fid] = stats.get("known-" + fid, 0) + 1
        if key not in hit_keys:
            hit_keys.add(key)
            known_hits.append(msg)

    hit_keys = set()
    # 1. corpus: minimised past inputs (incl. fixed-f05*.xml, the former crash classes): each must load or fail cleanly
    for f, name, mode, u in corpus_cases():
        data = open(f, "rb").read()
        for lx in (0, 1):
            xenv = DD_ORACLE_ENV if name.startswith("distdrop-") else None   # distances-list class: hand-written pristine documents
            kind, out, v, status = replay_bytes(binp, workdir, data, lx, mode, 1 << 16, u, "corpus", extra_env=xenv)
            stats["corpus"] += 1
            nw = nonwf_kind(v)
            if xenv:
                m = re.search(r"^distances oracle: (\S+)", out, flags=re.M)
                stats["distdrop.corpus." + (m.group(1) if m else "no-load")] = stats.get("distdrop.corpus." + (m.group(1) if m else "no-load"), 0) + 1
                if not kind and (status != "loaded" or not m or m.group(1) == "no"):
                    kind = "check:distdrop corpus document did not load / oracle had no opinion"
            if kind:
                add_problem("corpus input %s: %s" % (os.path.basename(f), kind), 0, lx, mode, 1 << 16, u, data, kind, out, extra_env=xenv)
            elif nw:
                cls = classify_nonwf(v.values())
                if cls:
                    known_hit(cls, "corpus " + os.path.basename(f))
                else:
                    add_problem("corpus input %s loads but is not well-formed: %s" % (os.path.basename(f), nw), 0, lx, mode, 1 << 16, u, data, nw, str(v))

    # 2. generated cases
    nruns, n = sizes or ((8, 500) if tier == "quick" else (32, 3000))
    seeds = [int(seed) * 1000003 + i for i in range(nruns)]
    with ThreadPoolExecutor(min(NCPU, 8)) as ex:
        results = list(ex.map(lambda a: one_run(binp, workdir, a[0], a[1], n, sources), enumerate(seeds)))
    distinct = set()
    dd_patterns = {0: set(), 1: set()}
    for r in results:
        for l in r["plan"]:
            t = l.split()
            if not t or t[0].startswith("#"):
                continue
            status = t[6] if len(t) > 6 else "crashed"
            stats["mode." + t[1]] = stats.get("mode." + t[1], 0) + 1
            stats[status] = stats.get(status, 0) + 1
            if len(t) > 6 and not status.startswith("skipped"):
                distinct.add((t[1], t[5], r["libxml"]))
            if status == "loaded" and len(samples) < 6 and t[1] != "D":
                samples.append("libxml=%d mode=%s flags=%s u=%s len=%s hash=%s -> loaded, %s" % (r["libxml"], t[1], t[2], t[3], t[4], t[5], r["verdicts"].get(t[0])))
        for l in r["plan"]:
            if l.startswith("# distdrop "):
                f = dict(x.split("=", 1) for x in l.split()[3:] if "=" in x)
                pat = f.get("drop", "")
                stats["distdrop.cases"] = stats.get("distdrop.cases", 0) + 1
                stats["distdrop.mech." + f.get("mech", "?")] = stats.get("distdrop.mech." + f.get("mech", "?"), 0) + 1
                if "11" in pat:
                    stats["distdrop.two_consecutive_dropped"] = stats.get("distdrop.two_consecutive_dropped", 0) + 1
                if pat and "0" not in pat:
                    stats["distdrop.all_dropped"] = stats.get("distdrop.all_dropped", 0) + 1
                if 1 <= len(pat) <= 5:
                    dd_patterns[r["libxml"]].add(pat)
            elif l.startswith("# reconfigured-after-failure "):
                stats["reconfigured_and_loaded_again_after_failure"] = stats.get("reconfigured_and_loaded_again_after_failure", 0) + int(l.split()[2])
            elif l.startswith("# memattr-catalogue "):
                stats["memattr_catalogue_cases"] = stats.get("memattr_catalogue_cases", 0) + int(l.split()[2])
            elif l.startswith("# userdata-catalogue "):
                stats["userdata_catalogue_cases"] = stats.get("userdata_catalogue_cases", 0) + int(l.split()[2])
            elif l.startswith("# late-failures "):
                stats["late_failure_then_reconfigured_cases"] = stats.get("late_failure_then_reconfigured_cases", 0) + int(l.split()[2])
            elif l.startswith("# hugegp-skipped "):
                stats["wf_oracle_skipped_huge_gp_index"] = stats.get("wf_oracle_skipped_huge_gp_index", 0) + int(l.split()[2])
            elif l.startswith("# distoracle "):
                t = l.split()
                stats["distdrop.oracle_applied"] = stats.get("distdrop.oracle_applied", 0) + int(t[3])
                stats["distdrop.oracle_noopinion"] = stats.get("distdrop.oracle_noopinion", 0) + int(t[5])
                stats["distdrop.list_probes"] = stats.get("distdrop.list_probes", 0) + int(t[7])
        if r.get("extra"):
            stats["process_env." + ",".join(sorted(r["extra"]))] = stats.get("process_env." + ",".join(sorted(r["extra"])), 0) + 1
        nv = sum(1 for v in r["verdicts"].values())
        stats["dumps_judged"] = stats.get("dumps_judged", 0) + nv
        if any(l.split()[-1] == "skipped-F71" for l in r["plan"] if l and not l.startswith("#")):
            msg = "F71: nolibxml accepts an <object> with two type attributes; the attr union is reinterpreted (wild free); class skipped before loading"
            if msg not in known_hits:
                known_hits.append(msg)
        for l in r["plan"]:
            if l.startswith("# f72-skipped ") and int(l.split()[2]) > 0:
                stats["known-F72"] = stats.get("known-F72", 0) + int(l.split()[2])
                msg = "F72: XML import keeps a non-Machine root; hwloc_topology_export_synthetic() asserts on a NUMANode root (synthetic export skipped for non-Machine roots)"
                if msg not in known_hits:
                    known_hits.append(msg)
        for l in r["plan"]:
            if l.startswith("# memcache-leaf-skipped ") and int(l.split()[2]) > 0:
                stats["known-memcache-leaf"] = stats.get("known-memcache-leaf", 0) + int(l.split()[2])
                msg = ("F05w (crash consequence 'memcache-leaf', new): XML import accepts a memory child chain without NUMANode (childless MemCache); "
                       "hwloc_topology_export_synthetic() asserts (topology-synthetic.c:1523 assert(numanode)); synthetic export skipped for that class, "
                       "switch VERIF_INCLUDE_F05W or VERIF_INCLUDE_MEMCACHE_LEAF; minimal input corpus/xmlload/open-memcache-leaf.B.xml")
                if msg not in known_hits:
                    known_hits.append(msg)
        for l in r["plan"]:
            if l.startswith("# f70-skipped ") and int(l.split()[2]) > 0:
                stats["known-F70"] = stats.get("known-F70", 0) + int(l.split()[2])
                msg = "F70: XML import accepts a memory object below a NUMANode; hwloc_topology_dup() of the result is mis-rooted and leaks (dup skipped for that class)"
                if msg not in known_hits:
                    known_hits.append(msg)
        unmut = set(l.split()[2] for l in r["plan"] if l.startswith("# unmutated ") and len(l.split()) > 2)
        for t, data, bad in r["badwf"]:
            nw = nonwf_kind(bad)
            cls = classify_nonwf(bad.values(), mutated=t[0] not in unmut)
            if cls:
                known_hit(cls, "generated")
                continue
            add_problem(("UNMUTATED valid document loads non-WF: " if t[0] in unmut else "loaded topology is not well-formed: ") +
                        ";".join("%s: %s" % kv for kv in sorted(bad.items()))[:300],
                        r["seed"], r["libxml"], t[1], int(t[2]), t[3] == "1", data, nw, str(bad),
                        extra_env=dict(r["extra"] or {}, **(DD_ORACLE_ENV if t[0] in r["dd_oracle"] else {})) or None)
        if r["kind"]:
            if r["culprit"]:
                t, data = r["culprit"]
                add_problem("harness process failed: " + r["kind"], r["seed"], r["libxml"], t[1], int(t[2]), t[3] == "1", data, r["kind"], r["out"],
                            extra_env=dict(r["extra"] or {}, **(DD_ORACLE_ENV if t[0] in r["dd_oracle"] else {})) or None)
            elif r["kind"] not in seen_kinds:
                seen_kinds.add(r["kind"])
                problems.append({"what": "harness process failed outside a case: " + r["kind"], "seed": r["seed"],
                                 "replay": "# HWLOC_LIBXML=%d VERIF_SEED=%d xmlload gen %d\n# %s\n" % (r["libxml"], r["seed"], n, r["out"][-3000:].replace("\n", "\n# "))})
    for lx in (0, 1):
        stats["distdrop.patterns_le5_covered_of_62.%s" % ("libxml" if lx else "nolibxml")] = len(dd_patterns[lx])

    # 3. MemorySanitizer pass (support, not a proof obligation): "use of uninitialised memory" is named by the property and is
    #    invisible to ASan.  Same harness, library and harness compiled by clang with -fsanitize=memory, built-in (nolibxml) back end
    #    only (libxml2 is not instrumented: its reads of its own buffers would be reported).  Corpus first, then generated cases.
    if have_compiler("msan"):
        mbin = build_harness("xmlload", variant="msan")
        for f, name, mode, u in corpus_cases():
            data = open(f, "rb").read()
            kind, out, v, status = replay_bytes(mbin, workdir, data, 0, mode, 1 << 16, u, "mcorpus")
            stats["msan.corpus"] = stats.get("msan.corpus", 0) + 1
            if kind and kind.startswith("msan:"):
                add_problem("corpus input %s under MemorySanitizer: %s" % (os.path.basename(f), kind), 0, 0, mode, 1 << 16, u, data, kind, out)
        mruns, mn = (6, 400) if tier == "quick" else (16, 2500)
        mseeds = [int(seed) * 1000003 + 500 + i for i in range(mruns)]
        with ThreadPoolExecutor(min(NCPU, 8)) as ex:
            mres = list(ex.map(lambda a: one_run(mbin, workdir, a[0], a[1], mn, sources, libxml=0, tag="m"), enumerate(mseeds)))
        for r in mres:
            ncase = sum(1 for l in r["plan"] if l and not l.startswith("#"))
            stats["msan.cases"] = stats.get("msan.cases", 0) + ncase
            if r["kind"] and r["kind"].startswith("msan:"):
                # minimisation / replay must use the MSan binary: done here, not through add_problem (which replays with the ASan one)
                if r["kind"] not in seen_kinds and len(problems) < 6:
                    seen_kinds.add(r["kind"])
                    if r["culprit"]:
                        t, data = r["culprit"]
                        want = r["kind"]
                        def fails(b, t=t, want=want):
                            k, _, _, _ = replay_bytes(mbin, workdir, b, 0, t[1], int(t[2]), t[3] == "1", "mmin")
                            return k == want
                        small = data
                        if fails(data):
                            lines = data.splitlines(keepends=True)
                            if len(lines) > 1:
                                small = b"".join(ddmin(lines, lambda ls: fails(b"".join(ls)), max_tests=200))
                        k, out, _, _ = replay_bytes(mbin, workdir, small, 0, t[1], int(t[2]), t[3] == "1", "mmin")
                        problems.append({"what": "MemorySanitizer: " + r["kind"], "seed": r["seed"],
                                         "replay": describe(0, t[1], t[2], t[3] == "1", small, out if k else r["out"], "MemorySanitizer build (clang -fsanitize=memory, .build/bin/xmlload.msan-*): " + r["kind"])})
                    else:
                        problems.append({"what": "MemorySanitizer outside a case: " + r["kind"], "seed": r["seed"],
                                         "replay": "# HWLOC_LIBXML=0 VERIF_SEED=%d xmlload.msan gen %d\n# %s\n" % (r["seed"], mn, r["out"][-3000:].replace("\n", "\n# "))})
            elif r["kind"]:
                # any other failure kind of the MSan process (leak checks are stubbed there) is judged by the ASan pass, only counted here
                stats["msan.other-failure"] = stats.get("msan.other-failure", 0) + 1
    else:
        stats["msan.unavailable"] = 1
    shutil.rmtree(workdir, ignore_errors=True)
    ev = sum(v for k, v in stats.items() if k in ("loaded", "failed", "crashed"))
    return {"evaluations": ev + stats["corpus"], "distinct_nontrivial": len(distinct), "distribution": stats, "sources": nsrc,
            "problems": problems, "known_hits": sorted(set(known_hits)), "samples": samples,
            "rule": "each case = a valid XML document (bundled file, re-export v3/v2 of a loaded bundled file, annotated synthetic topology "
                    "exported v3/v2, topology-diff export) with 1-4 structure-aware mutations (attribute values/names, tags, elements, version, "
                    "truncation, bytes; 5% random bytes, 5% unmutated), loaded by set_xmlbuffer (70%), set_xml (15%) or diff_load_xmlbuffer (15%) "
                    "with random topology flags / type filters / userdata import callback, both XML back ends; evaluation = a case that was "
                    "loaded or cleanly refused (only the open classes F70 (dup skipped) and F71 (document skipped) are excluded); non-trivial distinct = distinct (mode, content "
                    "hash, back end); every loaded topology + its XML re-import + its dup judged by wfCheck.  Distances-list class: per process "
                    "62 + 16 prologue cases (every subset of dropped <distances2*> elements of 1..5, by <indexes> retargeting; KEEP_NONE type "
                    "filters) + 7% of the random cases, surviving list checked against the document-derived oracle, list links probed "
                    "through add/release_remove/remove on every loaded topology"}
