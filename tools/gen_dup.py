"""Translator for C12 (tie T): the ALLOCATION DISCIPLINE of the dup functions, extracted from /repo's working tree.

From include/hwloc.h, include/private/private.h and hwloc/bitmap.c: the member tables of the structures a topology is made of
(member name, type, pointer depth, function pointer or not), by a small purpose-written struct parser.
From the bodies of the dup functions (DUP_FUNCS below): every assignment statement `lvalue = expr;` whose lvalue is a member
access, with
  * the structure and member the lvalue resolves to (typed resolution through the member tables and the declared types of
    parameters / locals), hence whether a DATA POINTER is being assigned,
  * whether the lvalue is rooted in the copy (a write into the original would be a defect of its own),
  * the class of the right-hand side: `tma` (hwloc_tma_malloc/calloc/strdup, hwloc_bitmap_tma_dup(tma,..),
    hwloc_alloc_setup_object(newtopology,..)), `null`, `newRef` (an expression rooted in the copy), `oldCopy` (an expression
    rooted in the original), `scalar`;
every memcpy whose element type has data-pointer members (these are copied shallowly and must be fixed up afterwards in the same
function), every hwloc__tma_dup_infos call (deep copy of an infos member), every structure obtained from a plain
hwloc_tma_malloc (uninitialised: all its pointer members must be assigned).

Local variables are classified by their last assignment in source order (straight-line approximation, enough for the code as
written); `for_each_*child(child, src)` assigns its iterator from its second argument.  Everything that is not recognised raises
(FAILS CLOSED).  Output: lean/Hw/Gen/DupAlloc.lean; `generate()` returns the number of table obligations proved over it in
lean/Hw/Props/C12.lean (C12_gen_*)."""
import os, re
from common import *

GEN_PATH = os.path.join(LEAN, "Hw", "Gen", "DupAlloc.lean")

DUP_FUNCS = [("topology.c", "hwloc__tma_dup_infos"), ("topology.c", "hwloc__duplicate_object"), ("topology.c", "hwloc__topology_dup"),
             ("distances.c", "hwloc_internal_distances_dup_one"), ("distances.c", "hwloc_internal_distances_dup"),
             ("memattrs.c", "hwloc_internal_memattrs_dup"), ("cpukinds.c", "hwloc_internal_cpukinds_dup"),
             ("bitmap.c", "hwloc_bitmap_tma_dup")]

# typedefs that are pointers to a structure
PTR_TYPEDEFS = {"hwloc_obj_t": "hwloc_obj", "hwloc_topology_t": "hwloc_topology", "hwloc_bitmap_t": "hwloc_bitmap_s",
                "hwloc_cpuset_t": "hwloc_bitmap_s", "hwloc_nodeset_t": "hwloc_bitmap_s", "hwloc_const_bitmap_t": "hwloc_bitmap_s",
                "hwloc_const_cpuset_t": "hwloc_bitmap_s", "hwloc_const_nodeset_t": "hwloc_bitmap_s"}
SCALAR_WORDS = {"unsigned", "int", "long", "short", "char", "float", "double", "size_t", "uint64_t", "uint32_t", "hwloc_uint64_t",
                "hwloc_pid_t", "hwloc_obj_type_t", "hwloc_obj_cache_type_t", "hwloc_obj_bridge_type_t", "hwloc_obj_osdev_types_t",
                "hwloc_memattr_id_t", "void", "const", "enum", "signed"}


class TieBroken(Exception):
    pass


def strip_c(text):
    text = re.sub(r"/\*.*?\*/", lambda m: re.sub(r"[^\n]", " ", m.group(0)), text, flags=re.S)
    text = re.sub(r"//[^\n]*", "", text)
    return re.sub(r"(?m)^[ \t]*#(?:[^\n]*\\\n)*[^\n]*$", "", text)      # preprocessor lines


# ------------------------------------------------------------------ structure member tables

class Member:
    def __init__(self, name, typ, depth, func=False, inline=None):
        self.name, self.typ, self.depth, self.func, self.inline = name, typ, depth, func, inline


def match_brace(text, i):
    d = 0
    for j in range(i, len(text)):
        if text[j] == "{":
            d += 1
        elif text[j] == "}":
            d -= 1
            if d == 0:
                return j
    raise TieBroken("unbalanced braces in a structure definition")


def parse_members(body, structs, anon):
    """body: text between the braces of a struct/union; returns [Member]; nested definitions are registered in `structs`"""
    members, i, n = [], 0, len(body)
    while i < n:
        m = re.compile(r"\s*").match(body, i)
        i = m.end()
        if i >= n:
            break
        m = re.compile(r"(struct|union)\s*([A-Za-z_]\w*)?\s*\{").match(body, i)
        if m:
            close = match_brace(body, m.end() - 1)
            name = m.group(2)
            if not name:
                anon[0] += 1
                name = "anon%d" % anon[0]
            structs[name] = parse_members(body[m.end():close], structs, anon)
            semi = body.index(";", close)
            decl = body[close + 1:semi]
            for d in decl.split(","):
                d = d.strip()
                if not d:
                    continue            # pure type definition
                mm = re.fullmatch(r"(\**)\s*([A-Za-z_]\w*)\s*(\[[^\]]*\])?", d)
                if not mm:
                    raise TieBroken("unrecognised declarator after a nested structure: %r" % d)
                members.append(Member(mm.group(2), name, len(mm.group(1)) + (1 if mm.group(3) else 0)))
            i = semi + 1
            continue
        semi = body.find(";", i)
        if semi < 0:
            if body[i:].strip():
                raise TieBroken("trailing text in a structure body: %r" % body[i:i + 60])
            break
        decl = " ".join(body[i:semi].split())
        i = semi + 1
        if not decl:
            continue
        fm = re.match(r"(.+?)\(\s*\*\s*([A-Za-z_]\w*)\s*\)\s*\(.*\)$", decl)
        if fm:
            members.append(Member(fm.group(2), "function", 1, func=True))
            continue
        chunks = decl.split(",")
        mm = re.match(r"(.*?)((?:\*+\s*|\s+)(?:const\s+)?[A-Za-z_]\w*\s*(?:\[[^\]]*\])*)$", chunks[0].strip())
        if not mm or not mm.group(1).strip():
            raise TieBroken("unrecognised member declaration: %r" % decl)
        tyw = mm.group(1).replace("const", " ").split()
        is_enum = tyw[0] == "enum"
        base = tyw[-1]
        if tyw[0] not in ("struct", "union", "enum") and any(w not in SCALAR_WORDS for w in tyw[:-1]):
            raise TieBroken("unrecognised type words in %r" % decl)
        decls = [mm.group(2)] + chunks[1:]
        for d in decls:
            d = d.strip()
            dm = re.fullmatch(r"(\**)\s*(?:const\s+)?([A-Za-z_]\w*)\s*((?:\[[^\]]*\])*)", d)
            if not dm:
                raise TieBroken("unrecognised declarator %r in %r" % (d, decl))
            depth = len(dm.group(1)) + dm.group(3).count("[")
            typ = base
            if base in PTR_TYPEDEFS:
                typ, depth = PTR_TYPEDEFS[base], depth + 1
            elif is_enum or base in SCALAR_WORDS:
                typ = "scalar" if base != "void" else "void"
            members.append(Member(dm.group(2), typ, depth))
    return members


def load_structs():
    structs, anon = {}, [0]
    for rel, names in (("include/hwloc.h", ["hwloc_obj", "hwloc_obj_attr_u", "hwloc_info_s", "hwloc_infos_s", "hwloc_topology_support"]),
                       ("include/private/private.h", ["hwloc_topology", "hwloc_internal_location_s"]),
                       ("hwloc/bitmap.c", ["hwloc_bitmap_s"])):
        text = strip_c(open(os.path.join(REPO, rel)).read())
        for nm in names:
            m = re.search(r"(?m)^(?:struct|union)\s+%s\s*\{" % nm, text)
            if not m:
                raise TieBroken("definition of %s not found in %s" % (nm, rel))
            close = match_brace(text, m.end() - 1)
            structs[nm] = parse_members(text[m.end():close], structs, anon)
    return structs


def data_pointer_paths(structs, name, seen=()):
    """flattened paths of data-pointer members, through embedded (non-pointer) structures"""
    if name in seen:
        return []
    out = []
    for mb in structs.get(name, []):
        if mb.func:
            continue
        if mb.depth > 0:
            out.append(mb.name)
        elif mb.typ in structs:
            out += [mb.name + "." + p for p in data_pointer_paths(structs, mb.typ, seen + (name,))]
    return out


# ------------------------------------------------------------------ function bodies

def function_body(text, fn):
    m = re.search(r"(?m)^(?:[A-Za-z_][\w \t\*]*\n)?(?:[A-Za-z_][\w \t\*]*[ \t\*])?%s\s*\(([^)]*)\)\s*\n\{" % re.escape(fn), text)
    if not m:
        raise TieBroken("definition of %s not found" % fn)
    close = text.find("\n}", m.end())
    if close < 0:
        raise TieBroken("body of %s does not close" % fn)
    return m.group(1), text[m.end():close]


def statements(body):
    """split at ; { } outside parentheses"""
    out, cur, d = [], [], 0
    for ch in body:
        if ch == "(":
            d += 1
        elif ch == ")":
            d -= 1
        if d == 0 and ch in ";{}":
            s = " ".join("".join(cur).split())
            if s:
                out.append(s)
            cur = []
        else:
            cur.append(ch)
    s = " ".join("".join(cur).split())
    if s:
        out.append(s)
    return out


def strip_control(s):
    """drop leading `if (...)`, `else`, `for (...)`, `while (...)`, labels; returns the remaining simple statement"""
    while True:
        s = s.strip()
        m = re.match(r"(if|for|while)\s*\(", s)
        if m:
            d, j = 0, m.end() - 1
            for k in range(j, len(s)):
                if s[k] == "(":
                    d += 1
                elif s[k] == ")":
                    d -= 1
                    if d == 0:
                        s = s[k + 1:]
                        break
            else:
                raise TieBroken("unbalanced control header: %r" % s)
            continue
        m = re.match(r"else\b", s)
        if m:
            s = s[m.end():]
            continue
        m = re.match(r"[A-Za-z_]\w*\s*:(?!:)", s)
        if m and not s.startswith("default"):
            s = s[m.end():]
            continue
        return s


DECL_TYPE = r"(?:(?:const\s+)?(?:struct\s+[A-Za-z_]\w*|unsigned(?:\s+long|\s+int)?|int|size_t|char|hwloc_[a-z_0-9]+_t|hwloc_obj_t|hwloc_topology_t))"


def parse_decl(s, types):
    """variable declarations (also with initialisers); registers types: var -> (struct, pointer depth); returns [(var, init or None)]"""
    m = re.match(r"(%s)\s*(.+)$" % DECL_TYPE, s)
    if not m or re.match(r"(return|goto|sizeof)\b", s):
        return None
    base = re.sub(r"^(const\s+)?(struct\s+)?", "", m.group(1)).strip()
    rest = m.group(2)
    if not re.match(r"\**\s*[A-Za-z_]\w*\s*(=|,|$|\[)", rest):
        return None
    out, parts, d, cur = [], [], 0, []
    for ch in rest:
        if ch in "([":
            d += 1
        elif ch in ")]":
            d -= 1
        if ch == "," and d == 0:
            parts.append("".join(cur)); cur = []
        else:
            cur.append(ch)
    parts.append("".join(cur))
    for p in parts:
        dm = re.match(r"\s*(\**)\s*([A-Za-z_]\w*)\s*(\[[^\]]*\])?\s*(?:=\s*(.+))?$", p)
        if not dm:
            raise TieBroken("unrecognised declarator %r in %r" % (p, s))
        depth = len(dm.group(1)) + (1 if dm.group(3) else 0)
        typ = base
        if base in PTR_TYPEDEFS:
            typ, depth = PTR_TYPEDEFS[base], depth + 1
        elif base.split()[0] in SCALAR_WORDS or base.endswith("_t"):
            typ = "scalar"
        types[dm.group(2)] = (typ, depth)
        out.append((dm.group(2), dm.group(4)))
    return out


PATH_TOK = re.compile(r"\s*(->|\.)\s*([A-Za-z_]\w*)|\s*\[")


def resolve(expr, types, structs):
    """typed resolution of an lvalue / rvalue path: returns (root, struct of the last member or None, member path since the last
    `->`, Member or None).  Raises TieBroken on anything it cannot type."""
    e = expr.strip()
    while e.startswith("(") and e.endswith(")"):
        e = e[1:-1].strip()
    amp = e.startswith("&")
    if amp:
        e = e[1:].strip()
    m = re.match(r"[A-Za-z_]\w*", e)
    if not m:
        raise TieBroken("cannot find the root of %r" % expr)
    root = m.group(0)
    if root not in types:
        raise TieBroken("untyped variable %r in %r" % (root, expr))
    typ, depth = types[root]
    i, owner, path, member = m.end(), None, [], None
    while i < len(e):
        t = PATH_TOK.match(e, i)
        if not t:
            if e[i:].strip():
                raise TieBroken("unrecognised path syntax in %r at %r" % (expr, e[i:]))
            break
        if t.group(1) is None:                      # [ index ]
            d, j = 0, t.end() - 1
            for k in range(j, len(e)):
                if e[k] == "[":
                    d += 1
                elif e[k] == "]":
                    d -= 1
                    if d == 0:
                        i = k + 1
                        break
            else:
                raise TieBroken("unbalanced [ in %r" % expr)
            if depth < 1:
                raise TieBroken("indexing a non-pointer in %r" % expr)
            depth -= 1
            continue
        op, name = t.group(1), t.group(2)
        if (op == "->") != (depth == 1) or depth > 1:
            raise TieBroken("operator %s does not fit pointer depth %d in %r" % (op, depth, expr))
        if typ not in structs:
            raise TieBroken("member access into unknown structure %r in %r" % (typ, expr))
        mb = next((x for x in structs[typ] if x.name == name), None)
        if mb is None:
            raise TieBroken("structure %s has no member %s (in %r)" % (typ, name, expr))
        if op == "->" or owner is None:
            owner, path = typ, [name]
        else:
            path.append(name)
        member, typ, depth = mb, mb.typ, mb.depth
        i = t.end()
    return root, owner, ".".join(path), member, depth


NEW_PARAMS = {"newtopology", "newparent", "newobj", "new", "newi", "newp"}
OLD_PARAMS = {"src", "old", "oldi", "olddist"}
TMA_CALL = re.compile(r"^(hwloc_tma_malloc|hwloc_tma_calloc|hwloc_tma_strdup)\s*\(\s*tma\s*,|^hwloc_bitmap_tma_dup\s*\(\s*tma\s*,|^hwloc_alloc_setup_object\s*\(\s*newtopology\s*,")


def analyse(fn, params, body, structs):
    types, cls = {"tma": ("hwloc_tma", 1)}, {}
    assigns, memcpys, dupcalls, fresh = [], [], [], []
    for p in params.split(","):
        p = " ".join(p.split())
        if not p or p == "void":
            continue
        got = parse_decl(p, types)
        if not got:
            raise TieBroken("%s: unrecognised parameter %r" % (fn, p))
        v = got[0][0]
        if v in NEW_PARAMS:
            cls[v] = "new"
        elif v in OLD_PARAMS:
            cls[v] = "old"
        elif v != "tma":
            raise TieBroken("%s: parameter %r is neither a known copy-side nor original-side name" % (fn, v))

    def rhs_class(rhs):
        r = rhs.strip()
        r = re.sub(r"^\(\s*[A-Za-z_][\w\s\*]*\)\s*(?=[A-Za-z_&(])", "", r)          # a cast
        if TMA_CALL.match(r):
            return "tma"
        if r == "NULL":
            return "null"
        if re.fullmatch(r"[-+]?\d+[uUlL]*|0x[0-9a-fA-F]+", r):
            return "scalar"
        m = re.match(r"hwloc_get_root_obj\s*\(\s*([A-Za-z_]\w*)\s*\)$", r)
        if m:
            return {"new": "newRef", "old": "oldCopy"}.get(cls.get(m.group(1)), None) or _fail("%s: hwloc_get_root_obj of unclassified %r" % (fn, m.group(1)))
        flat = re.sub(r"sizeof\s*\([^()]*\)", "0", r)
        while re.search(r"\[[^\[\]]+\]", flat):                 # index expressions select an element, they are not the source of the value
            flat = re.sub(r"\[[^\[\]]+\]", "[]", flat)
        roots = [x for x in re.findall(r"(?<![\w>.])([A-Za-z_]\w*)(?!\s*\()", flat)
                 if x in types and x != "tma"]
        kinds = {cls.get(x, "scalar" if types[x][1] == 0 and types[x][0] == "scalar" else None) for x in roots}
        if None in kinds:
            raise TieBroken("%s: right-hand side %r uses an unclassified variable" % (fn, rhs))
        if "old" in kinds:
            return "oldCopy"
        if "new" in kinds or "tma" in kinds or "newRef" in kinds:
            return "newRef"
        if kinds <= {"scalar", "null"} or not kinds:
            return "scalar" if kinds != {"null"} else "null"
        raise TieBroken("%s: cannot classify right-hand side %r" % (fn, rhs))

    def _fail(msg):
        raise TieBroken(msg)

    def local_set(var, k):
        cls[var] = {"tma": "new", "newRef": "new", "oldCopy": "old", "null": "null", "scalar": "scalar"}[k]

    for raw in statements(body):
        # deep copies of an infos member, wherever the call sits (also inside an `if (...)` header)
        had_dup = False
        for m in re.finditer(r"hwloc__tma_dup_infos\s*\(\s*tma\s*,\s*&\s*([^,]+?)\s*,\s*&\s*([^,()]+?)\s*\)", raw):
            root, owner, path, member, depth = resolve(m.group(1), types, structs)
            if cls.get(root) != "new":
                raise TieBroken("%s: hwloc__tma_dup_infos destination %r is not rooted in the copy" % (fn, m.group(1)))
            dupcalls.append((fn, owner, path + ".array"))
            had_dup = True
        if "hwloc__tma_dup_infos" in raw and not had_dup:
            raise TieBroken("%s: unrecognised hwloc__tma_dup_infos call in %r" % (fn, raw))
        s = strip_control(raw)
        if not s or had_dup:
            continue
        m = re.match(r"for_each_(?:memory_|io_|misc_)?child\s*\(\s*([A-Za-z_]\w*)\s*,\s*([A-Za-z_]\w*)\s*\)\s*(.*)$", s)
        if m:
            if cls.get(m.group(2)) not in ("new", "old"):
                raise TieBroken("%s: for_each_child over unclassified %r" % (fn, m.group(2)))
            cls[m.group(1)] = cls[m.group(2)]
            s = strip_control(m.group(3))
            if not s:
                continue
        d = parse_decl(s, types)
        if d is not None:
            for var, init in d:
                if init is not None:
                    k = rhs_class(init)
                    local_set(var, k)
                    mm = re.match(r"hwloc_tma_malloc\s*\(\s*tma\s*,\s*sizeof", init)
                    if mm and types[var][1] == 1 and types[var][0] in structs:
                        fresh.append((fn, types[var][0]))
            continue
        m = re.match(r"memcpy\s*\((.*)\)$", s)
        if m:
            args, dpt, cur = [], 0, []
            for ch in m.group(1):
                if ch == "(":
                    dpt += 1
                elif ch == ")":
                    dpt -= 1
                if ch == "," and dpt == 0:
                    args.append("".join(cur)); cur = []
                else:
                    cur.append(ch)
            args.append("".join(cur))
            if len(args) != 3:
                raise TieBroken("%s: memcpy with %d arguments" % (fn, len(args)))
            root, owner, path, member, depth = resolve(args[0], types, structs)
            if cls.get(root) != "new":
                raise TieBroken("%s: memcpy destination %r is not rooted in the copy" % (fn, args[0]))
            amp = args[0].strip().startswith("&")
            elem = (member.typ if member else types[root][0])
            ptrs = data_pointer_paths(structs, elem) if elem in structs and (depth - (0 if amp else 1)) == 0 else []
            if not (elem in structs) and (depth - (0 if amp else 1)) > 0:
                ptrs = ["<array of pointers>"]
            memcpys.append((fn, args[0].strip(), elem if elem in structs else "scalar", ptrs))
            continue
        if re.match(r"errno\s*=\s*E[A-Z]+$", s):
            continue
        m = re.match(r"err\s*=\s*hwloc__topology_init\s*\(\s*&\s*([A-Za-z_]\w*)\s*,[^,]*,\s*tma\s*\)$", s)
        if m:
            cls[m.group(1)] = "new"          # the copy itself: allocated by hwloc__topology_init through the tma
            continue
        if re.match(r"err\s*=\s*hwloc_\w+\s*\(", s):
            continue
        m = re.match(r"(\*?\s*[A-Za-z_][\w\s\->\.\[\]\+\-\*]*?)\s*=(?!=)\s*(.+)$", s)
        if m and not re.search(r"[!<>=&|^+\-*/%]$", m.group(1).strip()):
            lhs, rhs = m.group(1).strip(), m.group(2).strip()
            if lhs.startswith("*"):
                v = lhs[1:].strip()
                if v not in NEW_PARAMS:
                    raise TieBroken("%s: store through %r" % (fn, lhs))
                continue
            root, owner, path, member, depth = resolve(lhs, types, structs)
            k = rhs_class(rhs)
            if member is None:
                if "[" in lhs:
                    if cls.get(root) != "new":
                        raise TieBroken("%s: store into array %r not rooted in the copy" % (fn, lhs))
                    if types[root][1] >= 2 or (types[root][0] in structs and types[root][1] - 1 > 0):
                        assigns.append((fn, "<array>", root + "[]", True, False, True, k))
                    continue
                local_set(root, k)
                if re.match(r"hwloc_tma_malloc\s*\(\s*tma\s*,\s*sizeof", rhs) and types[root][1] == 1 and types[root][0] in structs:
                    fresh.append((fn, types[root][0]))
                continue
            if cls.get(root) not in ("new", "old"):
                raise TieBroken("%s: lvalue %r rooted in unclassified variable %r" % (fn, lhs, root))
            assigns.append((fn, owner, path, depth > 0 and not member.func, member.func, cls[root] == "new", k))
            continue
        # statements that neither assign nor copy: calls, returns, asserts, gotos, compound assignments on scalars, ++/--
        if re.match(r"(return\b|goto\b|assert\s*\(|free\s*\(|errno\b|hwloc_[a-z_]+\s*\(|memset\s*\(|HWLOC__BITMAP_CHECK\s*\(|newobj->arity\b|[\w\->\.\[\]]+\s*(\+\+|--)$|[\w\->\.\[\]]+\s*(\+|-|\||&|\*)=|err\s*=\s*hwloc_[a-z_]+\s*\(|hwloc_insert_object_by_parent\s*\(|break$|continue$)", s):
            continue
        raise TieBroken("%s: unrecognised statement %r" % (fn, s))
    return assigns, memcpys, dupcalls, fresh


def lean_str(s):
    return '"' + s.replace("\\", "\\\\").replace('"', '\\"') + '"'


def generate():
    structs = load_structs()
    assigns, memcpys, dupcalls, fresh = [], [], [], []
    for rel, fn in DUP_FUNCS:
        text = strip_c(open(os.path.join(REPO, "hwloc", rel)).read())
        params, body = function_body(text, fn)
        a, m, d, f = analyse(fn, params, body, structs)
        assigns += a; memcpys += m; dupcalls += d; fresh += f
    if len(assigns) < 40 or len(memcpys) < 10 or len(dupcalls) < 3 or len(fresh) < 2:
        raise TieBroken("implausibly few constructs extracted (%d assignments, %d memcpy, %d infos dup calls, %d fresh structures)"
                        % (len(assigns), len(memcpys), len(dupcalls), len(fresh)))
    wanted = ["hwloc_obj", "hwloc_obj_attr_u", "hwloc_infos_s", "hwloc_info_s", "hwloc_bitmap_s", "hwloc_internal_distances_s",
              "hwloc_internal_memattr_s", "hwloc_internal_memattr_target_s", "hwloc_internal_memattr_initiator_s",
              "hwloc_internal_cpukind_s", "hwloc_special_level_s", "hwloc_topology_support"]
    for w in wanted:
        if w not in structs:
            raise TieBroken("structure %s not found" % w)
    L = ["/- GENERATED by tools/gen_dup.py from the working tree of hwloc (include/hwloc.h, include/private/private.h, hwloc/bitmap.c and the",
         "   bodies of the dup functions).  Do not edit: regenerated on every check. -/",
         "namespace Hw.Gen.DupAlloc", "",
         "/-- class of the right-hand side of an assignment inside a dup function -/",
         "inductive Src | tma | null | newRef | oldCopy | scalar", "deriving Repr, DecidableEq, Inhabited", "",
         "structure Assign where", "  fn : String", "  struct : String      -- structure the assigned member belongs to",
         "  field : String       -- member path since the last `->`", "  isPtr : Bool         -- a data pointer is assigned",
         "  funcPtr : Bool", "  lhsNew : Bool        -- the lvalue is rooted in the copy", "  src : Src",
         "deriving Repr, DecidableEq, Inhabited", "",
         "def assigns : List Assign := ["]
    L.append(",\n".join("  { fn := %s, struct := %s, field := %s, isPtr := %s, funcPtr := %s, lhsNew := %s, src := .%s }" % (
        lean_str(f), lean_str(o), lean_str(p), str(ip).lower(), str(fp).lower(), str(ln).lower(), k) for f, o, p, ip, fp, ln, k in assigns))
    L += ["]", "", "/-- memcpy calls: (function, destination, element structure or \"scalar\", data-pointer members copied shallowly) -/",
          "def memcpys : List (String × String × String × List String) := ["]
    L.append(",\n".join("  (%s, %s, %s, [%s])" % (lean_str(f), lean_str(d), lean_str(e), ", ".join(lean_str(x) for x in ps)) for f, d, e, ps in memcpys))
    L += ["]", "", "/-- hwloc__tma_dup_infos(tma, &<copy>.<infos>, ..) calls: (function, structure, member deep-copied) -/",
          "def infosDupCalls : List (String × String × String) := ["]
    L.append(",\n".join("  (%s, %s, %s)" % (lean_str(f), lean_str(o), lean_str(p)) for f, o, p in dupcalls))
    L += ["]", "", "/-- structures obtained from a plain hwloc_tma_malloc (uninitialised memory): (function, structure) -/",
          "def freshStructs : List (String × String) := ["]
    L.append(",\n".join("  (%s, %s)" % (lean_str(f), lean_str(o)) for f, o in fresh))
    L += ["]", "", "/-- data-pointer members (flattened through embedded structures) of the structures a topology is made of -/",
          "def ptrFields : List (String × List String) := ["]
    L.append(",\n".join("  (%s, [%s])" % (lean_str(w), ", ".join(lean_str(x) for x in data_pointer_paths(structs, w))) for w in wanted))
    L += ["]", "", "end Hw.Gen.DupAlloc", ""]
    import gen_tables
    gen_tables.write_if_changed(GEN_PATH, "\n".join(L))
    # generated-table obligations: one per pointer assignment, shallow memcpy, infos deep copy and fresh structure checked by C12_gen_*
    return len([a for a in assigns if a[3]]) + len([m for m in memcpys if m[3]]) + len(dupcalls) + len(fresh)


if __name__ == "__main__":
    print(generate())
