#!/bin/bash
# usage: tools/run_some.sh <tier> <Cxx>... : run the named checks sequentially, one line per property
cd "$(dirname "$0")/.."
TIER=$1; shift
for p in "$@"; do
  s=$(date +%s); out=$(./check $p --tier $TIER 2>&1); rc=$?
  echo "$p rc=$rc $(echo "$out" | grep -E '^(OK|VIOLATION)' | tail -1 | cut -c1-160) known=$(echo "$out" | grep -c '^KNOWN-FINDING') total=$(( $(date +%s) - s ))s"
  [ $rc -ne 0 ] && echo "$out" | tail -30
done
