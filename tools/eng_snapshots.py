"""Engine `snapshots` (C18): exploration of the Linux / x86 discovery back ends, judged by PROVED oracles.

For every bundled snapshot x component selection x type filters x flags, and for fault sequences (sets of removable
paths hidden from a scratch copy of the snapshot), the harness (harness/h_snapshots.c) loads in a forked child under
ASan/UBSan with a watchdog.  Every load must fail cleanly (-1) or yield a dump accepted by `wfCheck` (= WF, C01);
a second load must give the same dump (`SameTopo`); the load with INCLUDE_DISALLOWED toggled must be in
`DisallowedView` with it; the XML export reloaded under the same configuration must be `XmlEquiv`.

Known findings are excluded from the verdict by class, each behind a named switch (set the variable to 1 to make the
class count as a violation again):
  VERIF_C18_STRICT_MEMCCPUSET   C18-F2  XML reload changes the complete_cpuset of memory objects
  VERIF_C18_STRICT_CHILDORDER   C18-F3  hwloc_topology_check() assertion `!prev_empty' (a CPU-less child sorted before a child with CPUs)
"""
import os, shutil, hashlib, random, glob, subprocess
from concurrent.futures import ThreadPoolExecutor
from common import *
from diffrun import *
import snapshots

NWORK = max(1, min(NCPU, int(os.environ.get("VERIF_JOBS", NCPU))))
FLAG_BITS = [1, 8, 64, 128, 256, 512]
NOFILT = "-" * 20

KNOWN = {
    "C18-F2": ("VERIF_C18_STRICT_MEMCCPUSET",
               "XML export+reload changes complete_cpuset of a memory object (native load keeps the value copied from a parent "
               "that was filtered out later; the XML reload copies the final parent's)"),
    "C18-F3": ("VERIF_C18_STRICT_CHILDORDER",
               "hwloc_topology_check() aborts in hwloc__check_children_cpusets: Assertion `!prev_empty' (a normal child with an empty "
               "complete_cpuset is ordered before a child with CPUs) after topology files were removed"),
}


def _env():
    e = dict(os.environ, ASAN_OPTIONS="detect_leaks=1:abort_on_error=0", UBSAN_OPTIONS="print_stacktrace=1",
             HWLOC_HIDE_ERRORS="2", LC_ALL="C", HWLOC_DONT_ADD_VERSION_INFO="1")
    for k in list(e):
        if k.startswith("HWLOC_") and k not in ("HWLOC_HIDE_ERRORS", "HWLOC_DONT_ADD_VERSION_INFO"):
            del e[k]
    return e


def pair_snapshots():
    out = []
    for a in sorted(glob.glob(os.path.join(REPO, "tests", "hwloc", "x86+linux", "*.tar.bz2"))):
        d = snapshots._extract(a, "x86+linux")
        if d and os.path.isdir(os.path.join(d, "fsroot")) and os.path.isdir(os.path.join(d, "cpuid")):
            out.append(d)
    return out


def all_sources():
    """[(kind, dir)]: kind L = Linux fsroot, X = x86 cpuid dump, B = x86+linux pair"""
    return ([("L", d) for d in snapshots.linux_snapshots()] + [("X", d) for d in snapshots.x86_snapshots()] +
            [("B", d) for d in pair_snapshots()])


def gen_flags(rnd):
    if rnd.random() < 0.3:
        return rnd.choice([0, 1])
    return sum(b for b in FLAG_BITS if rnd.random() < 0.35)


def gen_filters(rnd):
    mode = rnd.randrange(10)
    if mode < 3:
        return NOFILT
    if mode == 3:
        f = ["0"] * 20; f[13] = "-"; return "".join(f)
    if mode == 4:
        return "2" * 20
    if mode == 5:
        return "1" * 20
    f = list(NOFILT)
    for _ in range(1 + rnd.randrange(6)):
        f[rnd.randrange(20)] = str(rnd.randrange(4))
    return "".join(f)


def removable(root):
    """relative paths that may be removed: regular files, symlinks, directories whose name does not end in a digit"""
    out = []
    for d, dirs, files in os.walk(root):
        rel = os.path.relpath(d, root)
        for f in files:
            out.append(os.path.normpath(os.path.join(rel, f)))
        for x in dirs:
            p = os.path.join(d, x)
            if os.path.islink(p) or not x[-1:].isdigit():
                out.append(os.path.normpath(os.path.join(rel, x)))
    return sorted(out)


def src_args(kind, root):
    if kind == "L":
        return root, "-"
    if kind == "X":
        return "-", root
    return os.path.join(root, "fsroot"), os.path.join(root, "cpuid")


class Case:
    __slots__ = ("id", "kind", "src", "flags", "filters", "checks", "hide", "cls")

    def __init__(self, cid, kind, src, flags, filters, checks, hide=(), cls="config"):
        self.id, self.kind, self.src, self.flags, self.filters, self.checks, self.hide, self.cls = cid, kind, src, flags, filters, checks, tuple(hide), cls

    def key(self):
        return "%s|%s|%d|%s|%s|%s" % (self.kind, os.path.basename(self.src), self.flags, self.filters, self.checks, ",".join(self.hide))

    def text(self):
        rel = os.path.relpath(self.src, snapshots.SNAP)
        return "".join(["SNAPSHOT %s %s\n" % (self.kind, rel)] + ["HIDE %s\n" % h for h in self.hide] +
                       ["CASE %s %s %d %s %s\n" % (self.id, self.kind, self.flags, self.filters, self.checks)])


def plan_for_source(kind, src, tier, rnd, idx):
    """cases of one snapshot (a unit of work for one harness process)"""
    cases = []
    n = [0]

    def cid():
        n[0] += 1
        return "s%dc%d" % (idx, n[0])
    cases.append(Case(cid(), kind, src, 0, NOFILT, "rdx", cls="baseline"))
    nconf = 3 if tier == "quick" else 24
    for _ in range(nconf):
        cases.append(Case(cid(), kind, src, gen_flags(rnd), gen_filters(rnd), rnd.choice(["rdx", "rdx", "rd", "rx", "r"])))
    # component selections that rely on default enabling (D unset, o "first named, others by default", n blacklist / other order) and
    # an interfering load under another selection between the two loads that must be identical (i); see harness/h_snapshots.c
    if kind != "X":
        variants = ["D", "o", "n"]
        rnd.shuffle(variants)
        for v in (variants[:2] if tier == "quick" else variants * 3):
            cases.append(Case(cid(), kind, src, gen_flags(rnd) if rnd.random() < 0.5 else 0, gen_filters(rnd) if rnd.random() < 0.4 else NOFILT,
                              rnd.choice(["rdx", "rd", "r"]) + v + ("i" if rnd.random() < 0.7 else ""), cls="selection"))
    cases.append(Case(cid(), kind, src, 0, NOFILT, "ri", cls="selection"))
    # fault sequences
    rem = removable(src)
    if not rem:
        return cases
    sysrem = [p for p in rem if "sys/devices/system" in p]
    nfault = (4 if kind == "L" else 1) if tier == "quick" else (60 if kind != "X" else 4)
    for _ in range(nfault):
        k = rnd.choice([1, 1, 2, 2, 3, 5, 8, 12, 20, 40])
        pool = sysrem if sysrem and rnd.random() < 0.7 else rem
        hide = rnd.sample(pool, min(k, len(pool)))
        fl, fi = (0, NOFILT) if rnd.random() < 0.6 else (gen_flags(rnd), gen_filters(rnd))
        cases.append(Case(cid(), kind, src, fl, fi, rnd.choice(["r", "r", "", "rx", "rd"]), hide, cls="fault-random"))
    # class-directed single removals: sysfs files are grouped by their path with digits normalised (node<N>/cpumap,
    # cpu<N>/topology/core_id, ...); rare classes (a handful of NUMA node files among thousands of per-CPU files) get the same
    # chance as frequent ones
    import re as _re
    classes = {}
    for p_ in (sysrem or rem):
        classes.setdefault(_re.sub(r"\d+", "N", p_), []).append(p_)
    ckeys = sorted(classes)
    nclass = (6 if kind == "L" else 2) if tier == "quick" else 0
    for _ in range(min(nclass, len(ckeys))):
        cl = classes[rnd.choice(ckeys)]
        # every other faulted case loads twice in its process: what the first load leaves behind must not change the second (C18-r8)
        cases.append(Case(cid(), kind, src, 0, NOFILT, "r" if rnd.random() < 0.5 else "", [rnd.choice(cl)], cls="fault-class"))
    # the per-CPU files that feed the CPU kinds (cpufreq/, acpi_cppc/, cpu_capacity) substitute for one another when one is
    # missing: every such class is removed once per snapshot in both tiers, with two loads in the same process
    for k in ckeys:
        if "cpufreq" in k or "acpi_cppc" in k or "cpu_capacity" in k:
            cl = classes[k]
            # the first member (cpu0 / policy0: the one probed first, while lazily decided choices are still open), and sometimes another
            cases.append(Case(cid(), kind, src, 0, NOFILT, "r", [cl[0]], cls="fault-cpukind-input"))
            if len(cl) > 1 and rnd.random() < 0.3:
                cases.append(Case(cid(), kind, src, 0, NOFILT, "r", [rnd.choice(cl[1:])], cls="fault-cpukind-input"))
    # the few files outside sys/devices/system (proc/cpuinfo, proc/mounts, proc/self/cpuset, proc/self/cgroup, cgroup mount
    # files, ...) select whole code paths (cgroup name lookup, allowed-resources source): every proc/ file is removed singly
    # in both tiers, cgroup mount files two per snapshot (quick) or up to 40 (thorough)
    procrem = [p_ for p_ in rem if p_.startswith("proc/") and os.path.isfile(os.path.join(src, p_))]
    cgrem = [p_ for p_ in rem if not p_.startswith("proc/") and ("/cgroup" in p_ or "/cpuset" in p_)]
    if kind == "L":
        picks = procrem[:24] + (rnd.sample(cgrem, min(2, len(cgrem))) if tier == "quick" else cgrem[:40])
        for p_ in picks:
            cases.append(Case(cid(), kind, src, rnd.choice([0, 0, 1]), NOFILT, "", [p_], cls="fault-proc"))
    if tier == "thorough" and kind != "X" and len(rem) <= 800 and sysrem:
        # small snapshots: every single removal under sys/devices/system, and pairs (all when few, else sampled)
        for p in sysrem:
            cases.append(Case(cid(), kind, src, 0, NOFILT, "", [p], cls="fault-single"))
        pairs = [(a, b) for i, a in enumerate(sysrem) for b in sysrem[i + 1:] if not b.startswith(a + "/")]
        if len(pairs) > 500:
            pairs = rnd.sample(pairs, 500)
        for a, b in pairs:
            cases.append(Case(cid(), kind, src, 0, NOFILT, "", [a, b], cls="fault-pair"))
    return cases


def run_unit(binp, workdir, uid, cases):
    """run the cases of one snapshot in one harness process; returns {case id: result dict}"""
    d = os.path.join(workdir, "u%s" % uid)
    shutil.rmtree(d, ignore_errors=True)
    os.makedirs(d)
    src = cases[0].src
    kind = cases[0].kind
    tree = src
    if any(c.hide for c in cases):
        tree = os.path.join(d, "tree")
        r = run(["cp", "-al", src, tree])
        if r.returncode != 0:
            r = run(["cp", "-a", src, tree])
            if r.returncode != 0:
                raise RuntimeError("cannot copy snapshot: " + r.stdout[-500:])
    plan, dump, log, mout, stash = [os.path.join(d, x) for x in ("plan.txt", "dump.txt", "log.txt", "m.out", "stash")]
    with open(plan, "w") as f:
        for c in cases:
            root = tree if c.hide else src
            for h in c.hide:
                f.write("HIDE %s\n" % os.path.join(root, h))
            fs, cp = src_args(kind, root)
            f.write("CASE %s %s %d %s %s %s %s\n" % (c.id, c.kind, c.flags, c.filters, fs, cp, c.checks or "-"))
            if c.hide:
                f.write("UNHIDE\n")
    r = run([binp, "run", plan, dump, log, stash], env=_env())
    res = {c.id: {"status": None, "notes": "", "err": "", "wf": {}, "rel": {}} for c in cases}
    if r.returncode != 0:
        res["_harness"] = "harness exit %d: %s" % (r.returncode, r.stdout[-1500:])
    if os.path.exists(log):
        for l in read_lines(log):
            t = l.split(None, 3)
            if len(t) >= 3 and t[0] == "RES" and t[1] in res:
                res[t[1]]["status"] = t[2]
                res[t[1]]["notes"] = " ".join(t[3:])
            elif len(t) >= 3 and t[0] == "ERR" and t[1] in res:
                res[t[1]]["err"] = " ".join(t[2:])
    if os.path.exists(dump):
        run_model("snapshots", dump, mout)
        with open(dump, errors="replace") as fd, open(mout, errors="replace") as fm:
            for dl, ml in zip(fd, fm):
                if dl.startswith("END "):
                    tag = dl.split()[1]
                    cidx = tag.rsplit(".", 1)[0]
                    if cidx in res:
                        res[cidx]["wf"][tag] = ml.strip()
                elif dl.startswith("REL "):
                    t = dl.split()
                    cidx = t[2].rsplit(".", 1)[0]
                    if cidx in res:
                        res[cidx]["rel"][t[1]] = ml.strip()
                elif dl.startswith("ENUM") and ml.strip() != "ENUM ok":
                    res["_enum"] = ml.strip()
    shutil.rmtree(d, ignore_errors=True)
    return res


def judge(c, r):
    """-> (list of violation strings, list of known-finding ids)"""
    bad, known = [], []
    st = r["status"]
    if st is None:
        bad.append("no result for the case (harness died?)")
    elif st in ("CRASH", "HANG"):
        bad.append("%s %s: %s" % (st, r["notes"], r["err"][-1800:]))
    if "TOPOLOGY-CHECK-ASSERT" in r["notes"]:
        # (former finding C18-F3 = F66, a CPU-less child ordered before children with CPUs, is fixed in /repo: every abort is a violation)
        if True:
            bad.append("hwloc_topology_check() aborted: %s: %s" % (r["notes"].strip(), r["err"][-600:]))
    for note in ("NONDETERMINISTIC", "XML-EXPORT-FAILED", "XML-RELOAD-FAILED"):
        if note in r["notes"]:
            bad.append(r["notes"].strip())
            break
    for tag, v in r["wf"].items():
        if v != "WF ok":
            bad.append("load %s is not well-formed: %s" % (tag, v))
    for rel, v in r["rel"].items():
        if v == rel + " ok":
            continue
        if rel == "xml" and "C18-F3" in known:
            continue        # the misordered children are sorted by the XML import: same finding
        if rel == "xml" and not os.environ.get(KNOWN["C18-F2"][0]):
            clauses = v[len("xml FAIL "):].split(",")
            if clauses and all(x.startswith("memory-object-complete-cpuset@") for x in clauses):
                known.append("C18-F2")
                continue
        bad.append("relation violated: " + v)
    return bad, known


def replay_text(c, r, bad):
    return ("# engine snapshots: replay with  ./check C18 --replay <this file>   (paths relative to the extracted snapshot)\n" +
            c.text() + "".join("# %s\n" % b.replace("|", "\n#    ") for b in bad) +
            "# status: %s %s\n" % (r["status"], r["notes"]))


def shrink_hide(binp, workdir, c, first_bad):
    """ddmin over the hidden paths: keep the symptom class (first word(s) of the first violation)"""
    if len(c.hide) < 2:
        return c
    sig = first_bad.split(":")[0][:40]

    def fails(sub):
        cc = Case(c.id, c.kind, c.src, c.flags, c.filters, c.checks, sub, c.cls)
        rr = run_unit(binp, workdir, "shrink", [cc])
        b, _ = judge(cc, rr[c.id])
        return any(x.split(":")[0][:40] == sig for x in b)
    small = ddmin(list(c.hide), fails, max_tests=60)
    return Case(c.id, c.kind, c.src, c.flags, c.filters, c.checks, small, c.cls)


def run_engine(tier, seed):
    binp = build_harness("snapshots")
    workdir = os.path.join(BUILD, "run", "snapshots-%s" % os.getpid())
    shutil.rmtree(workdir, ignore_errors=True)
    os.makedirs(workdir)
    sources = all_sources()
    units = []
    for i, (kind, src) in enumerate(sources):
        rnd = random.Random("%s-%d-%s" % (seed, i, tier))
        units.append((i, plan_for_source(kind, src, tier, rnd, i)))
    # corpus: past failures first (same format as the replay files)
    corpus = []
    for f in sorted(glob.glob(os.path.join(ROOT, "corpus", "snapshots", "*.case"))):
        cs = parse_case_file(f, "k%d" % len(corpus))
        if cs:
            corpus.append(cs)
    for j, cs in enumerate(corpus):
        units.append(("k%d" % j, [cs]))
    # big units first (better packing)
    units.sort(key=lambda u: -len(u[1]))
    with ThreadPoolExecutor(NWORK) as ex:
        results = list(ex.map(lambda u: run_unit(binp, workdir, u[0], u[1]), units))
    problems, known_hits, stats, distinct, samples = [], {}, {}, set(), []
    nloads = 0
    for (uid, cases), res in zip(units, results):
        if "_enum" in res and not problems:
            problems.append({"what": res["_enum"], "seed": seed, "replay": "enum constants of the model differ from hwloc.h\n"})
        if "_harness" in res and not problems:
            problems.append({"what": "harness failure", "seed": seed, "replay": res["_harness"] + "\n"})
        for c in cases:
            r = res[c.id]
            st = r["status"] or "none"
            stats["class." + c.cls] = stats.get("class." + c.cls, 0) + 1
            stats["kind." + c.kind] = stats.get("kind." + c.kind, 0) + 1
            stats["status." + st] = stats.get("status." + st, 0) + 1
            nl = len(r["wf"]) + (1 if st == "load-failed" else 0)
            nloads += max(nl, 1)
            for rel, v in r["rel"].items():
                stats["rel." + rel] = stats.get("rel." + rel, 0) + 1
            distinct.add(hashlib.md5(c.key().encode()).digest()[:8])
            if len(samples) < 6 and c.hide:
                samples.append("%s -> %s %s %s" % (c.key()[:200], st, sorted(r["wf"].values())[:1], sorted(r["rel"].values())))
            bad, known = judge(c, r)
            for k in known:
                known_hits.setdefault(k, []).append(c)
            if bad and len(problems) < 3:
                small = shrink_hide(binp, workdir, c, bad[0]) if c.hide else c
                rr = run_unit(binp, workdir, "confirm", [small])[small.id]
                b2, _ = judge(small, rr)
                problems.append({"what": "snapshot load: " + bad[0][:300], "seed": seed,
                                 "replay": replay_text(small, rr if b2 else r, b2 or bad)})
    shutil.rmtree(workdir, ignore_errors=True)
    kh = []
    for k, cs in known_hits.items():
        kh.append("%s (= F55) %s; %d cases this run, e.g. %s (switch %s=1 makes it a violation)" % (
            k, KNOWN[k][1], len(cs), cs[0].key()[:160], KNOWN[k][0]))
    return {"evaluations": nloads, "cases": sum(len(u[1]) for u in units), "distinct_nontrivial": len(distinct),
            "distribution": stats, "sources": len(sources), "problems": problems, "known_hits": kh, "samples": samples,
            "rule": "each case = (snapshot, HWLOC_COMPONENTS selection linux | x86 | x86+linux, flag subset of {INCLUDE_DISALLOWED, "
                    "IMPORT_SUPPORT, DONT_CHANGE_BINDING, NO_DISTANCES, NO_MEMATTRS, NO_CPUKINDS}, 20 type filters, set of hidden paths); "
                    "every load in a forked child under ASan/UBSan/LSan with a watchdog; evaluations = loads performed; oracles: wfCheck "
                    "(proved = WF), sameCheck, disallowedCheck, xmlCheck (each proved = its relation); distinct = distinct case tuples"}


def parse_case_file(path, cid):
    kind = src = None
    hide, case = [], None
    for l in read_lines(path):
        t = l.split()
        if not t or t[0].startswith("#"):
            continue
        if t[0] == "SNAPSHOT" and len(t) >= 3:
            kind, src = t[1], os.path.join(snapshots.SNAP, t[2])
        elif t[0] == "HIDE" and len(t) >= 2:
            hide.append(t[1])
        elif t[0] == "CASE" and len(t) >= 5:
            case = t
    if not case or not src:
        return None
    return Case(cid, kind, src, int(case[3]), case[4], case[5] if len(case) > 5 and case[5] != "-" else "", hide, cls="corpus")


def replay(path):
    all_sources()       # make sure the snapshots are extracted
    c = parse_case_file(path, "replay")
    if not c:
        print(open(path).read())
        return 0
    binp = build_harness("snapshots")
    workdir = os.path.join(BUILD, "run", "snapshots-replay-%s" % os.getpid())
    os.makedirs(workdir, exist_ok=True)
    r = run_unit(binp, workdir, "r", [c])[c.id]
    shutil.rmtree(workdir, ignore_errors=True)
    bad, known = judge(c, r)
    print(c.text() + "status: %s %s\nwf: %s\nrelations: %s\nerr: %s" % (r["status"], r["notes"], r["wf"], r["rel"], r["err"].replace("|", "\n")))
    print("VIOLATION" if bad else ("KNOWN-FINDING " + ",".join(known) if known else "OK"))
    return 1 if bad else 0
