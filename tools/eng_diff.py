"""Engine `diff` (C16): topology pairs (A, B = edited dup of A) and hand-built diff lists through the real
hwloc_topology_diff_build/apply/export/load vs the Lean model of diff.c, plus C-only property oracles."""
import os, shutil, hashlib
from concurrent.futures import ThreadPoolExecutor
from common import *
from diffrun import *

ENGINE = "diff"
KNOWN_CLASSES = {"F13c": "VERIF_INCLUDE_F13C"}
KNOWN_TEXT = {
    "F13c": "INFO entries are matched by the first (name, oldvalue) pair (diff.c hwloc_apply_diff_one): with duplicate info names "
            "apply/reverse/rollback may edit the wrong pair (format limitation)",
}


def included(cls):
    return os.environ.get(KNOWN_CLASSES.get(cls, ""), "0") == "1"


def classify(op, c, m):
    return "diff"


def exec_ops(binp, d, ops_lines, leaks=False):
    """run the harness in replay mode on a list of op lines; returns (rc, san, model_in, c, m, oracle)"""
    os.makedirs(d, exist_ok=True)
    p, mi, c, m, orc = [os.path.join(d, x) for x in ("ops.txt", "min.txt", "c.out", "m.out", "orc.txt")]
    open(p, "w").write("\n".join(ops_lines) + "\n")
    for f in (mi, c, orc):
        if os.path.exists(f):
            os.remove(f)
    # leaks=True: leaks count in the replay as they do in the generating run (a leaking error path must stay reproducible while
    # a harness abort is shrunk and in the replay text)
    r = run([binp, "--replay", p, mi, c, orc], env=dict(os.environ, ASAN_OPTIONS="detect_leaks=1:abort_on_error=0" if leaks else "detect_leaks=0"))
    if not os.path.exists(mi):
        return r.returncode, r.stdout[-3000:], [], [], [], []
    run_model(ENGINE, mi, m)
    return r.returncode, r.stdout[-3000:], read_lines(mi), read_lines(c), read_lines(m), read_lines(orc)


def oracle_failures(orc_lines):
    """-> (violations [(opno, name)], known {cls: [(opno, name)]})"""
    bad, known = [], {}
    for l in orc_lines:
        t = l.split()
        if len(t) == 5 and t[0] == "O" and t[3] == "fail":
            if t[4] == "-" or included(t[4]):
                bad.append((int(t[1]), t[2] + ("" if t[4] == "-" else "[" + t[4] + "]")))
            else:
                known.setdefault(t[4], []).append((int(t[1]), t[2]))
    return bad, known


def one_run(binp, workdir, idx, seed, ncases):
    d = os.path.join(workdir, "r%d" % idx)
    os.makedirs(d, exist_ok=True)
    ops, mi, cout, mout, orc, st = [os.path.join(d, x) for x in ("ops.txt", "min.txt", "c.out", "m.out", "orc.txt", "stats.txt")]
    env = dict(os.environ, VERIF_SEED=str(seed), ASAN_OPTIONS="detect_leaks=1:abort_on_error=0")
    r = run([binp, str(ncases), ops, mi, cout, orc, st], env=env)
    res = {"seed": seed, "rc": r.returncode, "san": r.stdout[-3000:] if r.returncode else "", "dir": d,
           "ops": read_lines(ops) if os.path.exists(ops) else [], "nlines": 0, "ndiff": 0, "firsts": [], "mi": [], "c": [],
           "obad": [], "oknown": {}, "stats": {}}
    if os.path.exists(mi):
        rc, err = run_model(ENGINE, mi, mout)
        o, c, m = read_lines(mi), read_lines(cout), read_lines(mout)
        nd, _, firsts = compare_streams(o, c, m, classify)
        res.update(nlines=len(o), ndiff=nd, firsts=firsts, mi=o, c=c)
        res["obad"], res["oknown"] = oracle_failures(read_lines(orc))
        if os.path.exists(st):
            res["stats"] = dict((l.split()[0], int(l.split()[1])) for l in read_lines(st))
        res["stats"].update(hypothesis_stats(d, o, c))
    return res


HYPS = ("keysNodup", "infoNames", "depths", "skeleton", "memA", "memB", "distinctSlots")


def hypothesis_stats(d, mi, c):
    """Statistics only, never a verdict: after every `build a b` the real code answered with ret=0, ask the model (op `hyp`)
    whether the decidable hypotheses of the whole-tree theorems (C16_apply_build, C16_reverse_apply_build,
    C16_build_distinct_slots) hold of the two topologies as observed by the harness.  InfoNamesDistinct is violated on
    purpose by the F13c input class (and DistinctSlots is only proved under it); the other hypotheses are expected to hold of
    every real topology."""
    mi2, m2 = os.path.join(d, "min_hyp.txt"), os.path.join(d, "m_hyp.out")
    n = 0
    with open(mi2, "w") as fh:
        for i, l in enumerate(mi):
            if l.startswith("xexp ") or l.startswith("xload "):
                continue        # stateless XML lines: irrelevant for the hypotheses, and long
            fh.write(l + "\n")
            t = l.split(None, 3)
            if len(t) == 3 and t[0] == "build" and i < len(c) and c[i].startswith("ret=0 "):
                fh.write("hyp %s %s\n" % (t[1], t[2]))
                n += 1
    out = {"build0_pairs": n, "build0_pairs_all_theorem_hypotheses_hold": 0, "build0_pairs_info_names_distinct": 0,
           "build0_pairs_info_names_distinct_but_another_hypothesis_fails": 0}
    out.update(("build0_pairs_fail_" + h, 0) for h in HYPS)
    if not n:
        return out
    run_model(ENGINE, mi2, m2)
    for l in read_lines(m2):
        if not l.startswith("hyp ret=0 "):
            continue
        kv = dict(x.split("=") for x in l.split()[1:])
        ok = [kv.get(h) == "1" for h in HYPS]
        out["build0_pairs_all_theorem_hypotheses_hold"] += all(ok)
        for h, v in zip(HYPS, ok):
            out["build0_pairs_fail_" + h] += not v
        out["build0_pairs_info_names_distinct"] += kv.get("infoNames") == "1"
        out["build0_pairs_info_names_distinct_but_another_hypothesis_fails"] += kv.get("infoNames") == "1" and not all(ok)
    return out


def case_slice(ops, upto_opno):
    """the ops of the case containing op number `upto_opno` (1-based): from the last `synth 0` before it"""
    end = min(upto_opno, len(ops))
    start = 0
    for i in range(end - 1, -1, -1):
        if ops[i].startswith("synth 0 "):
            start = i
            break
    return ops[start:end]


def failing_pred(binp, workdir, want):
    """want: 'diff' (C/model disagreement or crash) or an oracle name"""
    d = os.path.join(workdir, "shrink")

    def fails(sub):
        rc, san, mi, c, m, orc = exec_ops(binp, d, sub, leaks=(want == "diff"))
        if want == "diff":
            if rc != 0:
                return True
            nd, _, _ = compare_streams(mi, c, m, classify)
            return nd > 0
        bad, _ = oracle_failures(orc)
        return any(n == want for _, n in bad)
    return fails


def replay_text(binp, workdir, ops, header):
    d = os.path.join(workdir, "shrink")
    rc, san, mi, c, m, orc = exec_ops(binp, d, ops, leaks=True)
    out = ["# engine diff: %s" % header,
           "# replay: <harness diff> --replay <ops> <model-in> <c-out> <oracle>   (ops = the lines between BEGIN/END OPS)",
           "# BEGIN OPS"] + list(ops) + ["# END OPS", "# model-in line | hwloc (C) | Lean model"]
    n = max(len(mi), len(c), len(m))
    for i in range(n):
        li = mi[i] if i < len(mi) else "<none>"
        ci = c[i] if i < len(c) else "<none>"
        m_i = m[i] if i < len(m) else "<none>"
        if li.startswith("topo "):
            li = li[:160] + (" ..." if len(li) > 160 else "")
        if ci == m_i and len(ci) > 400:
            ci = m_i = ci[:400] + " ..."
        out.append("%s | %s | %s%s" % (li, ci, m_i, "" if ci == m_i else "   <== DIFFERS"))
    out.append("# C-side property oracles:")
    out += ["#   " + l for l in orc]
    if rc != 0:
        out.append("# harness exit %d:\n# %s" % (rc, san.replace("\n", "\n# ")))
    return "\n".join(out) + "\n"


def run_engine(tier, seed):
    binp = build_harness(ENGINE)
    workdir = os.path.join(BUILD, "run", "%s-%s" % (ENGINE, os.getpid()))
    shutil.rmtree(workdir, ignore_errors=True)
    os.makedirs(workdir)
    # corpus first: minimised past findings; C and model must agree on them, oracle failures must stay in their known class
    corpus_problems, ncorpus = [], 0
    cdir = os.path.join(ROOT, "corpus", ENGINE)
    for f in sorted(glob.glob(os.path.join(cdir, "*.ops"))):
        ops = [l for l in read_lines(f) if l.strip()]
        rc, san, mi, c, m, orc = exec_ops(binp, os.path.join(workdir, "corpus"), ops)
        ncorpus += len(mi)
        nd, _, _ = compare_streams(mi, c, m, classify)
        bad, _ = oracle_failures(orc)
        if rc != 0 or nd or bad:
            what = "corpus case %s: %s" % (os.path.basename(f), "harness abort" if rc else "C and model disagree" if nd else "oracle %s fails" % bad[0][1])
            corpus_problems.append({"what": what, "seed": 0, "replay": replay_text(binp, workdir, ops, what), "min_ops": ops})
    nruns, ncases = (16, 400) if tier == "quick" else (64, 4000)
    seeds = [int(seed) * 1000003 + i for i in range(nruns)]
    with ThreadPoolExecutor(min(NCPU, 8)) as ex:
        results = list(ex.map(lambda a: one_run(binp, workdir, a[0], a[1], ncases), enumerate(seeds)))
    total = sum(r["nlines"] for r in results)
    stats, distinct, known_hits = {}, set(), {}
    for r in results:
        for k, v in r["stats"].items():
            stats[k] = stats.get(k, 0) + v
        for o, c in zip(r["mi"], r["c"]):
            if not o.startswith("topo ") and not o.startswith("dup "):
                distinct.add(hashlib.md5((o.split()[0] + "|" + " ".join(o.split()[3:]) + "|" + c).encode()).digest()[:8])
        for cls, lst in r["oknown"].items():
            known_hits.setdefault(cls, []).append((r, lst[0]))
    problems = list(corpus_problems)
    for r in results:
        if problems:
            break
        if r["rc"] != 0 or r["ndiff"] > 0:
            ops = r["ops"]
            small = ddmin(case_slice(ops, len(ops)) if r["rc"] != 0 and r["ndiff"] == 0 else ops, failing_pred(binp, workdir, "diff")) \
                if len(ops) < 50000 else ops
            # a crash may need more than the last case; fall back to the whole list if the slice does not fail
            if not failing_pred(binp, workdir, "diff")(small):
                small = ddmin(ops, failing_pred(binp, workdir, "diff"))
            what = "sanitizer/abort in harness" if r["rc"] != 0 and r["ndiff"] == 0 else "C (diff.c) and the Lean model disagree"
            problems.append({"what": what, "seed": r["seed"], "replay": replay_text(binp, workdir, small, what), "min_ops": small})
        elif r["obad"]:
            opno, name = r["obad"][0]
            small = ddmin(case_slice(r["ops"], opno), failing_pred(binp, workdir, name))
            what = "property oracle '%s' fails on the real code" % name
            problems.append({"what": what, "seed": r["seed"], "replay": replay_text(binp, workdir, small, what), "min_ops": small})
    hits = []
    known_replays = {}
    for cls, lst in sorted(known_hits.items()):
        n = sum(len(x[0]["oknown"][cls]) for x in lst)
        hits.append("%s (%d generated inputs in this class failed a property oracle; excluded from the verdict, set %s=1 to include): %s"
                    % (cls, n, KNOWN_CLASSES[cls], KNOWN_TEXT[cls]))
        # prefer a hit on a small synthetic topology for the replay
        cands = [(x[0], f) for x in lst for f in x[0]["oknown"][cls][:40]]
        smallc = [c for c in cands if not case_slice(c[0]["ops"], c[1][0])[0].startswith("synth 0 xml:")]
        r, (opno, name) = (smallc or cands)[0]
        os.environ[KNOWN_CLASSES[cls]] = "1"
        try:
            small = ddmin(case_slice(r["ops"], opno), failing_pred(binp, workdir, name + "[" + cls + "]"))
            known_replays[cls] = replay_text(binp, workdir, small, "known finding %s, oracle %s" % (cls, name))
        finally:
            os.environ[KNOWN_CLASSES[cls]] = "0"
    sample = []
    if results and results[0]["mi"]:
        sample = ["%s -> %s" % (o[:200], c[:200]) for o, c in zip(results[0]["mi"], results[0]["c"]) if not o.startswith("topo ")][:10]
    shutil.rmtree(workdir, ignore_errors=True)
    total += ncorpus
    return {"evaluations": total, "distinct_nontrivial": len(distinct), "distribution": stats, "buckets_hit": sum(1 for v in stats.values() if v),
            "problems": problems, "known_hits": hits, "known_replays": known_replays, "samples": sample,
            "rule": "a case = one model-in line (topology description, build, apply, obs) answered by the real hwloc code and by the Lean "
                    "model; generated from 8 synthetic topologies decorated by random histories of edits (rename, info add/remove/"
                    "replace, local memory incl. uint64 wrap, misc insert, restrict, allow), pairs (A, edited dup of A) and hand-built "
                    "diff lists (valid, failing at position N, chained on one attribute, unknown types, bad depth/index); every built list and "
                    "generated hand lists (any printable strings incl. empty and escaping-heavy ones, boundary 64-bit values, depths, indexes) "
                    "exported as XML by the real code: scanned attribute lists (and the exact nolibxml text) predicted by the exporter model, "
                    "the load of that text and of 4 mutated documents each (missing/repeated/unknown attributes, other type numbers, bad "
                    "numbers, renamed/reordered/repeated elements, empty values) predicted by the importer model; distinct = "
                    "distinct (request, C answer) pairs excluding topology descriptions"}
