"""Translator (tie T) for C11: re-extracts, on every run, from the working tree of common.REPO

  * include/hwloc.h            hwloc_obj_type_t (order + values), cache/bridge/osdev/snprintf-flag enums
  * include/private/misc.h     the kind-range predicates hwloc__obj_type_is_*
  * hwloc/topology.c           obj_type_order[], obj_type_priority[]
  * hwloc/traversal.c          hwloc_obj_type_string() table, hwloc__osdev_type_sscanf chain,
                               names[] (OS-device printers), the ordered match chain of hwloc_type_sscanf
                               (incl. the osdev[ / os[ forms, the cache L<d>[i|d|u][cache] block and group<d>),
                               the attribute write-back block

and writes lean/Hw/Gen/TypeTables.lean.  Numeric values of enumerators / sizeof come from a tiny C printer
compiled against the real headers; tables and chains from the comment-stripped source text with a
purpose-written parser that FAILS CLOSED: every construct must match the shape it expects, otherwise an
exception is raised (tie broken), never skipped.  The output is deterministic.
"""
import os, re, subprocess, hashlib
from common import *

OUT = os.path.join(LEAN, "Hw", "Gen", "TypeTables.lean")


class TieBroken(Exception):
    pass


def fail(msg):
    raise TieBroken("gen_typestr: " + msg)


def strip_c_comments(text):
    out = []
    i, n = 0, len(text)
    while i < n:
        c = text[i]
        if c == '"':
            j = i + 1
            while j < n and text[j] != '"':
                j += 2 if text[j] == '\\' else 1
            out.append(text[i:j + 1]); i = j + 1
        elif c == "'":
            j = i + 1
            while j < n and text[j] != "'":
                j += 2 if text[j] == '\\' else 1
            out.append(text[i:j + 1]); i = j + 1
        elif text.startswith("/*", i):
            j = text.find("*/", i + 2)
            if j < 0:
                fail("unterminated comment")
            out.append(" "); i = j + 2
        elif text.startswith("//", i):
            j = text.find("\n", i)
            i = n if j < 0 else j
        else:
            out.append(c); i += 1
    return "".join(out)


def norm(s):
    """collapse whitespace outside string/char literals to nothing around punctuation, single space between words"""
    toks = tokenize(s)
    return " ".join(toks)


TOKEN = re.compile(r'\s*("(?:[^"\\]|\\.)*"|\'(?:[^\'\\]|\\.)\'|[A-Za-z_][A-Za-z0-9_]*|0[xX][0-9a-fA-F]+[uUlL]*|[0-9]+[uUlL]*|->|\+\+|--|<<|>>|<=|>=|==|!=|&&|\|\||[-+*/%&|^~!<>=?:;,.(){}\[\]#]|\S)')


def tokenize(s):
    toks = []
    i = 0
    s = s.strip()
    while i < len(s):
        m = TOKEN.match(s, i)
        if not m:
            fail("cannot tokenize near: %r" % s[i:i + 40])
        toks.append(m.group(1)); i = m.end()
        while i < len(s) and s[i].isspace():
            i += 1
    return toks


def read_src(rel):
    p = os.path.join(REPO, rel)
    try:
        return strip_c_comments(open(p).read().replace("\\\n", " "))
    except OSError as e:
        fail("cannot read %s: %s" % (p, e))


def find_function_body(toks, name, must_follow=None):
    """token list of the body (without outer braces) of the *definition* of function `name`"""
    hits = []
    for i, t in enumerate(toks):
        if t == name and i + 1 < len(toks) and toks[i + 1] == "(":
            j = match_close(toks, i + 1, "(", ")")
            if j + 1 < len(toks) and toks[j + 1] == "{":
                k = match_close(toks, j + 1, "{", "}")
                hits.append((toks[i + 2:j], toks[j + 2:k]))
    if len(hits) != 1:
        fail("expected exactly one definition of %s, found %d" % (name, len(hits)))
    return hits[0]


def match_close(toks, i, o, c):
    if toks[i] != o:
        fail("expected %s at token %d, got %s" % (o, i, toks[i]))
    d = 0
    for j in range(i, len(toks)):
        if toks[j] == o:
            d += 1
        elif toks[j] == c:
            d -= 1
            if d == 0:
                return j
    fail("unbalanced %s%s" % (o, c))


def cstr(tok):
    """value of a C string literal token (only plain characters are accepted)"""
    if not (len(tok) >= 2 and tok[0] == '"' and tok[-1] == '"'):
        fail("expected a string literal, got %r" % tok)
    body = tok[1:-1]
    if "\\" in body or "%" in body:
        fail("string literal with escape/format not understood: %r" % tok)
    if any(ord(ch) < 32 or ord(ch) > 126 for ch in body):
        fail("non-ASCII string literal: %r" % tok)
    return body


def cchar(tok):
    if not (len(tok) == 3 and tok[0] == "'" and tok[2] == "'"):
        fail("expected a plain char literal, got %r" % tok)
    return tok[1]


def cint(tok):
    m = re.fullmatch(r"([0-9]+)[uUlL]*", tok)
    if not m:
        fail("expected a decimal integer literal, got %r" % tok)
    return int(m.group(1))


# ------------------------------------------------------------------ header parsing

def parse_enum_names(hdr_toks, typedef_name=None, enum_tag=None):
    """ordered enumerator names of `typedef enum [tag] { ... } typedef_name;` or `enum tag { ... };`"""
    for i, t in enumerate(hdr_toks):
        if t != "enum":
            continue
        j = i + 1
        tag = None
        if hdr_toks[j] != "{":
            tag = hdr_toks[j]; j += 1
        if hdr_toks[j] != "{":
            continue
        k = match_close(hdr_toks, j, "{", "}")
        after = hdr_toks[k + 1]
        if (typedef_name and after == typedef_name and i > 0 and hdr_toks[i - 1] == "typedef") or (enum_tag and tag == enum_tag):
            body = hdr_toks[j + 1:k]
            names = []
            # split on top-level commas
            cur = []
            depth = 0
            for tok in body + [","]:
                if tok in "([{":
                    depth += 1
                elif tok in ")]}":
                    depth -= 1
                if tok == "," and depth == 0:
                    if cur:
                        # '#define X Y' lines inside the enum body are tolerated only in the exact shape '# define A B'
                        while cur and cur[0] == "#":
                            if len(cur) < 4 or cur[1] != "define":
                                fail("unexpected preprocessor line inside enum")
                            cur = cur[4:]
                        if not cur:
                            continue
                        if not re.fullmatch(r"[A-Z][A-Z0-9_]*", cur[0]):
                            fail("unexpected enumerator %r" % cur[:3])
                        if len(cur) > 1 and cur[1] != "=":
                            fail("unexpected enumerator shape %r" % cur[:4])
                        names.append(cur[0])
                    cur = []
                else:
                    cur.append(tok)
            return names
    fail("enum %s not found" % (typedef_name or enum_tag))


def c_values(names, extra_exprs):
    """compile a printer against the real headers; returns {name: int}"""
    d = os.path.join(BUILD, "gen")
    os.makedirs(d, exist_ok=True)
    src = ['#include <stdio.h>', '#include <limits.h>', '#include <stddef.h>', '#include "private/autogen/config.h"',
           '#include "hwloc.h"', '#include "private/private.h"', '#include "private/misc.h"', 'int main(void){']
    for n in names:
        src.append('  printf("%s %%lld\\n", (long long)(%s));' % (n, n))
    for k, e in extra_exprs:
        src.append('  printf("%s %%lld\\n", (long long)(%s));' % (k, e))
    src.append("  return 0; }")
    text = "\n".join(src) + "\n"
    key = hashlib.sha256((text + sha_files(repo_lib_inputs())).encode()).hexdigest()[:16]
    cfile, exe, cache = os.path.join(d, "tsprint.c"), os.path.join(d, "tsprint"), os.path.join(d, "tsprint-%s.out" % key)
    if os.path.exists(cache):
        out = open(cache).read()
    else:
        open(cfile, "w").write(text)
        flags = [f for f in cflags("plain") if not f.startswith("-O")]
        r = run(["gcc"] + flags + ["-I" + os.path.join(REPO, "hwloc"), cfile, "-o", exe])
        if r.returncode != 0:
            fail("constants printer does not compile:\n" + r.stdout[-1500:])
        r = run([exe])
        if r.returncode != 0:
            fail("constants printer failed")
        out = r.stdout
        for old in glob.glob(os.path.join(d, "tsprint-*.out")):
            os.remove(old)
        open(cache, "w").write(out)
    vals = {}
    for line in out.splitlines():
        k, v = line.split()
        vals[k] = int(v)
    return vals


# ------------------------------------------------------------------ traversal.c / topology.c / misc.h parsing

def parse_type_string(toks):
    _, body = find_function_body(toks, "hwloc_obj_type_string")
    # switch ( obj ) { case X : return "S" ; ... default : return "Unknown" ; }
    if body[:4] != ["switch", "(", "obj", ")"] or body[4] != "{":
        fail("hwloc_obj_type_string: unexpected shape")
    k = match_close(body, 4, "{", "}")
    if k != len(body) - 1:
        fail("hwloc_obj_type_string: trailing code after switch")
    inner = body[5:k]
    table, default = [], None
    i = 0
    while i < len(inner):
        if inner[i] == "case":
            if inner[i + 2] != ":" or inner[i + 3] != "return" or inner[i + 5] != ";":
                fail("hwloc_obj_type_string: unexpected case shape near %r" % inner[i:i + 6])
            table.append((inner[i + 1], cstr(inner[i + 4]))); i += 6
        elif inner[i] == "default":
            if inner[i + 1] != ":" or inner[i + 2] != "return" or inner[i + 4] != ";":
                fail("hwloc_obj_type_string: unexpected default shape")
            default = cstr(inner[i + 3]); i += 5
        else:
            fail("hwloc_obj_type_string: unexpected token %r" % inner[i])
    if default is None:
        fail("hwloc_obj_type_string: no default")
    return table, default


def parse_match_alts(cond):
    """cond tokens: hwloc__type_match(string,"pat",n) (|| hwloc__type_match(string,"pat",n))*  -> [(pat, n)]"""
    alts = []
    i = 0
    while True:
        seg = cond[i:i + 8]
        if len(seg) != 8 or seg[0] != "hwloc__type_match" or seg[1] != "(" or seg[2] != "string" or seg[3] != "," or seg[5] != "," or seg[7] != ")":
            fail("unexpected type_match condition: %r" % " ".join(cond))
        pat = cstr(seg[4])
        if pat != pat.lower():
            fail("type_match pattern must be lowercase: %r" % pat)
        alts.append((pat, cint(seg[6])))
        i += 8
        if i == len(cond):
            return alts
        if cond[i] != "||":
            fail("unexpected connective in condition: %r" % " ".join(cond))
        i += 1


def parse_if_chain(toks, start, what):
    """parse  if (C) {B} else if (C) {B} ... [else TAIL;]  starting at toks[start]=='if'.
    returns ([(cond, body)], tail_tokens, index_after)"""
    items = []
    i = start
    while True:
        if toks[i] != "if":
            fail("%s: expected 'if'" % what)
        j = match_close(toks, i + 1, "(", ")")
        cond = toks[i + 2:j]
        if toks[j + 1] != "{":
            fail("%s: branch without braces" % what)
        k = match_close(toks, j + 1, "{", "}")
        items.append((cond, toks[j + 2:k]))
        i = k + 1
        if i < len(toks) and toks[i] == "else":
            if toks[i + 1] == "if":
                i += 1
                continue
            # final else: a single statement up to ';'
            e = toks.index(";", i)
            return items, toks[i + 1:e], e + 1
        return items, [], i


def parse_osdev_type_sscanf(toks):
    sig, body = find_function_body(toks, "hwloc__osdev_type_sscanf")
    items, tail, after = parse_if_chain(body, 0, "hwloc__osdev_type_sscanf")
    if tail or body[after:] != ["return", "0", ";"]:
        fail("hwloc__osdev_type_sscanf: unexpected tail %r" % body[after:])
    chain = []
    for cond, b in items:
        if len(b) != 8 or b[:3] != ["*", "ostype", "="] or b[4:] != [";", "return", "1", ";"]:
            fail("hwloc__osdev_type_sscanf: unexpected branch body %r" % b)
        chain.append((parse_match_alts(cond), b[3]))
    return chain


def parse_names_table(toks):
    # # define _HWLOC_OSDEV_TYPE_NAMES_NR 7   struct _hwloc_osdev_type_names names [ _HWLOC_OSDEV_TYPE_NAMES_NR ] = { {A,"s","l"}, ... } ;
    try:
        i = next(i for i in range(len(toks) - 3) if toks[i] == "define" and toks[i + 1] == "_HWLOC_OSDEV_TYPE_NAMES_NR")
    except StopIteration:
        fail("names[]: _HWLOC_OSDEV_TYPE_NAMES_NR not found")
    nr = cint(toks[i + 2])
    want = ["struct", "_hwloc_osdev_type_names", "names", "[", "_HWLOC_OSDEV_TYPE_NAMES_NR", "]", "=", "{"]
    j = i + 3
    if toks[j:j + len(want)] != want:
        fail("names[]: unexpected declaration %r" % toks[j:j + 10])
    o = j + len(want) - 1
    c = match_close(toks, o, "{", "}")
    inner = toks[o + 1:c]
    rows = []
    p = 0
    while p < len(inner):
        row = inner[p:p + 7]
        if len(row) != 7 or row[0] != "{" or row[2] != "," or row[4] != "," or row[6] != "}":
            fail("names[]: unexpected row %r" % row)
        rows.append((row[1], cstr(row[3]), cstr(row[5])))
        p += 7
        if p < len(inner):
            if inner[p] != ",":
                fail("names[]: missing comma")
            p += 1
    if len(rows) != nr:
        fail("names[]: %d rows but _HWLOC_OSDEV_TYPE_NAMES_NR = %d" % (len(rows), nr))
    return rows


CACHE_COND = "( string [ 0 ] == 'l' || string [ 0 ] == 'L' ) && string [ 1 ] >= '0' && string [ 1 ] <= '9'"
def template_regex(tmpl):
    """turn a token template with @NAME@ holes into a regex with named groups"""
    parts = re.split(r"@([A-Z0-9]+)@", tmpl)
    rx = ""
    for i, p in enumerate(parts):
        if i % 2 == 0:
            rx += re.escape(p)
        else:
            rx += r"(?P<%s>\"[^\"]*\"|[A-Za-z0-9_]+)" % p
    return re.compile(rx)


CACHE_BODY_T = (
    "char * suffix ; depthattr = strtol ( string + 1 , & end , 10 ) ; "
    "if ( * end == 'i' || * end == 'I' ) { "
    "if ( depthattr >= @ILO@ && depthattr <= @IHI@ ) { type = @IBASE@ + depthattr - @ILOB@ ; cachetypeattr = @ITYPE@ ; suffix = end + 1 ; } else return - 1 ; "
    "} else { "
    "if ( depthattr >= @DLO@ && depthattr <= @DHI@ ) { type = @DBASE@ + depthattr - @DLOB@ ; "
    "if ( * end == 'd' || * end == 'D' ) { cachetypeattr = @DTYPE@ ; suffix = end + 1 ; } "
    "else if ( * end == 'u' || * end == 'U' ) { cachetypeattr = @UTYPE@ ; suffix = end + 1 ; } "
    "else { cachetypeattr = @NTYPE@ ; suffix = end ; } "
    "} else return - 1 ; "
    "} "
    "if ( ! hwloc__type_match ( suffix , @SUFPAT@ , @SUFMIN@ ) ) return - 1 ;")

GROUP_COND_T = "( end = ( char * ) hwloc__type_match ( string , @PAT@ , @MIN@ ) ) != NULL"
GROUP_BODY_T = "type = @TYPE@ ; if ( * end >= '0' && * end <= '9' ) { depthattr = strtol ( end , & end , 10 ) ; }"

PROLOGUE_T = ("hwloc_obj_type_t type = ( hwloc_obj_type_t ) - 1 ; unsigned depthattr = ( unsigned ) - 1 ; "
              "hwloc_obj_cache_type_t cachetypeattr = ( hwloc_obj_cache_type_t ) - 1 ; "
              "hwloc_obj_bridge_type_t ubtype = ( hwloc_obj_bridge_type_t ) - 1 ; "
              "hwloc_obj_osdev_types_t ostype = 0 ; char * end ;")

EPILOGUE_T = ("* typep = type ; if ( attrp ) { "
              "if ( hwloc__obj_type_is_cache ( type ) && attrsize >= sizeof ( attrp -> cache ) ) { attrp -> cache . depth = depthattr ; attrp -> cache . type = cachetypeattr ; } "
              "else if ( type == @GROUP@ && attrsize >= sizeof ( attrp -> group ) ) { attrp -> group . depth = depthattr ; } "
              "else if ( type == @BRIDGE@ && attrsize >= sizeof ( attrp -> bridge ) ) { attrp -> bridge . upstream_type = ubtype ; attrp -> bridge . downstream_type = @DOWN@ ; } "
              "else if ( type == @OSDEV@ && attrsize >= sizeof ( attrp -> osdev ) ) { attrp -> osdev . types = ostype ; } "
              "} return 0 ;")


def match_template(tmpl, toks, what):
    m = template_regex(tmpl).fullmatch(" ".join(toks))
    if not m:
        fail("%s: source no longer has the expected shape:\n   expected  %s\n   found     %s" % (what, tmpl, " ".join(toks)))
    return m.groupdict()


def parse_type_sscanf(toks):
    sig, body = find_function_body(toks, "hwloc_type_sscanf")
    try:
        start = body.index("if")
    except ValueError:
        fail("hwloc_type_sscanf: no if chain")
    match_template(PROLOGUE_T, body[:start], "hwloc_type_sscanf prologue")
    items, tail, after = parse_if_chain(body, start, "hwloc_type_sscanf")
    if tail != ["return", "-", "1"]:
        fail("hwloc_type_sscanf: final else is not 'return -1': %r" % tail)
    epi = match_template(EPILOGUE_T, body[after:], "hwloc_type_sscanf attribute write-back")
    steps = []
    for cond, b in items:
        cs = " ".join(cond)
        if cond and cond[0] == "!" and cond[1] == "hwloc_strncasecmp":
            # ! hwloc_strncasecmp ( string , "osdev[" , 6 )
            if len(cond) != 9 or cond[2:4] != ["(", "string"] or cond[4] != "," or cond[6] != "," or cond[8] != ")":
                fail("unexpected strncasecmp condition %r" % cs)
            pat, n = cstr(cond[5]), cint(cond[7])
            d = match_template("type = @TYPE@ ; ostype = 0 ; hwloc__osdev_types_sscanf ( string + @SKIP@ , & ostype ) ;", b, "osdev[ branch")
            steps.append(("bracket", pat, n, cint(d["SKIP"]), d["TYPE"]))
        elif cs == "hwloc__osdev_type_sscanf ( string , & ostype )":
            d = match_template("type = @TYPE@ ;", b, "bare osdev branch")
            steps.append(("osdevBare", d["TYPE"]))
        elif cs == CACHE_COND:
            d = match_template(CACHE_BODY_T, b, "cache branch")
            if d["ILO"] != d["ILOB"] or d["DLO"] != d["DLOB"]:
                fail("cache branch: range base and subtraction differ")
            steps.append(("cache", cint(d["ILO"]), cint(d["IHI"]), d["IBASE"], d["ITYPE"], cint(d["DLO"]), cint(d["DHI"]), d["DBASE"],
                          d["DTYPE"], d["UTYPE"], d["NTYPE"], cstr(d["SUFPAT"]), cint(d["SUFMIN"])))
        elif cond and cond[0] == "(" and "end" in cond[:3]:
            d = match_template(GROUP_COND_T, cond, "group condition")
            d2 = match_template(GROUP_BODY_T, b, "group branch")
            steps.append(("group", cstr(d["PAT"]), cint(d["MIN"]), d2["TYPE"]))
        else:
            alts = parse_match_alts(cond)
            if len(b) == 4:
                d = match_template("type = @TYPE@ ;", b, "plain branch")
                steps.append(("match", alts, d["TYPE"], None))
            else:
                d = match_template("type = @TYPE@ ; ubtype = @UB@ ;", b, "bridge branch")
                steps.append(("match", alts, d["TYPE"], d["UB"]))
    return steps, epi


def parse_uint_array(toks, name, signed=False):
    for i in range(len(toks) - 4):
        if toks[i] == name and toks[i + 1:i + 5] == ["[", "]", "=", "{"]:
            c = match_close(toks, i + 4, "{", "}")
            inner = toks[i + 5:c]
            vals = []
            p = 0
            while p < len(inner):
                vals.append(cint(inner[p])); p += 1
                if p < len(inner):
                    if inner[p] != ",":
                        fail("%s: unexpected token %r" % (name, inner[p]))
                    p += 1
            return vals
    fail("array %s not found" % name)


KINDS = ["normal", "memory", "special", "io", "cache", "dcache", "icache"]


def parse_kind(toks, kind):
    sig, body = find_function_body(toks, "hwloc__obj_type_is_" + kind)
    b = list(body)
    if b[:1] != ["return"] or b[-1] != ";":
        fail("is_%s: unexpected body" % kind)
    e = b[1:-1]
    while e and e[0] == "(" and match_close(e, 0, "(", ")") == len(e) - 1:
        e = e[1:-1]
    if len(e) == 3 and e[0] == "type" and e[1] == "<=":
        return (None, e[2])
    if len(e) == 7 and e[0] == "type" and e[1] == ">=" and e[3] == "&&" and e[4] == "type" and e[5] == "<=":
        return (e[2], e[6])
    fail("is_%s: unexpected predicate %r" % (kind, " ".join(e)))


# ------------------------------------------------------------------ Lean emission

def lbytes(s):
    return "[" + ", ".join(str(ord(c)) for c in s) + "]"


def lalts(alts):
    return "[" + ", ".join("(%s, %d)" % (lbytes(p), n) for p, n in alts) + "]"


def generate():
    hdr = tokenize(read_src("include/hwloc.h"))
    trav = tokenize(read_src("hwloc/traversal.c"))
    topo = tokenize(read_src("hwloc/topology.c"))
    misc = tokenize(read_src("include/private/misc.h"))

    type_names = parse_enum_names(hdr, typedef_name="hwloc_obj_type_t")
    cache_names = parse_enum_names(hdr, typedef_name="hwloc_obj_cache_type_t")
    bridge_names = parse_enum_names(hdr, typedef_name="hwloc_obj_bridge_type_t")
    osdev_names = parse_enum_names(hdr, enum_tag="hwloc_obj_osdev_type_e")
    flag_names = parse_enum_names(hdr, enum_tag="hwloc_obj_snprintf_flag_e")
    if type_names[-1] != "HWLOC_OBJ_TYPE_MAX":
        fail("hwloc_obj_type_t does not end with HWLOC_OBJ_TYPE_MAX")

    tstr, tstr_default = parse_type_string(trav)
    oschain = parse_osdev_type_sscanf(trav)
    names = parse_names_table(trav)
    steps, epi = parse_type_sscanf(trav)
    order = parse_uint_array(topo, "obj_type_order")
    prio = parse_uint_array(topo, "obj_type_priority")
    kinds = {k: parse_kind(misc, k) for k in KINDS}

    extra = [("SIZEOF_CACHE", "sizeof(((union hwloc_obj_attr_u*)0)->cache)"),
             ("SIZEOF_GROUP", "sizeof(((union hwloc_obj_attr_u*)0)->group)"),
             ("SIZEOF_BRIDGE", "sizeof(((union hwloc_obj_attr_u*)0)->bridge)"),
             ("SIZEOF_OSDEV", "sizeof(((union hwloc_obj_attr_u*)0)->osdev)"),
             ("SIZEOF_ATTR", "sizeof(union hwloc_obj_attr_u)"),
             ("SIZEOF_LONG", "sizeof(long)"), ("SIZEOF_UNSIGNED", "sizeof(unsigned)"),
             ("SIZEOF_OSDEV_TYPES", "sizeof(hwloc_obj_osdev_types_t)"),
             ("CHAR_SIGNED", "CHAR_MIN < 0"), ("TYPE_UNORDERED", "HWLOC_TYPE_UNORDERED"),
             ("HWLOC_OBJ_TYPE_MIN", "HWLOC_OBJ_TYPE_MIN")]
    allnames = type_names + cache_names + bridge_names + osdev_names + flag_names
    V = c_values(allnames, extra)

    def val(n):
        if n not in V:
            fail("enumerator %s used in the source is not one of the parsed enums" % n)
        return V[n]

    ntypes = val("HWLOC_OBJ_TYPE_MAX")
    real_types = type_names[:-1]
    if [val(n) for n in real_types] != list(range(ntypes)):
        fail("hwloc_obj_type_t values are not 0..TYPE_MAX-1 in declaration order")
    if len(order) != ntypes or len(prio) != ntypes:
        fail("obj_type_order/priority length differs from HWLOC_OBJ_TYPE_MAX")
    if V["SIZEOF_LONG"] != 8 or V["SIZEOF_UNSIGNED"] != 4 or V["SIZEOF_OSDEV_TYPES"] != 8:
        fail("model assumes 64-bit long / 32-bit unsigned")

    L = []
    A = L.append
    A("/- GENERATED by tools/gen_typestr.py from the working tree of the hwloc repository -- DO NOT EDIT.")
    A("   Re-extracted on every ./check run (tie T); theorems in Hw/Props/C11.lean are re-checked against it. -/")
    A("namespace Hw.Gen.TypeTables")
    A("")
    A("/-- one branch of the if/else-if chain of hwloc_type_sscanf, in source order -/")
    A("inductive Step where")
    A("  /-- `!hwloc_strncasecmp(string, pat, n)` then `hwloc__osdev_types_sscanf(string+skip, &ostype)` -/")
    A("  | bracket (pat : List Nat) (n skip type : Nat)")
    A("  /-- `hwloc__osdev_type_sscanf(string, &ostype)` -/")
    A("  | osdevBare (type : Nat)")
    A("  /-- `hwloc__type_match(string, pat, min) || ...`; optional upstream bridge type -/")
    A("  | plain (alts : List (List Nat × Nat)) (type : Nat) (ub : Option Nat)")
    A("  /-- `L<d>[i|d|u][cache]` -/")
    A("  | cache (iLo iHi iBase iType dLo dHi dBase dType uType nType : Nat) (sufPat : List Nat) (sufMin : Nat)")
    A("  /-- `group<d>` -/")
    A("  | group (pat : List Nat) (min type : Nat)")
    A("  deriving Repr, DecidableEq")
    A("")
    A("/-- `char` is signed on this build (decides which byte equals `'\\0' + 'A' - 'a'`) -/")
    A("def charSigned : Bool := %s" % ("true" if V["CHAR_SIGNED"] else "false"))
    A("def typeMax : Nat := %d" % ntypes)
    A("def typeUnordered : Int := %d" % V["TYPE_UNORDERED"])
    A("")
    A("/-- hwloc_obj_type_t in declaration order (value = position) -/")
    A("def typeEnum : List (String × Nat) := [")
    A(",\n".join('  ("%s", %d)' % (n, val(n)) for n in real_types))
    A("]")
    for n in real_types:
        A("def T_%s : Nat := %d" % (n[len("HWLOC_OBJ_"):], val(n)))
    A("")
    for n in cache_names:
        A("def %s : Nat := %d" % (n.replace("HWLOC_OBJ_", ""), val(n)))
    for n in bridge_names:
        A("def %s : Nat := %d" % (n.replace("HWLOC_OBJ_", ""), val(n)))
    A("def osdevBits : List (String × Nat) := [" + ", ".join('("%s", %d)' % (n.replace("HWLOC_OBJ_OSDEV_", ""), val(n)) for n in osdev_names) + "]")
    for n in flag_names:
        A("def %s : Nat := %d" % (n.replace("HWLOC_OBJ_SNPRINTF_", ""), val(n)))
    A("")
    A("def sizeofCache : Nat := %d" % V["SIZEOF_CACHE"])
    A("def sizeofGroup : Nat := %d" % V["SIZEOF_GROUP"])
    A("def sizeofBridge : Nat := %d" % V["SIZEOF_BRIDGE"])
    A("def sizeofOsdev : Nat := %d" % V["SIZEOF_OSDEV"])
    A("def sizeofAttr : Nat := %d" % V["SIZEOF_ATTR"])
    A("")
    A("/-- topology.c obj_type_order[] / obj_type_priority[] (index = type) -/")
    A("def objTypeOrder : List Nat := [" + ", ".join(map(str, order)) + "]")
    A("def objTypePriority : List Nat := [" + ", ".join(map(str, prio)) + "]")
    A("")
    A("/-- misc.h kind predicates as inclusive ranges (lo, hi); `none` = no lower bound test -/")
    for k in KINDS:
        lo, hi = kinds[k]
        A("def range_%s : Option Nat × Nat := (%s, %d)" % (k, "none" if lo is None else "some %d" % val(lo), val(hi)))
    A("")
    A("/-- hwloc_obj_type_string(): (type, bytes) in source order, then the default -/")
    A("def typeStringTable : List (Nat × List Nat) := [")
    A(",\n".join('  (%d, %s) /- %s -/' % (val(n), lbytes(s), s) for n, s in tstr))
    A("]")
    A("def typeStringDefault : List Nat := %s /- %s -/" % (lbytes(tstr_default), tstr_default))
    A("")
    A("/-- hwloc__osdev_type_sscanf(): (alternatives (pattern, minmatch), resulting bit) in source order -/")
    A("def osdevSscanfChain : List (List (List Nat × Nat) × Nat) := [")
    A(",\n".join("  (%s, %d) /- %s -/" % (lalts(a), val(b), " | ".join("%s:%d" % x for x in a)) for a, b in oschain))
    A("]")
    A("")
    A("/-- names[]: (bit, short name, long name) in array order -/")
    A("def osdevNames : List (Nat × List Nat × List Nat) := [")
    A(",\n".join("  (%d, %s, %s) /- %s %s -/" % (val(b), lbytes(s), lbytes(l), s, l) for b, s, l in names))
    A("]")
    A("")
    A("/-- the match chain of hwloc_type_sscanf, in source order -/")
    A("def sscanfChain : List Step := [")
    rows = []
    for st in steps:
        if st[0] == "bracket":
            rows.append("  .bracket %s %d %d %d /- %s -/" % (lbytes(st[1]), st[2], st[3], val(st[4]), st[1]))
        elif st[0] == "osdevBare":
            rows.append("  .osdevBare %d" % val(st[1]))
        elif st[0] == "match":
            rows.append("  .plain %s %d %s /- %s -/" % (lalts(st[1]), val(st[2]), "none" if st[3] is None else "(some %d)" % val(st[3]),
                                                       " | ".join("%s:%d" % x for x in st[1])))
        elif st[0] == "cache":
            (_, ilo, ihi, ibase, itype, dlo, dhi, dbase, dtype, utype, ntype, sp, sm) = st
            rows.append("  .cache %d %d %d %d %d %d %d %d %d %d %s %d /- L<d>[i|d|u][%s] -/" % (
                ilo, ihi, val(ibase), val(itype), dlo, dhi, val(dbase), val(dtype), val(utype), val(ntype), lbytes(sp), sm, sp))
        elif st[0] == "group":
            rows.append("  .group %s %d %d /- %s<d> -/" % (lbytes(st[1]), st[2], val(st[3]), st[1]))
    A(",\n".join(rows))
    A("]")
    A("")
    A("/-- attribute write-back block of hwloc_type_sscanf -/")
    A("def wbGroup : Nat := %d" % val(epi["GROUP"]))
    A("def wbBridge : Nat := %d" % val(epi["BRIDGE"]))
    A("def wbOsdev : Nat := %d" % val(epi["OSDEV"]))
    A("def wbDownstream : Nat := %d" % val(epi["DOWN"]))
    A("")
    A("end Hw.Gen.TypeTables")
    text = "\n".join(L) + "\n"
    import gen_tables
    gen_tables.write_if_changed(OUT, text)
    # one obligation per generated table that a C11 theorem is re-checked against
    return 12


if __name__ == "__main__":
    print(generate())
