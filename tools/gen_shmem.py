"""Translator for C19 (tie T): extracts from /repo's working tree (common.REPO)

  * every `adopted_shmem_addr` guard: the function it sits in, the checks that precede it in that
    function (in source order), the errno it sets, whether it frees its argument first, what it returns;
  * the non-guard uses of `adopted_shmem_addr` (initialisation in hwloc__topology_init, the destroy dispatch);
  * the constants and the two allocator bodies of hwloc/shmem.c (alignment macro, header version, header
    struct layout, the rounding expression of tma_shmem_malloc / tma_get_length_malloc, the padding
    expression of header_length, the page rounding of get_length, the arena start of write)

and writes lean/Hw/Gen/ShmemGuards.lean deterministically.  Everything it does not recognise raises
(FAILS CLOSED): an unparseable construct is a broken tie, not a skipped one.
`generate()` returns the number of generated obligations (guard entries + constants + expression forms)."""
import os, re
from common import *

GEN_PATH = os.path.join(LEAN, "Hw", "Gen", "ShmemGuards.lean")
GUARD_FILES = ["topology.c", "distances.c", "diff.c", "memattrs.c", "cpukinds.c", "traversal.c", "bind.c", "misc.c",
               "components.c", "pci-common.c", "bitmap.c", "topology-xml.c", "topology-synthetic.c"]


class TieBroken(Exception):
    pass


def strip_c_comments(text):
    def repl(m):
        return re.sub(r"[^\n]", " ", m.group(0))
    text = re.sub(r"/\*.*?\*/", repl, text, flags=re.S)
    return re.sub(r"//[^\n]*", repl, text)


def enclosing_function(text, pos):
    """name, body-start (index after '{'), of the top-level function containing `pos`.
    Relies on hwloc's style: a function body opens with '{' in column 0 and closes with '}' in column 0."""
    open_i = text.rfind("\n{", 0, pos)
    if open_i < 0:
        raise TieBroken("no function body opens before offset %d" % pos)
    close_i = text.find("\n}", open_i)
    if close_i < 0 or close_i < pos:
        raise TieBroken("function body containing offset %d does not close" % pos)
    head = text[max(0, text.rfind("\n}", 0, open_i), text.rfind(";\n", 0, open_i)):open_i]
    head = re.sub(r"(?m)^[ \t]*#(?:[^\n]*\\\n)*[^\n]*$", "", head)      # preprocessor lines (with continuations)
    m = re.search(r"([A-Za-z_][A-Za-z0-9_]*)\s*\([^(){};]*\)\s*$", head, flags=re.S)
    if not m:
        raise TieBroken("cannot find the function name before offset %d: %r" % (open_i, head[-120:]))
    return m.group(1), open_i + 2, close_i


# statements that may precede a guard, in the form hwloc writes them
PRE_PATTERNS = [
    ("isLoaded", re.compile(r"if\s*\(\s*!\s*\(\s*topology->state\s*&\s*HWLOC_TOPOLOGY_STATE_IS_LOADED\s*\)\s*\)\s*\{"
                            r"(?P<body>[^{}]*)\}", re.S)),
    ("distNotFound", re.compile(r"struct\s+hwloc_internal_distances_s\s*\*\s*dist\s*=\s*hwloc__internal_distances_from_public\s*\(\s*topology\s*,\s*distances\s*\)\s*;"
                                r"\s*if\s*\(\s*!\s*dist\s*\)\s*\{(?P<body>[^{}]*)\}", re.S)),
    ("miscFilterNone", re.compile(r"if\s*\(\s*topology->type_filter\s*\[\s*HWLOC_OBJ_MISC\s*\]\s*==\s*HWLOC_TYPE_FILTER_KEEP_NONE\s*\)\s*\{"
                                  r"(?P<body>[^{}]*)\}", re.S)),
]
DECL = re.compile(r"(?:struct\s+\w+|hwloc_\w+|int|unsigned|char|long)\s*[\w\s,\*]+(?:=\s*NULL\s*)?;")
GUARD = re.compile(r"if\s*\(\s*topology->adopted_shmem_addr\s*\)\s*\{(?P<body>[^{}]*)\}", re.S)
ERRNO = re.compile(r"errno\s*=\s*(E[A-Z]+)\s*;")
RET = re.compile(r"return\s*([^;]*);")


def parse_block(body, where):
    """body of an error block: optional free of the argument, errno = X, return Y"""
    rest = body
    frees = bool(re.search(r"hwloc_free_unlinked_object\s*\(\s*obj\s*\)\s*;", rest))
    rest = re.sub(r"hwloc_free_unlinked_object\s*\(\s*obj\s*\)\s*;", "", rest)
    me = ERRNO.search(rest)
    mr = RET.search(rest)
    if not me or not mr:
        raise TieBroken("%s: error block without `errno = E...; return ...;`: %r" % (where, body.strip()))
    left = RET.sub("", ERRNO.sub("", rest)).strip()
    if left:
        raise TieBroken("%s: unrecognised statement in an error block: %r" % (where, left))
    return me.group(1), mr.group(1).strip(), frees


def parse_guards():
    guards, other = [], []
    for fn in GUARD_FILES:
        path = os.path.join(REPO, "hwloc", fn)
        if not os.path.exists(path):
            raise TieBroken("missing source file " + path)
        text = strip_c_comments(open(path, errors="replace").read())
        for m in re.finditer(r"adopted_shmem_addr", text):
            func, b0, b1 = enclosing_function(text, m.start())
            line = text.count("\n", 0, m.start()) + 1
            where = "%s:%d (%s)" % (fn, line, func)
            stmt_start = text.rfind("\n", 0, m.start()) + 1
            stmt = text[stmt_start:text.find("\n", m.start())].strip()
            if re.match(r"topology->adopted_shmem_addr\s*=\s*NULL\s*;", stmt):
                other.append((func, fn, "init"))
                continue
            g = GUARD.match(text, text.rfind("if", 0, m.start()))
            if not g:
                raise TieBroken("%s: use of adopted_shmem_addr that is neither a guard nor an initialisation: %r" % (where, stmt))
            gbody = g.group("body")
            if re.search(r"hwloc__topology_disadopt\s*\(\s*topology\s*\)\s*;\s*return\s*;", gbody):
                if gbody.replace(" ", "").replace("\n", "") != "hwloc__topology_disadopt(topology);return;":
                    raise TieBroken("%s: unexpected destroy dispatch %r" % (where, gbody))
                other.append((func, fn, "disadopt"))
                pre_text = text[b0:g.start()]
                if DECL.sub("", pre_text).strip():
                    raise TieBroken("%s: statements before the disadopt dispatch: %r" % (where, pre_text.strip()))
                continue
            errno, ret, frees = parse_block(gbody, where)
            # what precedes the guard inside the function
            pre_text = text[b0:g.start()]
            pres = []
            pos = 0
            while True:
                rest = pre_text[pos:]
                if not rest.strip():
                    break
                lead = len(rest) - len(rest.lstrip())
                hit = None
                for name, pat in PRE_PATTERNS:
                    mm = pat.match(rest, lead)
                    if mm:
                        e2, r2, f2 = parse_block(mm.group("body"), where + " pre-check " + name)
                        hit = (name, e2, r2, f2, mm.end())
                        break
                if hit:
                    pres.append(hit[:4])
                    pos += hit[4]
                    continue
                md = DECL.match(rest, lead)
                if md:
                    pos += md.end()
                    continue
                raise TieBroken("%s: unrecognised statement before the guard: %r" % (where, rest.strip()[:160]))
            guards.append({"fn": func, "file": fn, "line": line, "errno": errno, "ret": ret, "frees": frees, "pre": pres})
    return guards, other


def parse_shmem_c():
    path = os.path.join(REPO, "hwloc", "shmem.c")
    text = strip_c_comments(open(path, errors="replace").read())
    text = text.split("#else /* HWLOC_WIN_SYS */")[0] if "#else" in text else text
    text = re.split(r"#else\b", text)[0]
    out = {}
    m = re.search(r"#define\s+HWLOC_SHMEM_MALLOC_ALIGN\s+(\d+)UL\b", text)
    if not m:
        raise TieBroken("shmem.c: HWLOC_SHMEM_MALLOC_ALIGN not of the form <n>UL")
    out["align"] = int(m.group(1))
    m = re.search(r"#define\s+HWLOC_SHMEM_HEADER_VERSION\s+(\d+)\b", text)
    if not m:
        raise TieBroken("shmem.c: HWLOC_SHMEM_HEADER_VERSION not found")
    out["version"] = int(m.group(1))
    m = re.search(r"struct\s+hwloc_shmem_header\s*\{(.*?)\}\s*;", text, flags=re.S)
    if not m:
        raise TieBroken("shmem.c: struct hwloc_shmem_header not found")
    fields = []
    for decl in [d.strip() for d in m.group(1).split(";") if d.strip()]:
        md = re.fullmatch(r"uint(32|64)_t\s+(\w+)", decl)
        if not md:
            raise TieBroken("shmem.c: header field %r is not uint32_t/uint64_t" % decl)
        fields.append((md.group(2), int(md.group(1)) // 8))
    # natural alignment layout (x86-64 / LP64 ABI)
    off, layout, maxal = 0, [], 1
    for name, sz in fields:
        off = (off + sz - 1) // sz * sz
        layout.append((name, off, sz))
        off += sz
        maxal = max(maxal, sz)
    out["fields"] = layout
    out["sizeof"] = (off + maxal - 1) // maxal * maxal
    if [f[0] for f in layout] != ["header_version", "header_length", "mmap_address", "mmap_length"]:
        raise TieBroken("shmem.c: header fields changed: %r" % (layout,))
    A = r"HWLOC_SHMEM_MALLOC_ALIGN"
    rnd = r"\(\s*\(\s*length\s*\+\s*%s\s*-\s*1\s*\)\s*&\s*~\s*\(\s*%s\s*-\s*1\s*\)\s*\)" % (A, A)
    rnd2 = r"\(\s*length\s*\+\s*%s\s*-\s*1\s*\)\s*&\s*~\s*\(\s*%s\s*-\s*1\s*\)" % (A, A)

    def body_of(name):
        mm = re.search(r"\n%s\s*\([^)]*\)\s*\n\{(.*?)\n\}" % name, text, flags=re.S)
        if not mm:
            raise TieBroken("shmem.c: function %s not found" % name)
        return re.sub(r"\s+", " ", mm.group(1)).strip()
    b = body_of("tma_shmem_malloc")
    if not re.fullmatch(r"void \*current = tma->data; tma->data = \(char\*\)tma->data \+ %s; return current;" % rnd, b):
        raise TieBroken("shmem.c: tma_shmem_malloc body not recognised: %r" % b)
    b = body_of("tma_get_length_malloc")
    if not re.fullmatch(r"size_t \*tma_length = tma->data; \*tma_length \+= %s; return malloc\(length\);" % rnd2, b):
        raise TieBroken("shmem.c: tma_get_length_malloc body not recognised: %r" % b)
    out["sameRounding"] = True
    pad = r"\(sizeof\(header\) \+ sizeof\(void\*\) - 1\) & ~\(sizeof\(void\*\) - 1\)"
    for fn in ("hwloc_shmem_topology_write", "hwloc_shmem_topology_adopt"):
        b = body_of(fn)
        if not re.search(r"uint32_t header_length = %s;" % pad, b):
            raise TieBroken("shmem.c: %s: header_length padding expression not recognised" % fn)
        if not re.search(r"if \(flags\) \{ errno = EINVAL; return -1; \}", b):
            raise TieBroken("shmem.c: %s: flags check not recognised" % fn)
    b = body_of("hwloc_shmem_topology_get_length")
    if not re.search(r"\*lengthp = \(sizeof\(struct hwloc_shmem_header\) \+ length \+ pagesize - 1\) & ~\(pagesize - 1\);", b):
        raise TieBroken("shmem.c: get_length page rounding not recognised")
    if not re.search(r"if \(flags\) \{ errno = EINVAL; return -1; \}", b):
        raise TieBroken("shmem.c: get_length flags check not recognised")
    b = body_of("hwloc_shmem_topology_write")
    if not re.search(r"tma\.data = \(char \*\)mmap_res \+ header_length;", b):
        raise TieBroken("shmem.c: write: arena start not recognised")
    b = body_of("hwloc_shmem_topology_adopt")
    chk = (r"if \(header\.header_version != HWLOC_SHMEM_HEADER_VERSION \|\| header\.header_length != header_length "
           r"\|\| header\.mmap_address != \(uintptr_t\) mmap_address \|\| header\.mmap_length != length\) \{ errno = EINVAL; return -1; \}")
    if not re.search(chk, b):
        raise TieBroken("shmem.c: adopt: header comparison not recognised")
    order = [r"if \(flags\)", r"lseek\(", r"read\(fd, &header, sizeof\(header\)\)", r"header\.header_version !=", r"mmap\(mmap_address, length, PROT_READ, MAP_SHARED, fd, fileoffset\)",
             r"if \(mmap_res != mmap_address\) \{ errno = EBUSY;", r"if \(hwloc_topology_abi_check\(old\) < 0\) \{ errno = EINVAL;",
             r"new->adopted_shmem_addr = mmap_address;", r"new->adopted_shmem_length = length;"]
    pos = 0
    for pat in order:
        mm = re.compile(pat).search(b, pos)
        if not mm:
            raise TieBroken("shmem.c: adopt: step %r missing or out of order" % pat)
        pos = mm.end()
    out["ptr"] = 8
    return out


def lean_str(s):
    return '"' + s.replace("\\", "\\\\").replace('"', '\\"') + '"'


def render(guards, other, k):
    L = []
    L.append("/- GENERATED by tools/gen_shmem.py from the working tree of hwloc (hwloc/shmem.c and every `adopted_shmem_addr`")
    L.append("   use in hwloc/*.c).  Do not edit: regenerated on every check. -/")
    L.append("namespace Hw.Gen.Shmem")
    L.append("")
    L.append("/-- a check that precedes the guard inside the same function, in source order -/")
    L.append("inductive Pre | isLoaded | miscFilterNone | distNotFound")
    L.append("deriving Repr, DecidableEq, Inhabited")
    L.append("")
    L.append("structure Guard where")
    L.append("  fn : String          -- the entry point the guard sits in")
    L.append("  file : String")
    L.append("  errno : String       -- errno set by the guard")
    L.append("  ret : String         -- value returned by the guard")
    L.append("  frees : Bool         -- hwloc_free_unlinked_object(obj) before returning")
    L.append("  pre : List (Pre × String)   -- preceding checks with the errno they set")
    L.append("deriving Repr, DecidableEq, Inhabited")
    L.append("")
    L.append("def guards : List Guard := [")
    rows = []
    for g in sorted(guards, key=lambda g: (g["file"], g["fn"])):
        pre = ", ".join("(.%s, %s)" % (p[0], lean_str(p[1])) for p in g["pre"])
        rows.append("  { fn := %s, file := %s, errno := %s, ret := %s, frees := %s, pre := [%s] }" % (
            lean_str(g["fn"]), lean_str(g["file"]), lean_str(g["errno"]), lean_str(g["ret"]), "true" if g["frees"] else "false", pre))
    L.append(",\n".join(rows))
    L.append("]")
    L.append("")
    L.append("/-- the other uses of `adopted_shmem_addr`: (function, file, role) -/")
    L.append("def otherUses : List (String × String × String) := [")
    L.append(",\n".join("  (%s, %s, %s)" % (lean_str(a), lean_str(b), lean_str(c)) for a, b, c in sorted(other)))
    L.append("]")
    L.append("")
    L.append("def mallocAlign : Nat := %d       -- HWLOC_SHMEM_MALLOC_ALIGN" % k["align"])
    L.append("def headerVersion : Nat := %d     -- HWLOC_SHMEM_HEADER_VERSION" % k["version"])
    L.append("def headerSizeof : Nat := %d      -- sizeof(struct hwloc_shmem_header), LP64 natural alignment" % k["sizeof"])
    L.append("def pointerSize : Nat := %d       -- sizeof(void*)" % k["ptr"])
    L.append("/-- header fields: (name, offset, size) -/")
    L.append("def headerFields : List (String × Nat × Nat) := [%s]" % ", ".join(
        "(%s, %d, %d)" % (lean_str(n), o, s) for n, o, s in k["fields"]))
    L.append("/-- both allocators round with the same expression `(length + ALIGN - 1) & ~(ALIGN - 1)` -/")
    L.append("def sameRounding : Bool := %s" % ("true" if k["sameRounding"] else "false"))
    L.append("")
    L.append("end Hw.Gen.Shmem")
    return "\n".join(L) + "\n"


def generate():
    from gen_tables import write_if_changed
    guards, other = parse_guards()
    k = parse_shmem_c()
    if not guards:
        raise TieBroken("no adopted_shmem_addr guard found at all")
    roles = sorted(r for _, _, r in other)
    if roles != ["disadopt", "init"]:
        raise TieBroken("expected exactly one initialisation and one destroy dispatch of adopted_shmem_addr, found %r" % (other,))
    names = [g["fn"] for g in guards]
    if len(set(names)) != len(names):
        raise TieBroken("two guards in one function: %r" % names)
    write_if_changed(GEN_PATH, render(guards, other, k))
    # obligations: one per guard entry, one per other use, constants (4), field layout (1), rounding form (1)
    return len(guards) + len(other) + 6


if __name__ == "__main__":
    n = generate()
    print("generated %s (%d obligations)" % (GEN_PATH, n))
    print(open(GEN_PATH).read())
