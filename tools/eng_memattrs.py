"""Engine `memattrs` (C14): histories of the public memattrs API on small synthetic topologies (real hwloc,
ASan/UBSan) vs the Lean model.  Two streams: mode 0 = verdict stream (inside the hypotheses of the C14
theorems: cpuset initiators of one (attribute,target) pairwise disjoint and inside the root cpuset),
mode 1 = overlapping / out-of-root cpuset initiators (compared against the model's first-match rule,
disagreements are reported in the evidence as `outside_verdict_diffs`, not as violations)."""
import os, shutil, hashlib
from concurrent.futures import ThreadPoolExecutor
from common import *
from diffrun import *

ENGINE = "memattrs"


def classify(op, c, m):
    return "diff"      # every observation printed is constrained by the property (canonical form already)


def harness_env(extra=None):
    env = dict(os.environ, ASAN_OPTIONS="detect_leaks=1:abort_on_error=0", HWLOC_HIDE_ERRORS="2")
    env.pop("HWLOC_XMLFILE", None)
    env.pop("HWLOC_SYNTHETIC", None)
    if extra:
        env.update(extra)
    return env


def one_run(binp, workdir, idx, seed, nops, mode, nolibxml):
    d = os.path.join(workdir, "r%d" % idx)
    os.makedirs(d, exist_ok=True)
    ops, cout, mout, st = [os.path.join(d, x) for x in ("ops.txt", "c.out", "m.out", "stats.txt")]
    env = harness_env({"VERIF_SEED": str(seed), "HWLOC_LIBXML": "0" if nolibxml else "1"})
    r = run([binp, str(nops), ops, cout, st, str(mode)], env=env)
    res = {"known_class": "KNOWN-DEFECT-CLASS" in r.stdout, "seed": seed, "mode": mode, "nolibxml": nolibxml, "rc": r.returncode,
           "san": r.stdout[-3000:] if r.returncode else "", "dir": d}
    if os.path.exists(ops):
        run_model(ENGINE, ops, mout)
        o, c, m = read_lines(ops), read_lines(cout), read_lines(mout)
        nd, nb, firsts = compare_streams(o, c, m, classify)
        res.update(nops=len(o), ndiff=nd, nbenign=nb, firsts=firsts, ops=o, c=c)
        res["stats"] = dict((l.split()[0], int(l.split()[1])) for l in read_lines(st)) if os.path.exists(st) else {}
    else:
        res.update(nops=0, ndiff=0, nbenign=0, firsts=[], ops=[], c=[], stats={})
    return res


def _replay(binp, workdir, ops, nolibxml):
    """run an op list through the real code (replay mode) and the model; returns (rc, out, eff_ops, c, m)"""
    d = os.path.join(workdir, "shrink")
    os.makedirs(d, exist_ok=True)
    p, c, e, m = [os.path.join(d, x) for x in ("in.txt", "c.out", "eff.txt", "m.out")]
    with open(p, "w") as f:
        f.write("\n".join(ops) + "\n")
    for x in (c, e, m):
        if os.path.exists(x):
            os.remove(x)
    r = run([binp, "--replay", p, c, e], env=harness_env({"ASAN_OPTIONS": "detect_leaks=0", "HWLOC_LIBXML": "0" if nolibxml else "1"}))
    eff = read_lines(e) if os.path.exists(e) else []
    if eff:
        run_model(ENGINE, e, m)
    return r.returncode, r.stdout, eff, (read_lines(c) if os.path.exists(c) else []), (read_lines(m) if os.path.exists(m) else [])


def shrink(binp, workdir, ops, nolibxml):
    ops = [o for o in ops if not o.startswith("env ")]

    def fails(sub):
        rc, out, eff, c, m = _replay(binp, workdir, sub, nolibxml)
        if "KNOWN-DEFECT-CLASS" in out:
            return False        # the candidate wandered into an input class with a known defect: not a reduction
        if rc != 0:
            return True
        nd, _, _ = compare_streams(eff, c, m, classify)
        return nd > 0
    if not fails(ops):
        return ops          # not reproducible in replay mode: keep everything
    return ddmin(ops, fails, max_tests=600)


def replay_text(binp, workdir, ops, nolibxml):
    rc, out, eff, cl, ml = _replay(binp, workdir, ops, nolibxml)
    txt = ["# engine memattrs: op | hwloc (C) | Lean model   -- replay: harness memattrs --replay <ops> <out> <effective-ops>"
           "   (HWLOC_LIBXML=%s; `env` lines are produced by the harness and describe the topology)" % ("0" if nolibxml else "1")]
    for i, o in enumerate(eff):
        ci = cl[i] if i < len(cl) else "<none>"
        mi = ml[i] if i < len(ml) else "<none>"
        txt.append("%s | %s | %s%s" % (o, ci, mi, "" if ci == mi else "   <== DIFFERS"))
    if rc != 0:
        txt.append("# harness exit %d:\n# %s" % (rc, out[-1500:].replace("\n", "\n# ")))
    return "\n".join(txt) + "\n"


def run_corpus(binp, workdir):
    """replay every corpus/memattrs/*.ops first"""
    problems = []
    n = 0
    cdir = os.path.join(ROOT, "corpus", ENGINE)
    for f in sorted(glob.glob(os.path.join(cdir, "*.ops"))):
        ops = [l for l in read_lines(f) if l.strip() and not l.startswith("#")]
        rc, out, eff, c, m = _replay(binp, workdir, ops, False)
        n += len(eff)
        nd, _, _ = compare_streams(eff, c, m, classify)
        if rc != 0 or nd:
            problems.append({"what": "corpus case %s: %s" % (os.path.basename(f), "sanitizer/abort" if rc else "C and model disagree"),
                             "seed": 0, "replay": replay_text(binp, workdir, ops, False)})
    return n, problems


def run_known_probes(binp, workdir):
    """corpus/memattrs-known/*.ops: inputs on which the C code is known to be defective.  They are NOT part of the
    verdict; each is reported as a KNOWN-FINDING while it still fails and as fixed once it passes."""
    hits, fixed = [], []
    for f in sorted(glob.glob(os.path.join(ROOT, "corpus", ENGINE + "-known", "*.ops"))):
        lines = read_lines(f)
        ops = [l for l in lines if l.strip() and not l.startswith("#")]
        title = (lines[0][1:].strip() if lines and lines[0].startswith("#") else "")
        rc, out, eff, c, m = _replay(binp, workdir, ops, False)
        nd, _, _ = compare_streams(eff, c, m, classify)
        name = os.path.basename(f)
        seen = [l for l in out.splitlines() if l.startswith("DEFECT-OBSERVED")]
        if rc != 0 or nd or seen:
            hits.append("%s still fails (%s): %s" % (name, "sanitizer abort" if rc else ("%d observations differ from the model" % nd if nd
                        else seen[0]), title))
        else:
            fixed.append(name)
    return hits, fixed


def run_engine(tier, seed):
    binp = build_harness(ENGINE)
    workdir = os.path.join(BUILD, "run", "%s-%s" % (ENGINE, os.getpid()))
    shutil.rmtree(workdir, ignore_errors=True)
    os.makedirs(workdir)
    nruns, nops = (16, 120000) if tier == "quick" else (96, 400000)
    # 3/4 of the runs are the verdict stream, 1/4 the overlapping stream; half with the nolibxml backend
    jobs = [(i, int(seed) * 1000003 + i, nops, 1 if i % 4 == 3 else 0, i % 2 == 1) for i in range(nruns)]
    ncorpus, problems = run_corpus(binp, workdir)
    known_hits, known_fixed = run_known_probes(binp, workdir)
    with ThreadPoolExecutor(min(NCPU, 8)) as ex:
        results = list(ex.map(lambda a: one_run(binp, workdir, *a), jobs))
    total = ncorpus + sum(r["nops"] for r in results)
    stats, distinct = {}, set()
    outside = 0
    for r in results:
        for k, v in r["stats"].items():
            key = ("overlap." if r["mode"] else "") + k
            stats[key] = stats.get(key, 0) + v
        for o, c in zip(r["ops"], r["c"]):
            t = o.split()
            if t and t[0] != "env":
                distinct.add(hashlib.md5((" ".join([t[0]] + t[2:]) + "|" + c).encode()).digest()[:8])
    outside_notes = []
    for r in results:
        if r["rc"] != 0 or r["ndiff"] > 0:
            ops = r["ops"]
            if r["ndiff"] > 0:
                ops = ops[: r["firsts"][0][0] + 1]
            small = shrink(binp, workdir, ops, r["nolibxml"])
            txt = replay_text(binp, workdir, small, r["nolibxml"])
            if r["mode"] == 1 and r["rc"] == 0:
                outside += r["ndiff"]
                if len(outside_notes) < 2:
                    outside_notes.append(txt)
                continue
            what = "sanitizer/abort in harness" if r["rc"] != 0 and r["ndiff"] == 0 else "C and model disagree"
            problems.append({"what": what + " (seed %d, mode %d)" % (r["seed"], r["mode"]), "seed": r["seed"],
                             "replay": txt + ("# harness output:\n# " + r["san"].replace("\n", "\n# ") if r["rc"] else ""),
                             "min_ops": small})
            break
    sample = []
    if results and results[0]["ops"]:
        pairs = [(o, c) for o, c in zip(results[0]["ops"], results[0]["c"]) if not o.startswith("env ")]
        sample = ["%s -> %s" % (o, c) for o, c in pairs[200:212]]
    shutil.rmtree(workdir, ignore_errors=True)
    return {"evaluations": total, "distinct_nontrivial": len(distinct), "outside_verdict_diffs": outside,
            "outside_verdict_replays": outside_notes, "distribution": stats, "buckets_hit": len(stats),
            "problems": problems, "samples": sample, "corpus_lines": ncorpus,
            "known_hits": known_hits, "known_probes_now_passing": known_fixed,
            "rule": "random histories of the public memattrs API (register/set/get/targets/initiators/best/local/default-nodeset) "
                    "interleaved with restrict/dup/XML round trip/refresh on 4 topology slots loaded from 16 synthetic "
                    "descriptions (1..6 NUMA nodes, nested and CPU-less nodes, permuted os_indexes, subtypes); a case is one "
                    "op applied to the current state; distinct = distinct (op with arguments, observed C result) pairs"}
