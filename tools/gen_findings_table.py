#!/usr/bin/env python3
"""Regenerates the findings table of DESIGN.md section 11.3 from known_findings.json (between the line starting with
'| id | prop |' and the next blank line)."""
import json, re, os
ROOT = os.path.dirname(os.path.dirname(os.path.abspath(__file__)))
k = json.load(open(os.path.join(ROOT, "known_findings.json")))["findings"]
rows = []
for f in k:
    line = f.get("line", "")
    if f["status"] == "fixed":
        m = re.match(r"fixed: property=\S+ \S+ (.*)", line); what = m.group(1) if m else line
        commit = f.get("commit", "")
    else:
        m = re.match(r"(?:KNOWN-FINDING|known): property=\S+ (?:F\S+:? )?(.*)", line); what = "**known**: " + (m.group(1) if m else line)
        commit = "–"
    what = what.replace("|", "/")
    if len(what) > 230:
        what = what[:227] + "…"
    props = f["property"] + "".join("/" + a for a in f.get("also", []))
    rows.append("| %s | %s | %s | %s |" % (f["id"], props, what, commit))
table = "| id | prop | what failed (identifying input) | commit |\n|----|------|----------------------------------|--------|\n" + "\n".join(rows) + "\n"
p = os.path.join(ROOT, "DESIGN.md")
s = open(p).read()
i = s.index("| id | prop | what failed (identifying input) | commit |")
j = s.index("\n\n", i)
s = s[:i] + table.rstrip("\n") + s[j:]
open(p, "w").write(s)
print("findings: %d (%d known)" % (len(rows), sum(1 for f in k if f["status"] != "fixed")))
