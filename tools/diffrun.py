"""Generic differential-run helpers: run the model driver on an op file, compare line streams,
delta-debug an op list."""
import os, subprocess, tempfile
from common import *


def run_model(engine, ops_path, out_path, extra_args=()):
    with open(ops_path, "rb") as fin, open(out_path, "wb") as fo:
        r = subprocess.run([hwmodel_path(), engine] + list(extra_args), stdin=fin, stdout=fo, stderr=subprocess.PIPE)
    return r.returncode, r.stderr.decode(errors="replace")


def compare_streams(ops, c_lines, m_lines, classify):
    """classify(op, c, m) -> 'same' | 'benign' | 'diff'.  Returns (ndiff, nbenign, first_diffs)."""
    ndiff = nbenign = 0
    firsts = []
    n = max(len(ops), len(c_lines), len(m_lines))
    for i in range(n):
        op = ops[i] if i < len(ops) else "<none>"
        c = c_lines[i] if i < len(c_lines) else "<missing>"
        m = m_lines[i] if i < len(m_lines) else "<missing>"
        if c == m:
            continue
        k = classify(op, c, m)
        if k == "benign":
            nbenign += 1
        elif k == "diff":
            ndiff += 1
            if len(firsts) < 5:
                firsts.append((i, op, c, m))
    return ndiff, nbenign, firsts


def ddmin(items, fails, max_tests=400):
    """classic delta debugging; `fails(sublist)` -> bool.  Returns a (locally) minimal failing sublist."""
    tests = 0
    n = 2
    cur = list(items)
    while len(cur) >= 2 and tests < max_tests:
        chunk = max(1, len(cur) // n)
        subsets = [cur[i:i + chunk] for i in range(0, len(cur), chunk)]
        reduced = False
        for i in range(len(subsets)):
            comp = [x for j, s in enumerate(subsets) if j != i for x in s]
            tests += 1
            if comp and fails(comp):
                cur = comp
                n = max(n - 1, 2)
                reduced = True
                break
        if not reduced:
            if n >= len(cur):
                break
            n = min(len(cur), n * 2)
    return cur


def read_lines(p):
    with open(p, errors="replace") as f:
        return f.read().splitlines()
