"""Engine `topo-load` (C01): many loads through the public API; every successfully loaded topology is dumped and
the Lean oracle `wfCheck` (proved equivalent to the declarative WF) must accept it."""
import os, shutil, hashlib
from concurrent.futures import ThreadPoolExecutor
from common import *
from diffrun import *
import snapshots


def _env(seed, libxml):
    e = dict(os.environ, ASAN_OPTIONS="detect_leaks=1:abort_on_error=0", VERIF_SEED=str(seed),
             HWLOC_HIDE_ERRORS="2", HWLOC_LIBXML=str(libxml), LC_ALL="C", HWLOC_DONT_ADD_VERSION_INFO="1")
    for k in list(e):
        if k.startswith("HWLOC_") and k not in ("HWLOC_HIDE_ERRORS", "HWLOC_LIBXML", "HWLOC_DONT_ADD_VERSION_INFO"):
            del e[k]
    return e


def verdicts(dump_path, mout):
    run_model("topo", dump_path, mout)
    out = {}
    tag = None
    with open(dump_path, errors="replace") as fd, open(mout, errors="replace") as fm:
        for dl, ml in zip(fd, fm):
            if dl.startswith("END "):
                out[dl.split()[1]] = ml.strip()
            elif dl.startswith("ENUM"):
                out["ENUM"] = ml.strip()
    return out


def one_run(binp, workdir, idx, seed, n, sources):
    d = os.path.join(workdir, "r%d" % idx)
    os.makedirs(d, exist_ok=True)
    plan, dump, mout = [os.path.join(d, x) for x in ("plan.txt", "dump.txt", "m.out")]
    r = run([binp, "gen", str(n), sources, plan, dump], env=_env(seed, idx % 2))
    res = {"seed": seed, "rc": r.returncode, "san": r.stdout[-3000:], "plan": read_lines(plan) if os.path.exists(plan) else [],
           "verdicts": {}, "libxml": idx % 2}
    if os.path.exists(dump):
        res["verdicts"] = verdicts(dump, mout)
        res["dump_lines"] = sum(1 for _ in open(dump, errors="replace"))
    return res


def replay_case(binp, workdir, plan_line, libxml):
    d = os.path.join(workdir, "replay")
    os.makedirs(d, exist_ok=True)
    plan, dump, mout = [os.path.join(d, x) for x in ("plan.txt", "dump.txt", "m.out")]
    open(plan, "w").write(plan_line + "\n")
    r = run([binp, "replay", plan, dump], env=_env(0, libxml))
    v = verdicts(dump, mout) if os.path.exists(dump) else {}
    return r, v


def run_engine(tier, seed, kinds="XFC", sizes=None):
    binp = build_harness("topoload")
    workdir = os.path.join(BUILD, "run", "topoload-%s" % os.getpid())
    shutil.rmtree(workdir, ignore_errors=True)
    os.makedirs(workdir)
    sources = os.path.join(workdir, "sources.txt")
    nsrc = snapshots.write_sources(sources, kinds)
    # corpus first: minimised past failures (plan files; @SNAP@ = extracted snapshots directory)
    import glob
    corpus_problems, ncorpus = [], 0
    for f in sorted(glob.glob(os.path.join(ROOT, "corpus", "topoload", "*.plan"))):
        for l in read_lines(f):
            if not l or l.startswith("#"):
                continue
            l = l.replace("@SNAP@", snapshots.SNAP)
            for lx in (0, 1):
                rr, vv = replay_case(binp, workdir, l, lx)
                ncorpus += 1
                cid = l.split()[0]
                if rr.returncode != 0 or vv.get(cid, "WF ok") != "WF ok":
                    corpus_problems.append({"what": "corpus case %s (%s) fails again" % (cid, os.path.basename(f)), "seed": 0,
                        "replay": "# plan line (HWLOC_LIBXML=%d)\n%s\n# verdict: %s, harness exit %d\n# %s\n" % (
                            lx, l, vv.get(cid), rr.returncode, rr.stdout[-1500:].replace("\n", "\n# "))})
    nruns, n = sizes or ((16, 300) if tier == "quick" else (64, 2500))
    seeds = [int(seed) * 1000003 + i for i in range(nruns)]
    with ThreadPoolExecutor(NCPU) as ex:
        results = list(ex.map(lambda a: one_run(binp, workdir, a[0], a[1], n, sources), enumerate(seeds)))
    problems, stats, distinct = list(corpus_problems), {"loaded": 0, "load_failed": 0, "corpus": ncorpus}, set()
    samples = []
    for r in results:
        cases = [l for l in r["plan"] if l and not l.startswith("#")]
        for l in cases:
            t = l.split(None, 4)
            if len(t) < 5:
                continue
            cid, kind = t[0], t[1]
            stats["kind." + kind] = stats.get("kind." + kind, 0) + 1
            v = r["verdicts"].get(cid)
            if v is None:
                stats["load_failed"] += 1
            else:
                stats["loaded"] += 1
                distinct.add(hashlib.md5(" ".join(t[1:]).encode()).digest()[:8])
                if len(samples) < 6:
                    samples.append("%s -> %s" % (" ".join(t[1:])[:160], v))
                if v != "WF ok" and not problems:
                    rr, vv = replay_case(binp, workdir, l, r["libxml"])
                    problems.append({"what": "loaded topology is not well-formed: " + v, "seed": r["seed"],
                                     "replay": "# plan line (harness h_topoload replay <plan> <dump>; HWLOC_LIBXML=%d)\n%s\n# oracle verdict: %s\n# on replay: %s\n"
                                               % (r["libxml"], l, v, vv.get(cid))})
        if r["verdicts"].get("ENUM", "ENUM ok") != "ENUM ok" and not problems:
            problems.append({"what": r["verdicts"]["ENUM"], "seed": r["seed"], "replay": "enum constants of the model differ from hwloc.h\n"})
        if r["rc"] != 0 and not problems:
            last = cases[-1] if cases else "<none>"
            problems.append({"what": "abort / sanitizer report while loading or in hwloc_topology_check()", "seed": r["seed"],
                             "replay": "# plan line (HWLOC_LIBXML=%d)\n%s\n# harness exit %d\n# %s\n" % (
                                 r["libxml"], last, r["rc"], r["san"][-2500:].replace("\n", "\n# "))})
    shutil.rmtree(workdir, ignore_errors=True)
    return {"evaluations": stats["loaded"] + stats["load_failed"], "distinct_nontrivial": len(distinct), "distribution": stats,
            "sources": nsrc, "problems": problems, "samples": samples,
            "rule": "each case = (source, type-filter assignment, flag subset): generated synthetic strings, the bundled XML files (file and "
                    "buffer, both XML back ends), the bundled Linux (HWLOC_FSROOT) and x86 (HWLOC_CPUID_PATH) snapshots; non-trivial = load "
                    "succeeded and the dump was judged by wfCheck; distinct = distinct (kind, flags, filters, source) tuples"}
