"""Engine `topo-load` (C01): many loads through the public API; every successfully loaded topology is dumped and
the Lean oracle `wfCheck` (proved equivalent to the declarative WF) must accept it."""
import os, shutil, hashlib
from concurrent.futures import ThreadPoolExecutor
from common import *
from diffrun import *
import snapshots


def _env(seed, libxml):
    e = dict(os.environ, ASAN_OPTIONS="detect_leaks=1:abort_on_error=0", VERIF_SEED=str(seed),
             HWLOC_HIDE_ERRORS="2", HWLOC_LIBXML=str(libxml), LC_ALL="C", HWLOC_DONT_ADD_VERSION_INFO="1")
    for k in list(e):
        if k.startswith("HWLOC_") and k not in ("HWLOC_HIDE_ERRORS", "HWLOC_LIBXML", "HWLOC_DONT_ADD_VERSION_INFO"):
            del e[k]
    return e


T_NUMA, T_MEMCACHE = 14, 15      # checked against hwloc.h by the ENUM line of every dump
COV = "__coverage__"


def verdicts(dump_path, mout):
    """-> {caseid: verdict of the oracle, "ENUM": .., COV: {counter: n}}.  The coverage counters are read from the dump itself (what
    was really loaded): topologies with a memory-side cache, with a memory object nested in a memory object, and those among them that
    were loaded WITHOUT INCLUDE_DISALLOWED while some PU / NUMA node of the machine is not allowed (root complete set != allowed set)."""
    run_model("topo", dump_path, mout)
    out, cov = {}, {}
    head, types, nested, nested2, memcache, root = None, {}, 0, 0, 0, None

    def bump(k):
        cov[k] = cov.get(k, 0) + 1
    with open(dump_path, errors="replace") as fd, open(mout, errors="replace") as fm:
        for dl, ml in zip(fd, fm):
            if dl.startswith("O "):
                t = dl.split(" ", 28)
                if len(t) < 28:
                    continue
                oid, ty, par = t[1], int(t[2]), t[7]
                types[oid] = ty
                if root is None:
                    root = (t[24], t[26])
                if ty == T_MEMCACHE:
                    memcache += 1
                if ty in (T_NUMA, T_MEMCACHE) and types.get(par) == T_MEMCACHE:
                    nested += 1
                    if ty == T_MEMCACHE:
                        nested2 += 1
            elif dl.startswith("TOPO "):
                t = dl.split()
                head, types, nested, nested2, memcache, root = (int(t[2]), t[6], t[7]), {}, 0, 0, 0, None
            elif dl.startswith("END "):
                out[dl.split()[1]] = ml.strip()
                if head and root:
                    dis = head[0] % 2 == 0 and (head[1] != root[0] or head[2] != root[1])
                    if dis:
                        bump("disallowed_removed")
                    if head[0] & 4:
                        bump("thissystem_allowed_resources" + ("_effective" if dis else ""))
                    if memcache:
                        bump("with_memcache")
                    if nested:
                        bump("nested_memory")
                        if dis:
                            bump("nested_memory_and_disallowed_removed")
                    if nested2:
                        bump("memcache_below_memcache")
                        if dis:
                            bump("memcache_below_memcache_and_disallowed_removed")
                head = None
            elif dl.startswith("ENUM"):
                out["ENUM"] = ml.strip()
    out[COV] = cov
    return out


def one_run(binp, workdir, idx, seed, n, sources):
    d = os.path.join(workdir, "r%d" % idx)
    os.makedirs(d, exist_ok=True)
    plan, dump, mout = [os.path.join(d, x) for x in ("plan.txt", "dump.txt", "m.out")]
    r = run([binp, "gen", str(n), sources, plan, dump], env=_env(seed, idx % 2))
    res = {"seed": seed, "rc": r.returncode, "san": r.stdout[-3000:], "plan": read_lines(plan) if os.path.exists(plan) else [],
           "verdicts": {}, "libxml": idx % 2}
    if os.path.exists(dump):
        res["verdicts"] = verdicts(dump, mout)
        res["dump_lines"] = sum(1 for _ in open(dump, errors="replace"))
    return res


def replay_case(binp, workdir, plan_line, libxml):
    d = os.path.join(workdir, "replay")
    os.makedirs(d, exist_ok=True)
    plan, dump, mout = [os.path.join(d, x) for x in ("plan.txt", "dump.txt", "m.out")]
    open(plan, "w").write(plan_line + "\n")
    r = run([binp, "replay", plan, dump], env=_env(0, libxml))
    v = verdicts(dump, mout) if os.path.exists(dump) else {}
    return r, v


def run_engine(tier, seed, kinds="XFC", sizes=None):
    binp = build_harness("topoload")
    workdir = os.path.join(BUILD, "run", "topoload-%s" % os.getpid())
    shutil.rmtree(workdir, ignore_errors=True)
    os.makedirs(workdir)
    sources = os.path.join(workdir, "sources.txt")
    nsrc = snapshots.write_sources(sources, kinds)
    # corpus first: minimised past failures (plan files; @SNAP@ = extracted snapshots directory)
    import glob
    corpus_problems, ncorpus = [], 0
    for f in sorted(glob.glob(os.path.join(ROOT, "corpus", "topoload", "*.plan"))):
        for l in read_lines(f):
            if not l or l.startswith("#"):
                continue
            l = l.replace("@SNAP@", snapshots.SNAP).replace("@REPO@", REPO).replace("@ROOT@", ROOT)
            for lx in (0, 1):
                rr, vv = replay_case(binp, workdir, l, lx)
                ncorpus += 1
                cid = l.split()[0]
                if rr.returncode != 0 or vv.get(cid, "WF ok") != "WF ok":
                    corpus_problems.append({"what": "corpus case %s (%s) fails again" % (cid, os.path.basename(f)), "seed": 0,
                        "replay": "# plan line (HWLOC_LIBXML=%d)\n%s\n# verdict: %s, harness exit %d\n# %s\n" % (
                            lx, l, vv.get(cid), rr.returncode, rr.stdout[-1500:].replace("\n", "\n# "))})
    nruns, n = sizes or ((16, 300) if tier == "quick" else (64, 2500))
    seeds = [int(seed) * 1000003 + i for i in range(nruns)]
    with ThreadPoolExecutor(NCPU) as ex:
        results = list(ex.map(lambda a: one_run(binp, workdir, a[0], a[1], n, sources), enumerate(seeds)))
    problems, stats, distinct = list(corpus_problems), {"loaded": 0, "load_failed": 0, "corpus": ncorpus}, set()
    samples = []
    for r in results:
        cases = [l for l in r["plan"] if l and not l.startswith("#")]
        for k, v in r["verdicts"].get(COV, {}).items():
            stats["cover." + k] = stats.get("cover." + k, 0) + v
        for l in r["plan"]:
            if l.startswith("# envcases "):
                t = l.split()
                for k, v in zip(t[1::2], t[2::2]):
                    stats["env." + k] = stats.get("env." + k, 0) + int(v)
            if l.startswith("# derived "):
                t = l.split()
                for k, v in zip(t[2::2], t[3::2]):
                    stats["derived." + k] = stats.get("derived." + k, 0) + int(v)
        for l in cases:
            t = l.split(None, 4)
            if len(t) < 5:
                continue
            cid, kind = t[0], t[1]
            stats["kind." + kind] = stats.get("kind." + kind, 0) + 1
            if kind == "R":
                stats["kind.R.from_" + t[4].split()[1]] = stats.get("kind.R.from_" + t[4].split()[1], 0) + 1
            if len(t[3]) > T_MEMCACHE and t[3][T_MEMCACHE] in "023":
                stats["filter.memcache_kept"] = stats.get("filter.memcache_kept", 0) + 1
            if t[3] != "-" * 20:
                stats["filter.non_default"] = stats.get("filter.non_default", 0) + 1
            v = r["verdicts"].get(cid)
            # The re-insertion oracle (the tree is what hwloc___insert_object_by_cpuset would rebuild) speaks about back ends that
            # discover by insertion.  The XML importer links objects as the document nests them and never inserts by cpuset, so a
            # document whose nesting insertion would not produce (kind R retypes an object to a Group) is no finding: for topologies
            # read from XML (kinds X, B, R) that one clause is not judged; every WF clause proper still is.
            if v is not None and kind in "XBR" and v.startswith("WF FAIL "):
                items = [x for x in v[len("WF FAIL "):].split(",") if x != "reinsertion-differs"]
                if len(items) != len(v[len("WF FAIL "):].split(",")):
                    stats["reinsertion_clause_not_judged_on_xml"] = stats.get("reinsertion_clause_not_judged_on_xml", 0) + 1
                v = ("WF FAIL " + ",".join(items)) if items else "WF ok"
            if v is None:
                stats["load_failed"] += 1
            else:
                stats["loaded"] += 1
                distinct.add(hashlib.md5(" ".join(t[1:]).encode()).digest()[:8])
                if len(samples) < 6:
                    samples.append("%s -> %s" % (" ".join(t[1:])[:160], v))
                if v != "WF ok" and not problems:
                    rr, vv = replay_case(binp, workdir, l, r["libxml"])
                    problems.append({"what": "loaded topology is not well-formed: " + v, "seed": r["seed"],
                                     "replay": "# plan line (harness h_topoload replay <plan> <dump>; HWLOC_LIBXML=%d)\n%s\n# oracle verdict: %s\n# on replay: %s\n"
                                               % (r["libxml"], l, v, vv.get(cid))})
        if r["verdicts"].get("ENUM", "ENUM ok") != "ENUM ok" and not problems:
            problems.append({"what": r["verdicts"]["ENUM"], "seed": r["seed"], "replay": "enum constants of the model differ from hwloc.h\n"})
        if r["rc"] != 0 and not problems:
            last = cases[-1] if cases else "<none>"
            problems.append({"what": "abort / sanitizer report while loading or in hwloc_topology_check()", "seed": r["seed"],
                             "replay": "# plan line (HWLOC_LIBXML=%d)\n%s\n# harness exit %d\n# %s\n" % (
                                 r["libxml"], last, r["rc"], r["san"][-2500:].replace("\n", "\n# "))})
    shutil.rmtree(workdir, ignore_errors=True)
    return {"evaluations": stats["loaded"] + stats["load_failed"], "distinct_nontrivial": len(distinct), "distribution": stats,
            "sources": nsrc, "problems": problems, "samples": samples,
            "rule": "each case = (source, type-filter assignment, flag subset): generated synthetic strings (NUMA nodes with memory-side "
                    "caches in ~40 % of the NUMA specifications), the bundled XML files (file and buffer, both XML back ends), the bundled "
                    "Linux (HWLOC_FSROOT) and x86 (HWLOC_CPUID_PATH) snapshots, and derived sources (kind R, harness/derive.h: any of the "
                    "former loaded with every type kept, random subsets of its PUs / NUMA nodes made the allowed sets, exported to current or "
                    "v2 XML and re-loaded: really disallowed resources under every filter assignment); flags additionally "
                    "IS_THISSYSTEM[|THISSYSTEM_ALLOWED_RESOURCES] on ~12 % of the non-back-end cases (the sandbox's cgroup disallows what it "
                    "does not have); the MemCache filter keeps memory-side caches in about half of the cases; non-trivial = load succeeded "
                    "and the dump was judged by wfCheck; distinct = distinct (kind, flags, filters, source) tuples; cover.* counters are "
                    "read from the dumps of the loaded topologies (nested_memory = a memory object whose parent is a memory-side cache; "
                    "disallowed_removed = loaded without INCLUDE_DISALLOWED while the root complete sets exceed the allowed sets)"}
