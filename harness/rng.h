/* xorshift128+ PRNG shared by all harnesses: every random choice derives from VERIF_SEED */
#ifndef VERIF_RNG_H
#define VERIF_RNG_H
#include <stdint.h>
#include <stdlib.h>
static uint64_t rng_s[2];
static void rng_seed(uint64_t seed) {
  /* splitmix64 */
  uint64_t z = seed + 0x9E3779B97F4A7C15ULL;
  for (int i = 0; i < 2; i++) {
    z += 0x9E3779B97F4A7C15ULL;
    uint64_t x = z;
    x = (x ^ (x >> 30)) * 0xBF58476D1CE4E5B9ULL;
    x = (x ^ (x >> 27)) * 0x94D049BB133111EBULL;
    rng_s[i] = x ^ (x >> 31);
  }
  if (!rng_s[0] && !rng_s[1]) rng_s[0] = 1;
}
static uint64_t rng_next(void) {
  uint64_t s1 = rng_s[0];
  const uint64_t s0 = rng_s[1];
  rng_s[0] = s0;
  s1 ^= s1 << 23;
  rng_s[1] = s1 ^ s0 ^ (s1 >> 18) ^ (s0 >> 5);
  return rng_s[1] + s0;
}
static unsigned rng_below(unsigned n) { return n ? (unsigned)(rng_next() % n) : 0; }
static int rng_chance(unsigned pct) { return rng_below(100) < pct; }
static uint64_t rng_seed_from_env(void) {
  const char *s = getenv("VERIF_SEED");
  return s ? strtoull(s, NULL, 0) : 1;
}
#endif
