/* C14 differential harness (engine `memattrs`): public memattrs API of the real hwloc on small synthetic
 * topologies vs the Lean model.
 *
 * usage: memattrs <nops> <ops-file> <out-file> <stats-file> <mode>   generate (seed = VERIF_SEED)
 *                 mode 0: verdict stream (cpuset initiators of one (attr,target) come from one level of the
 *                         tree, hence pairwise disjoint, and lie inside the root cpuset)
 *                 mode 1: overlapping / out-of-root cpuset initiators (compared, but outside the verdict)
 *        memattrs --replay <ops-in> <out-file> <ops-effective>
 * Every executed op line is written to the (effective) ops file, its observation to the out file.  After each
 * topology-changing op the harness itself appends an `env` line describing the resulting topology (the model's
 * view of it); `env` lines of a replay input are ignored and regenerated.
 *
 * op grammar (t,d,s = topology slots; objects = g<gp_index> | null; locations = - | c:<hex> | c:null |
 * o:g<gp> | o:null | x):
 *   load t <synthetic with _ for space> | restrict t <flags> <hexset> | dup d s | xml d s | refresh t
 *   setmem t g<gp> <bytes> | subtype t g<gp> <name|-> | misc t g<parent> <name>
 *   attrs t | register t <name> <flags> | set t id tgt loc flags value | get t id tgt loc flags
 *   targets t id loc flags max wantvalues arrnull | inits t id tgt flags max wantvalues arrnull
 *   besttgt t id loc flags | bestinit t id tgt flags | local t loc flags max arrnull | defns t flags | dump t id
 */
#include "hwloc.h"
#include "private/private.h"   /* ONLY for dup_hazard() below (exclusion switch of finding "dup after emptied") */
#include "rng.h"
#include <string.h>
#include <stdarg.h>
#include <stdio.h>
#include <errno.h>

#define NT 4
#define MAXOBJ 512
static hwloc_topology_t T[NT];
static FILE *fops, *fout;

static const char *errstr(void) {
  static char buf[32];
  switch (errno) {
  case EINVAL: return "EINVAL";
  case ENOENT: return "ENOENT";
  case EBUSY: return "EBUSY";
  default: snprintf(buf, sizeof buf, "fail:%d", errno); return buf;
  }
}

/* ---- topology walking ---- */
static int collect(hwloc_topology_t t, hwloc_obj_t *objs) {
  int n = 0, d = hwloc_topology_get_depth(t);
  for (int i = 0; i < d; i++)
    for (hwloc_obj_t o = NULL; (o = hwloc_get_next_obj_by_depth(t, i, o)) && n < MAXOBJ;) objs[n++] = o;
  static const int special[] = { HWLOC_TYPE_DEPTH_NUMANODE, HWLOC_TYPE_DEPTH_MISC, HWLOC_TYPE_DEPTH_MEMCACHE,
                                 HWLOC_TYPE_DEPTH_BRIDGE, HWLOC_TYPE_DEPTH_PCI_DEVICE, HWLOC_TYPE_DEPTH_OS_DEVICE };
  for (unsigned k = 0; k < sizeof special / sizeof special[0]; k++)
    for (hwloc_obj_t o = NULL; (o = hwloc_get_next_obj_by_depth(t, special[k], o)) && n < MAXOBJ;) objs[n++] = o;
  return n;
}
static hwloc_obj_t by_gp(hwloc_topology_t t, unsigned long long gp) {
  hwloc_obj_t objs[MAXOBJ]; int n = collect(t, objs);
  for (int i = 0; i < n; i++) if (objs[i]->gp_index == gp) return objs[i];
  return NULL;
}
static unsigned long mask_of(hwloc_const_bitmap_t b) { return b ? hwloc_bitmap_to_ulong(b) : 0UL; }

static void print_env(hwloc_topology_t t, FILE *f) {
  hwloc_obj_t objs[MAXOBJ]; int n = collect(t, objs);
  int nn = hwloc_get_nbobjs_by_type(t, HWLOC_OBJ_NUMANODE);
  fprintf(f, " %d %lx %d %d", (int) HWLOC_OBJ_NUMANODE, mask_of(hwloc_get_root_obj(t)->cpuset), n, nn);
  for (int i = 0; i < n; i++) {
    hwloc_obj_t o = objs[i], a = o;
    while (!a->cpuset) a = a->parent;
    fprintf(f, " %d,%llu,", (int) o->type, (unsigned long long) o->gp_index);
    if (o->os_index == (unsigned) -1) fprintf(f, "-,"); else fprintf(f, "%u,", o->os_index);
    if (o->cpuset) fprintf(f, "%lx,", mask_of(o->cpuset)); else fprintf(f, "-,");
    fprintf(f, "%lx,%llu,%s", mask_of(a->cpuset),
            o->type == HWLOC_OBJ_NUMANODE ? (unsigned long long) o->attr->numanode.local_memory : 0ULL,
            o->subtype ? o->subtype : "-");
  }
  for (int i = 0; i < nn; i++)
    fprintf(f, " %llu", (unsigned long long) hwloc_get_obj_by_type(t, HWLOC_OBJ_NUMANODE, i)->gp_index);
}
/* the harness-generated description of slot t after a topology-changing op */
static void emit_env(int t, const char *how, const char *answer) {
  fprintf(fops, "env %d %s", t, how);
  print_env(T[t], fops);
  fputc('\n', fops);
  fprintf(fout, "%s\n", answer);
}

/* ---- argument parsing ---- */
#define NOOBJ ((hwloc_obj_t) -1)
static hwloc_obj_t parse_ref(hwloc_topology_t t, const char *s) {
  if (!strcmp(s, "null")) return NULL;
  if (s[0] != 'g') return NOOBJ;
  hwloc_obj_t o = by_gp(t, strtoull(s + 1, NULL, 10));
  return o ? o : NOOBJ;
}
/* returns 0 ok, -1 unknown object; *locp = NULL for "-" */
static int parse_loc(hwloc_topology_t t, const char *s, struct hwloc_location *loc, struct hwloc_location **locp,
                     hwloc_bitmap_t *tofree) {
  *tofree = NULL; *locp = loc;
  if (!strcmp(s, "-")) { *locp = NULL; return 0; }
  if (!strcmp(s, "x")) { loc->type = (enum hwloc_location_type_e) 7; loc->location.cpuset = NULL; return 0; }
  if (!strcmp(s, "c:null")) { loc->type = HWLOC_LOCATION_TYPE_CPUSET; loc->location.cpuset = NULL; return 0; }
  if (!strcmp(s, "o:null")) { loc->type = HWLOC_LOCATION_TYPE_OBJECT; loc->location.object = NULL; return 0; }
  if (!strncmp(s, "c:", 2)) {
    hwloc_bitmap_t b = hwloc_bitmap_alloc();
    hwloc_bitmap_from_ulong(b, strtoul(s + 2, NULL, 16));
    loc->type = HWLOC_LOCATION_TYPE_CPUSET; loc->location.cpuset = b; *tofree = b; return 0;
  }
  if (!strncmp(s, "o:", 2)) {
    hwloc_obj_t o = parse_ref(t, s + 2);
    if (o == NOOBJ || !o) return -1;
    loc->type = HWLOC_LOCATION_TYPE_OBJECT; loc->location.object = o; return 0;
  }
  return -1;
}
static int is_obj_of(hwloc_topology_t t, hwloc_obj_t p) {
  hwloc_obj_t objs[MAXOBJ]; int n = collect(t, objs);
  for (int i = 0; i < n; i++) if (objs[i] == p) return 1;
  return 0;
}
static void show_loc(FILE *f, hwloc_topology_t t, struct hwloc_location *l) {
  if (l->type == HWLOC_LOCATION_TYPE_CPUSET) fprintf(f, "c:%lx", mask_of(l->location.cpuset));
  else if (l->type == HWLOC_LOCATION_TYPE_OBJECT && l->location.object) {
    if (!is_obj_of(t, l->location.object)) fprintf(f, "o:NOT-AN-OBJECT-OF-THIS-TOPOLOGY");
    else fprintf(f, "o:%d,%llu", (int) l->location.object->type, (unsigned long long) l->location.object->gp_index);
  } else fprintf(f, "?");
}

static void destroy_slot(int t) { if (T[t]) { hwloc_topology_destroy(T[t]); T[t] = NULL; } }

#define SENT_OBJ ((hwloc_obj_t) 0x5a5a5a5a)
#define SENT_VAL 0xdeadbeefcafef00dULL
#define ARR 96

/* ---- known-defect class detection (see the two KNOWN DEFECT comments below) ----
 * The executor recognises, by a read-only look at the private tables, when an op sequence enters one of the two
 * input classes on which the C code is known to be defective, and says so on stderr ("KNOWN-DEFECT-CLASS <name>");
 * the shrinker uses this to stay outside those classes.  The comparison itself never depends on it. */
static int avoid_dup_emptied = 0, avoid_uncached_objinit = 0; /* both defects are fixed in /repo (F21, F22): no input class is avoided any more */
static int dup_hazard(hwloc_topology_t t);
static struct hwloc_internal_memattr_target_s *stored_target(hwloc_topology_t t, unsigned id, hwloc_obj_t tg);
static int objinit_hazard(hwloc_topology_t t, unsigned id, hwloc_obj_t tg, hwloc_obj_t io);
#define MAXATTR 64
static unsigned char pending_objinit[NT][MAXATTR];
static void pending_update(int t) {
  if (!T[t]) { memset(pending_objinit[t], 0, MAXATTR); return; }
  for (unsigned id = 0; id < MAXATTR; id++)
    if (id >= T[t]->nr_memattrs || !(T[t]->memattrs[id].iflags & HWLOC_IMATTR_FLAG_CACHE_VALID)) pending_objinit[t][id] = 0;
}
static void known_class(const char *name) { fprintf(stderr, "KNOWN-DEFECT-CLASS %s\n", name); }

/* make the content of not-yet-used stack deterministic before calls that are known to read uninitialised
 * stack slots (known defect 2), so that the symptom does not depend on what the harness did before */
static void __attribute__((noinline, no_sanitize_address, no_sanitize_undefined)) scribble_stack(void) {
  volatile unsigned char buf[8192];
  for (unsigned i = 0; i < sizeof buf; i++) buf[i] = 0x5a;
}
static int exec_line2(const char *orig);
static int exec_line(const char *orig) {
  int r = exec_line2(orig);
  for (int t = 0; t < NT; t++) pending_update(t);
  return r;
}
/* ---- op execution ---- */
static int exec_line2(const char *orig) {
  char line[4096]; char *tok[16]; int nt = 0; char *save = NULL;
  strncpy(line, orig, sizeof line - 1); line[sizeof line - 1] = 0;
  for (char *p = strtok_r(line, " \n", &save); p && nt < 16; p = strtok_r(NULL, " \n", &save)) tok[nt++] = p;
  if (!nt) return 0;
  if (!strcmp(tok[0], "env")) return 0;   /* regenerated by the harness itself */
  fprintf(fops, "%s", orig); if (!strchr(orig, '\n')) fputc('\n', fops);
  fflush(fops);
  const char *op = tok[0];
#define BAD do { fprintf(fout, "bad-op\n"); return -1; } while (0)
#define NEED(n) do { if (nt != (n)) BAD; } while (0)
  if (nt < 2) BAD;
  int t = atoi(tok[1]);
  if (t < 0 || t >= NT) BAD;

  if (!strcmp(op, "load")) {
    NEED(3);
    char desc[512]; strncpy(desc, tok[2], sizeof desc - 1); desc[sizeof desc - 1] = 0;
    for (char *p = desc; *p; p++) if (*p == '_') *p = ' ';
    destroy_slot(t);
    hwloc_topology_t n;
    hwloc_topology_init(&n);
    if (hwloc_topology_set_synthetic(n, desc) < 0 || hwloc_topology_load(n) < 0) {
      hwloc_topology_destroy(n); fprintf(fout, "fail\n"); return 0;
    }
    T[t] = n; fprintf(fout, "ok\n");
    memset(pending_objinit[t], 0, MAXATTR);
    emit_env(t, "load", "ok");
    return 0;
  }
  if (!strcmp(op, "dup") || !strcmp(op, "xml")) {
    NEED(3);
    int s = atoi(tok[2]);
    if (s < 0 || s >= NT) BAD;
    fprintf(fout, "done\n");
    if (!T[s]) return 0;       /* nothing happens; the model keeps its state too since no env line follows */
    hwloc_topology_t n = NULL;
    if (!strcmp(op, "dup")) {
      if (avoid_dup_emptied && dup_hazard(T[s])) known_class("dup_emptied");
      if (hwloc_topology_dup(&n, T[s]) < 0) n = NULL;
    } else {
      char *buf = NULL; int len = 0;
      if (hwloc_topology_export_xmlbuffer(T[s], &buf, &len, 0) == 0) {
        hwloc_topology_init(&n);
        if (hwloc_topology_set_xmlbuffer(n, buf, len) < 0 || hwloc_topology_load(n) < 0) { hwloc_topology_destroy(n); n = NULL; }
        hwloc_free_xmlbuffer(T[s], buf);
      }
    }
    if (!n) { fprintf(fops, "env %d failed\n", t); fprintf(fout, "copy-failed\n"); return 0; }
    char how[32]; snprintf(how, sizeof how, "%s:%d", op, s);
    /* print the env before destroying the old destination (d may equal s) */
    hwloc_topology_t old = T[t]; T[t] = n;
    memset(pending_objinit[t], 0, MAXATTR);
    emit_env(t, how, "ok");
    if (old) hwloc_topology_destroy(old);
    return 0;
  }
  if (!T[t]) {
    if (!strcmp(op, "restrict") || !strcmp(op, "setmem") || !strcmp(op, "subtype") || !strcmp(op, "misc")) { fprintf(fout, "done\n"); return 0; }
    fprintf(fout, "noslot\n"); return 0;
  }
  hwloc_topology_t top = T[t];

  if (!strcmp(op, "restrict")) {
    NEED(4);
    unsigned long flags = strtoul(tok[2], NULL, 10);
    hwloc_bitmap_t set = hwloc_bitmap_alloc();
    hwloc_bitmap_from_ulong(set, strtoul(tok[3], NULL, 16));
    fprintf(fout, "done\n");
    errno = 0;
    int rc = hwloc_topology_restrict(top, set, flags);
    hwloc_bitmap_free(set);
    if (rc == 0) emit_env(t, "restrict:ok", "ok");
    else if (errno == EINVAL) emit_env(t, "restrict:EINVAL", "ok");
    else { fprintf(fops, "env %d failed\n", t); fprintf(fout, "restrict-%s\n", errstr()); }
    return 0;
  }
  if (!strcmp(op, "setmem") || !strcmp(op, "subtype") || !strcmp(op, "misc")) {
    NEED(4);
    fprintf(fout, "done\n");
    hwloc_obj_t o = parse_ref(top, tok[2]);
    if (o == NOOBJ || !o) return 0;
    if (!strcmp(op, "setmem")) {
      if (o->type != HWLOC_OBJ_NUMANODE) return 0;
      o->attr->numanode.local_memory = strtoull(tok[3], NULL, 10);
    } else if (!strcmp(op, "subtype")) {
      free(o->subtype);
      o->subtype = strcmp(tok[3], "-") ? strdup(tok[3]) : NULL;
    } else {
      if (!hwloc_topology_insert_misc_object(top, o, tok[3])) return 0;
    }
    emit_env(t, "mod", "ok");
    return 0;
  }
  if (!strcmp(op, "refresh")) { NEED(2); hwloc_topology_refresh(top); fprintf(fout, "ok\n"); return 0; }
  if (!strcmp(op, "attrs")) {
    NEED(2);
    unsigned n = 0; const char *name; unsigned long fl;
    while (hwloc_memattr_get_name(top, n, &name) == 0) n++;
    fprintf(fout, "A %u", n);
    for (unsigned id = 0; id < n; id++) {
      hwloc_memattr_id_t back = (hwloc_memattr_id_t) -1;
      hwloc_memattr_get_name(top, id, &name);
      if (hwloc_memattr_get_flags(top, id, &fl) < 0) fl = 999;
      if (hwloc_memattr_get_by_name(top, name, &back) < 0 || back != id) fprintf(fout, " byname-mismatch");
      fprintf(fout, " %u:%s:%lu", id, name, fl);
    }
    if (hwloc_memattr_get_flags(top, n, &fl) == 0) fprintf(fout, " flags-beyond-end");
    fputc('\n', fout);
    return 0;
  }
  if (!strcmp(op, "register")) {
    NEED(4);
    hwloc_memattr_id_t id = (hwloc_memattr_id_t) -1;
    errno = 0;
    if (hwloc_memattr_register(top, tok[2], strtoul(tok[3], NULL, 10), &id) == 0) fprintf(fout, "ok %u\n", id);
    else fprintf(fout, "%s\n", errstr());
    return 0;
  }
  if (!strcmp(op, "set") || !strcmp(op, "get")) {
    int isset = !strcmp(op, "set");
    NEED(isset ? 7 : 6);
    unsigned id = strtoul(tok[2], NULL, 10);
    hwloc_obj_t tg = parse_ref(top, tok[3]);
    struct hwloc_location loc, *locp; hwloc_bitmap_t fr;
    if (tg == NOOBJ || parse_loc(top, tok[4], &loc, &locp, &fr) < 0) { fprintf(fout, "noobj\n"); return 0; }
    unsigned long flags = strtoul(tok[5], NULL, 10);
    errno = 0;
    if (isset) {
      int hz = locp && loc.type == HWLOC_LOCATION_TYPE_OBJECT && loc.location.object && id < MAXATTR
               && objinit_hazard(top, id, tg, loc.location.object);
      scribble_stack();
      if (hwloc_memattr_set_value(top, id, tg, locp, flags, strtoull(tok[6], NULL, 10)) == 0) {
        fprintf(fout, "ok\n");
        if (hz) {
          pending_objinit[t][id] = 1;
          /* is the defect really there?  (the symptom through the API depends on stack garbage) */
          struct hwloc_internal_memattr_target_s *st = stored_target(top, id, tg);
          if (st && st->nr_initiators && (top->memattrs[id].iflags & HWLOC_IMATTR_FLAG_CACHE_VALID)
              && st->initiators[st->nr_initiators - 1].initiator.location.object.obj != loc.location.object)
            fprintf(stderr, "DEFECT-OBSERVED uncached_obj_initiator: cached pointer %p of the new initiator is not the object %p, cache flagged valid\n",
                    (void *) st->initiators[st->nr_initiators - 1].initiator.location.object.obj, (void *) loc.location.object);
        }
      }
      else fprintf(fout, "%s\n", errstr());
    } else {
      hwloc_uint64_t v = SENT_VAL;
      if (hwloc_memattr_get_value(top, id, tg, locp, flags, &v) == 0) fprintf(fout, "ok %llu\n", (unsigned long long) v);
      else fprintf(fout, "%s\n", errstr());
    }
    hwloc_bitmap_free(fr);
    return 0;
  }
  if (!strcmp(op, "targets")) {
    NEED(8);
    unsigned id = strtoul(tok[2], NULL, 10);
    struct hwloc_location loc, *locp; hwloc_bitmap_t fr;
    if (parse_loc(top, tok[3], &loc, &locp, &fr) < 0) { fprintf(fout, "noobj\n"); return 0; }
    unsigned long flags = strtoul(tok[4], NULL, 10);
    unsigned max = strtoul(tok[5], NULL, 10), vals = atoi(tok[6]), arrnull = atoi(tok[7]);
    if (max > ARR - 2) max = ARR - 2;
    hwloc_obj_t objs[ARR]; hwloc_uint64_t vs[ARR];
    for (int i = 0; i < ARR; i++) { objs[i] = SENT_OBJ; vs[i] = SENT_VAL; }
    unsigned nr = max;
    errno = 0;
    if (hwloc_memattr_get_targets(top, id, locp, flags, &nr, arrnull ? NULL : objs, vals ? vs : NULL) == 0) {
      fprintf(fout, "ok %u", nr);
      unsigned w = nr < max ? nr : max;
      for (unsigned i = 0; i < w; i++) {
        fprintf(fout, " %llu", (unsigned long long) objs[i]->gp_index);
        if (vals) fprintf(fout, "=%llu", (unsigned long long) vs[i]);
      }
      for (unsigned i = w; i < ARR; i++) if (objs[i] != SENT_OBJ || vs[i] != SENT_VAL) { fprintf(fout, " OVERRUN"); break; }
      fputc('\n', fout);
    } else fprintf(fout, "%s\n", errstr());
    hwloc_bitmap_free(fr);
    return 0;
  }
  if (!strcmp(op, "inits")) {
    NEED(8);
    unsigned id = strtoul(tok[2], NULL, 10);
    hwloc_obj_t tg = parse_ref(top, tok[3]);
    if (tg == NOOBJ) { fprintf(fout, "noobj\n"); return 0; }
    unsigned long flags = strtoul(tok[4], NULL, 10);
    unsigned max = strtoul(tok[5], NULL, 10), vals = atoi(tok[6]), arrnull = atoi(tok[7]);
    if (max > ARR - 2) max = ARR - 2;
    struct hwloc_location locs[ARR]; hwloc_uint64_t vs[ARR];
    for (int i = 0; i < ARR; i++) { locs[i].type = (enum hwloc_location_type_e) 77; locs[i].location.object = SENT_OBJ; vs[i] = SENT_VAL; }
    unsigned nr = max;
    errno = 0;
    if (avoid_uncached_objinit && id < MAXATTR && pending_objinit[t][id]) known_class("uncached_obj_initiator");
    if (hwloc_memattr_get_initiators(top, id, tg, flags, &nr, arrnull ? NULL : locs, vals ? vs : NULL) == 0) {
      fprintf(fout, "ok %u", nr);
      unsigned w = nr < max ? nr : max;
      for (unsigned i = 0; i < w; i++) {
        fputc(' ', fout); show_loc(fout, top, &locs[i]);
        if (vals) fprintf(fout, "=%llu", (unsigned long long) vs[i]);
      }
      for (unsigned i = w; i < ARR; i++) if ((int) locs[i].type != 77 || locs[i].location.object != SENT_OBJ || vs[i] != SENT_VAL) { fprintf(fout, " OVERRUN"); break; }
      fputc('\n', fout);
    } else fprintf(fout, "%s\n", errstr());
    return 0;
  }
  if (!strcmp(op, "besttgt")) {
    NEED(5);
    unsigned id = strtoul(tok[2], NULL, 10);
    struct hwloc_location loc, *locp; hwloc_bitmap_t fr;
    if (parse_loc(top, tok[3], &loc, &locp, &fr) < 0) { fprintf(fout, "noobj\n"); return 0; }
    hwloc_obj_t best = NULL; hwloc_uint64_t v = SENT_VAL;
    errno = 0;
    if (hwloc_memattr_get_best_target(top, id, locp, strtoul(tok[4], NULL, 10), &best, &v) == 0)
      fprintf(fout, "ok %llu %llu\n", (unsigned long long) best->gp_index, (unsigned long long) v);
    else fprintf(fout, "%s\n", errstr());
    hwloc_bitmap_free(fr);
    return 0;
  }
  if (!strcmp(op, "bestinit")) {
    NEED(5);
    unsigned id = strtoul(tok[2], NULL, 10);
    hwloc_obj_t tg = parse_ref(top, tok[3]);
    if (tg == NOOBJ) { fprintf(fout, "noobj\n"); return 0; }
    struct hwloc_location best; hwloc_uint64_t v = SENT_VAL;
    errno = 0;
    if (avoid_uncached_objinit && id < MAXATTR && pending_objinit[t][id]) known_class("uncached_obj_initiator");
    if (hwloc_memattr_get_best_initiator(top, id, tg, strtoul(tok[4], NULL, 10), &best, &v) == 0) {
      fprintf(fout, "ok "); show_loc(fout, top, &best); fprintf(fout, " %llu\n", (unsigned long long) v);
    } else fprintf(fout, "%s\n", errstr());
    return 0;
  }
  if (!strcmp(op, "local")) {
    NEED(6);
    struct hwloc_location loc, *locp; hwloc_bitmap_t fr;
    if (parse_loc(top, tok[2], &loc, &locp, &fr) < 0) { fprintf(fout, "noobj\n"); return 0; }
    if (locp && ((loc.type == HWLOC_LOCATION_TYPE_CPUSET && !loc.location.cpuset)
                 || (loc.type == HWLOC_LOCATION_TYPE_OBJECT && !loc.location.object))) BAD; /* the C dereferences these */
    unsigned long flags = strtoul(tok[3], NULL, 10);
    unsigned max = strtoul(tok[4], NULL, 10), arrnull = atoi(tok[5]);
    if (max > ARR - 2) max = ARR - 2;
    hwloc_obj_t objs[ARR];
    for (int i = 0; i < ARR; i++) objs[i] = SENT_OBJ;
    unsigned nr = max;
    errno = 0;
    if (hwloc_get_local_numanode_objs(top, locp, &nr, arrnull ? NULL : objs, flags) == 0) {
      fprintf(fout, "ok %u", nr);
      unsigned w = nr < max ? nr : max;
      for (unsigned i = 0; i < w; i++) fprintf(fout, " %llu", (unsigned long long) objs[i]->gp_index);
      for (unsigned i = w; i < ARR; i++) if (objs[i] != SENT_OBJ) { fprintf(fout, " OVERRUN"); break; }
      fputc('\n', fout);
    } else fprintf(fout, "%s\n", errstr());
    hwloc_bitmap_free(fr);
    return 0;
  }
  if (!strcmp(op, "defns")) {
    NEED(3);
    hwloc_bitmap_t ns = hwloc_bitmap_alloc();
    hwloc_bitmap_set(ns, 61);       /* must be cleared by the call */
    errno = 0;
    if (hwloc_topology_get_default_nodeset(top, ns, strtoul(tok[2], NULL, 10)) == 0) fprintf(fout, "ok %lx\n", mask_of(ns));
    else fprintf(fout, "%s\n", errstr());
    hwloc_bitmap_free(ns);
    return 0;
  }
  if (!strcmp(op, "dump")) {
    NEED(3);
    unsigned id = strtoul(tok[2], NULL, 10);
    unsigned long afl;
    if (hwloc_memattr_get_flags(top, id, &afl) < 0) { fprintf(fout, "EINVAL\n"); return 0; }
    if (avoid_uncached_objinit && id < MAXATTR && pending_objinit[t][id]) known_class("uncached_obj_initiator");
    hwloc_obj_t objs[ARR]; hwloc_uint64_t vs[ARR]; unsigned nr = ARR;
    if (hwloc_memattr_get_targets(top, id, NULL, 0, &nr, objs, vs) < 0) { fprintf(fout, "dump-%s\n", errstr()); return 0; }
    fprintf(fout, "D %u", nr);
    for (unsigned i = 0; i < nr && i < ARR; i++) {
      if (!(afl & HWLOC_MEMATTR_FLAG_NEED_INITIATOR)) {
        fprintf(fout, " %llu=%llu", (unsigned long long) objs[i]->gp_index, (unsigned long long) vs[i]);
      } else {
        struct hwloc_location locs[ARR]; hwloc_uint64_t ivs[ARR]; unsigned ni = ARR;
        if (hwloc_memattr_get_initiators(top, id, objs[i], 0, &ni, locs, ivs) < 0) { fprintf(fout, " %llu[%s ]", (unsigned long long) objs[i]->gp_index, errstr()); continue; }
        fprintf(fout, " %llu[%u", (unsigned long long) objs[i]->gp_index, ni);
        for (unsigned k = 0; k < ni && k < ARR; k++) { fputc(' ', fout); show_loc(fout, top, &locs[k]); fprintf(fout, "=%llu", (unsigned long long) ivs[k]); }
        fprintf(fout, " ]");
      }
    }
    fputc('\n', fout);
    return 0;
  }
  BAD;
}

/* ---- generator ---- */
struct stat_entry { char name[64]; unsigned long n; };
static struct stat_entry stats[512]; static int nstats;
static void bump(const char *name) {
  for (int i = 0; i < nstats; i++) if (!strcmp(stats[i].name, name)) { stats[i].n++; return; }
  if (nstats < 512) { strncpy(stats[nstats].name, name, 63); stats[nstats].n = 1; nstats++; }
}
static void emit(const char *fmt, ...) {
  char line[4096]; va_list ap; va_start(ap, fmt); vsnprintf(line, sizeof line, fmt, ap); va_end(ap);
  exec_line(line);
  fflush(fops); fflush(fout);
}

static int mode;
static const char *synth[] = {
  "numa:4_pu:2", "pack:2_numa:2_core:2_pu:1", "pack:2_[numa]_core:2_[numa]_pu:2", "numa:1_pu:4", "numa:6_pu:1",
  "pack:2_numa:3_pu:2", "[numa]_pack:2_[numa]_core:2_pu:2", "numa:2_l2:2_core:2_pu:2", "pack:3_[numa]_[numa]_pu:2",
  "numa:4(indexes=2,0,3,1)_pu:2", "pack:2_[numa(memory=1000)]_[numa(memory=3000)]_core:2_[numa(memory=2000)]_pu:1",
  "numa:3(memory=4096)_core:2_pu:2", "group:2_numa:2_pu:2", "numa:5(indexes=4,3,2,1,0)_pu:1", "pu:3",
  "pack:2_[numa(indexes=3,1)]_l3:2_[numa(indexes=0,2,4,5)]_pu:2",
};
#define NSYNTH (sizeof synth / sizeof synth[0])
static const char *names[] = { "A0", "A1", "A2", "A3", "A4", "A5", "Bandwidth", "Capacity", "Latency", "my-attr" };
#define NNAMES (sizeof names / sizeof names[0])
static const char *subtypes[] = { "-", "HBM", "DRAM", "-" };

static unsigned nattrs(hwloc_topology_t t) { unsigned n = 0; const char *nm; while (hwloc_memattr_get_name(t, n, &nm) == 0) n++; return n; }

static hwloc_obj_t rand_obj(hwloc_topology_t t) { hwloc_obj_t objs[MAXOBJ]; int n = collect(t, objs); return objs[rng_below(n)]; }
static hwloc_obj_t rand_node(hwloc_topology_t t) {
  int nn = hwloc_get_nbobjs_by_type(t, HWLOC_OBJ_NUMANODE);
  return hwloc_get_obj_by_type(t, HWLOC_OBJ_NUMANODE, rng_below(nn));
}
static void ref_str(char *buf, size_t n, hwloc_obj_t o) { if (o) snprintf(buf, n, "g%llu", (unsigned long long) o->gp_index); else snprintf(buf, n, "null"); }

/* target: mostly NUMA nodes */
static void gen_target(hwloc_topology_t t, char *buf, size_t n, hwloc_obj_t *op) {
  unsigned r = rng_below(100);
  hwloc_obj_t o = r < 80 ? rand_node(t) : r < 96 ? rand_obj(t) : NULL;
  *op = o;
  if (r >= 99) { snprintf(buf, n, "g99999"); *op = NULL; } else ref_str(buf, n, o);
}
static unsigned long rand_submask(unsigned long m) { unsigned long r = m & rng_next(); if (!r) r = m & -m; return r; }
/* cpuset of a random object at the partition level chosen for (id, target) */
static unsigned long level_cpuset(hwloc_topology_t t, unsigned id, hwloc_obj_t tg) {
  int depth = hwloc_topology_get_depth(t);
  unsigned long long key = id * 7919ULL + (tg ? tg->gp_index : 0) * 104729ULL;
  int d = 1 + (int) (key % (unsigned) (depth > 1 ? depth - 1 : 1));
  if (d >= depth) d = depth - 1;
  int nb = hwloc_get_nbobjs_by_depth(t, d);
  return mask_of(hwloc_get_obj_by_depth(t, d, rng_below(nb))->cpuset);
}
/* initiator for set: kind chosen per attribute so that most attributes are consistently cpuset or object */
static void gen_init_set(hwloc_topology_t t, unsigned id, hwloc_obj_t tg, char *buf, size_t n) {
  unsigned r = rng_below(100);
  if (r < 3) { snprintf(buf, n, "-"); return; }
  if (r < 5) { snprintf(buf, n, rng_chance(50) ? "c:null" : "o:null"); return; }
  if (r < 6) { snprintf(buf, n, "x"); return; }
  if (r < 8) { snprintf(buf, n, "c:0"); return; }
  int objkind = (id % 3 == 1) ? rng_chance(85) : rng_chance(12);
  if (objkind) { char rb[32]; ref_str(rb, sizeof rb, rand_obj(t)); snprintf(buf, n, "o:%s", rb); return; }
  unsigned long m;
  if (mode == 0) m = level_cpuset(t, id, tg);
  else {
    unsigned k = rng_below(10);
    unsigned long root = mask_of(hwloc_get_root_obj(t)->cpuset);
    if (k < 4) m = mask_of(rand_obj(t)->cpuset ? rand_obj(t)->cpuset : hwloc_get_root_obj(t)->cpuset);
    else if (k < 7) m = rand_submask(root);
    else if (k < 9) m = rand_submask(root) | (1UL << rng_below(30));      /* may leave the root cpuset */
    else m = rng_next() & 0x3fffffffUL;
    if (!m) m = 1;
  }
  snprintf(buf, n, "c:%lx", m);
}
/* initiator for queries: stored ones, subsets, supersets, unrelated */
static void gen_init_query(hwloc_topology_t t, unsigned id, hwloc_obj_t tg, char *buf, size_t n) {
  unsigned r = rng_below(100);
  if (r < 6) { snprintf(buf, n, "-"); return; }
  if (r < 8) { snprintf(buf, n, rng_chance(50) ? "c:null" : "o:null"); return; }
  if (r < 9) { snprintf(buf, n, "x"); return; }
  if (r < 11) { snprintf(buf, n, "c:0"); return; }
  int objkind = (id % 3 == 1) ? rng_chance(80) : rng_chance(12);
  if (objkind) { char rb[32]; ref_str(rb, sizeof rb, rand_obj(t)); snprintf(buf, n, "o:%s", rb); return; }
  unsigned long m = level_cpuset(t, id, tg);
  unsigned long root = mask_of(hwloc_get_root_obj(t)->cpuset);
  unsigned k = rng_below(10);
  if (k < 4) ;                                   /* exactly a (probably) stored set */
  else if (k < 7) m = rand_submask(m);           /* subset */
  else if (k < 8) m |= rand_submask(root);       /* superset */
  else if (k < 9) m = rand_submask(root);
  else m = rand_submask(root | (1UL << rng_below(30)));
  if (!m) m = 1;
  snprintf(buf, n, "c:%lx", m);
}
static unsigned long long gen_value(void) {
  unsigned r = rng_below(100);
  if (r < 70) return rng_below(4);
  if (r < 85) return rng_below(100);
  if (r < 95) return rng_next() >> 1;
  return r < 98 ? 0xffffffffffffffffULL : 0x8000000000000000ULL;
}
static unsigned gen_id(hwloc_topology_t t) {
  unsigned n = nattrs(t), r = rng_below(100);
  if (r < 40 && n > 8) return 8 + rng_below(n - 8 > 3 ? 3 : n - 8);
  if (r < 55 && n > 8) return 8 + rng_below(n - 8);
  if (r < 75) return 2 + rng_below(2);
  if (r < 93) return rng_below(n);
  return n + rng_below(3);
}
static unsigned gen_flags0(void) { return rng_chance(3) ? 1 + rng_below(3) : 0; }
static unsigned gen_max(unsigned typical) { unsigned r = rng_below(10); return r < 3 ? 0 : r < 6 ? rng_below(typical + 1) : r < 8 ? typical : typical + 1 + rng_below(4); }

/* KNOWN DEFECT (see corpus/memattrs-known/dup_emptied.ops): hwloc_internal_memattrs_dup() keeps the source's
 * `targets` pointer when an attribute has nr_targets == 0 but a non-NULL array (all its targets were dropped by a
 * refresh): both topologies then own the same allocation (double free / use after free).  The verdict stream
 * avoids exactly this situation unless VERIF_C14_ALLOW_DUP_EMPTIED=1. */
static int dup_hazard(hwloc_topology_t t) {
  for (unsigned id = 0; id < t->nr_memattrs; id++)
    if (!t->memattrs[id].nr_targets && t->memattrs[id].targets) return 1;
  return 0;
}

/* KNOWN DEFECT 2 (corpus/memattrs-known/uncached_obj_initiator.ops): to_internal_location() leaves
 * iloc.location.object.obj uninitialised; hwloc_memattr_set_value() with an OBJECT initiator that is new for an
 * already stored target copies that garbage into the table and leaves CACHE_VALID set, so get_initiators /
 * get_best_initiator hand out an uninitialised pointer until the next refresh.  Unless
 * VERIF_C14_ALLOW_UNCACHED_OBJ_INITIATOR=1 the generator follows such a set_value by a set_value on a not yet
 * stored target of the same attribute (which clears CACHE_VALID, so the next access refreshes the pointers). */
static struct hwloc_internal_memattr_target_s *stored_target(hwloc_topology_t t, unsigned id, hwloc_obj_t tg) {
  if (id >= t->nr_memattrs || !tg) return NULL;
  struct hwloc_internal_memattr_s *a = &t->memattrs[id];
  for (unsigned j = 0; j < a->nr_targets; j++)
    if (a->targets[j].type == tg->type && (a->targets[j].gp_index == tg->gp_index
        || (tg->os_index != (unsigned) -1 && a->targets[j].os_index == tg->os_index))) return &a->targets[j];
  return NULL;
}
static int objinit_hazard(hwloc_topology_t t, unsigned id, hwloc_obj_t tg, hwloc_obj_t io) {
  if (id >= t->nr_memattrs || !tg || !io) return 0;
  if (!(t->memattrs[id].flags & HWLOC_MEMATTR_FLAG_NEED_INITIATOR)) return 0;
  struct hwloc_internal_memattr_target_s *st = stored_target(t, id, tg);
  if (!st) return 0;
  for (unsigned k = 0; k < st->nr_initiators; k++)
    if (st->initiators[k].initiator.type == HWLOC_LOCATION_TYPE_OBJECT
        && st->initiators[k].initiator.location.object.type == io->type
        && st->initiators[k].initiator.location.object.gp_index == io->gp_index) return 0;
  return 1;
}
static hwloc_obj_t fresh_target(hwloc_topology_t t, unsigned id) {
  hwloc_obj_t objs[MAXOBJ]; int n = collect(t, objs);
  int start = rng_below(n);
  for (int i = 0; i < n; i++) { hwloc_obj_t o = objs[(start + i) % n]; if (!stored_target(t, id, o)) return o; }
  return NULL;
}

/* generation steering only (read-only peek): a random stored (attribute, target[, initiator]) */
static int pick_stored(hwloc_topology_t t, unsigned *idp, hwloc_obj_t *tgp, char *lb, size_t n) {
  unsigned ids[64], ni = 0;
  for (unsigned id = 2; id < t->nr_memattrs && ni < 64; id++) if (t->memattrs[id].nr_targets) ids[ni++] = id;
  if (!ni) return 0;
  unsigned id = ids[rng_below(ni)];
  struct hwloc_internal_memattr_target_s *tg = &t->memattrs[id].targets[rng_below(t->memattrs[id].nr_targets)];
  hwloc_obj_t o = by_gp(t, tg->gp_index);
  if (!o) return 0;
  *idp = id; *tgp = o;
  if (lb && (t->memattrs[id].flags & HWLOC_MEMATTR_FLAG_NEED_INITIATOR) && tg->nr_initiators) {
    struct hwloc_internal_memattr_initiator_s *imi = &tg->initiators[rng_below(tg->nr_initiators)];
    if (imi->initiator.type == HWLOC_LOCATION_TYPE_CPUSET) {
      unsigned long m = mask_of(imi->initiator.location.cpuset);
      unsigned k = rng_below(10);
      if (k >= 5 && k < 8) m = rand_submask(m); else if (k == 8) m |= rand_submask(mask_of(hwloc_get_root_obj(t)->cpuset));
      snprintf(lb, n, "c:%lx", m);
    } else snprintf(lb, n, "o:g%llu", (unsigned long long) imi->initiator.location.object.gp_index);
    return 2;
  }
  return 1;
}

static void gen_load(int t) {
  emit("load %d %s", t, synth[rng_below(NSYNTH)]); bump("load");
  /* decorate: memory sizes, subtypes, a Misc object */
  int nn = hwloc_get_nbobjs_by_type(T[t], HWLOC_OBJ_NUMANODE);
  for (int i = 0; i < nn; i++) {
    hwloc_obj_t n = hwloc_get_obj_by_type(T[t], HWLOC_OBJ_NUMANODE, i);
    if (rng_chance(50)) { emit("setmem %d g%llu %u", t, (unsigned long long) n->gp_index, 1000 * (1 + rng_below(3))); bump("setmem"); }
    if (rng_chance(35)) { emit("subtype %d g%llu %s", t, (unsigned long long) n->gp_index, subtypes[rng_below(4)]); bump("subtype"); }
  }
  if (rng_chance(50)) { emit("misc %d g%llu m%u", t, (unsigned long long) rand_obj(T[t])->gp_index, rng_below(100)); bump("misc"); }
  emit("attrs %d", t); bump("attrs");
}

static void gen_restrict(int t) {
  hwloc_topology_t top = T[t];
  unsigned long root = mask_of(hwloc_get_root_obj(top)->cpuset);
  unsigned r = rng_below(100);
  unsigned long flags, set;
  if (r < 60) {
    /* by cpuset: drop the PUs of a few random objects (whole nodes become CPU-less when kept) */
    static const unsigned long fl[] = { 0, 0, 1, 1, 2, 3, 4 };
    flags = fl[rng_below(7)];
    set = root;
    int k = 1 + rng_below(2);
    while (k--) { hwloc_obj_t o = rand_obj(top); if (o->cpuset) set &= ~mask_of(o->cpuset); }
    if (rng_chance(25)) set = rand_submask(root);
    if (rng_chance(5)) set = 0;
    if (rng_chance(5)) set |= 1UL << 40;
  } else if (r < 90) {
    static const unsigned long fl[] = { 8, 8, 24, 24, 10 };
    flags = fl[rng_below(5)];
    unsigned long nodes = mask_of(hwloc_get_root_obj(top)->nodeset);
    set = nodes & ~(1UL << hwloc_bitmap_first(rand_node(top)->nodeset));
    if (rng_chance(25)) set = rand_submask(nodes);
    if (rng_chance(5)) set = 0;
  } else {
    flags = rng_chance(50) ? 32 : 9;     /* invalid flag words */
    set = root;
  }
  emit("restrict %d %lu %lx", t, flags, set); bump(flags & 8 ? "restrict.bynodeset" : "restrict.bycpuset");
  /* look at everything afterwards */
  unsigned n = nattrs(top);
  for (unsigned id = 2; id < n; id++) if (rng_chance(70)) { emit("dump %d %u", t, id); bump("dump"); }
}

static void gen_one(void) {
  int loaded[NT], nl = 0;
  for (int i = 0; i < NT; i++) if (T[i]) loaded[nl++] = i;
  unsigned r = rng_below(1000);
  if (!nl || r < 6) { gen_load(rng_below(NT)); return; }
  int t = loaded[rng_below(nl)];
  hwloc_topology_t top = T[t];
  char tb[32], lb[64]; hwloc_obj_t tg;
  if (r < 22) { gen_restrict(t); return; }
  if (r < 34) {
    int d = rng_below(NT); if (d == t) d = (d + 1) % NT;
    int isxml = rng_chance(55);
    if (!isxml && avoid_dup_emptied && dup_hazard(top)) { isxml = 1; bump("dup.avoided-known-defect"); }
    emit("%s %d %d", isxml ? "xml" : "dup", d, t); bump(isxml ? "xml" : "dup");
    emit("attrs %d", d);
    unsigned n = nattrs(top);
    for (unsigned id = 2; id < n; id++) if (rng_chance(80)) { emit("dump %d %u", d, id); bump("dump"); }
    return;
  }
  if (r < 38) { emit("refresh %d", t); bump("refresh"); return; }
  if (r < 42) { emit("attrs %d", t); bump("attrs"); return; }
  if (r < 47) { hwloc_obj_t n = rand_node(top); emit("setmem %d g%llu %u", t, (unsigned long long) n->gp_index, 1000 * (1 + rng_below(3))); bump("setmem"); return; }
  if (r < 52) { hwloc_obj_t n = rand_node(top); emit("subtype %d g%llu %s", t, (unsigned long long) n->gp_index, subtypes[rng_below(4)]); bump("subtype"); return; }
  if (r < 55) { emit("misc %d g%llu m%u", t, (unsigned long long) rand_obj(top)->gp_index, rng_below(100)); bump("misc"); return; }
  if (r < 95) {
    if (nattrs(top) >= 16) { emit("attrs %d", t); return; }
    emit("register %d %s %u", t, names[rng_below(NNAMES)], rng_chance(90) ? rng_below(8) : 8 + rng_below(20)); bump("register"); return;
  }
  unsigned id = gen_id(top);
  if (r < 400) {
    gen_target(top, tb, sizeof tb, &tg); gen_init_set(top, id, tg, lb, sizeof lb);
    hwloc_obj_t fresh = NULL;
    if (avoid_uncached_objinit && !strncmp(lb, "o:g", 3) && objinit_hazard(top, id, tg, by_gp(top, strtoull(lb + 3, NULL, 10)))) {
      fresh = fresh_target(top, id);
      if (!fresh) snprintf(lb, sizeof lb, "c:%lx", level_cpuset(top, id, tg));
    }
    emit("set %d %u %s %s %u %llu", t, id, tb, lb, gen_flags0(), gen_value()); bump("set");
    if (fresh) { emit("set %d %u g%llu %s 0 %llu", t, id, (unsigned long long) fresh->gp_index, lb, gen_value()); bump("set.invalidate-cache(known-defect-2-avoidance)"); }
    return;
  }
  if (r < 560) {
    gen_target(top, tb, sizeof tb, &tg); gen_init_query(top, id, tg, lb, sizeof lb);
    if (rng_chance(65)) { unsigned id2; hwloc_obj_t tg2; char lb2[64]; int k = pick_stored(top, &id2, &tg2, lb2, sizeof lb2);
      if (k) { id = id2; tg = tg2; ref_str(tb, sizeof tb, tg); if (k == 2 && rng_chance(80)) strcpy(lb, lb2); else gen_init_query(top, id, tg, lb, sizeof lb); } }
    emit("get %d %u %s %s %u", t, id, tb, lb, gen_flags0()); bump("get"); return;
  }
  if (r < 640) {
    gen_init_query(top, id, rand_node(top), lb, sizeof lb);
    if (rng_chance(60)) { unsigned id2; hwloc_obj_t tg2; char lb2[64]; int k = pick_stored(top, &id2, &tg2, lb2, sizeof lb2);
      if (k) { id = id2; if (k == 2 && rng_chance(80)) strcpy(lb, lb2); } }
    unsigned mx = gen_max(hwloc_get_nbobjs_by_type(top, HWLOC_OBJ_NUMANODE));
    int an = rng_chance(8);
    emit("targets %d %u %s %u %u %d %d", t, id, lb, gen_flags0(), an && rng_chance(70) ? 0 : mx, rng_chance(75), an); bump("targets"); return;
  }
  if (r < 710) {
    gen_target(top, tb, sizeof tb, &tg);
    if (rng_chance(65)) { unsigned id2; hwloc_obj_t tg2; if (pick_stored(top, &id2, &tg2, NULL, 0)) { id = id2; tg = tg2; ref_str(tb, sizeof tb, tg); } }
    int an = rng_chance(8);
    emit("inits %d %u %s %u %u %d %d", t, id, tb, gen_flags0(), an && rng_chance(70) ? 0 : gen_max(3), rng_chance(75), an); bump("inits"); return;
  }
  if (r < 790) { gen_init_query(top, id, rand_node(top), lb, sizeof lb);
    if (rng_chance(65)) { unsigned id2; hwloc_obj_t tg2; char lb2[64]; int k = pick_stored(top, &id2, &tg2, lb2, sizeof lb2);
      if (k) { id = id2; if (k == 2 && rng_chance(85)) strcpy(lb, lb2); } }
    emit("besttgt %d %u %s %u", t, id, lb, gen_flags0()); bump("besttgt"); return; }
  if (r < 850) { gen_target(top, tb, sizeof tb, &tg);
    if (rng_chance(70)) { unsigned id2; hwloc_obj_t tg2; if (pick_stored(top, &id2, &tg2, NULL, 0)) { id = id2; tg = tg2; ref_str(tb, sizeof tb, tg); } }
    emit("bestinit %d %u %s %u", t, id, tb, gen_flags0()); bump("bestinit"); return; }
  if (r < 940) {
    unsigned k = rng_below(100);
    if (k < 8) snprintf(lb, sizeof lb, "-");
    else if (k < 10) snprintf(lb, sizeof lb, "x");
    else if (k < 50) { char rb[32]; ref_str(rb, sizeof rb, rand_obj(top)); snprintf(lb, sizeof lb, "o:%s", rb); }
    else if (k < 80) { hwloc_obj_t o = rand_obj(top); snprintf(lb, sizeof lb, "c:%lx", o->cpuset ? mask_of(o->cpuset) : 1UL); }
    else snprintf(lb, sizeof lb, "c:%lx", rng_chance(10) ? 0UL : rand_submask(mask_of(hwloc_get_root_obj(top)->cpuset) | (rng_chance(10) ? 1UL << 33 : 0)));
    int an = rng_chance(6);
    unsigned fl = rng_chance(94) ? rng_below(8) : 8 + rng_below(9);
    emit("local %d %s %u %u %d", t, lb, fl, an && rng_chance(70) ? 0 : gen_max(3), an); bump("local"); return;
  }
  if (r < 975) { emit("defns %d %u", t, rng_chance(92) ? 0 : 1 + rng_below(3)); bump("defns"); return; }
  emit("dump %d %u", t, id); bump("dump");
}

int main(int argc, char **argv) {
  if (getenv("VERIF_C14_ALLOW_DUP_EMPTIED")) avoid_dup_emptied = 0;
  if (getenv("VERIF_C14_ALLOW_UNCACHED_OBJ_INITIATOR")) avoid_uncached_objinit = 0;
  if (argc >= 5 && !strcmp(argv[1], "--replay")) {
    FILE *in = fopen(argv[2], "r"); fout = fopen(argv[3], "w"); fops = fopen(argv[4], "w");
    if (!in || !fout || !fops) return 2;
    char line[4096];
    while (fgets(line, sizeof line, in)) { exec_line(line); fflush(fops); fflush(fout); }
    fclose(in); fclose(fout); fclose(fops);
    for (int i = 0; i < NT; i++) destroy_slot(i);
    return 0;
  }
  if (argc < 6) { fprintf(stderr, "usage\n"); return 2; }
  unsigned long nops = strtoul(argv[1], NULL, 10);
  fops = fopen(argv[2], "w"); fout = fopen(argv[3], "w");
  if (!fops || !fout) return 2;
  mode = atoi(argv[5]);
  rng_seed(rng_seed_from_env());
  for (unsigned long i = 0; i < nops; i++) gen_one();
  fclose(fops); fclose(fout);
  FILE *fs = fopen(argv[4], "w");
  if (fs) { for (int i = 0; i < nstats; i++) fprintf(fs, "%s %lu\n", stats[i].name, stats[i].n); fclose(fs); }
  for (int i = 0; i < NT; i++) destroy_slot(i);
  return 0;
}
