/* C02 harness (engine `topo-history`): histories of public modifying calls on real topologies; after EVERY step
 * (success or failure) the topology is dumped for the Lean oracle and for the model's prediction.
 *
 * usage: history gen <ncases> <sources-file> <ops-out> <c-out>        (seed = VERIF_SEED)
 *        history replay <script-file> <ops-out> <c-out>
 * script / protocol lines (ops-out is what the Lean driver reads, c-out what the C side claims):
 *   LOAD <kind> <flags> <filters> <arg>      start a new topology (same plan syntax as h_topoload)
 *   OP <op...>                               the call about to be made (object arguments are DFS ids of the last dump)
 *   RET <ret> <errno-name>                   its result
 *   <dump block TOPO..END>                   the topology after the call
 *   UD <ok | bad ...>                        userdata pointers of surviving objects unchanged (checked here, in C)
 */
#include "dump.h"
#include "rng.h"
#include <errno.h>
#include <stdarg.h>
#include <unistd.h>
#include <hwloc/distances.h>
#include <hwloc/memattrs.h>
#include <hwloc/cpukinds.h>

static FILE *fops, *fc;
static hwloc_topology_t topo;
static hwloc_obj_t *objs; static unsigned nobjs, capobjs;
static unsigned stepno;

static void both(const char *fmt, ...) {
  char line[8192]; va_list ap; va_start(ap, fmt); vsnprintf(line, sizeof line, fmt, ap); va_end(ap);
  fprintf(fops, "%s\n", line);
}

static void collect(hwloc_obj_t o) {
  hwloc_obj_t c; unsigned i;
  if (nobjs == capobjs) { capobjs = capobjs ? 2 * capobjs : 256; objs = realloc(objs, capobjs * sizeof(*objs)); }
  objs[nobjs++] = o;
  for (i = 0; i < o->arity; i++) collect(o->children[i]);
  for (c = o->memory_first_child; c; c = c->next_sibling) collect(c);
  for (c = o->io_first_child; c; c = c->next_sibling) collect(c);
  for (c = o->misc_first_child; c; c = c->next_sibling) collect(c);
}
static void recollect(void) { nobjs = 0; collect(hwloc_get_root_obj(topo)); }

static void *tag_of(hwloc_obj_t o) { return (void *) (uintptr_t) (0x10000 + o->gp_index); }
static void tag_all(void) { for (unsigned i = 0; i < nobjs; i++) if (!objs[i]->userdata) objs[i]->userdata = tag_of(objs[i]); }

static const char *errname(int e) {
  switch (e) { case 0: return "ok"; case EINVAL: return "EINVAL"; case ENOENT: return "ENOENT"; case EXDEV: return "EXDEV";
  case EBUSY: return "EBUSY"; case EPERM: return "EPERM"; case ENOSYS: return "ENOSYS"; case ENOMEM: return "ENOMEM"; case EEXIST: return "EEXIST"; default: return "other"; }
}

struct prevobj { hwloc_obj_t o; unsigned long long gp; void *ud; };
static struct prevobj *prev; static unsigned nprev, capprev;
static int prev_cmp(const void *a, const void *b) { const struct prevobj *x = a, *y = b; return x->o < y->o ? -1 : x->o > y->o; }
/* after a call: RET line, dump, userdata check */
static void after(long ret, int err) {
  char tag[32];
  unsigned lines;
  snprintf(tag, sizeof tag, "s%u", stepno++);
  fprintf(fops, "RET %ld %s\n", ret, ret < 0 ? errname(err) : "ok"); fprintf(fc, ".\n");
  lines = dump_topology(fops, topo, tag);
  /* the END line is answered below, everything before it by "." */
  for (unsigned i = 0; i + 1 < lines; i++) fprintf(fc, ".\n");
  recollect();
  int bad = 0; unsigned long long badgp = 0;
  for (unsigned i = 0; i < nobjs; i++)
    if (objs[i]->userdata && objs[i]->userdata != tag_of(objs[i])) { bad = 1; badgp = objs[i]->gp_index; }
  /* pointer-keyed stability: an object (pointer) that was linked before the call and still is keeps its gp_index and userdata
   * (no modelled call both frees a linked object and allocates a new one, so a surviving address is the same object) */
  for (unsigned i = 0; i < nobjs && !bad; i++) {
    unsigned lo = 0, hi = nprev;
    while (lo < hi) { unsigned mid = (lo + hi) / 2; if (prev[mid].o < objs[i]) lo = mid + 1; else hi = mid; }
    if (lo < nprev && prev[lo].o == objs[i] && (prev[lo].gp != objs[i]->gp_index || prev[lo].ud != objs[i]->userdata)) { bad = 2; badgp = prev[lo].gp; }
  }
  tag_all();
  if (nobjs > capprev) { capprev = 2 * nobjs; prev = realloc(prev, capprev * sizeof(*prev)); }
  for (unsigned i = 0; i < nobjs; i++) { prev[i].o = objs[i]; prev[i].gp = objs[i]->gp_index; prev[i].ud = objs[i]->userdata; }
  nprev = nobjs; qsort(prev, nprev, sizeof(*prev), prev_cmp);
  fprintf(fc, "OK\n");                     /* answer to END: the model must find WF + prediction + stability OK */
  /* the side structures stay consistent with the tree after every call (public API only): CPU kinds are non-empty, pairwise disjoint
   * (a registration may name PUs the topology does not have: no inclusion clause), with efficiencies 0..nr-1 in order or all -1 (the invariants proved for C15); every other step (so
   * that stale caches still reach the next call half of the time) the distances structures name >= 2 objects of this very tree */
  const char *sidebad = NULL;
  { int nr = hwloc_cpukinds_get_nr(topo, 0); hwloc_bitmap_t seen = hwloc_bitmap_alloc(), cs = hwloc_bitmap_alloc(); int allm1 = 1, inorder = 1;
    for (int k = 0; k < nr && !sidebad; k++) {
      int eff = -2; if (hwloc_cpukinds_get_info(topo, (unsigned) k, cs, &eff, NULL, 0) < 0) { sidebad = "cpukind-get-info-fails"; break; }
      if (hwloc_bitmap_iszero(cs)) sidebad = "cpukind-empty";
      else if (hwloc_bitmap_intersects(cs, seen)) sidebad = "cpukinds-overlap";
      hwloc_bitmap_or(seen, seen, cs);
      if (eff != -1) allm1 = 0;
      if (eff != k) inorder = 0;
    }
    if (!sidebad && nr > 0 && !allm1 && !inorder) sidebad = "cpukind-efficiencies-not-0..nr-1";
    if (!sidebad && nr == 1 && allm1) sidebad = "single-cpukind-unranked";
    hwloc_bitmap_free(seen); hwloc_bitmap_free(cs); }
  { static unsigned long stepno; if (!sidebad && (stepno++ & 1)) {
      unsigned nd = 0; hwloc_distances_get(topo, &nd, NULL, 0, 0);
      struct hwloc_distances_s **ds = calloc(nd + 1, sizeof *ds); unsigned got = nd; hwloc_distances_get(topo, &got, ds, 0, 0);
      for (unsigned k = 0; k < got && k < nd; k++) {
        if (ds[k]->nbobjs < 2) sidebad = "distances-with-fewer-than-2-objects";
        for (unsigned j = 0; j < ds[k]->nbobjs && !sidebad; j++) {
          int found = 0; for (unsigned i = 0; i < nobjs; i++) if (objs[i] == ds[k]->objs[j]) { found = 1; break; }
          if (!found) sidebad = "distances-object-not-in-the-tree";
        }
        hwloc_distances_release(topo, ds[k]);
      }
      free(ds);
  } }
  if (sidebad && !bad) { fprintf(fops, "UD bad-%s\n", sidebad); bad = -1; }
  else
  if (bad) fprintf(fops, "UD bad%s gp=%llu\n", bad == 2 ? "-surviving-pointer" : "", badgp); else fprintf(fops, "UD ok\n");
  fprintf(fc, "UD ok\n");
  fflush(fops); fflush(fc);
  /* hwloc's own assert-based checker must accept every state of a history too (an abort ends the harness: the engine reports it) */
  hwloc_topology_check(topo);
}

static hwloc_bitmap_t set_from_hex(const char *s) {
  if (!strcmp(s, "-")) return NULL;
  hwloc_bitmap_t b = hwloc_bitmap_alloc();
  int inf = 0;
  if (*s == 'I') { inf = 1; s++; }
  size_t n = strlen(s);
  /* hex big number, least significant digit last */
  for (size_t i = 0; i < n; i++) {
    char c = s[n - 1 - i]; unsigned v = (c >= '0' && c <= '9') ? c - '0' : (c >= 'a' && c <= 'f') ? c - 'a' + 10 : 0;
    for (int k = 0; k < 4; k++) if (v & (1u << k)) hwloc_bitmap_set(b, 4 * i + k);
  }
  if (inf) hwloc_bitmap_set_range(b, 4 * n, -1);
  return b;
}
static unsigned long st_group_holes, st_group_cut;   /* generator counters (debugging aid) */
static void hex_of_set(char *dst, size_t cap, hwloc_const_bitmap_t s) {
  if (!s) { snprintf(dst, cap, "-"); return; }
  int inf = hwloc_bitmap_weight(s) == -1;
  int last = inf ? hwloc_bitmap_last_unset(s) : hwloc_bitmap_last(s);
  size_t off = 0;
  if (inf) dst[off++] = 'I';
  if (last < 0) { dst[off++] = '0'; dst[off] = 0; return; }
  int started = 0;
  for (int i = last / 64; i >= 0; i--) {
    unsigned long w = hwloc_bitmap_to_ith_ulong(s, i);
    off += snprintf(dst + off, cap - off, started ? "%016lx" : "%lx", w); started = 1;
  }
}
static char *unhex(const char *h) {
  if (!strcmp(h, "-")) return NULL;
  if (!strcmp(h, "=")) return strdup("");
  size_t n = strlen(h) / 2; char *s = malloc(n + 1);
  for (size_t i = 0; i < n; i++) { unsigned v; sscanf(h + 2 * i, "%2x", &v); s[i] = (char) v; }
  s[n] = 0; return s;
}

static int load_case(char kind, unsigned long flags, const char *filters, const char *arg) {
  unsetenv("HWLOC_FSROOT"); unsetenv("HWLOC_CPUID_PATH"); unsetenv("HWLOC_COMPONENTS");
  if (topo) { hwloc_topology_destroy(topo); topo = NULL; }
  if (hwloc_topology_init(&topo) < 0) return -1;
  for (int ty = 0; ty < HWLOC_OBJ_TYPE_MAX && filters[ty]; ty++)
    if (filters[ty] >= '0' && filters[ty] <= '3') hwloc_topology_set_type_filter(topo, (hwloc_obj_type_t) ty, (enum hwloc_type_filter_e) (filters[ty] - '0'));
  if (hwloc_topology_set_flags(topo, flags) < 0) goto fail;
  int err = 0;
  switch (kind) {
  case 'S': err = hwloc_topology_set_synthetic(topo, arg); break;
  case 'X': err = hwloc_topology_set_xml(topo, arg); break;
  default: err = -1;
  }
  if (err < 0 || hwloc_topology_load(topo) < 0) goto fail;
  nprev = 0; recollect(); tag_all();
  return 0;
fail:
  hwloc_topology_destroy(topo); topo = NULL; return -1;
}

/* execute one OP line (already written to fops); returns 0 if executed */
static void exec_op(char *line) {
  char *tok[64]; int nt = 0; char *save = NULL;
  for (char *t = strtok_r(line, " \n", &save); t && nt < 64; t = strtok_r(NULL, " \n", &save)) tok[nt++] = t;
  /* tok[0] = "OP" */
  const char *op = tok[1];
  long ret = -1; int err = 0;
  errno = 0;
#define OBJ(k) (objs[strtoul(tok[k], NULL, 10) % nobjs])
  if (!strcmp(op, "allow")) {
    hwloc_bitmap_t c = set_from_hex(tok[3]), n = set_from_hex(tok[4]);
    ret = hwloc_topology_allow(topo, c, n, strtoul(tok[2], NULL, 10)); err = errno;
    hwloc_bitmap_free(c); hwloc_bitmap_free(n);
  } else if (!strcmp(op, "addinfo")) {
    char *n = unhex(tok[3]), *v = unhex(tok[4]);
    ret = hwloc_obj_add_info(OBJ(2), n, v); err = errno; free(n); free(v);
  } else if (!strcmp(op, "modinfos")) {
    char *n = unhex(tok[4]), *v = unhex(tok[5]);
    ret = hwloc_modify_infos(&OBJ(2)->infos, strtoul(tok[3], NULL, 10), n, v); err = errno; free(n); free(v);
  } else if (!strcmp(op, "subtype")) {
    char *s = unhex(tok[3]);
    ret = hwloc_obj_set_subtype(topo, OBJ(2), s); err = errno; free(s);
  } else if (!strcmp(op, "misc")) {
    char *s = unhex(tok[3]);
    hwloc_obj_t m = hwloc_topology_insert_misc_object(topo, OBJ(2), s); err = errno; free(s);
    ret = m ? 0 : -1;
  } else if (!strcmp(op, "restrict")) {
    hwloc_bitmap_t s = set_from_hex(tok[2]);
    ret = hwloc_topology_restrict(topo, s, strtoul(tok[3], NULL, 10)); err = errno; hwloc_bitmap_free(s);
  } else if (!strcmp(op, "group")) {
    /* group <cpuset|-> <nodeset|-> <dont_merge> <subtype hex|-> */
    hwloc_obj_t g = hwloc_topology_alloc_group_object(topo);
    if (g) {
      hwloc_bitmap_t c = set_from_hex(tok[2]), n = set_from_hex(tok[3]);
      if (c) { g->cpuset = c; }
      if (n) { g->nodeset = n; }
      g->attr->group.dont_merge = (unsigned char) atoi(tok[4]);
      if (nt >= 8) { g->attr->group.kind = (unsigned) atoi(tok[6]); g->attr->group.subkind = (unsigned) atoi(tok[7]); }   /* optional <kind> <subkind> */
      /* every other Group arrives with application userdata already attached (C02-r7): whatever the merge decides, the userdata of
       * the objects that were in the topology before the call must not change (checked by pointer in after()) */
      static int incoming_token;
      if ((strlen(tok[2]) + (unsigned) atoi(tok[4]) + stepno) & 1) g->userdata = &incoming_token;
      hwloc_obj_t r = hwloc_topology_insert_group_object(topo, g); err = errno;
      ret = r ? (r == g ? 0 : 1) : -1;   /* 0 inserted, 1 merged into an existing object, -1 refused */
      if (r == g && g->userdata == &incoming_token) g->userdata = NULL;   /* a new object: ours to tag (tag_all) */
    }
  } else if (!strcmp(op, "groupfree")) {
    hwloc_obj_t g = hwloc_topology_alloc_group_object(topo);
    if (g) { ret = hwloc_topology_free_group_object(topo, g); err = errno; }
  } else if (!strcmp(op, "distadd")) {
    /* distadd <depth> <first lidx> <n> <kind> <flags> <seed> */
    int depth = atoi(tok[2]); unsigned first = atoi(tok[3]), n = atoi(tok[4]); unsigned long kind = strtoul(tok[5], NULL, 10), fl = strtoul(tok[6], NULL, 10);
    uint64_t sd = strtoull(tok[7], NULL, 10);
    hwloc_obj_t os[64]; hwloc_uint64_t vals[64 * 64]; unsigned k = 0;
    for (unsigned i = 0; i < n && i < 64; i++) { hwloc_obj_t o = hwloc_get_obj_by_depth(topo, depth, first + i); if (o) os[k++] = o; }
    for (unsigned i = 0; i < k; i++) for (unsigned j = 0; j < k; j++) {
      /* block structure so that grouping finds groups: close within pairs/quads */
      unsigned bi = i / (1 + sd % 3), bj = j / (1 + sd % 3);
      vals[i * k + j] = i == j ? 10 : (bi == bj ? 12 : 20 + ((sd >> 8) % 2) * ((bi / 2 == bj / 2) ? 0 : 10));
    }
    hwloc_distances_add_handle_t h = hwloc_distances_add_create(topo, "verif", kind, 0);
    if (h) {
      if (hwloc_distances_add_values(topo, h, k, os, vals, 0) < 0) { err = errno; ret = -1; /* handle freed by add_values on error */ }
      else { ret = hwloc_distances_add_commit(topo, h, fl); err = errno; }
    } else err = errno;
  } else if (!strcmp(op, "distremove")) {
    ret = hwloc_distances_remove(topo); err = errno;
  } else if (!strcmp(op, "memattr")) {
    /* memattr <flags> <node lidx> <value> */
    hwloc_memattr_id_t id;
    char name[32]; snprintf(name, sizeof name, "verif%u", stepno);
    ret = hwloc_memattr_register(topo, name, strtoul(tok[2], NULL, 10), &id); err = errno;
    if (!ret) {
      hwloc_obj_t node = hwloc_get_obj_by_type(topo, HWLOC_OBJ_NUMANODE, atoi(tok[3]));
      if (node) { struct hwloc_location loc; loc.type = HWLOC_LOCATION_TYPE_CPUSET; loc.location.cpuset = hwloc_get_root_obj(topo)->cpuset;
        ret = hwloc_memattr_set_value(topo, id, node, (strtoul(tok[2], NULL, 10) & HWLOC_MEMATTR_FLAG_NEED_INITIATOR) ? &loc : NULL, 0, strtoull(tok[4], NULL, 10)); err = errno; }
    }
  } else if (!strcmp(op, "cpukind")) {
    hwloc_bitmap_t s = set_from_hex(tok[2]);
    ret = hwloc_cpukinds_register(topo, s, atoi(tok[3]), NULL, 0); err = errno; hwloc_bitmap_free(s);
  } else if (!strcmp(op, "refresh")) {
    ret = hwloc_topology_refresh(topo); err = errno;
  } else { ret = -99; }
  after(ret, err);
}

/* ---- generator ---- */
static const char *names[] = {"Foo", "Bar", "Backend", "X", "Foo"};
static const char *values[] = {"1", "2", "a", "", "1"};
static void hexs(char *dst, const char *s) { if (!*s) { strcpy(dst, "="); return; } for (; *s; s++) dst += sprintf(dst, "%02x", (unsigned char) *s); }

static void gen_set(char *dst, size_t cap, hwloc_const_bitmap_t universe) {
  hwloc_bitmap_t s = hwloc_bitmap_alloc();
  unsigned k = rng_below(10);
  int last = hwloc_bitmap_last(universe); if (last < 0) last = 0;
  if (k == 0) hwloc_bitmap_zero(s);
  else if (k == 1) hwloc_bitmap_fill(s);
  else if (k == 2) { hwloc_bitmap_copy(s, universe); }
  else if (k == 3) { hwloc_bitmap_set_range(s, last + 1, last + 4); }      /* disjoint */
  else if (k == 4) { hwloc_bitmap_set(s, rng_below(last + 1)); }
  else if (k == 5) { hwloc_bitmap_copy(s, universe); hwloc_bitmap_clr(s, rng_below(last + 1)); }
  else if (k == 6) { unsigned a = rng_below(last + 1); hwloc_bitmap_set_range(s, a, -1); }
  else { unsigned a = rng_below(last + 1), b = a + rng_below(last + 2 - a); hwloc_bitmap_set_range(s, a, b); if (rng_chance(30)) hwloc_bitmap_set(s, rng_below(last + 3)); }
  hex_of_set(dst, cap, s); hwloc_bitmap_free(s);
}

/* force >= 0: take that value for the op selector (scenario skeletons), -1: random */
static int force_r = -1, force_focus = 0;
static void gen_op(char *line, size_t cap) {
  char a[600], b[600], h1[64], h2[64];
  unsigned r = force_r >= 0 ? (unsigned) force_r : rng_below(100);
  hwloc_obj_t root = hwloc_get_root_obj(topo);
  unsigned id = rng_below(nobjs);
  if (r < 12) {
    static const unsigned long fl[] = {1, 1, 4, 4, 4, 4, 2, 0, 3, 8};
    unsigned long f = fl[rng_below(10)];
    if (f == 4 || rng_chance(15)) { if (rng_chance(80)) gen_set(a, sizeof a, root->complete_cpuset); else strcpy(a, "-"); if (rng_chance(60)) gen_set(b, sizeof b, root->complete_nodeset); else strcpy(b, "-"); }
    else { strcpy(a, "-"); strcpy(b, "-"); }
    snprintf(line, cap, "OP allow %lu %s %s", f, a, b);
  } else if (r < 22) {
    hexs(h1, names[rng_below(5)]); hexs(h2, values[rng_below(5)]);
    snprintf(line, cap, "OP addinfo %u %s %s", id, rng_chance(5) ? "-" : h1, rng_chance(5) ? "-" : h2);
  } else if (r < 42) {
    static const unsigned long opv[] = {1, 2, 4, 8, 4, 8, 16, 3};
    unsigned long o = opv[rng_below(8)];
    hexs(h1, names[rng_below(5)]); hexs(h2, values[rng_below(5)]);
    /* prefer objects that already have infos */
    for (int k = 0; k < 4 && !objs[id]->infos.count; k++) id = rng_below(nobjs);
    snprintf(line, cap, "OP modinfos %u %lu %s %s", id, o, rng_chance(15) ? "-" : h1, rng_chance(25) ? "-" : h2);
  } else if (r < 47) {
    hexs(h1, names[rng_below(5)]);
    snprintf(line, cap, "OP subtype %u %s", id, rng_chance(20) ? "-" : h1);
  } else if (r < 57) {
    hexs(h1, names[rng_below(5)]);
    /* bias: Groups, children of Groups, and parents/children of objects that already own Misc (level merges must re-home them) */
    if (force_focus || rng_chance(60)) for (int k = 0; k < 12; k++) {
      unsigned r2 = rng_below(nobjs); hwloc_obj_t o = objs[r2];
      if (o->type == HWLOC_OBJ_GROUP || (o->parent && (o->parent->type == HWLOC_OBJ_GROUP || o->parent->misc_arity)) || (o->first_child && o->first_child->misc_arity)
          || (o->arity == 1) || (o->parent && o->parent->arity == 1)) { id = r2; break; }
    }
    /* any object may adopt a Misc: memory objects (NUMA nodes, memory-side caches) and the Misc objects below them one time in five */
    if (rng_chance(20)) for (int k = 0; k < 30; k++) {
      unsigned r2 = rng_below(nobjs); hwloc_obj_t o = objs[r2];
      if (o->type == HWLOC_OBJ_MEMCACHE || o->type == HWLOC_OBJ_NUMANODE || (o->type == HWLOC_OBJ_MISC && o->parent && !o->parent->cpuset)
          || (o->type == HWLOC_OBJ_MISC && o->parent && (o->parent->type == HWLOC_OBJ_MEMCACHE || o->parent->type == HWLOC_OBJ_NUMANODE))) { id = r2; break; }
    }
    /* I/O parents (bridges, PCI and OS devices) and the Misc objects below them, when the topology has any */
    if (rng_chance(8)) for (int k = 0; k < 40; k++) {
      unsigned r2 = rng_below(nobjs); hwloc_obj_t o = objs[r2];
      if (o->type == HWLOC_OBJ_BRIDGE || o->type == HWLOC_OBJ_PCI_DEVICE || o->type == HWLOC_OBJ_OS_DEVICE
          || (o->type == HWLOC_OBJ_MISC && o->parent && (o->parent->type == HWLOC_OBJ_PCI_DEVICE || o->parent->type == HWLOC_OBJ_OS_DEVICE || o->parent->type == HWLOC_OBJ_BRIDGE))) { id = r2; break; }
    }
    /* NULL name (obj->name stays NULL) and the empty name now and then */
    snprintf(line, cap, "OP misc %u %s", id, rng_chance(8) ? "-" : rng_chance(4) ? "=" : h1);
  } else if (r < 72) {
    int bynode = rng_chance(25);
    gen_set(a, sizeof a, bynode ? root->complete_nodeset : root->complete_cpuset);
    if (force_focus) bynode = 0;
    if (!bynode && (force_focus || rng_chance(45))) {
      /* keep exactly one normal child of some object (its level may then be merged with the child's), optionally with everything outside it */
      hwloc_obj_t p = objs[rng_below(nobjs)]; for (int k = 0; k < 12 && (p->arity < 2 || !p->cpuset); k++) p = objs[rng_below(nobjs)];
      if (force_focus) for (unsigned k = 0; k < nobjs; k++) { hwloc_obj_t g = objs[(k + id) % nobjs]; if (g->type == HWLOC_OBJ_GROUP && g->arity >= 2 && g->cpuset) { p = g; break; } }
      if (p->arity >= 2 && p->cpuset) {
        hwloc_bitmap_t s = hwloc_bitmap_alloc();
        if (rng_chance(50)) hwloc_bitmap_andnot(s, root->cpuset, p->cpuset);
        hwloc_bitmap_or(s, s, p->children[rng_below(p->arity)]->cpuset);
        hex_of_set(a, sizeof a, s); hwloc_bitmap_free(s);
      }
    }
    unsigned long fl = rng_below(32); if (bynode) fl |= 8; else fl &= ~8UL; if (rng_chance(3)) fl |= 64;
    snprintf(line, cap, "OP restrict %s %lu", a, fl);
  } else if (r < 87) {
    /* group: union of consecutive normal children of a random normal object, or a perturbed set */
    hwloc_obj_t p = objs[id]; for (int k = 0; k < 8 && (!p->arity || !p->cpuset); k++) p = objs[rng_below(nobjs)];
    hwloc_bitmap_t c = hwloc_bitmap_alloc(), n = NULL;
    if (p->arity) {
      unsigned f = rng_below(p->arity), cnt = 1 + rng_below(p->arity - f);
      if (p->arity >= 3 && rng_chance(40)) {
        /* any subset of the children, holes included (absorbed siblings separated by untouched ones) */
        for (unsigned i = 0; i < p->arity; i++) if (rng_chance(50)) hwloc_bitmap_or(c, c, p->children[i]->cpuset);
        if (hwloc_bitmap_iszero(c)) hwloc_bitmap_or(c, c, p->children[f]->cpuset);
        st_group_holes++;
      } else
      for (unsigned i = f; i < f + cnt; i++) hwloc_bitmap_or(c, c, p->children[i]->cpuset);
      unsigned k = rng_below(13);
      if (k >= 10) {
        /* cuts one more sibling: one PU (first, last or any) of a random child is added or removed -> partial intersection
         * after whole siblings were absorbed (the refused insert must put everything back where it was) */
        hwloc_obj_t ch = p->children[rng_below(p->arity)];
        int w = hwloc_bitmap_weight(ch->cpuset);
        if (w > 1) {
          int bit = k == 10 ? hwloc_bitmap_first(ch->cpuset) : k == 11 ? hwloc_bitmap_last(ch->cpuset) : -1;
          if (bit < 0) { unsigned nth = rng_below((unsigned) w); bit = hwloc_bitmap_first(ch->cpuset); while (nth--) bit = hwloc_bitmap_next(ch->cpuset, bit); }
          if (hwloc_bitmap_isset(c, bit)) hwloc_bitmap_clr(c, bit); else hwloc_bitmap_set(c, bit);
          st_group_cut++;
        }
      }
      if (k == 0) { int l = hwloc_bitmap_last(root->cpuset); hwloc_bitmap_set(c, rng_below(l + 2)); }            /* may straddle */
      else if (k == 1 && p->arity) { hwloc_bitmap_copy(c, p->cpuset); }                                          /* equal to an existing object */
      else if (k == 2) hwloc_bitmap_zero(c);
      else if (k == 3) { int fb = hwloc_bitmap_first(c); if (fb >= 0) hwloc_bitmap_clr(c, fb); }                   /* cuts a child */
      else if (k == 4) { n = hwloc_bitmap_alloc(); hwloc_bitmap_copy(n, p->nodeset); hwloc_bitmap_zero(c); }       /* nodeset-only group */
    }
    { /* 15 %: same cpuset as an existing Group (equal Groups: merge / replace / refuse-to-merge paths) */
      if (!n && rng_chance(15)) for (unsigned k2 = 0; k2 < nobjs; k2++) { hwloc_obj_t g = objs[(k2 + id) % nobjs]; if (g->type == HWLOC_OBJ_GROUP && g->cpuset) { hwloc_bitmap_copy(c, g->cpuset); break; } } }
    hex_of_set(a, sizeof a, hwloc_bitmap_iszero(c) && n ? NULL : c);
    hex_of_set(b, sizeof b, n);
    static const int kinds[] = {0, 34, 784, 1001};
    if (rng_chance(30)) snprintf(line, cap, "OP group %s %s %d - %d %u", a, b, force_focus ? 0 : rng_chance(40), kinds[rng_below(4)], rng_below(3));
    else snprintf(line, cap, "OP group %s %s %d -", a, b, force_focus ? 0 : rng_chance(25));
    hwloc_bitmap_free(c); hwloc_bitmap_free(n);
  } else if (r < 89) {
    snprintf(line, cap, "OP groupfree");
  } else if (r < 95) {
    int depth = rng_chance(50) ? HWLOC_TYPE_DEPTH_NUMANODE : (int) rng_below(hwloc_topology_get_depth(topo));
    unsigned w = hwloc_get_nbobjs_by_depth(topo, depth);
    unsigned n = 2 + rng_below(7); unsigned first = w > n ? rng_below(w - n + 1) : 0;
    static const unsigned long kinds[] = {5, 6, 9, 10, 5, 3, 0};   /* FROM_OS|MEANS_LATENCY etc., some invalid */
    static const unsigned long fls[] = {1, 1, 3, 0, 1, 4};          /* GROUP, GROUP|GROUP_INACCURATE, none, invalid */
    snprintf(line, cap, "OP distadd %d %u %u %lu %lu %llu", depth, first, n, kinds[rng_below(7)], fls[rng_below(6)], (unsigned long long) rng_below(1000));
  } else if (r < 96) {
    snprintf(line, cap, "OP distremove");
  } else if (r < 97) {
    snprintf(line, cap, "OP memattr %u %u %u", 1 + rng_below(6), rng_below(4), rng_below(100));
  } else if (r < 99) {
    gen_set(a, sizeof a, root->complete_cpuset);
    snprintf(line, cap, "OP cpukind %s %d", a, (int) rng_below(4) - 1);
  } else snprintf(line, cap, "OP refresh");
}

struct src { char kind; char path[1000]; };
static struct src *srcs; static unsigned nsrcs;

static void gen_synthetic(char *s, size_t cap) {
  static const char *shapes[] = {
    "pack:2 core:2 pu:2", "numa:2 core:2 pu:2", "pack:2 numa:2 l2:2 core:1 pu:2", "pack:2 [numa] l3:2 core:2 pu:1",
    "group:2 pack:2 [numa] core:2 pu:2", "pack:3 [numa] [numa] core:2 pu:1", "numa:4 pu:2", "pack:2 die:2 l3:1 core:2 pu:2",
    "pack:1 numa:2 core:3 pu:1", "2 2 2", "pack:2 [numa(memory=1GB)] l2:2 l1:1 core:1 pu:2", "pu:4", "pack:4 pu:1",
    "group:2 group:2 numa:1 core:2 pu:1", "pack:2 core:3 pu:2(indexes=core:pu)",
    /* memory-side caches (kept only when the MemCache filter says so): Misc below a MemCache, memory children behind caches */
    "pack:2 [numa(memory=1GB memorysidecachesize=256MB)] core:2 pu:2", "numa:2(memorysidecachesize=64MB) l2:2 core:1 pu:2",
    "pack:2 [numa(memorysidecachesize=128MB)] [numa] core:2 pu:1", "[numa(memorysidecachesize=1GB)] pack:2 core:2 pu:1" };
  snprintf(s, cap, "%s", shapes[rng_below(sizeof shapes / sizeof shapes[0])]);
}

int main(int argc, char **argv) {
  if (argc >= 5 && !strcmp(argv[1], "replay")) {
    FILE *in = fopen(argv[2], "r"); fops = fopen(argv[3], "w"); fc = fopen(argv[4], "w");
    if (!in || !fops || !fc) return 2;
    char line[8192];
    while (fgets(line, sizeof line, in)) {
      line[strcspn(line, "\n")] = 0;
      if (!strncmp(line, "LOAD ", 5)) {
        char filters[64], kind; unsigned long flags; int pos = 0;
        if (sscanf(line + 5, "%c %lu %63s %n", &kind, &flags, filters, &pos) < 3) continue;
        fprintf(fops, "%s\n", line); fprintf(fc, ".\n");
        if (load_case(kind, flags, filters, line + 5 + pos) < 0) { fprintf(fops, "LOADFAIL\n"); fprintf(fc, ".\n"); continue; }
        fprintf(fops, "OP load\n"); fprintf(fc, ".\n"); after(0, 0);
      } else if (!strncmp(line, "OP ", 3) && topo && strcmp(line, "OP load")) {
        fprintf(fops, "%s\n", line); fprintf(fc, ".\n"); fflush(fops);
        exec_op(line);
      }
    }
    if (topo) hwloc_topology_destroy(topo);
    free(objs);
    fclose(in); fclose(fops); fclose(fc);
    return 0;
  }
  if (argc < 6 || strcmp(argv[1], "gen")) { fprintf(stderr, "usage\n"); return 2; }
  unsigned long ncases = strtoul(argv[2], NULL, 10);
  FILE *fs = fopen(argv[3], "r");
  if (fs) { char line[1100]; while (fgets(line, sizeof line, fs)) { line[strcspn(line, "\n")] = 0; if (strlen(line) < 3 || line[0] != 'X') continue;
      srcs = realloc(srcs, (nsrcs + 1) * sizeof(*srcs)); srcs[nsrcs].kind = 'X'; strncpy(srcs[nsrcs].path, line + 2, 999); srcs[nsrcs].path[999] = 0; nsrcs++; } fclose(fs); }
  fops = fopen(argv[4], "w"); fc = fopen(argv[5], "w");
  if (!fops || !fc) return 2;
  rng_seed(rng_seed_from_env());
  for (unsigned long c = 0; c < ncases; c++) {
    char arg[1200], filters[32], line[8192]; char kind = 'S';
    unsigned long flags = rng_chance(55) ? 1 : 0;      /* INCLUDE_DISALLOWED often, allow() needs it */
    if (rng_chance(20)) flags |= 128 << rng_below(3);
    strcpy(filters, "--------------------");
    unsigned fm = rng_below(6);
    if (rng_chance(30)) fm = 2;                          /* Misc and I/O kept: the special-children code paths need them */
    if (fm == 0) { for (int i = 0; i < 20; i++) filters[i] = '0'; filters[13] = '-'; }
    else if (fm == 1) { for (int i = 0; i < 20; i++) filters[i] = '2'; }
    else if (fm == 2) { for (int i = 16; i < 20; i++) filters[i] = '0'; if (rng_chance(60)) filters[15] = '0'; /* MemCache */ }
    if (nsrcs && rng_chance(20)) { strcpy(arg, srcs[rng_below(nsrcs)].path); kind = 'X'; }
    else gen_synthetic(arg, sizeof arg);
    fprintf(fops, "LOAD %c %lu %s %s\n", kind, flags, filters, arg); fprintf(fc, ".\n"); fflush(fops);
    if (load_case(kind, flags, filters, arg) < 0) { fprintf(fops, "LOADFAIL\n"); fprintf(fc, ".\n"); continue; }
    if (nobjs > 400) { fprintf(fops, "LOADFAIL\n"); fprintf(fc, ".\n"); continue; }   /* keep dumps small */
    fprintf(fops, "OP load\n"); fprintf(fc, ".\n"); after(0, 0);
    unsigned nsteps = 2 + rng_below(rng_chance(30) ? 20 : 9);
    /* scenario skeleton (1 history in 4): insert a mergeable Group, hang Misc objects around it, restrict so that its level merges,
     * then go on randomly; every step is still an ordinary OP line */
    int scen[8], nscen = 0;
    if (rng_chance(25)) {
      scen[nscen++] = 75;
      for (unsigned k = 0, m = 2 + rng_below(3); k < m; k++) scen[nscen++] = 50;
      scen[nscen++] = 60;
      if (nsteps < (unsigned) nscen + 1) nsteps = nscen + 1;
    }
    for (unsigned s = 0; s < nsteps; s++) {
      force_r = s < (unsigned) nscen ? scen[s] : -1; force_focus = force_r >= 0 && rng_chance(85);
      gen_op(line, sizeof line);
      fprintf(fops, "%s\n", line); fprintf(fc, ".\n"); fflush(fops);
      exec_op(line);
    }
  }
  if (topo) hwloc_topology_destroy(topo);
  free(objs);
  fclose(fops); fclose(fc);
  return 0;
}
