/* C18 differential harness (engine `x86dump`, B7): the CPUID-dump reading layer of hwloc/topology-x86.c
 *   cpuiddump_read, cpuiddump_find_by_input, cpuiddump_free, hwloc_x86_check_cpuiddump_input
 * topology-x86.c is #included (static functions, private structs).
 *
 * usage: x86dump <ncases> <ops-file> <out-file> <stats-file>      (generate; seed = VERIF_SEED)
 *        x86dump --replay <ops-file> <out-file>
 * ops / answers: see lean/Driver/X86Dump.lean.  Files live under the scratch directory <out-file>.root.
 */
#include "private/autogen/config.h"
#include <stdio.h>
#include <stdarg.h>
#include <string.h>
/* hwloc's diagnostics on stderr (they quote file content and directory entry names: not UTF-8) are formatted into a
   scratch buffer (so that ASan still checks their arguments) and dropped; sanitizer reports keep going to fd 2 */
static int verif_fprintf(FILE *f, const char *fmt, ...) __attribute__((format(printf, 2, 3)));
static int verif_fprintf(FILE *f, const char *fmt, ...) {
  static char sink[4096]; va_list ap; int r;
  va_start(ap, fmt);
  r = f == stderr ? vsnprintf(sink, sizeof sink, fmt, ap) : vfprintf(f, fmt, ap);
  va_end(ap); return r;
}
#define fprintf verif_fprintf
#include "topology-x86.c"
#undef fprintf
#include "rng.h"
#include <sys/stat.h>
#include <ctype.h>

static FILE *fops, *fout;
static char root[1100], missing_dir[1200];

static int hexval(int c) { return c >= '0' && c <= '9' ? c - '0' : c >= 'a' && c <= 'f' ? c - 'a' + 10 : c >= 'A' && c <= 'F' ? c - 'A' + 10 : -1; }
static unsigned char *unhex(const char *h, size_t *len) {
  size_t n = strcmp(h, "-") ? strlen(h) / 2 : 0;
  unsigned char *b = malloc(n + 1);
  for (size_t i = 0; i < n; i++) b[i] = (unsigned char) (hexval(h[2 * i]) * 16 + hexval(h[2 * i + 1]));
  b[n] = 0; *len = n; return b;
}
static int write_file(const char *path, const unsigned char *b, size_t n) {
  FILE *f = fopen(path, "wb"); if (!f) return -1;
  if (n && fwrite(b, 1, n, f) != n) { fclose(f); return -1; }
  fclose(f); return 0;
}

/* ---------------- executor ---------------- */

static void run_queries(struct cpuiddump *d, char *qs) {
  fputs("Q=", fout);
  if (!strcmp(qs, "-")) { fputs("-", fout); return; }
  int first = 1;
  for (char *sv = NULL, *q = strtok_r(qs, ",", &sv); q; q = strtok_r(NULL, ",", &sv)) {
    unsigned a, b, c, e;
    if (sscanf(q, "%x.%x.%x.%x", &a, &b, &c, &e) != 4) { fputs("bad-query", fout); return; }
    cpuiddump_find_by_input(&a, &b, &c, &e, d);
    fprintf(fout, "%s%x.%x.%x.%x", first ? "" : ",", a, b, c, e); first = 0;
  }
}

static void put_table(struct cpuiddump *d) {
  if (!d->nr) { fputs("-", fout); return; }
  for (unsigned i = 0; i < d->nr; i++) {
    struct cpuiddump_entry *e = &d->entries[i];
    fprintf(fout, "%s%x.%x.%x.%x.%x.%x.%x.%x.%x", i ? ";" : "", e->inmask, e->ineax, e->inebx, e->inecx, e->inedx,
            e->outeax, e->outebx, e->outecx, e->outedx);
  }
}

static void exec_RD(const char *hex, char *qs) {
  char path[1200]; snprintf(path, sizeof path, "%s/pu0", root);
  unlink(path);
  if (strcmp(hex, "x")) {
    size_t n; unsigned char *b = unhex(hex, &n);
    if (write_file(path, b, n) < 0) { free(b); fputs("harness-io-error\n", fout); return; }
    free(b);
  }
  struct cpuiddump *d = cpuiddump_read(root, 0);
  if (!d) { fputs("null\n", fout); unlink(path); return; }
  fprintf(fout, "nr=%u leak=%d T=", d->nr, d->nr == 0);
  put_table(d); fputc(' ', fout);
  run_queries(d, qs); fputc('\n', fout);
  /* cpuiddump_free releases entries only `if (nr)`: with nr == 0 the array read() allocated is leaked (reported
     as `leak=1`, compared with the model); it is released here so that LeakSanitizer stays usable for the rest */
  struct cpuiddump_entry *ents = d->entries; unsigned nr = d->nr;
  cpuiddump_free(d);
  if (!nr) free(ents);
  unlink(path);
}

static void exec_FI(char *ts, char *qs) {
  unsigned nr = 0;
  if (strcmp(ts, "-")) { nr = 1; for (char *p = ts; *p; p++) if (*p == ';') nr++; }
  struct cpuiddump *d = malloc(sizeof *d);
  d->nr = nr;
  d->entries = nr ? malloc(nr * sizeof(struct cpuiddump_entry)) : NULL;      /* exact size: ASan sees entries[nr] */
  unsigned i = 0;
  if (nr) for (char *sv = NULL, *t = strtok_r(ts, ";", &sv); t && i < nr; t = strtok_r(NULL, ";", &sv), i++) {
    struct cpuiddump_entry *e = &d->entries[i];
    if (sscanf(t, "%x.%x.%x.%x.%x.%x.%x.%x.%x", &e->inmask, &e->ineax, &e->inebx, &e->inecx, &e->inedx,
               &e->outeax, &e->outebx, &e->outecx, &e->outedx) != 9) { fputs("bad-table\n", fout); free(d->entries); free(d); return; }
  }
  run_queries(d, qs); fputc('\n', fout);
  cpuiddump_free(d);
}

#define MAXNAMES 64
static void exec_CK(const char *dd, const char *sum, char *ns) {
  char path[1500]; char *created[MAXNAMES]; unsigned nc = 0;
  snprintf(path, sizeof path, "%s/hwloc-cpuid-info", root);
  unlink(path);
  int have_sum = strcmp(sum, "x") != 0;
  if (have_sum) { size_t n; unsigned char *b = unhex(sum, &n); write_file(path, b, n); free(b); }
  if (strcmp(ns, "-"))
    for (char *sv = NULL, *t = strtok_r(ns, ",", &sv); t && nc < MAXNAMES; t = strtok_r(NULL, ",", &sv)) {
      size_t n; unsigned char *b = unhex(t, &n);
      char *p = malloc(strlen(root) + n + 2); sprintf(p, "%s/%s", root, (char *) b); free(b);
      if (write_file(p, (const unsigned char *) "", 0) < 0) { fputs("harness-io-error\n", fout); free(p); goto cleanup; }
      created[nc++] = p;
    }
  {
    hwloc_bitmap_t set = hwloc_bitmap_alloc();
    int rc = hwloc_x86_check_cpuiddump_input(!strcmp(dd, "d") ? root : missing_dir, set);
    fprintf(fout, "rc=%d n=%d set=", rc, hwloc_bitmap_weight(set));
    if (hwloc_bitmap_iszero(set)) fputc('-', fout);
    else { int first = 1; unsigned i; hwloc_bitmap_foreach_begin(i, set) { fprintf(fout, "%s%u", first ? "" : ",", i); first = 0; } hwloc_bitmap_foreach_end(); }
    fputc('\n', fout);
    hwloc_bitmap_free(set);
  }
cleanup:
  for (unsigned i = 0; i < nc; i++) { unlink(created[i]); free(created[i]); }
  if (have_sum) unlink(path);
}

static void exec_line(char *line) {
  char *tok[5]; int nt = 0;
  for (char *sv = NULL, *t = strtok_r(line, " \n", &sv); t && nt < 5; t = strtok_r(NULL, " \n", &sv)) tok[nt++] = t;
  if (nt == 3 && !strcmp(tok[0], "RD")) exec_RD(tok[1], tok[2]);
  else if (nt == 3 && !strcmp(tok[0], "FI")) exec_FI(tok[1], tok[2]);
  else if (nt == 4 && !strcmp(tok[0], "CK")) exec_CK(tok[1], tok[2], tok[3]);
  else fputs("bad-op\n", fout);
}

/* ---------------- generator ---------------- */

enum { B_RD_VALID, B_RD_MUT, B_RD_TRUNC, B_RD_LONG, B_RD_RAW, B_RD_EMPTY, B_RD_MISSING, B_RD_NOENTRY, B_FI, B_FI_AMBIG,
       B_CK_OK, B_CK_SUMMARY, B_CK_HOLE, B_CK_WEIRD, B_CK_NODIR, B_N };
static const char *bnames[B_N] = { "rd_valid", "rd_mutated", "rd_truncated", "rd_longline", "rd_raw", "rd_empty", "rd_missing", "rd_noentry",
                                   "fi", "fi_ambiguous", "ck_ok", "ck_summary", "ck_hole", "ck_weird", "ck_nodir" };
static unsigned long stats[B_N];

static char gbuf[1 << 16]; static size_t glen;
static void g_reset(void) { glen = 0; }
static void g_putc(int c) { if (glen < sizeof gbuf - 1) gbuf[glen++] = (char) c; }
static void g_puts(const char *s) { while (*s) g_putc(*s++); }
static void g_printf(const char *fmt, ...) {
  char t[256]; va_list ap; va_start(ap, fmt); vsnprintf(t, sizeof t, fmt, ap); va_end(ap); g_puts(t);
}
static void put_hex(FILE *f, const char *b, size_t n) {
  if (!n) { fputc('-', f); return; }
  for (size_t i = 0; i < n; i++) fprintf(f, "%02x", (unsigned char) b[i]);
}

/* small key domain so that queries hit, plus real-looking leaves */
static unsigned g_key(void) {
  static const unsigned leaves[] = { 0, 1, 2, 4, 7, 0xb, 0xd, 0x1a, 0x1f, 0x80000000u, 0x80000001u, 0x80000008u, 0x8000001du, 0x8000001eu, 0x80000026u, 0xffffffffu };
  return rng_chance(70) ? rng_below(4) : leaves[rng_below(sizeof leaves / sizeof *leaves)];
}
static unsigned g_val(void) { return rng_chance(50) ? rng_below(16) : (unsigned) rng_next(); }
static unsigned g_mask(void) {
  unsigned r = rng_below(100);
  return r < 35 ? 1 : r < 60 ? 5 : r < 70 ? 0 : r < 80 ? 0xf : r < 92 ? rng_below(16) : (rng_below(16) | (rng_chance(50) ? 0x10 : 0xfffffff0u));
}

static unsigned qk[64][4]; static unsigned nqk;
static void remember_key(unsigned a, unsigned b, unsigned c, unsigned d) { if (nqk < 64) { qk[nqk][0] = a; qk[nqk][1] = b; qk[nqk][2] = c; qk[nqk][3] = d; nqk++; } }

static const char *weird_tok[] = { "0x", "0X", "0x1f", "0XAb", "-1", "+2", "-0x10", "+", "-", "ffffffffff", "123456789abcdef01", "ffffffffffffffffffffff",
                                   "-ffffffffffffffff", "g", "0xg", "=>", "= >", "=", ">", "=>=>", "\t", "  ", "", "\v\f\r", "00000000000000000000000000001", "1=>2", "#", "x", "0x0x1", "--1", "1-2" };
#define NWEIRD (sizeof weird_tok / sizeof *weird_tok)

static void g_entry_line(void) {
  unsigned m = g_mask(), a = g_key(), b = g_key(), c = g_key(), d = g_key();
  remember_key(a, b, c, d);
  int style = rng_below(10);
  const char *sp = style == 0 ? "\t" : style == 1 ? "  " : " ";
  const char *pfx = style == 2 ? "0x" : "";
  g_printf("%s%x%s%s%x%s%s%x%s%s%x%s%s%x", pfx, m, sp, pfx, a, sp, pfx, b, sp, pfx, c, sp, pfx, d);
  g_puts(style == 3 ? "=>" : style == 4 ? "  =>\t" : " => ");
  g_printf("%x%s%x%s%x%s%x", g_val(), sp, g_val(), sp, g_val(), sp, g_val());
  if (style == 5) g_puts(" trailing junk 1 2 3");
  g_putc('\n');
}
static void g_comment_line(void) { g_puts(rng_chance(50) ? "# mask e[abcd]x => e[abcd]x\n" : "#1 1 0 0 0 => 1 2 3 4\n"); }

/* a line made of tokens, some of them weird */
static void g_token_line(void) {
  unsigned n = 6 + rng_below(6), arrow = 5;
  if (rng_chance(30)) arrow = rng_below(n);
  for (unsigned i = 0; i < n; i++) {
    if (i == arrow) g_puts(rng_chance(80) ? "=> " : weird_tok[rng_below(NWEIRD)]);
    if (rng_chance(25)) g_puts(weird_tok[rng_below(NWEIRD)]); else g_printf("%x", rng_chance(50) ? g_key() : g_val());
    g_puts(rng_chance(85) ? " " : rng_chance(50) ? "" : "\t ");
  }
  if (rng_chance(90)) g_putc('\n');
}

static void g_queries(FILE *f) {
  unsigned n = rng_below(7);
  if (!n) { fputs("-", f); return; }
  for (unsigned i = 0; i < n; i++) {
    unsigned q[4];
    if (nqk && rng_chance(70)) { unsigned k = rng_below(nqk); for (int j = 0; j < 4; j++) q[j] = qk[k][j]; if (rng_chance(30)) q[rng_below(4)] = g_key(); }
    else for (int j = 0; j < 4; j++) q[j] = g_key();
    fprintf(f, "%s%x.%x.%x.%x", i ? "," : "", q[0], q[1], q[2], q[3]);
  }
}

static void gen_RD(void) {
  unsigned r = rng_below(100);
  g_reset(); nqk = 0;
  int bucket;
  if (r < 3) { fputs("RD x ", fops); g_queries(fops); fputc('\n', fops); stats[B_RD_MISSING]++; return; }
  if (r < 6) { bucket = B_RD_EMPTY; }
  else if (r < 12) { bucket = B_RD_NOENTRY;          /* lines, but no entry: comments, blank lines, malformed */
    unsigned n = 1 + rng_below(4);
    for (unsigned i = 0; i < n; i++) { unsigned k = rng_below(4); if (k == 0) g_comment_line(); else if (k == 1) g_puts("\n"); else if (k == 2) g_puts("1 2 3 4 5 =\n"); else g_puts("zz\n"); }
  } else {
    unsigned n = 1 + rng_below(rng_chance(15) ? 40 : 8);
    bucket = B_RD_VALID;
    for (unsigned i = 0; i < n; i++) {
      unsigned k = rng_below(100);
      if (k < 70) g_entry_line();
      else if (k < 80) g_comment_line();
      else if (k < 92) { g_token_line(); bucket = B_RD_MUT; }
      else if (k < 96) {                      /* over-long line: the 127-byte pieces are parsed on their own */
        bucket = B_RD_LONG;
        unsigned pad = 100 + rng_below(60);
        if (rng_chance(50)) { g_putc('#'); for (unsigned j = 0; j < pad; j++) g_putc(rng_chance(10) ? ' ' : 'c'); g_putc(' '); g_entry_line(); }
        else { for (unsigned j = 0; j < pad; j++) g_putc(' '); g_entry_line(); }
      } else { g_puts(rng_chance(50) ? "\n" : "   \n"); }
    }
    if (rng_chance(15)) {                    /* byte-level mutations */
      unsigned k = 1 + rng_below(3);
      for (unsigned i = 0; i < k && glen; i++) {
        size_t p = rng_below((unsigned) glen); unsigned how = rng_below(4);
        if (how == 0) gbuf[p] = (char) rng_below(256);
        else if (how == 1) gbuf[p] = "\n =>x#0-+\0\tg"[rng_below(12)];
        else if (how == 2) { memmove(gbuf + p, gbuf + p + 1, glen - p - 1); glen--; }
        else gbuf[p] = ' ';
      }
      bucket = B_RD_MUT;
    }
    if (rng_chance(12) && glen) { glen = rng_below((unsigned) glen + 1); bucket = B_RD_TRUNC; }       /* truncated file */
    else if (rng_chance(10) && glen && gbuf[glen - 1] == '\n') glen--;                                  /* no final newline */
    if (rng_chance(3)) { g_reset(); unsigned n2 = rng_below(300); for (unsigned i = 0; i < n2; i++) g_putc(rng_chance(30) ? "0123456789abcdefx =>\n#"[rng_below(22)] : (int) rng_below(256)); bucket = B_RD_RAW; }
  }
  stats[bucket]++;
  fputs("RD ", fops); put_hex(fops, gbuf, glen); fputc(' ', fops); g_queries(fops); fputc('\n', fops);
}

static void gen_FI(void) {
  unsigned n = rng_below(9); nqk = 0;
  int ambiguous = rng_chance(50);
  fputs("FI ", fops);
  if (!n) fputs("-", fops);
  for (unsigned i = 0; i < n; i++) {
    unsigned m = g_mask(), a, b, c, d;
    if (ambiguous) { a = rng_below(2); b = rng_below(2); c = rng_below(2); d = rng_below(2); }
    else { a = g_key(); b = g_key(); c = g_key(); d = g_key(); }
    remember_key(a, b, c, d);
    fprintf(fops, "%s%x.%x.%x.%x.%x.%x.%x.%x.%x", i ? ";" : "", m, a, b, c, d, g_val(), g_val(), g_val(), g_val());
  }
  fputc(' ', fops); g_queries(fops); fputc('\n', fops);
  stats[ambiguous ? B_FI_AMBIG : B_FI]++;
}

static const char *weird_names[] = { "pu", "pu01", "pu+1", "pu-0", "pu 2", "pu\t3", "pu1x", "pux", "pu1 ", "PU0", "p", "cpu0", "pu0x10", "pu+", "pu-", "pu 0",
                                     "pu4294967296", "pu4294967297", "pu-4294967295", "pu-18446744073709551615", "pu007", "pu1.0", "pu1,2", "puu1", "pu\n1",
                                     "hwloc-cpuid-info2", "pu0~", ".pu0", "pu00", "pu100000", "pu65536", "pu-18446744073709551614" };
#define NWNAMES (sizeof weird_names / sizeof *weird_names)
static const char *summaries[] = { "Architecture: x86\n", "Architecture: x86_64\n", "Architecture: x86", "Architecture: x8", "Architecture: x8\n6\n",
                                   "architecture: x86\n", " Architecture: x86\n", "Architecture:  x86\n", "", "\n", "\nArchitecture: x86\n", "Architecture: x86 and more text beyond the thirty-two byte buffer\n",
                                   "Architecture: ia64\n", "Architecture: x86\nCPUIDPath: /tmp/x\n" };
#define NSUMS (sizeof summaries / sizeof *summaries)

static void gen_CK(void) {
  unsigned r = rng_below(100);
  const char *names[MAXNAMES]; char numbuf[MAXNAMES][24]; unsigned nn = 0;
  int bucket = B_CK_OK;
  const char *dd = "d";
  if (r < 4) { dd = "x"; bucket = B_CK_NODIR; }
  /* summary */
  char sum[128]; size_t sl; int have = 1;
  if (rng_chance(70)) { strcpy(sum, summaries[rng_chance(70) ? 0 : rng_below(2)]); sl = strlen(sum); }
  else if (rng_chance(12)) { have = 0; sl = 0; bucket = B_CK_SUMMARY; }
  else { strcpy(sum, summaries[rng_below(NSUMS)]); sl = strlen(sum); bucket = B_CK_SUMMARY;
         if (rng_chance(15) && sl) sum[rng_below((unsigned) sl)] = (char) (rng_chance(50) ? 0 : rng_below(256)); }
  /* names */
  unsigned np = rng_below(rng_chance(10) ? 40 : 9);
  int hole = rng_chance(20) && np > 1 ? (int) rng_below(np) : -1;
  for (unsigned i = 0; i < np && nn < MAXNAMES - 8; i++) {
    if ((int) i == hole) { if (bucket == B_CK_OK) bucket = B_CK_HOLE; continue; }
    snprintf(numbuf[nn], sizeof numbuf[nn], "pu%u", i); names[nn] = numbuf[nn]; nn++;
  }
  if (rng_chance(35)) {
    unsigned k = 1 + rng_below(3);
    for (unsigned i = 0; i < k; i++) {
      const char *w = weird_names[rng_below(NWNAMES)];
      int dup = 0; for (unsigned j = 0; j < nn; j++) if (!strcmp(names[j], w)) dup = 1;
      if (!dup) { names[nn++] = w; if (bucket == B_CK_OK || bucket == B_CK_HOLE) bucket = B_CK_WEIRD; }
    }
  }
  /* shuffle the creation order (readdir order is the file system's anyway) */
  for (unsigned i = nn; i > 1; i--) { unsigned j = rng_below(i); const char *t = names[i - 1]; names[i - 1] = names[j]; names[j] = t; }
  stats[bucket]++;
  fprintf(fops, "CK %s ", dd);
  if (!have) fputs("x", fops); else put_hex(fops, sum, sl);
  fputc(' ', fops);
  if (!nn) fputs("-", fops);
  for (unsigned i = 0; i < nn; i++) { if (i) fputc(',', fops); put_hex(fops, names[i], strlen(names[i])); }
  fputc('\n', fops);
}

static void gen_case(void) {
  unsigned r = rng_below(100);
  if (r < 55) gen_RD(); else if (r < 75) gen_FI(); else gen_CK();
}

static int root_setup(const char *out) {
  snprintf(root, sizeof root, "%s.root", out);
  snprintf(missing_dir, sizeof missing_dir, "%s.root/none", out);
  mkdir(root, 0700);
  struct stat st; return stat(root, &st) == 0 && S_ISDIR(st.st_mode) ? 0 : -1;
}
static void root_teardown(void) { rmdir(root); }

int main(int argc, char **argv) {
  if (argc >= 4 && !strcmp(argv[1], "--replay")) {
    FILE *in = fopen(argv[2], "r"); fout = fopen(argv[3], "w"); fops = stderr;
    if (!in || !fout) return 2;
    if (root_setup(argv[3]) < 0) return 2;
    char *line = NULL; size_t cap = 0;
    while (getline(&line, &cap, in) > 0) { if (line[0] == '#' || line[0] == '\n') continue; exec_line(line); fflush(fout); }
    free(line); fclose(in); fclose(fout); root_teardown();
    return 0;
  }
  if (argc < 5) { fprintf(stderr, "usage\n"); return 2; }
  unsigned long n = strtoul(argv[1], NULL, 10);
  fops = fopen(argv[2], "w+"); fout = fopen(argv[3], "w"); FILE *fst = fopen(argv[4], "w");
  if (!fops || !fout || !fst) return 2;
  if (root_setup(argv[3]) < 0) return 2;
  rng_seed(rng_seed_from_env());
  char *line = NULL; size_t cap = 0;
  for (unsigned long i = 0; i < n; i++) {
    long pos = ftell(fops);
    gen_case(); fflush(fops);
    fseek(fops, pos, SEEK_SET);
    if (getline(&line, &cap, fops) > 0) exec_line(line);
    fseek(fops, 0, SEEK_END);
    fflush(fout);
  }
  free(line);
  for (int b = 0; b < B_N; b++) fprintf(fst, "%s %lu\n", bnames[b], stats[b]);
  root_teardown();
  fclose(fops); fclose(fout); fclose(fst);
  return 0;
}
