/* C13 differential harness (engine `distances`).
 * Public API only; linked against the sanitizer build of /repo.
 *
 * usage: distances <nops> <ops-file> <out-file> <stats-file>   (generate mode, seed = VERIF_SEED)
 *        distances --replay <in-ops> <out-file> <eff-ops>      (replay mode)
 *
 * Every executed op is written to the ops file as `<op> | <annotation>`: the annotation is produced by
 * the executor (resolved objects, live objects after a topology change, depth->type lookups) and is
 * the model's view of the environment.  In replay mode the annotation of the input is ignored and
 * recomputed into <eff-ops>, so that delta-debugged op lists stay consistent.
 *
 * env: VERIF_GROUP=1             add_commit with the GROUP flags is generated; with flag GROUP the dumps before / after the commit are
 *                               given to the model, which PREDICTS the inserted Groups (default accuracy only)
 *      VERIF_GROUP_CRASHONLY=1  the environment holds a non-default HWLOC_GROUPING_ACCURACY: nothing is predicted (crash-only stream)
 * No input class is excluded: add_values with objs[0]==NULL (former F03), MERGE_SWITCH_PORTS with non-ports
 * after the first port (former F12), GROUP flags after dup (former F17/F27) and kind 0 + XML (former F18/F29)
 * are all generated (buckets values_null0 / tr_merge_mixed in the statistics).
 */
#include "private/autogen/config.h"
#include "hwloc.h"
#include "rng.h"
#include <string.h>
#include <stdio.h>
#include <sys/mman.h>
#include <unistd.h>
#include <hwloc/shmem.h>
#include <sys/syscall.h>
#include <stdarg.h>
#include <errno.h>
#include "dump.h"

#define NS 8
#define NH 4
static hwloc_topology_t topo;
static void *handles[NH];
static struct hwloc_distances_s *slots[NS];
static int stale[NS];
static FILE *fops, *fout;
static int inc_f03, inc_f12, inc_group_env, inc_dupgroup;
static int group_crashonly;   /* VERIF_GROUP_CRASHONLY=1: non-default accuracies in the environment, GROUP commits are not predicted */
static int dupped;   /* current topology comes from hwloc_topology_dup: its grouping_* fields are uninitialised (finding F17) */

static const char *synth[] = {
  "numa:4 core:2 pu:2",
  "pack:2 numa:2 l3:1 core:2 pu:2",
  "numa:2 pack:2 core:2 pu:1",
  "pack:3 core:3 pu:1",
  "numa:3 l2:2 pu:2",
  "pack:2 l3:2 core:2 pu:2",
  /* flat levels wider than the block sizes of gen_block: grouping creates NEW Groups, in several nested rounds */
  "core:12 pu:1",
  "pack:2 l2:6 pu:1",
  "numa:3 core:4 pu:1",
};
#define NSYNTH (sizeof(synth)/sizeof(*synth))

static void bump(const char *name);
/* ---- annotation buffer ---- */
static char ann[1 << 20]; static size_t annlen;
static void ann_reset(void) { annlen = 0; ann[0] = 0; }
static void ann_add(const char *fmt, ...) {
  va_list ap; va_start(ap, fmt);
  int r = vsnprintf(ann + annlen, sizeof ann - annlen, fmt, ap);
  va_end(ap);
  if (r > 0 && (size_t) r < sizeof ann - annlen) annlen += r;
}

static const char *errname(void) {
  switch (errno) {
  case EINVAL: return "EINVAL"; case ENOENT: return "ENOENT"; case EXDEV: return "EXDEV";
  case EBUSY: return "EBUSY"; case EPERM: return "EPERM"; case ENOSYS: return "ENOSYS";
  default: return "fail";
  }
}
static int is_sw(hwloc_obj_t o) { return o && o->subtype && !strcmp(o->subtype, "NVSwitch"); }
static void ann_obj(hwloc_obj_t o) {
  if (!o) ann_add(" -");
  else ann_add(" %d:%llu:%u:%d", (int) o->type, (unsigned long long) o->gp_index, o->os_index, is_sw(o));
}
static const int special_depths[] = { HWLOC_TYPE_DEPTH_NUMANODE, HWLOC_TYPE_DEPTH_MEMCACHE, HWLOC_TYPE_DEPTH_BRIDGE,
                                      HWLOC_TYPE_DEPTH_PCI_DEVICE, HWLOC_TYPE_DEPTH_OS_DEVICE, HWLOC_TYPE_DEPTH_MISC };
typedef void (*objcb)(hwloc_obj_t, unsigned, void *);
static unsigned for_each_obj(hwloc_topology_t t, objcb cb, void *arg) {
  unsigned count = 0;
  int d, nd = hwloc_topology_get_depth(t);
  for (d = 0; d < nd; d++) {
    unsigned i, n = hwloc_get_nbobjs_by_depth(t, d);
    for (i = 0; i < n; i++) { if (cb) cb(hwloc_get_obj_by_depth(t, d, i), count, arg); count++; }
  }
  for (unsigned s = 0; s < sizeof special_depths / sizeof *special_depths; s++) {
    unsigned i, n = hwloc_get_nbobjs_by_depth(t, special_depths[s]);
    for (i = 0; i < n; i++) { if (cb) cb(hwloc_get_obj_by_depth(t, special_depths[s], i), count, arg); count++; }
  }
  return count;
}
static void cb_ann(hwloc_obj_t o, unsigned i, void *arg) { (void) i; (void) arg; ann_obj(o); }
static unsigned ann_live(void) { return for_each_obj(topo, cb_ann, NULL); }
static void cb_sw(hwloc_obj_t o, unsigned i, void *arg) {
  unsigned long long m = *(unsigned long long *) arg;
  if (i < 64 && ((m >> i) & 1) && !o->subtype) o->subtype = strdup("NVSwitch");
}

/* ---- handles / slots hygiene ---- */
static hwloc_obj_t dummy_objs[1]; static hwloc_uint64_t dummy_vals[1];
static void kill_handle(int h) {
  if (handles[h]) { hwloc_distances_add_values(topo, handles[h], 0, dummy_objs, dummy_vals, 0); handles[h] = NULL; }
}
static void kill_handles(void) { for (int h = 0; h < NH; h++) kill_handle(h); }
static void release_slot(int k) { if (slots[k]) { hwloc_distances_release(topo, slots[k]); slots[k] = NULL; } stale[k] = 0; }
static void stale_all(void) { for (int k = 0; k < NS; k++) if (slots[k]) stale[k] = 1; kill_handles(); }
static void drop_everything(void) {
  if (!topo) return;
  kill_handles();
  for (int k = 0; k < NS; k++) release_slot(k);
  hwloc_topology_destroy(topo); topo = NULL;
}

static void print_struct(struct hwloc_distances_s *d, int with_name) {
  const char *nm = with_name ? hwloc_distances_get_name(topo, d) : NULL;
  fprintf(fout, "%s %lu %u", nm ? nm : "-", d->kind, d->nbobjs);
  for (unsigned i = 0; i < d->nbobjs; i++) {
    if (d->objs[i]) fprintf(fout, " %d:%llu", (int) d->objs[i]->type, (unsigned long long) d->objs[i]->gp_index);
    else fprintf(fout, " -");
  }
  fprintf(fout, " V");
  for (unsigned i = 0; i < d->nbobjs * d->nbobjs; i++) fprintf(fout, " %llu", (unsigned long long) d->values[i]);
}

static hwloc_obj_t resolve_sel(const char *s) {
  int t; unsigned l;
  if (!strcmp(s, "-")) return NULL;
  if (sscanf(s, "%d.%u", &t, &l) != 2) return NULL;
  return hwloc_get_obj_by_type(topo, (hwloc_obj_type_t) t, l);
}

static void finish_get(int rc, unsigned slot0, unsigned cap, unsigned nr, struct hwloc_distances_s **arr) {
  if (rc < 0) { fprintf(fout, "%s\n", errname()); return; }
  unsigned got = nr < cap ? nr : cap;
  int z = 1;
  for (unsigned i = got; i < cap; i++) if (arr[i]) z = 0;
  for (unsigned i = 0; i < got; i++) if (!arr[i]) z = 0;
  fprintf(fout, "ok %u z%d", nr, z);
  for (unsigned i = 0; i < got && arr[i]; i++) {
    unsigned k = (slot0 + i) % NS;
    release_slot(k);
    slots[k] = arr[i];
    fprintf(fout, " S "); print_struct(arr[i], 1);
  }
  fputc('\n', fout);
}

/* ---- GROUP commits: dumps before/after + the Groups that appeared ---- */
static void cb_maxgp(hwloc_obj_t o, unsigned i, void *arg) { (void) i; unsigned long long *m = arg; if (o->gp_index > *m) *m = o->gp_index; }
static void cb_samesets(hwloc_obj_t o, unsigned i, void *arg) {
  (void) i; int *ok = arg;
  if (o->cpuset && (!o->complete_cpuset || !hwloc_bitmap_isequal(o->cpuset, o->complete_cpuset))) *ok = 0;
}
struct newgroups { hwloc_obj_t o[64]; unsigned n; unsigned long long maxgp; };
static void cb_new(hwloc_obj_t o, unsigned i, void *arg) {
  (void) i; struct newgroups *g = arg;
  if (o->gp_index > g->maxgp && g->n < 64) g->o[g->n++] = o;
}
/* the dump as one line: lines separated by " ;; " */
static char *dump_oneline(const char *tag) {
  char *buf = NULL; size_t len = 0;
  FILE *f = open_memstream(&buf, &len);
  if (!f) return NULL;
  dump_topology(f, topo, tag);
  fclose(f);
  size_t nl = 0;
  for (size_t i = 0; i < len; i++) if (buf[i] == '\n') nl++;
  char *out = malloc(len + 4 * nl + 1), *w = out;
  for (size_t i = 0; i < len; i++) {
    if (buf[i] == '\n') { memcpy(w, " ;; ", 4); w += 4; } else *w++ = buf[i];
  }
  *w = 0;
  free(buf);
  return out;
}
static unsigned long set_ulong(hwloc_const_bitmap_t b) { return b ? hwloc_bitmap_to_ulong(b) : 0UL; }

/* ---- op execution (shared by generate and replay) ---- */
#define MAXTOK 400
static void exec_line(const char *bare) {
  char line[8192]; char *tok[MAXTOK]; int nt = 0; char *save = NULL;
  strncpy(line, bare, sizeof line - 1); line[sizeof line - 1] = 0;
  char *bar = strchr(line, '|'); if (bar) *bar = 0;
  /* canonical bare text */
  char barebuf[8192]; size_t bl = 0; barebuf[0] = 0;
  for (char *t = strtok_r(line, " \n", &save); t && nt < MAXTOK; t = strtok_r(NULL, " \n", &save)) {
    tok[nt++] = t;
    bl += snprintf(barebuf + bl, sizeof barebuf - bl, "%s%s", nt > 1 ? " " : "", t);
  }
  if (!nt) return;
  ann_reset();
  const char *op = tok[0];
#define U(k) ((unsigned) strtoul(tok[k], NULL, 10))
#define UL(k) (strtoul(tok[k], NULL, 10))
#define I(k) ((int) strtol(tok[k], NULL, 10))
  if (!strcmp(op, "load") && nt == 3) {
    unsigned k = U(1) % NSYNTH; unsigned long long m = strtoull(tok[2], NULL, 16);
    drop_everything();
    dupped = 0;
    hwloc_topology_init(&topo);
    hwloc_topology_set_synthetic(topo, synth[k]);
    if (hwloc_topology_load(topo) < 0) { fprintf(fout, "fail\n"); }
    else {
      for_each_obj(topo, cb_sw, &m);
      unsigned n = ann_live();
      fprintf(fout, "ok %u\n", n);
    }
  }
  else if (!topo) { fprintf(fout, "notopo\n"); }
  else if (!strcmp(op, "restrict") && nt == 4) {
    hwloc_bitmap_t set = hwloc_bitmap_alloc();
    hwloc_bitmap_from_ulong(set, strtoul(tok[2], NULL, 16));
    unsigned long flags = UL(3);
    if (tok[1][0] == 'n') flags |= HWLOC_RESTRICT_FLAG_BYNODESET;
    /* objects may be freed: outstanding structures only keep their id, pending handles are dropped */
    /* (done before the call, harmless if the call fails early) */
    int rc = hwloc_topology_restrict(topo, set, flags);
    int e = errno;
    hwloc_bitmap_free(set);
    if (rc == 0) { stale_all(); ann_add(" ok"); ann_live(); fprintf(fout, "ok\n"); }
    else { errno = e; ann_add(" %s", errname()); fprintf(fout, "%s\n", errname()); }
  }
  else if (!strcmp(op, "refresh") && nt == 1) { hwloc_topology_refresh(topo); fprintf(fout, "ok\n"); }
  else if (!strcmp(op, "dup") && nt == 1) {
    hwloc_topology_t n2 = NULL;
    if (hwloc_topology_dup(&n2, topo) < 0) { fprintf(fout, "fail\n"); }
    else {
      stale_all();
      /* outstanding structures belong to the old topology: release them there, keep (id-only) copies? no:
       * their memory is plain malloc, not tied to the topology, so they stay usable by id */
      hwloc_topology_destroy(topo); topo = n2; dupped = 1;
      ann_live(); fprintf(fout, "ok\n");
    }
  }
  else if (!strcmp(op, "shm") && nt == 1) {
    /* shared-memory write + adopt with whatever stale caches the history left (no query in between); the adopted topology must list
     * the structures the original lists afterwards (write refreshes the original), over its OWN objects */
    size_t len = 0; const char *res = "ok";
    int fd = (int) syscall(SYS_memfd_create, "verif-dist-shm", 0);      /* an anonymous file: nothing on disk */
    if (fd < 0 || hwloc_shmem_topology_get_length(topo, &len, 0) < 0) res = "shm-setup-failed";
    else {
      void *probe = mmap(NULL, len + (1UL << 21), PROT_NONE, MAP_PRIVATE | MAP_ANONYMOUS, -1, 0);
      if (probe == MAP_FAILED || ftruncate(fd, (off_t) len) < 0) res = "shm-setup-failed";
      else {
        munmap(probe, len + (1UL << 21));
        hwloc_topology_t ad = NULL;
        if (hwloc_shmem_topology_write(topo, fd, 0, probe, len, 0) < 0) res = "shm-write-failed";
        else if (hwloc_shmem_topology_adopt(&ad, fd, 0, probe, len, 0) < 0) res = "shm-adopt-failed";
        else {
          unsigned n1 = 0, n2 = 0; hwloc_distances_get(topo, &n1, NULL, 0, 0); hwloc_distances_get(ad, &n2, NULL, 0, 0);
          if (n1 != n2) res = "shm-differs:count";
          else if (n1) {
            struct hwloc_distances_s **d1 = calloc(n1, sizeof *d1), **d2 = calloc(n1, sizeof *d2); unsigned g1 = n1, g2 = n1;
            hwloc_distances_get(topo, &g1, d1, 0, 0); hwloc_distances_get(ad, &g2, d2, 0, 0);
            for (unsigned i = 0; i < n1 && !strcmp(res, "ok"); i++) {
              const char *a = hwloc_distances_get_name(topo, d1[i]), *b = hwloc_distances_get_name(ad, d2[i]);
              if ((a == NULL) != (b == NULL) || (a && strcmp(a, b))) res = "shm-differs:name";
              else if (d1[i]->kind != d2[i]->kind || d1[i]->nbobjs != d2[i]->nbobjs) res = "shm-differs:kind-or-nbobjs";
              else {
                for (unsigned j = 0; j < d1[i]->nbobjs; j++) {
                  hwloc_obj_t x = d1[i]->objs[j], y = d2[i]->objs[j];
                  if (!y || x->type != y->type || x->logical_index != y->logical_index || x->gp_index != y->gp_index) res = "shm-differs:objects";
                  else if (hwloc_get_obj_by_depth(ad, y->depth, y->logical_index) != y) res = "shm-differs:object-not-of-the-adopted-topology";
                }
                if (memcmp(d1[i]->values, d2[i]->values, sizeof(hwloc_uint64_t) * d1[i]->nbobjs * d1[i]->nbobjs)) res = "shm-differs:values";
              }
            }
            for (unsigned i = 0; i < n1; i++) { if (d1[i]) hwloc_distances_release(topo, d1[i]); if (d2[i]) hwloc_distances_release(ad, d2[i]); }
            free(d1); free(d2);
          }
          hwloc_topology_destroy(ad);
        }
      }
    }
    if (fd >= 0) close(fd);
    fprintf(fout, "%s\n", res);
  }
  else if (!strcmp(op, "xml") && nt == 1) {
    char *buf = NULL; int len = 0; hwloc_topology_t n2 = NULL; int ok = 0;
    if (hwloc_topology_export_xmlbuffer(topo, &buf, &len, 0) == 0) {
      hwloc_topology_init(&n2);
      if (hwloc_topology_set_xmlbuffer(n2, buf, len) == 0 && hwloc_topology_load(n2) == 0) ok = 1;
      else { hwloc_topology_destroy(n2); n2 = NULL; }
      hwloc_free_xmlbuffer(topo, buf);
    }
    if (ok) { stale_all(); hwloc_topology_destroy(topo); topo = n2; dupped = 0; ann_add(" ok"); ann_live(); fprintf(fout, "ok\n"); }
    else { ann_add(" fail"); fprintf(fout, "fail\n"); }
  }
  else if (!strcmp(op, "create") && nt == 5) {
    unsigned h = U(1) % NH;
    kill_handle(h);
    const char *name = strcmp(tok[2], "-") ? tok[2] : NULL;
    handles[h] = hwloc_distances_add_create(topo, name, strtoul(tok[3], NULL, 10), UL(4));
    fprintf(fout, "%s\n", handles[h] ? "ok" : errname());
  }
  else if (!strcmp(op, "values") && nt >= 4) {
    unsigned h = U(1) % NH; unsigned long flags = UL(2); unsigned n = U(3);
    if (n > 12 || (unsigned) nt != 4 + n + n * n) { fprintf(fout, "bad-op\n"); }
    else {
      hwloc_obj_t objs[13]; hwloc_uint64_t vals[170];
      for (unsigned i = 0; i < n; i++) { objs[i] = resolve_sel(tok[4 + i]); ann_obj(objs[i]); }
      for (unsigned i = 0; i < n * n; i++) vals[i] = strtoull(tok[4 + n + i], NULL, 10);
      if (!handles[h]) fprintf(fout, "nohandle\n");
      else {
        int rc = hwloc_distances_add_values(topo, handles[h], n, objs, vals, flags);
        if (rc < 0) { handles[h] = NULL; fprintf(fout, "%s\n", errname()); }
        else fprintf(fout, "ok\n");
      }
    }
  }
  else if (!strcmp(op, "commit") && nt == 3) {
    unsigned h = U(1) % NH; unsigned long flags = UL(2);
    if (!handles[h]) fprintf(fout, "nohandle\n");
    else {
      /* GROUP flag at the default accuracy: the inserted Groups are PREDICTED by the model from the dump taken before */
      int predict = (flags & 1) && !group_crashonly;
      char *bef = NULL; int same = 1; struct newgroups ng; ng.n = 0; ng.maxgp = 0;
      if (predict) {
        for_each_obj(topo, cb_samesets, &same);
        for_each_obj(topo, cb_maxgp, &ng.maxgp);
        if (same) bef = dump_oneline("B");
      }
      int rc = hwloc_distances_add_commit(topo, handles[h], flags);
      int e = errno;
      handles[h] = NULL;
      if (rc < 0) { errno = e; fprintf(fout, "%s\n", errname()); }
      else {
        if (flags & 3) ann_live();
        if (predict && !(same && bef)) { ann_add(" ## P 0"); fprintf(fout, "ok U\n"); }
        else if (predict) {
          hwloc_topology_check(topo);      /* asserts are live: an abort is a violation */
          char *aft = dump_oneline("A");
          ann_add(" ## P 1 ## %s ## %s", bef, aft ? aft : "");
          free(aft);
          for_each_obj(topo, cb_new, &ng);
          for (unsigned a = 0; a < ng.n; a++)            /* by gp_index = order of creation */
            for (unsigned b = a + 1; b < ng.n; b++)
              if (ng.o[b]->gp_index < ng.o[a]->gp_index) { hwloc_obj_t t = ng.o[a]; ng.o[a] = ng.o[b]; ng.o[b] = t; }
          fprintf(fout, "ok");
          for (unsigned a = 0; a < ng.n; a++) {
            hwloc_obj_t g = ng.o[a];
            if (g->type != HWLOC_OBJ_GROUP) fprintf(fout, " NOTGROUP:%d", (int) g->type);
            else fprintf(fout, " G %lx %lx %u %u", set_ulong(g->cpuset), set_ulong(g->nodeset), g->attr->group.kind, g->attr->group.subkind);
          }
          fputc('\n', fout);
          if (ng.n) bump("commit_group_created"); else bump("commit_group_none");
          for (unsigned a = 1; a < ng.n; a++)
            if (ng.o[a]->type == HWLOC_OBJ_GROUP && ng.o[0]->type == HWLOC_OBJ_GROUP
                && ng.o[a]->attr->group.subkind != ng.o[0]->attr->group.subkind) { bump("commit_group_nested_rounds"); break; }
        }
        else fprintf(fout, "ok\n");
      }
      free(bef);
    }
  }
  else if ((!strcmp(op, "get") && nt == 5) || (!strcmp(op, "getd") && nt == 6) || (!strcmp(op, "gett") && nt == 6)) {
    unsigned slot0 = U(1), cap = U(2) > 16 ? 16 : U(2); unsigned long kind = strtoul(tok[3], NULL, 10), flags = UL(4);
    struct hwloc_distances_s *arr[17]; unsigned nr = cap; int rc;
    for (unsigned i = 0; i < 17; i++) arr[i] = (struct hwloc_distances_s *) (uintptr_t) 0x1;
    if (op[3] == 0) rc = hwloc_distances_get(topo, &nr, arr, kind, flags);
    else if (op[3] == 'd') { int depth = I(5); ann_add(" %d", (int) hwloc_get_depth_type(topo, depth));
                             rc = hwloc_distances_get_by_depth(topo, depth, &nr, arr, kind, flags); }
    else rc = hwloc_distances_get_by_type(topo, (hwloc_obj_type_t) I(5), &nr, arr, kind, flags);
    finish_get(rc, slot0, cap, nr, arr);
  }
  else if (!strcmp(op, "getn") && nt == 5) {
    unsigned slot0 = U(1), cap = U(2) > 16 ? 16 : U(2); unsigned long flags = UL(3);
    const char *name = strcmp(tok[4], "-") ? tok[4] : NULL;
    struct hwloc_distances_s *arr[17]; unsigned nr = cap;
    for (unsigned i = 0; i < 17; i++) arr[i] = (struct hwloc_distances_s *) (uintptr_t) 0x1;
    int rc = hwloc_distances_get_by_name(topo, name, &nr, arr, flags);
    finish_get(rc, slot0, cap, nr, arr);
  }
  else if (!strcmp(op, "name") && nt == 2) {
    unsigned k = U(1) % NS;
    if (!slots[k]) fprintf(fout, "empty\n");
    else { const char *nm = hwloc_distances_get_name(topo, slots[k]); fprintf(fout, "N %s\n", nm ? nm : "-"); }
  }
  else if (!strcmp(op, "release") && nt == 2) {
    unsigned k = U(1) % NS;
    if (!slots[k]) fprintf(fout, "empty\n"); else { release_slot(k); fprintf(fout, "ok\n"); }
  }
  else if (!strcmp(op, "relrm") && nt == 2) {
    unsigned k = U(1) % NS;
    if (!slots[k]) fprintf(fout, "empty\n");
    else if (hwloc_distances_release_remove(topo, slots[k]) < 0) fprintf(fout, "%s\n", errname());
    else { slots[k] = NULL; stale[k] = 0; fprintf(fout, "ok\n"); }
  }
  else if (!strcmp(op, "remove") && nt == 1) { fprintf(fout, "%s\n", hwloc_distances_remove(topo) < 0 ? errname() : "ok"); }
  else if (!strcmp(op, "rmd") && nt == 2) {
    int depth = I(1);
    ann_add(" %d", (int) hwloc_get_depth_type(topo, depth));
    fprintf(fout, "%s\n", hwloc_distances_remove_by_depth(topo, depth) < 0 ? errname() : "ok");
  }
  else if (!strcmp(op, "rmt") && nt == 2) {
    int ty = I(1);
    int depth = hwloc_get_type_depth(topo, (hwloc_obj_type_t) ty);
    if (depth == HWLOC_TYPE_DEPTH_UNKNOWN || depth == HWLOC_TYPE_DEPTH_MULTIPLE) ann_add(" skip");
    else ann_add(" %d", (int) hwloc_get_depth_type(topo, depth));
    fprintf(fout, "%s\n", hwloc_distances_remove_by_type(topo, (hwloc_obj_type_t) ty) < 0 ? errname() : "ok");
  }
  else if (!strcmp(op, "tr") && nt == 5) {
    unsigned k = U(1) % NS;
    if (!slots[k]) fprintf(fout, "empty\n");
    else if (stale[k]) fprintf(fout, "stale\n");
    else {
      int rc = hwloc_distances_transform(topo, slots[k], (enum hwloc_distances_transform_e) U(2), U(4) ? (void *) &topo : NULL, UL(3));
      fprintf(fout, "%s ", rc < 0 ? errname() : "ok");
      print_struct(slots[k], 0);
      fputc('\n', fout);
    }
  }
  else fprintf(fout, "bad-op\n");
  if (fops) { if (annlen) fprintf(fops, "%s |%s\n", barebuf, ann); else fprintf(fops, "%s\n", barebuf); }
}

/* ---- generator ---- */
static struct { const char *name; unsigned long n; } stats[96]; static int nstats;
static void bump(const char *name) {
  for (int i = 0; i < nstats; i++) if (!strcmp(stats[i].name, name)) { stats[i].n++; return; }
  if (nstats < 96) { stats[nstats].name = name; stats[nstats].n = 1; nstats++; }
}
static void emit(const char *fmt, ...) {
  char buf[8192]; va_list ap; va_start(ap, fmt); vsnprintf(buf, sizeof buf, fmt, ap); va_end(ap);
  exec_line(buf);
}

static const char *names[] = { "-", "NUMALatency", "a", "b", "XGMIBandwidth", "a" };
static const unsigned long goodkinds[] = { 5, 6, 9, 10, 34, 33, 4, 8, 1, 2, 22, 26, 10, 10, 9, 6 };
static const int seltypes[] = { HWLOC_OBJ_PU, HWLOC_OBJ_CORE, HWLOC_OBJ_NUMANODE, HWLOC_OBJ_PACKAGE, HWLOC_OBJ_L3CACHE,
                                HWLOC_OBJ_L2CACHE, HWLOC_OBJ_MACHINE };
#define NSEL (sizeof seltypes / sizeof *seltypes)

static int present_type(void) {
  for (int tries = 0; tries < 20; tries++) {
    int t = seltypes[rng_below(NSEL)];
    if (hwloc_get_nbobjs_by_type(topo, (hwloc_obj_type_t) t) > 0) return t;
  }
  return HWLOC_OBJ_PU;
}
static unsigned long gen_kind(void) {
  unsigned r = rng_below(100);
  if (r < 60) return goodkinds[rng_below(sizeof goodkinds / sizeof *goodkinds)];
  if (r < 62) return 0;
  if (r < 90) { unsigned long k = rng_below(64); return k ? k : 5; }
  if (r < 95) return rng_below(64) | (1UL << (6 + rng_below(10)));
  return rng_below(64) | (1UL << (32 + rng_below(31)));
}
static unsigned long gen_filter_kind(void) {
  unsigned r = rng_below(100);
  if (r < 25) return 0;
  if (r < 85) return rng_below(64);
  if (r < 95) return rng_below(64) | (1UL << (6 + rng_below(10)));
  return ~0UL >> rng_below(3);
}
static unsigned long long gen_value(unsigned mode, unsigned long long base) {
  switch (mode) {
  case 0: return rng_below(21);
  case 1: return base * rng_below(6);
  case 2: return rng_chance(20) ? (rng_chance(50) ? ~0ULL : (1ULL << 63) + rng_below(5)) - rng_below(3) : rng_below(100);
  case 3: return rng_chance(50) ? 0 : base;
  default: return rng_next() >> rng_below(64);
  }
}

static void gen_values(unsigned h, int good) {
  char buf[8192]; size_t l = 0;
  unsigned r = rng_below(100);
  unsigned n = r < 3 ? 0 : r < 7 ? 1 : r < 35 ? 2 : r < 60 ? 3 : r < 78 ? 4 : 5 + rng_below(4);
  unsigned long flags = rng_chance(4) ? 1 + rng_below(3) : 0;
  if (good) { flags = 0; if (n < 2) n = 2 + rng_below(4); }
  unsigned mode = rng_below(100);   /* <45 homogeneous, <85 mixed, else mixed with duplicates forced */
  int t0 = present_type();
  hwloc_obj_t objs[16]; char sel[16][24];
  for (unsigned i = 0; i < n; i++) {
    int t = mode < 45 ? t0 : present_type();
    unsigned nb = hwloc_get_nbobjs_by_type(topo, (hwloc_obj_type_t) t);
    unsigned li = (!good && rng_chance(3)) ? nb + rng_below(3) : rng_below(nb ? nb : 1);
    if (mode >= 85 && i > 0 && rng_chance(40)) strcpy(sel[i], sel[rng_below(i)]);
    else if (!good && rng_chance(2)) strcpy(sel[i], "-");
    else snprintf(sel[i], sizeof sel[i], "%d.%u", t, li);
    objs[i] = resolve_sel(sel[i]);
  }
  if (rng_chance(30)) {
    /* list the switch ports last (stable partition) */
    char tmp[16][24]; hwloc_obj_t to[16]; unsigned k = 0;
    for (int pass = 0; pass < 2; pass++)
      for (unsigned i = 0; i < n; i++) if (is_sw(objs[i]) == pass) { strcpy(tmp[k], sel[i]); to[k] = objs[i]; k++; }
    for (unsigned i = 0; i < n; i++) { strcpy(sel[i], tmp[i]); objs[i] = to[i]; }
  }
  if (n >= 1 && rng_chance(good ? 1 : 5)) { strcpy(sel[0], "-"); objs[0] = NULL; }
  /* F03 input class: objs[0]==NULL, nbobjs>=2, every other object non-NULL */
  if (n >= 2 && !objs[0]) {
    int others = 1;
    for (unsigned i = 1; i < n; i++) if (!objs[i]) others = 0;
    if (others && !inc_f03) {
      if (rng_chance(50)) { strcpy(sel[1], "-"); objs[1] = NULL; }          /* stays a plain EINVAL case */
      else { snprintf(sel[0], sizeof sel[0], "%d.0", t0); objs[0] = resolve_sel(sel[0]); if (!objs[0]) return; }
    }
    if (others && inc_f03) bump("values_null0");
  }
  l += snprintf(buf + l, sizeof buf - l, "values %u %lu %u", h, flags, n);
  for (unsigned i = 0; i < n; i++) l += snprintf(buf + l, sizeof buf - l, " %s", sel[i]);
  unsigned vmode = rng_below(5); unsigned long long base = 1 + rng_below(50);
  for (unsigned i = 0; i < n * n; i++) l += snprintf(buf + l, sizeof buf - l, " %llu", gen_value(vmode, base));
  exec_line(buf); bump("values");
}

static int pick_slot(int want_fresh) {
  for (int tries = 0; tries < 6; tries++) { int k = rng_below(NS); if (slots[k] && (!want_fresh || !stale[k])) return k; }
  return rng_below(NS);
}
/* F12 input class: a non-port object listed after the first port */
static int f12_class(struct hwloc_distances_s *d) {
  unsigned i, first = d->nbobjs;
  for (i = 0; i < d->nbobjs; i++) if (is_sw(d->objs[i])) { first = i; break; }
  for (i = first + 1; i < d->nbobjs; i++) if (d->objs[i] && !is_sw(d->objs[i])) return 1;
  return 0;
}

static int fresh_slot(void) { for (int k = 0; k < NS; k++) if (slots[k] && !stale[k]) return 1; return 0; }
static void gen_get(void) {
  unsigned r = rng_below(100);
  unsigned cap = rng_chance(75) ? 1 + rng_below(3) : rng_chance(50) ? 0 : rng_below(10);
  unsigned long fl = rng_chance(4) ? 1UL + rng_below(2) : 0UL;
  if (r < 50) { emit("get %u %u %lu %lu", rng_below(NS), cap, gen_filter_kind(), fl); bump("get"); }
  else if (r < 65) {
    int nd = hwloc_topology_get_depth(topo);
    int depth = rng_chance(60) ? (int) rng_below(nd) : rng_chance(50) ? -3 : (int) rng_below(12) - 9 + (rng_chance(10) ? 100 : 0);
    emit("getd %u %u %lu %lu %d", rng_below(NS), cap, gen_filter_kind(), fl, depth); bump("getd");
  }
  else if (r < 82) {
    int ty = rng_chance(70) ? present_type() : (int) rng_below(23) - 1;
    emit("gett %u %u %lu %lu %d", rng_below(NS), cap, gen_filter_kind(), fl, ty); bump("gett");
  }
  else { emit("getn %u %u %lu %s", rng_below(NS), cap, fl, rng_chance(10) ? "zzz" : names[rng_below(6)]); bump("getn"); }
}
static unsigned long gen_commit_flags(void) {
  unsigned long flags = 0;
  int inc_group = (dupped && !inc_dupgroup) ? 0 : (inc_group_env);
  if (rng_chance(6)) flags = (rng_chance(50) ? 4UL : 8UL << rng_below(20)) | (inc_group ? rng_below(4) : 0);
  else if (inc_group && rng_chance(group_crashonly ? 50 : 12)) flags = 1 + rng_below(3);
  return flags;
}

/* create + values + commit(GROUP) with a block-structured matrix over one level: 2-3 nested block sizes, the blocks following the
 * logical indexes (laminar with the tree when the sizes fit its arities, cutting it otherwise) or the positions, plus perturbations
 * (asymmetric cell, extra minimal edges that chain blocks, bad diagonal, huge values, all-equal) and non-groupable kinds */
static void gen_block(unsigned h) {
  int t = HWLOC_OBJ_PU; unsigned nb = 0;
  for (int tries = 0; tries < 8; tries++) { t = present_type(); nb = hwloc_get_nbobjs_by_type(topo, (hwloc_obj_type_t) t); if (nb >= 3) break; }
  if (nb < 3) { t = HWLOC_OBJ_PU; nb = hwloc_get_nbobjs_by_type(topo, HWLOC_OBJ_PU); }
  if (nb < 3) return;
  unsigned n = nb < 12 ? nb : 12;
  if (rng_chance(25)) n = 3 + rng_below(n - 2);
  unsigned idx[12], off = nb > n ? rng_below(nb - n + 1) : 0, sel = rng_below(100);
  for (unsigned i = 0; i < n; i++) idx[i] = off + i;
  if (sel >= 60 && sel < 85) { for (unsigned i = n - 1; i > 0; i--) { unsigned j = rng_below(i + 1), x = idx[i]; idx[i] = idx[j]; idx[j] = x; } }
  else if (sel >= 85) { for (unsigned i = 0; i < n; i++) idx[i] = rng_below(nb); }
  unsigned b1 = 2 + rng_below(2), b2 = b1 * (2 + rng_below(2)), bypos = rng_chance(30);
  unsigned long long v0 = rng_chance(70) ? 0 : rng_below(4), v1 = v0 + 1 + rng_below(10), v2 = v1 + 1 + rng_below(10), v3 = v2 + 1 + rng_below(10);
  unsigned p = rng_below(100);
  if (p >= 18 && p < 22) { v2 = (1ULL << 63) + rng_below(1000); v3 = ~0ULL - rng_below(1000); }
  if (p >= 22 && p < 26) { v2 = v3 = v1; }
  if (p >= 26 && p < 31) { unsigned long long x = v1; v1 = v3; v3 = x; }
  unsigned long long m[144];
  for (unsigned i = 0; i < n; i++) for (unsigned j = 0; j < n; j++) {
    unsigned a = bypos ? i : idx[i], b = bypos ? j : idx[j];
    m[i * n + j] = i == j ? v0 : a / b1 == b / b1 ? v1 : a / b2 == b / b2 ? v2 : v3;
  }
  if (p < 8) { unsigned i = rng_below(n), j = rng_below(n); if (i != j) m[i * n + j] = rng_chance(50) ? v1 : m[i * n + j] + 1; }
  else if (p < 14) { for (unsigned r = 1 + rng_below(3); r > 0; r--) { unsigned i = rng_below(n), j = rng_below(n); if (i != j) m[i * n + j] = m[j * n + i] = v1; } }
  else if (p < 18) { unsigned i = rng_below(n); m[i * n + i] = rng_chance(50) ? v1 : v3; }
  unsigned k = rng_below(100);
  unsigned long kind = k < 70 ? (rng_chance(50) ? 5 : 6) : k < 80 ? (rng_chance(50) ? 33 : 34) : k < 90 ? (rng_chance(50) ? 9 : 10) : (rng_chance(50) ? 4 : 1);
  emit("create %u %s %lu 0", h, names[rng_below(6)], kind); bump("create");
  char buf[8192]; size_t l = 0;
  l += snprintf(buf + l, sizeof buf - l, "values %u 0 %u", h, n);
  for (unsigned i = 0; i < n; i++) l += snprintf(buf + l, sizeof buf - l, " %d.%u", t, idx[i]);
  for (unsigned i = 0; i < n * n; i++) l += snprintf(buf + l, sizeof buf - l, " %llu", m[i]);
  exec_line(buf); bump("values"); bump("values_block");
  emit("commit %u %lu", h, rng_chance(60) ? 1UL : 3UL); bump("commit"); bump("commit_block");
}
static unsigned live_handle(void) {
  unsigned h = rng_below(NH);
  for (int t = 0; t < 4 && !handles[h]; t++) h = rng_below(NH);
  return h;
}

static void gen_one(void) {
  unsigned r = rng_below(1000);
  if (r < 220 && inc_group_env && !(dupped && !inc_dupgroup) && rng_chance(group_crashonly ? 30 : 14)) gen_block(rng_below(NH));
  else if (r < 220) {
    /* the documented sequence, mostly valid */
    unsigned h = rng_below(NH);
    unsigned long kind = rng_chance(85) ? goodkinds[rng_below(sizeof goodkinds / sizeof *goodkinds)] : gen_kind();
    emit("create %u %s %lu %lu", h, names[rng_below(6)], kind, rng_chance(3) ? 1UL : 0UL); bump("create");
    if (rng_chance(10)) gen_get();
    gen_values(h, rng_chance(85));
    if (rng_chance(10)) gen_get();
    emit("commit %u %lu", h, gen_commit_flags()); bump("commit");
  }
  else if (r < 270) { emit("create %u %s %lu %lu", rng_below(NH), names[rng_below(6)], gen_kind(), rng_chance(5) ? 1UL + rng_below(3) : 0UL); bump("create"); }
  else if (r < 330) gen_values(live_handle(), 0);
  else if (r < 380) { emit("commit %u %lu", live_handle(), gen_commit_flags()); bump("commit"); }
  else if (r < 620) gen_get();
  else if (r < 650) { emit("name %d", pick_slot(0)); bump("name"); }
  else if (r < 670) { emit("release %d", pick_slot(0)); bump("release"); }
  else if (r < 710) { emit("relrm %d", pick_slot(0)); bump("relrm"); }
  else if (r < 714) { emit("remove"); bump("remove"); }
  else if (r < 728) {
    int nd = hwloc_topology_get_depth(topo);
    int depth = rng_chance(60) ? (int) rng_below(nd) : rng_chance(50) ? -3 : (int) rng_below(12) - 9;
    emit("rmd %d", depth); bump("rmd");
  }
  else if (r < 740) { emit("rmt %d", rng_chance(70) ? present_type() : (int) rng_below(23) - 1); bump("rmt"); }
  else if (r < 930) {
    if (!fresh_slot()) { emit("get %u %u 0 0", rng_below(NS), 2 + rng_below(3)); bump("get"); }
    int k = pick_slot(1);
    unsigned tr = rng_chance(95) ? rng_below(4) : 4 + rng_below(4);
    if (tr == 2 && slots[k] && !stale[k] && f12_class(slots[k])) {
      if (!inc_f12) { bump("tr_f12_skipped"); tr = 3; } else bump("tr_merge_mixed");
    }
    emit("tr %d %u %lu %u", k, tr, rng_chance(3) ? 1UL : 0UL, rng_chance(3) ? 1u : 0u); bump("tr");
  }
  else if (r < 958) {
    unsigned long flags; char mode;
    unsigned long mask = (unsigned long) rng_next() & 0xffffffffUL;
    if (rng_chance(60)) mask |= (unsigned long) rng_next();            /* keep most objects */
    if (rng_chance(10)) mask = 1UL << rng_below(20);
    if (rng_chance(55)) { mode = 'c'; flags = rng_chance(50) ? 1 : rng_chance(50) ? 0 : rng_below(8); }
    else { mode = 'n'; flags = rng_chance(60) ? 16 : 0; mask &= 0xf; if (rng_chance(50)) mask |= (unsigned long) rng_next() & 0xf; }
    emit("restrict %c %lx %lu", mode, mask & 0xffffffffUL, flags); bump("restrict");
  }
  else if (r < 963) { emit("refresh"); bump("refresh"); }
  else if (r < 968) { emit("dup"); bump("dup"); }      /* (was unreachable behind the refresh branch) */
  else if (r < 980) { emit("shm"); bump("shm"); }
  else { emit("xml"); bump("xml"); }
}

int main(int argc, char **argv) {
  inc_f03 = inc_f12 = 1;   /* former defect classes F03 / F12 (fixed in /repo): ordinary inputs now */
  inc_group_env = getenv("VERIF_GROUP") && atoi(getenv("VERIF_GROUP"));
  group_crashonly = getenv("VERIF_GROUP_CRASHONLY") && atoi(getenv("VERIF_GROUP_CRASHONLY"));
  inc_dupgroup = 1;        /* former finding F17/F27 (fixed): GROUP flags are also used on a duplicated topology */
  if (argc >= 5 && !strcmp(argv[1], "--replay")) {
    FILE *in = fopen(argv[2], "r"); fout = fopen(argv[3], "w"); fops = fopen(argv[4], "w");
    if (!in || !fout || !fops) return 2;
    static char line[8192];
    while (fgets(line, sizeof line, in)) { if (line[0] == '#') continue; exec_line(line); }
    fclose(in); fclose(fout); fclose(fops);
    drop_everything();
    return 0;
  }
  if (argc < 5) { fprintf(stderr, "usage\n"); return 2; }
  unsigned long nops = strtoul(argv[1], NULL, 10);
  fops = fopen(argv[2], "w"); fout = fopen(argv[3], "w");
  if (!fops || !fout) return 2;
  rng_seed(rng_seed_from_env());
  for (unsigned long i = 0; i < nops; i++) {
    if (i % 120 == 0) {
      unsigned long long m = rng_chance(25) ? 0 : rng_next() & rng_next();
      if (rng_chance(30)) m &= rng_next();
      emit("load %u %llx", rng_below(NSYNTH), m); bump("load");
    }
    gen_one();
  }
  fclose(fops); fclose(fout);
  FILE *fs = fopen(argv[4], "w");
  if (fs) { for (int i = 0; i < nstats; i++) fprintf(fs, "%s %lu\n", stats[i].name, stats[i].n); fclose(fs); }
  drop_everything();
  return 0;
}
