/* C04 differential harness (engine `strings`): bitmap <-> string conversions.
 * Includes hwloc/bitmap.c itself (private struct access; strtoul is wrapped to detect inputs outside
 * the set-level domain of the list format: an index >= 2^21, which would mean giant allocations.  Sign characters
 * are inside the domain of the cursor-level model Hw.Bitmap.Cursor and are compared like everything else).
 *
 * Parse ops additionally MEASURE the furthest byte the real parser reads: the first n bytes of the string are placed
 * right below a PROT_NONE page (no NUL unless n = len+1) and the parser is run; a read of index >= n is a SIGSEGV in
 * the guard page (caught, siglongjmp).  The smallest n-1 that does not fault is the furthest index read; it is
 * compared with the maximum of the model's read log (proved <= len for every byte string).  Exact: a fault happens
 * iff some byte at index >= n is really accessed (libc's vector string routines never cross a page needlessly).
 *
 * usage: strings <ncases> <ops-file> <out-file> <stats-file>      (generate; seed = VERIF_SEED)
 *        strings --replay <ops-file> <out-file>
 */
#include <setjmp.h>
#include <signal.h>
#include <sys/mman.h>
#include <unistd.h>
#include <stdlib.h>
#include <ctype.h>
static jmp_buf verif_jb;
static int verif_list_mode;
static unsigned long verif_strtoul(const char *s, char **end, int base);
#define strtoul verif_strtoul
#include "bitmap.c"
#undef strtoul
#include "rng.h"
#include <string.h>

static unsigned long verif_strtoul(const char *s, char **end, int base) {
  unsigned long v = strtoul(s, end, base);
  if (verif_list_mode && v >= (1UL << 21)) longjmp(verif_jb, 1);
  return v;
}

static FILE *fops, *fout;

#define GUARD 64
#define UNTOUCHED 0x5A
#define GUARDBYTE 0xA5

typedef int (*snprintf_fn)(char *, size_t, const struct hwloc_bitmap_s *);
typedef int (*asprintf_fn)(char **, const struct hwloc_bitmap_s *);
typedef int (*sscanf_fn)(struct hwloc_bitmap_s *, const char *);

static snprintf_fn get_snprintf(const char *fmt) {
  if (!strcmp(fmt, "hwloc")) return hwloc_bitmap_snprintf;
  if (!strcmp(fmt, "list")) return hwloc_bitmap_list_snprintf;
  if (!strcmp(fmt, "taskset")) return hwloc_bitmap_taskset_snprintf;
  return NULL;
}
static asprintf_fn get_asprintf(const char *fmt) {
  if (!strcmp(fmt, "hwloc")) return hwloc_bitmap_asprintf;
  if (!strcmp(fmt, "list")) return hwloc_bitmap_list_asprintf;
  if (!strcmp(fmt, "taskset")) return hwloc_bitmap_taskset_asprintf;
  return NULL;
}
static sscanf_fn get_sscanf(const char *fmt) {
  if (!strcmp(fmt, "hwloc")) return hwloc_bitmap_sscanf;
  if (!strcmp(fmt, "list")) return hwloc_bitmap_list_sscanf;
  if (!strcmp(fmt, "taskset")) return hwloc_bitmap_taskset_sscanf;
  return NULL;
}


/* ---- guard-page measurement of the furthest index read ---- */
static sigjmp_buf segv_jb;
static volatile sig_atomic_t segv_armed;
static char *guard_region;          /* GPAGES readable pages followed by one PROT_NONE page */
#define GPAGES 2
static long pagesz;
static void segv_handler(int sig, siginfo_t *si, void *ctx) {
  (void) ctx;
  char *a = (char *) si->si_addr, *g = guard_region + GPAGES * pagesz;
  if (segv_armed && a >= g && a < g + pagesz) { segv_armed = 0; siglongjmp(segv_jb, 1); }
  signal(sig, SIG_DFL);             /* anything else is a real crash: let it happen again with the default action */
}
static void guard_init(void) {
  pagesz = sysconf(_SC_PAGESIZE);
  guard_region = mmap(NULL, (GPAGES + 1) * pagesz, PROT_READ | PROT_WRITE, MAP_PRIVATE | MAP_ANONYMOUS, -1, 0);
  if (guard_region == MAP_FAILED || mprotect(guard_region + GPAGES * pagesz, pagesz, PROT_NONE)) { perror("guard"); exit(3); }
  struct sigaction sa; memset(&sa, 0, sizeof sa);
  sa.sa_sigaction = segv_handler; sa.sa_flags = SA_SIGINFO | SA_NODEFER; sigemptyset(&sa.sa_mask);
  sigaction(SIGSEGV, &sa, NULL); sigaction(SIGBUS, &sa, NULL);
}
/* run fn(dst, p): 0 = returned (*ret set), 1 = faulted in the guard page, 2 = left through the unsupported longjmp */
static int run_guarded(sscanf_fn fn, hwloc_bitmap_t dst, const char *p, int *ret) {
  if (setjmp(verif_jb)) { segv_armed = 0; return 2; }
  if (sigsetjmp(segv_jb, 1)) return 1;
  segv_armed = 1;
  *ret = fn(dst, p);
  segv_armed = 0;
  return 0;
}
/* the first n bytes of s right below the guard page */
static const char *place_prefix(const char *s, size_t n) {
  char *p = guard_region + GPAGES * pagesz - n;
  memcpy(p, s, n);
  return p;
}

static hwloc_bitmap_t mk_bitmap(int inf, unsigned n, unsigned long *ws) {
  hwloc_bitmap_t b = hwloc_bitmap_alloc();
  hwloc_bitmap_from_ulongs(b, n, ws);
  b->infinite = inf;
  return b;
}

static void put_hex(const unsigned char *p, size_t n) {
  if (!n) { fputc('-', fout); return; }
  for (size_t i = 0; i < n; i++) fprintf(fout, "%02x", p[i]);
}

static int exec_line(char *line) {
  char *tok[200]; int nt = 0; char *save = NULL;
  for (char *t = strtok_r(line, " \n", &save); t && nt < 200; t = strtok_r(NULL, " \n", &save)) tok[nt++] = t;
  if (!nt) return 0;
  if (!strcmp(tok[0], "snprintf") && nt >= 5) {
    const char *fmt = tok[1]; size_t cap = strtoul(tok[2], NULL, 10); int inf = atoi(tok[3]);
    unsigned n = nt - 4; unsigned long ws[200];
    for (unsigned i = 0; i < n; i++) ws[i] = strtoul(tok[4 + i], NULL, 16);
    hwloc_bitmap_t b = mk_bitmap(inf, n, ws);
    unsigned char *raw = malloc(cap + 2 * GUARD);
    memset(raw, GUARDBYTE, cap + 2 * GUARD);
    memset(raw + GUARD, UNTOUCHED, cap);
    /* size 0: the pointer is NOT NULL (a caller appending to a buffer whose room reached 0): nothing may be written; the
     * documented (NULL, 0) form must return the same length */
    int ret = get_snprintf(fmt)((char *) raw + GUARD, cap, b);
    if (!cap && get_snprintf(fmt)(NULL, 0, b) != ret) ret = -7777;
    int guard_ok = 1;
    for (size_t i = 0; i < GUARD; i++) if (raw[i] != GUARDBYTE || raw[GUARD + cap + i] != GUARDBYTE) guard_ok = 0;
    fprintf(fout, "ret %d buf ", ret);
    if (!cap) fputc('-', fout);
    for (size_t i = 0; i < cap; i++) { if (raw[GUARD + i] == UNTOUCHED) fputs("--", fout); else fprintf(fout, "%02x", raw[GUARD + i]); }
    fprintf(fout, " oob %d\n", guard_ok ? 0 : 1);
    free(raw); hwloc_bitmap_free(b);
  } else if (!strcmp(tok[0], "asprintf") && nt >= 4) {
    const char *fmt = tok[1]; int inf = atoi(tok[2]);
    unsigned n = nt - 3; unsigned long ws[200];
    for (unsigned i = 0; i < n; i++) ws[i] = strtoul(tok[3 + i], NULL, 16);
    hwloc_bitmap_t b = mk_bitmap(inf, n, ws);
    char *s = NULL;
    int ret = get_asprintf(fmt)(&s, b);
    fprintf(fout, "ret %d str ", ret);
    put_hex((unsigned char *) s, strlen(s));
    fputc('\n', fout);
    free(s); hwloc_bitmap_free(b);
  } else if (!strcmp(tok[0], "sscanf") && (nt == 3 || nt == 4)) {
    const char *fmt = tok[1];
    size_t hl = strcmp(tok[2], "-") ? strlen(tok[2]) / 2 : 0;
    if (hl + 1 > (size_t) (GPAGES * pagesz)) { fprintf(fout, "bad-op\n"); return -1; }
    /* exact-size heap copy: a 1-byte over-read is an ASan report */
    char *s = malloc(hl + 1);
    for (size_t i = 0; i < hl; i++) { unsigned v; sscanf(tok[2] + 2 * i, "%2x", &v); s[i] = (char) v; }
    s[hl] = 0;
    /* two destinations with different previous contents: a difference = an uninitialised word */
    unsigned long pa[40], pb[40];
    for (int i = 0; i < 40; i++) { pa[i] = 0xAAAAAAAAAAAAAAAAUL; pb[i] = 0x5555555555555555UL; }
    hwloc_bitmap_t A = mk_bitmap(1, 40, pa), B = mk_bitmap(0, 40, pb);
    int is_list = !strcmp(fmt, "list");
    verif_list_mode = is_list;
    if (setjmp(verif_jb)) {
      fprintf(fout, "unsupported\n");
    } else {
      int ra = get_sscanf(fmt)(A, s);
      int rb = get_sscanf(fmt)(B, s);
      int same = ra == rb && A->ulongs_count == B->ulongs_count && A->infinite == B->infinite
                 && !memcmp(A->ulongs, B->ulongs, A->ulongs_count * sizeof(unsigned long));
      /* furthest index read, measured on the real code (see the head of this file); fresh destinations */
      long maxread = -1; unsigned alloc = 0; const char *bad = NULL;
      {
        int rc = 0;
        hwloc_bitmap_t C = hwloc_bitmap_alloc();
        int st = run_guarded(get_sscanf(fmt), C, place_prefix(s, hl + 1), &rc);
        if (st != 0) bad = "full-string-faults";
        else if (rc != ra || !hwloc_bitmap_isequal(C, A)) bad = "guarded-run-differs";
        alloc = C->ulongs_allocated;
        hwloc_bitmap_free(C);
        maxread = (long) hl;
        for (size_t n = hl; n >= 1 && !bad; n--) {
          hwloc_bitmap_t D = hwloc_bitmap_alloc();
          int rd_ = 0;
          st = run_guarded(get_sscanf(fmt), D, place_prefix(s, n), &rd_);
          if (st == 0 && (rd_ != ra || !hwloc_bitmap_isequal(D, A))) bad = "prefix-run-differs";
          hwloc_bitmap_free(D);
          if (st == 1) break;
          if (st == 2) { bad = "prefix-run-unsupported"; break; }
          maxread = (long) n - 1;
        }
      }
      if (bad) fprintf(fout, "%s\n", bad);
      else if (!same) fprintf(fout, "undef\n");
      else if (ra == -1) {
        /* documented: destination zeroed on failure */
        if (hwloc_bitmap_iszero(A)) fprintf(fout, "fail"); else fprintf(fout, "fail-notzero");
      } else if (ra == 0) {
        fprintf(fout, "ok %u %d", A->ulongs_count, A->infinite ? 1 : 0);
        for (unsigned i = 0; i < A->ulongs_count; i++) fprintf(fout, " %lx", A->ulongs[i]);
      } else fprintf(fout, "ret %d", ra);
      if (!bad && same) {
        fprintf(fout, " maxread %ld", maxread);
        if (!is_list) fprintf(fout, " alloc %u", alloc);
        fputc('\n', fout);
      }
    }
    verif_list_mode = 0;
    free(s); hwloc_bitmap_free(A); hwloc_bitmap_free(B);
  } else { fprintf(fout, "bad-op\n"); return -1; }
  return 0;
}

/* ---- generators ---- */
static unsigned long gen_word(void) {
  switch (rng_below(10)) {
  case 0: return 0UL;
  case 1: return ~0UL;
  case 2: return 1UL << rng_below(64);
  case 3: return ~(1UL << rng_below(64));
  case 4: return (~0UL) << rng_below(64);
  case 5: return (~0UL) >> rng_below(64);
  case 6: return 0xffffffff00000000UL | (rng_next() & 0xffffffffUL);
  case 7: return rng_next() & 0xffffffffUL;
  case 8: return rng_next() & rng_next();
  default: return rng_next();
  }
}
static int gen_bitmap_words(unsigned long *ws, int *inf) {
  int n = 1 + rng_below(rng_chance(80) ? 3 : 9);
  *inf = rng_chance(40);
  for (int i = 0; i < n; i++) ws[i] = gen_word();
  /* often make the top words equal to the fill or its opposite */
  if (rng_chance(35)) ws[n - 1] = *inf ? ~0UL : 0UL;
  if (n > 1 && rng_chance(15)) ws[n - 2] = *inf ? ~0UL : 0UL;
  if (rng_chance(10)) for (int i = 0; i < n; i++) ws[i] = *inf ? ~0UL : 0UL;
  return n;
}

static unsigned long nstat[16];
static const char *fmts[3] = {"hwloc", "list", "taskset"};

static void emit_line(const char *line) {
  char copy[8192];
  fprintf(fops, "%s\n", line); fflush(fops);
  strncpy(copy, line, sizeof copy - 1); copy[sizeof copy - 1] = 0;
  exec_line(copy);
  fflush(fout);          /* so that a sanitizer abort in the NEXT op is attributed to that op */
}

static void words_to_str(char *dst, size_t dsz, int inf, int n, unsigned long *ws) {
  int off = snprintf(dst, dsz, "%d", inf);
  for (int i = 0; i < n; i++) off += snprintf(dst + off, dsz - off, " %lx", ws[i]);
}

static void hex_of(char *dst, const unsigned char *s, size_t n) {
  if (!n) { strcpy(dst, "-"); return; }
  for (size_t i = 0; i < n; i++) sprintf(dst + 2 * i, "%02x", s[i]);
}

static const char alphabet[] = "0123456789abcdefABCDEFxX,,,---.. \t0000ffff";

static void gen_case(void) {
  char line[8192], wstr[4096], hx[4096];
  unsigned long ws[16]; int inf;
  unsigned r = rng_below(100);
  const char *fmt = fmts[rng_below(3)];
  if (r < 12) {
    /* printing: every buffer length 0..need+1 for one bitmap */
    int n = gen_bitmap_words(ws, &inf);
    hwloc_bitmap_t b = mk_bitmap(inf, n, ws);
    int need = get_snprintf(fmt)(NULL, 0, b);
    hwloc_bitmap_free(b);
    words_to_str(wstr, sizeof wstr, inf, n, ws);
    if (need > 150) need = 150;
    for (int cap = 0; cap <= need + 2; cap++) {
      snprintf(line, sizeof line, "snprintf %s %d %s", fmt, cap, wstr);
      emit_line(line); nstat[0]++;
    }
    snprintf(line, sizeof line, "asprintf %s %s", fmt, wstr);
    emit_line(line); nstat[1]++;
  } else {
    /* parsing */
    unsigned char s[600]; size_t len = 0;
    unsigned k = rng_below(100);
    if (k < 45) {
      /* the printer's own output for a random bitmap, possibly mutated */
      int n = gen_bitmap_words(ws, &inf);
      hwloc_bitmap_t b = mk_bitmap(inf, n, ws);
      char *txt = NULL; get_asprintf(fmt)(&txt, b); hwloc_bitmap_free(b);
      len = strlen(txt); if (len > 400) len = 400;
      memcpy(s, txt, len); free(txt);
      if (k >= 20) {
        int nm = 1 + rng_below(3);
        for (int m = 0; m < nm && len < 500; m++) {
          unsigned pos = rng_below(len + 1);
          switch (rng_below(4)) {
          case 0: if (len) { memmove(s + pos, s + pos + 1, len - pos); if (pos < len) len--; } break;         /* drop */
          case 1: memmove(s + pos + 1, s + pos, len - pos); s[pos] = alphabet[rng_below(sizeof alphabet - 1)]; len++; break;
          case 2: if (pos < len) s[pos] = alphabet[rng_below(sizeof alphabet - 1)]; break;
          case 3: len = pos; break;                                                                            /* truncate */
          }
        }
        nstat[3]++;
      } else nstat[2]++;
    } else if (k < 80) {
      /* grammar-ish random strings */
      len = rng_below(24);
      if (rng_chance(30) && len + 8 < sizeof s) { memcpy(s, "0xf...f", 7); size_t l2 = rng_below(20); for (size_t i = 0; i < l2; i++) s[7 + i] = alphabet[rng_below(sizeof alphabet - 1)]; len = 7 + l2; }
      else for (size_t i = 0; i < len; i++) s[i] = alphabet[rng_below(sizeof alphabet - 1)];
      nstat[4]++;
    } else if (k < 88) {
      /* boundary shapes */
      static const char *shapes[] = {"", ",", ",,", "0x", "0x,", ",0x1", "0x1,", "0xf...f", "0xf...f,", "0xf...f,,", "0xf...fz",
        "0xf...f,0x1,", "0x1,,", "-", "1-", "1-,", "1--2", "0x10-0x20", "010", "08", "1,,2", "1, 2", " 1", "1 ", "3x5", "0xf...f0", "0xf...f00000000",
        "0xf...fffffffff0", "0xf...f123456789abcdef0", "0x0", "0", "00", "0x00000000000000000", "0x1ffffffffffffffff", "0xffffffffffffffffffffffff", "0xg", "g"};
      const char *sh = shapes[rng_below(sizeof shapes / sizeof shapes[0])];
      len = strlen(sh); memcpy(s, sh, len);
      nstat[5]++;
    } else if (k < 93) {
      /* signs and white space inside numbers (cursor-level model: glibc negates modulo 2^64), per format */
      static const char *signs[] = {"-1", "+1", "-0", "+0", "-", "+", "--1", "+-1", "-+1", " -1", "\t+f", "- 1", "-0x1", "+0x", "-0x", "0x-1", "0x+1",
        "-ffffffffffffffff", "-10000000000000000", "-ffffffffffffffffffff", "+ffffffffffffffff0", "1,-1", "-1,1", "+f,-2", "-1,-1,-1", "0xf...f,-1",
        "0xf...f,+0", "0xf...f-1", "0xf...f+1", "0x-f", "1-+2", "+1-+3", "+5", "+1,+2", "1-+", "2,+", "-18446744073709551615", "+0-+0", " +3 , +4",
        "0xf...f -1", "0x +1", "+0x10-+0x12", "-0-0", "-0,1"};
      const char *sh = signs[rng_below(sizeof signs / sizeof signs[0])];
      len = strlen(sh); memcpy(s, sh, len);
      if (rng_chance(40) && len + 6 < sizeof s) { size_t l2 = 1 + rng_below(5); for (size_t i = 0; i < l2; i++) s[len + i] = "0123456789abcdef,-+ x"[rng_below(21)]; len += l2; }
      nstat[7]++;
    } else if (k < 96) {
      /* long inputs: more words than HWLOC_BITMAP_PREALLOC_ULONGS (the reset must enlarge), many commas, long digit runs */
      unsigned kind = rng_below(4);
      if (kind == 0) {            /* hwloc format shape: n groups */
        unsigned n = 14 + rng_below(40);
        if (rng_chance(40)) { memcpy(s, "0xf...f,", 8); len = 8; }
        for (unsigned i = 0; i < n && len + 12 < sizeof s; i++) {
          if (i) s[len++] = ',';
          if (rng_chance(80)) len += sprintf((char *) s + len, "0x%08lx", (unsigned long) (rng_next() & 0xffffffffUL));
        }
      } else if (kind == 1) {     /* taskset shape: many hex digits */
        unsigned n = 100 + rng_below(300);
        if (rng_chance(30)) { memcpy(s, "0xf...f", 7); len = 7; } else if (rng_chance(70)) { memcpy(s, "0x", 2); len = 2; }
        for (unsigned i = 0; i < n; i++) s[len++] = "0123456789abcdef"[rng_below(16)];
        if (rng_chance(10)) s[rng_below(len)] = "g,-+ "[rng_below(5)];
      } else if (kind == 2) {     /* list shape: many ranges, then possibly a bad token far from the end */
        unsigned n = 5 + rng_below(40), v = 0;
        for (unsigned i = 0; i < n && len + 24 < sizeof s; i++) {
          v += 1 + rng_below(40);
          if (i) s[len++] = rng_chance(80) ? ',' : ' ';
          if (rng_chance(8)) { s[len++] = "x-,+g"[rng_below(5)]; continue; }
          len += sprintf((char *) s + len, "%u", v);
          if (rng_chance(40)) { unsigned w = v + rng_below(30); len += sprintf((char *) s + len, "-%u", w); v = w; }
        }
        if (rng_chance(20)) s[len++] = '-';
      } else {                    /* one very long digit run (overflow saturation in strtoul) */
        unsigned n = 15 + rng_below(30);
        if (rng_chance(50)) { memcpy(s, "0x", 2); len = 2; }
        for (unsigned i = 0; i < n; i++) s[len++] = "0123456789abcdef"[rng_below(rng_chance(50) ? 10 : 16)];
      }
      nstat[8]++;
    } else {
      /* raw bytes 1..255 */
      len = rng_below(12);
      for (size_t i = 0; i < len; i++) s[i] = 1 + rng_below(255);
      nstat[6]++;
    }
    for (size_t i = 0; i < len; i++) if (!s[i]) s[i] = '0';
    hex_of(hx, s, len);
    snprintf(line, sizeof line, "sscanf %s %s %u", fmt, hx, (unsigned) HWLOC_BITMAP_PREALLOC_ULONGS);
    emit_line(line);
  }
}

int main(int argc, char **argv) {
  guard_init();
  if (argc >= 4 && !strcmp(argv[1], "--replay")) {
    FILE *in = fopen(argv[2], "r"); fout = fopen(argv[3], "w");
    if (!in || !fout) return 2;
    char line[8192];
    while (fgets(line, sizeof line, in)) exec_line(line);
    fclose(in); fclose(fout);
    return 0;
  }
  if (argc < 5) { fprintf(stderr, "usage\n"); return 2; }
  unsigned long n = strtoul(argv[1], NULL, 10);
  fops = fopen(argv[2], "w"); fout = fopen(argv[3], "w");
  if (!fops || !fout) return 2;
  rng_seed(rng_seed_from_env());
  for (unsigned long i = 0; i < n; i++) gen_case();
  fclose(fops); fclose(fout);
  FILE *fs = fopen(argv[4], "w");
  if (fs) {
    static const char *names[] = {"snprintf.len", "asprintf", "sscanf.printed", "sscanf.mutated", "sscanf.grammar", "sscanf.shapes", "sscanf.bytes", "sscanf.signs", "sscanf.long"};
    for (int i = 0; i < 9; i++) fprintf(fs, "%s %lu\n", names[i], nstat[i]);
    fclose(fs);
  }
  return 0;
}
