/* C08 harness (engine `restrict`): hwloc_topology_restrict() on real topologies vs the Lean model.
 *
 * usage: restrict <nops> <ops-out> <c-out> <stats-out> <trace-out> [sources-file]     (seed = VERIF_SEED)
 *        restrict --replay <ops-in> <c-out> [trace-out]
 *        restrict --consts            prints the constants consumed by tools/gen_restrict.py
 *
 * op lines (the plan; replayable, every line independent of addresses):
 *   topo <S|X> <topology flags> <filters: 20 chars 0-3 or -> <synthetic string | xml path>
 *   misc <k> <name>                 insert a Misc object below the (k mod nobjs)-th object in DFS order
 *   group <k> <dont_merge>          insert a Group with the cpuset of the (k mod nobjs)-th object in DFS order (normal, not the root)
 *   allow <cpuset> <nodeset>        hwloc_topology_allow(CUSTOM) (only effective with INCLUDE_DISALLOWED)
 *   restrict <set> <flags>          set = <hex mask> | I<hex mask of the complement> (infinite set)
 *   dist <name|-> <kind> <vseed> <n> <k1>..<kn>   hwloc_distances_add_create/values/commit over the (k_i mod nobjs)-th objects in DFS
 *                                   order (duplicates dropped), values = a fixed function of (vseed, cell)
 *   cpukind <cpuset> <forced> <n> <name> <value>..   hwloc_cpukinds_register
 *   mattr <name> <flags>            hwloc_memattr_register
 *   mval <attr name> <k target> <-|c<cpuset>|o<k>> <value>    hwloc_memattr_set_value (initiator: none, cpuset, object)
 *   sideinit                        observe the side structures (distances, CPU kinds, memory attributes) through the public API;
 *                                   the model ADOPTS this observation (plus the forced efficiencies, which no public call returns)
 *   observe <mask>                  observe them again (1 distances, 2 CPU kinds, 4 memory attributes); the model PREDICTS this
 *                                   observation from the adopted one and the restricts since (C13/C14/C15 models) and compares
 * c-out: one line per op.  trace-out (input of the Lean driver): for topo/misc/allow one line `echo <c-out line>`;
 * for restrict: dump BEFORE (tag B), `restrict <set> <flags> <ret> <errno>`, dump AFTER (tag A);
 * for sideinit/observe: `SIDE <I|O> <mask>`, lines SD/SK/SA/ST/SI (see side_dump), `SEND <summary>`.
 */
#include "topology.c"          /* only for the static tables obj_type_order[] / obj_type_priority[] (--consts) */
#include "dump.h"
#include "rng.h"
#include <errno.h>
#include <stdarg.h>

static FILE *fops, *fout, *ftrace, *fstats;
static hwloc_topology_t topo;
static int topo_loaded;

/* ---------------------------------------------------------------- statistics */
#define MAXSTAT 256
static struct { char k[48]; unsigned long n; } stats[MAXSTAT];
static unsigned nstats;
static void stat_hit(const char *fmt, ...) {
  char k[48]; va_list ap; va_start(ap, fmt); vsnprintf(k, sizeof k, fmt, ap); va_end(ap);
  for (unsigned i = 0; i < nstats; i++) if (!strcmp(stats[i].k, k)) { stats[i].n++; return; }
  if (nstats < MAXSTAT) { strcpy(stats[nstats].k, k); stats[nstats++].n = 1; }
}

/* ---------------------------------------------------------------- sets as text */
static void put_hex(FILE *f, hwloc_const_bitmap_t s) {
  int last = hwloc_bitmap_last(s);
  if (last < 0) { fputc('0', f); return; }
  int started = 0;
  for (int i = last / 64; i >= 0; i--) {
    unsigned long w = hwloc_bitmap_to_ith_ulong(s, i);
    if (started) fprintf(f, "%016lx", w); else { fprintf(f, "%lx", w); started = 1; }
  }
}
static void put_set(FILE *f, hwloc_const_bitmap_t s) {
  if (hwloc_bitmap_weight(s) == -1) {
    hwloc_bitmap_t c = hwloc_bitmap_alloc(); hwloc_bitmap_not(c, s);
    fputc('I', f); put_hex(f, c); hwloc_bitmap_free(c);
  } else put_hex(f, s);
}
static int hexval(int c) { return c >= '0' && c <= '9' ? c - '0' : c >= 'a' && c <= 'f' ? c - 'a' + 10 : -1; }
/* returns NULL when unparsable */
static hwloc_bitmap_t parse_set(const char *s) {
  int inf = 0;
  if (*s == 'I') { inf = 1; s++; }
  size_t n = strlen(s);
  if (!n) return NULL;
  hwloc_bitmap_t b = hwloc_bitmap_alloc();
  for (size_t i = 0; i < n; i++) {
    int v = hexval((unsigned char) s[n - 1 - i]);
    if (v < 0) { hwloc_bitmap_free(b); return NULL; }
    for (int k = 0; k < 4; k++) if (v & (1 << k)) hwloc_bitmap_set(b, (unsigned) (4 * i + k));
  }
  if (inf) hwloc_bitmap_not(b, b);
  return b;
}

static const char *errname(int e) {
  static char buf[24];
  switch (e) { case 0: return "ok"; case EINVAL: return "EINVAL"; case ENOENT: return "ENOENT"; case EPERM: return "EPERM";
    case ENOMEM: return "ENOMEM"; case ENOSYS: return "ENOSYS"; default: snprintf(buf, sizeof buf, "E%d", e); return buf; }
}

/* ---------------------------------------------------------------- executing ops */
static void say(const char *fmt, ...) {
  char b[256]; va_list ap; va_start(ap, fmt); vsnprintf(b, sizeof b, fmt, ap); va_end(ap);
  fprintf(fout, "%s\n", b); fflush(fout);
  if (ftrace) { fprintf(ftrace, "echo %s\n", b); fflush(ftrace); }
}

static int side_active;
static void drop_topo(void) { if (topo) hwloc_topology_destroy(topo); topo = NULL; topo_loaded = 0; side_active = 0; }

static void do_topo(char kind, unsigned long flags, const char *filters, const char *arg) {
  drop_topo();
  if (hwloc_topology_init(&topo) < 0) { topo = NULL; say("topo fail"); return; }
  for (int ty = 0; ty < HWLOC_OBJ_TYPE_MAX && filters[ty]; ty++)
    if (filters[ty] >= '0' && filters[ty] <= '3')
      hwloc_topology_set_type_filter(topo, (hwloc_obj_type_t) ty, (enum hwloc_type_filter_e) (filters[ty] - '0')); /* may be refused */
  int err = hwloc_topology_set_flags(topo, flags);
  if (!err) err = kind == 'S' ? hwloc_topology_set_synthetic(topo, arg) : kind == 'X' ? hwloc_topology_set_xml(topo, arg) : -1;
  if (!err) err = hwloc_topology_load(topo);
  if (err < 0) { drop_topo(); say("topo fail"); return; }
  topo_loaded = 1;
  say("topo ok");
}

struct objlist { hwloc_obj_t *o; unsigned n, cap; };
static void ol_add(struct objlist *l, hwloc_obj_t o) {
  if (l->n == l->cap) { l->cap = l->cap ? 2 * l->cap : 128; l->o = realloc(l->o, l->cap * sizeof(*l->o)); }
  l->o[l->n++] = o;
}
static void ol_collect(struct objlist *l, hwloc_obj_t o) {
  hwloc_obj_t c;
  ol_add(l, o);
  for (c = o->first_child; c; c = c->next_sibling) ol_collect(l, c);
  for (c = o->memory_first_child; c; c = c->next_sibling) ol_collect(l, c);
  for (c = o->io_first_child; c; c = c->next_sibling) ol_collect(l, c);
  for (c = o->misc_first_child; c; c = c->next_sibling) ol_collect(l, c);
}

static void do_misc(unsigned long k, const char *name) {
  if (!topo_loaded) { say("misc skip"); return; }
  struct objlist l = {0};
  ol_collect(&l, hwloc_get_root_obj(topo));
  hwloc_obj_t parent = l.o[k % l.n];
  free(l.o);
  errno = 0;
  hwloc_obj_t m = hwloc_topology_insert_misc_object(topo, parent, name);
  say("misc %s", m ? "ok" : errname(errno ? errno : -1));
}

static void do_group(unsigned long k, int dm) {
  if (!topo_loaded) { say("group skip"); return; }
  struct objlist l = {0};
  ol_collect(&l, hwloc_get_root_obj(topo));
  hwloc_obj_t target = l.o[k % l.n];
  free(l.o);
  if (!target->parent || !target->cpuset || hwloc_bitmap_iszero(target->cpuset) || (int) target->type > (int) HWLOC_OBJ_GROUP) { say("group none"); return; }
  hwloc_obj_t g = hwloc_topology_alloc_group_object(topo);
  if (!g) { say("group refused"); return; }
  g->cpuset = hwloc_bitmap_dup(target->cpuset);
  g->attr->group.dont_merge = dm ? 1 : 0;
  hwloc_obj_t res = hwloc_topology_insert_group_object(topo, g);
  say("group %s", !res ? "fail" : res == g ? "new" : "existing");
}

static void do_allow(const char *cs, const char *ns) {
  if (!topo_loaded) { say("allow skip"); return; }
  hwloc_bitmap_t c = parse_set(cs), n = parse_set(ns);
  if (!c || !n) { say("allow badset"); hwloc_bitmap_free(c); hwloc_bitmap_free(n); return; }
  errno = 0;
  int r = hwloc_topology_allow(topo, c, n, HWLOC_ALLOW_FLAG_CUSTOM);
  say("allow %d %s", r, r < 0 ? errname(errno) : "ok");
  hwloc_bitmap_free(c); hwloc_bitmap_free(n);
}

static void do_restrict(const char *ss, unsigned long flags) {
  if (!topo_loaded) { say("restrict skip"); return; }
  hwloc_bitmap_t s = parse_set(ss);
  if (!s) { say("restrict badset"); return; }
  if (ftrace) dump_topology(ftrace, topo, "B");
  errno = 0;
  int r = hwloc_topology_restrict(topo, s, flags);
  int e = r < 0 ? errno : 0;
  if (ftrace) {
    fprintf(ftrace, "restrict "); put_set(ftrace, s); fprintf(ftrace, " %lu %d %s\n", flags, r, errname(e));
    dump_topology(ftrace, topo, "A");
    fflush(ftrace);
  }
  fprintf(fout, "ret=%d errno=%s\n", r, errname(e)); fflush(fout);
  stat_hit("result.%s", errname(e));
  hwloc_bitmap_free(s);
}


/* ---------------------------------------------------------------- side structures: distances, CPU kinds, memory attributes */
static hwloc_obj_t obj_by_k(unsigned long k) {
  struct objlist l = {0};
  ol_collect(&l, hwloc_get_root_obj(topo));
  hwloc_obj_t o = l.o[k % l.n];
  free(l.o);
  return o;
}
static unsigned long k_of_obj(hwloc_obj_t o) {
  struct objlist l = {0}; unsigned long k = 0;
  ol_collect(&l, hwloc_get_root_obj(topo));
  for (unsigned i = 0; i < l.n; i++) if (l.o[i] == o) { k = i; break; }
  free(l.o);
  return k;
}
static unsigned long long cellval(unsigned long vseed, unsigned cell) {
  uint64_t x = (uint64_t) vseed * 0x9E3779B97F4A7C15ULL + (uint64_t) (cell + 1) * 0xBF58476D1CE4E5B9ULL;
  x ^= x >> 29; x *= 0x94D049BB133111EBULL; x ^= x >> 32;
  return (unsigned long long) (x % 999983ULL) + 1;
}
/* strings without blanks: every byte outside [A-Za-z0-9_.:+=/-] as %XX, the empty string as a lone % */
static void put_esc(FILE *f, const char *s) {
  if (!s || !*s) { fputc('%', f); return; }
  for (; *s; s++) {
    unsigned char c = (unsigned char) *s;
    if ((c >= 'A' && c <= 'Z') || (c >= 'a' && c <= 'z') || (c >= '0' && c <= '9') || strchr("_.:+=/-", c)) fputc(c, f);
    else fprintf(f, "%%%02X", c);
  }
}
static void put_objref(FILE *f, hwloc_obj_t o) {
  fprintf(f, "%d:%llu:%d", (int) o->type, (unsigned long long) o->gp_index, o->os_index == (unsigned) -1 ? -1 : (int) o->os_index);
}

static void do_dist(char *args) {
  if (!topo_loaded) { say("dist skip"); return; }
  char *name = strtok(args, " "), *kinds = name ? strtok(NULL, " ") : NULL, *vs = kinds ? strtok(NULL, " ") : NULL, *ns = vs ? strtok(NULL, " ") : NULL;
  if (!ns) { say("dist badop"); return; }
  unsigned long kind = strtoul(kinds, NULL, 10), vseed = strtoul(vs, NULL, 10); unsigned n = (unsigned) strtoul(ns, NULL, 10);
  if (n > 64) { say("dist badop"); return; }
  hwloc_obj_t objs[64]; unsigned m = 0;
  for (unsigned i = 0; i < n; i++) {
    char *t = strtok(NULL, " "); if (!t) { say("dist badop"); return; }
    hwloc_obj_t o = obj_by_k(strtoul(t, NULL, 10)); int dupl = 0;
    for (unsigned j = 0; j < m; j++) if (objs[j] == o) dupl = 1;
    if (!dupl) objs[m++] = o;
  }
  hwloc_uint64_t *vals = malloc((m * m + 1) * sizeof *vals);
  for (unsigned c = 0; c < m * m; c++) vals[c] = cellval(vseed, c);
  errno = 0;
  void *h = hwloc_distances_add_create(topo, strcmp(name, "-") ? name : NULL, kind, 0);
  if (!h) { say("dist create %s", errname(errno)); free(vals); return; }
  if (hwloc_distances_add_values(topo, h, m, objs, vals, 0) < 0) { say("dist values %s", errname(errno)); free(vals); return; }
  free(vals);
  if (hwloc_distances_add_commit(topo, h, 0) < 0) { say("dist commit %s", errname(errno)); return; }
  say("dist ok %u", m);
}

static void do_cpukind(char *args) {
  if (!topo_loaded) { say("cpukind skip"); return; }
  char *cs = strtok(args, " "), *fs = cs ? strtok(NULL, " ") : NULL, *ns = fs ? strtok(NULL, " ") : NULL;
  if (!ns) { say("cpukind badop"); return; }
  hwloc_bitmap_t c = parse_set(cs); if (!c) { say("cpukind badset"); return; }
  unsigned n = (unsigned) strtoul(ns, NULL, 10); if (n > 8) { hwloc_bitmap_free(c); say("cpukind badop"); return; }
  struct hwloc_info_s arr[8]; struct hwloc_infos_s infos; memset(&infos, 0, sizeof infos);
  for (unsigned i = 0; i < n; i++) {
    char *a = strtok(NULL, " "), *b = a ? strtok(NULL, " ") : NULL;
    if (!b) { hwloc_bitmap_free(c); say("cpukind badop"); return; }
    arr[i].name = a; arr[i].value = b;
  }
  infos.array = arr; infos.count = n; infos.allocated = n;
  errno = 0;
  int r = hwloc_cpukinds_register(topo, c, atoi(fs), n ? &infos : NULL, 0);
  say("cpukind %d %s", r, r < 0 ? errname(errno) : "ok");
  hwloc_bitmap_free(c);
}

static void do_mattr(const char *name, unsigned long flags) {
  if (!topo_loaded) { say("mattr skip"); return; }
  hwloc_memattr_id_t id = 0; errno = 0;
  int r = hwloc_memattr_register(topo, name, flags, &id);
  say("mattr %d %s", r, r < 0 ? errname(errno) : "ok");
}

static void do_mval(const char *an, unsigned long kt, const char *ini, unsigned long long v) {
  if (!topo_loaded) { say("mval skip"); return; }
  hwloc_memattr_id_t id;
  if (hwloc_memattr_get_by_name(topo, an, &id) < 0) { say("mval noattr"); return; }
  hwloc_obj_t t = obj_by_k(kt);
  struct hwloc_location loc, *lp = NULL; hwloc_bitmap_t c = NULL;
  if (ini[0] == 'c') { c = parse_set(ini + 1); if (!c) { say("mval badset"); return; } loc.type = HWLOC_LOCATION_TYPE_CPUSET; loc.location.cpuset = c; lp = &loc; }
  else if (ini[0] == 'o') { loc.type = HWLOC_LOCATION_TYPE_OBJECT; loc.location.object = obj_by_k(strtoul(ini + 1, NULL, 10)); lp = &loc; }
  errno = 0;
  int r = hwloc_memattr_set_value(topo, id, t, lp, 0, v);
  say("mval %d %s", r, r < 0 ? errname(errno) : "ok");
  hwloc_bitmap_free(c);
}

/* the observation, through the public API only (init: plus the forced efficiencies of the CPU kinds, which no public call returns).
 *   SD <name|%> <kind> <n> <type:gp:os>*n <value>*n*n                 one per distances structure, hwloc_distances_get order
 *   SK <cpuset> <efficiency> <forced|-> <ninfos> (<name> <value>)*   one per CPU kind, index order
 *   SA <id> <name> <flags>                                           one per memory attribute with id >= 2 (not the convenience ones)
 *   ST <id> <type:gp:os> <value>                                     its targets (hwloc_memattr_get_targets, NULL initiator)
 *   SI <id> <target gp> <c<cpuset>|o<type:gp>> <value> <get_value>    their initiators (get_initiators; get_value asked with that one) */
static struct side_agg { unsigned nd, dobjs, nk, kw, nt, ni, iw; } agg_cur, agg_prev[3];   /* measured effect of the restricts (statistics only) */
static void side_dump(FILE *f, int init, unsigned mask, unsigned *nd_, unsigned *nk_, unsigned *na_, unsigned *nt_) {
  unsigned ndo = 0, nko = 0, nao = 0, nto = 0;
  memset(&agg_cur, 0, sizeof agg_cur);
  fprintf(f, "SIDE %c %u\n", init ? 'I' : 'O', mask);
  if (mask & 1) {
    unsigned nd = 0; hwloc_distances_get(topo, &nd, NULL, 0, 0);
    struct hwloc_distances_s **ds = calloc(nd + 1, sizeof *ds); unsigned got = nd;
    hwloc_distances_get(topo, &got, ds, 0, 0);
    for (unsigned k = 0; k < got && k < nd; k++) {
      const char *nm = hwloc_distances_get_name(topo, ds[k]);
      fprintf(f, "SD "); put_esc(f, nm); fprintf(f, " %lu %u", ds[k]->kind, ds[k]->nbobjs);
      for (unsigned j = 0; j < ds[k]->nbobjs; j++) { fputc(' ', f); if (ds[k]->objs[j]) put_objref(f, ds[k]->objs[j]); else fprintf(f, "NULL"); }
      for (unsigned j = 0; j < ds[k]->nbobjs * ds[k]->nbobjs; j++) fprintf(f, " %llu", (unsigned long long) ds[k]->values[j]);
      fputc('\n', f);
      agg_cur.nd++; agg_cur.dobjs += ds[k]->nbobjs;
      hwloc_distances_release(topo, ds[k]);
      ndo++;
    }
    free(ds);
  }
  if (mask & 2) {
    int nr = hwloc_cpukinds_get_nr(topo, 0); hwloc_bitmap_t cs = hwloc_bitmap_alloc();
    for (int k = 0; k < nr; k++) {
      int eff = -2; struct hwloc_infos_s *ip = NULL;
      if (hwloc_cpukinds_get_info(topo, (unsigned) k, cs, &eff, &ip, 0) < 0) { fprintf(f, "SK get-info-fails\n"); continue; }
      fprintf(f, "SK "); put_set(f, cs); fprintf(f, " %d ", eff);
      if (init) fprintf(f, "%d", topo->cpukinds[k].forced_efficiency); else fputc('-', f);
      fprintf(f, " %u", ip ? ip->count : 0);
      for (unsigned i = 0; ip && i < ip->count; i++) { fputc(' ', f); put_esc(f, ip->array[i].name); fputc(' ', f); put_esc(f, ip->array[i].value); }
      fputc('\n', f);
      agg_cur.nk++; agg_cur.kw += (unsigned) hwloc_bitmap_weight(cs);
      nko++;
    }
    hwloc_bitmap_free(cs);
  }
  if (mask & 4) {
    for (hwloc_memattr_id_t id = 2; ; id++) {
      const char *nm = NULL; unsigned long fl = 0;
      if (hwloc_memattr_get_name(topo, id, &nm) < 0 || hwloc_memattr_get_flags(topo, id, &fl) < 0) break;
      fprintf(f, "SA %u ", (unsigned) id); put_esc(f, nm); fprintf(f, " %lu\n", fl);
      nao++;
      unsigned nt = 0;
      if (hwloc_memattr_get_targets(topo, id, NULL, 0, &nt, NULL, NULL) < 0) { fprintf(f, "ST %u get-targets-fails\n", (unsigned) id); continue; }
      hwloc_obj_t *tg = calloc(nt + 1, sizeof *tg); hwloc_uint64_t *tv = calloc(nt + 1, sizeof *tv); unsigned got = nt;
      hwloc_memattr_get_targets(topo, id, NULL, 0, &got, tg, tv);
      for (unsigned t = 0; t < got && t < nt; t++) {
        if (!tg[t]) { fprintf(f, "ST %u NULL\n", (unsigned) id); continue; }
        fprintf(f, "ST %u ", (unsigned) id); put_objref(f, tg[t]); fprintf(f, " %llu\n", (unsigned long long) tv[t]);
        nto++; agg_cur.nt++;
        if (!(fl & HWLOC_MEMATTR_FLAG_NEED_INITIATOR)) continue;
        unsigned ni = 0;
        if (hwloc_memattr_get_initiators(topo, id, tg[t], 0, &ni, NULL, NULL) < 0) { fprintf(f, "SI %u %llu get-initiators-fails\n", (unsigned) id, (unsigned long long) tg[t]->gp_index); continue; }
        struct hwloc_location *il = calloc(ni + 1, sizeof *il); hwloc_uint64_t *iv = calloc(ni + 1, sizeof *iv); unsigned goti = ni;
        hwloc_memattr_get_initiators(topo, id, tg[t], 0, &goti, il, iv);
        for (unsigned i = 0; i < goti && i < ni; i++) {
          fprintf(f, "SI %u %llu ", (unsigned) id, (unsigned long long) tg[t]->gp_index);
          agg_cur.ni++;
          if (il[i].type == HWLOC_LOCATION_TYPE_CPUSET) { fputc('c', f); put_set(f, il[i].location.cpuset); agg_cur.iw += (unsigned) hwloc_bitmap_weight(il[i].location.cpuset); }
          else if (il[i].location.object) fprintf(f, "o%d:%llu", (int) il[i].location.object->type, (unsigned long long) il[i].location.object->gp_index);
          else fprintf(f, "oNULL");
          hwloc_uint64_t gv = 0;
          fprintf(f, " %llu ", (unsigned long long) iv[i]);
          if (hwloc_memattr_get_value(topo, id, tg[t], &il[i], 0, &gv) < 0) fprintf(f, "E\n"); else fprintf(f, "%llu\n", (unsigned long long) gv);
        }
        free(il); free(iv);
      }
      free(tg); free(tv);
    }
  }
  *nd_ = ndo; *nk_ = nko; *na_ = nao; *nt_ = nto;
}

static void do_side(int init, unsigned mask) {
  if (!topo_loaded) { say(init ? "sideinit skip" : "side skip"); return; }
  unsigned nd, nk, na, nt;
  if (init) { mask = 7; side_active = 1; }
  else if (!side_active) { say("side notinit"); return; }
  if (ftrace) {
    side_dump(ftrace, init, mask, &nd, &nk, &na, &nt);
    fprintf(ftrace, "SEND\n"); fflush(ftrace);
  } else {
    FILE *nul = fopen("/dev/null", "w"); side_dump(nul, init, mask, &nd, &nk, &na, &nt); fclose(nul);
  }
  fprintf(fout, "%s mask=%u nd=%u nk=%u na=%u nt=%u\n", init ? "sideinit" : "side", mask, nd, nk, na, nt); fflush(fout);
  stat_hit(init ? "side.init" : "side.observe");
  if (nd) stat_hit(init ? "side.init.with_distances" : "side.observe.with_distances");
  if (nk) stat_hit(init ? "side.init.with_cpukinds" : "side.observe.with_cpukinds");
  if (nt) stat_hit(init ? "side.init.with_memattr_targets" : "side.observe.with_memattr_targets");
  if (!init) {
    if ((mask & 1) && agg_cur.nd < agg_prev[0].nd) stat_hit("side.effect.distances_dropped");
    if ((mask & 1) && agg_cur.nd == agg_prev[0].nd && agg_cur.dobjs < agg_prev[0].dobjs) stat_hit("side.effect.distances_shrunk");
    if ((mask & 2) && agg_cur.nk < agg_prev[1].nk) stat_hit("side.effect.cpukind_removed");
    if ((mask & 2) && agg_cur.nk == agg_prev[1].nk && agg_cur.kw < agg_prev[1].kw) stat_hit("side.effect.cpukind_clipped");
    if ((mask & 4) && agg_cur.nt < agg_prev[2].nt) stat_hit("side.effect.memattr_target_removed");
    if ((mask & 4) && agg_cur.ni < agg_prev[2].ni) stat_hit("side.effect.memattr_initiator_removed");
    if ((mask & 4) && agg_cur.ni == agg_prev[2].ni && agg_cur.iw < agg_prev[2].iw) stat_hit("side.effect.memattr_initiator_clipped");
  }
  for (int b = 0; b < 3; b++) if (mask & (1u << b)) agg_prev[b] = agg_cur;
}

static void exec_line(char *line) {
  char a[64], b[64]; unsigned long u; int pos = 0; char kind;
  line[strcspn(line, "\n")] = 0;
  if (!strncmp(line, "topo ", 5)) {
    if (sscanf(line + 5, " %c %lu %63s %n", &kind, &u, a, &pos) >= 3) do_topo(kind, u, a, line + 5 + pos); else say("topo badop");
  } else if (!strncmp(line, "misc ", 5)) {
    if (sscanf(line + 5, "%lu %63s", &u, a) == 2) do_misc(u, a); else say("misc badop");
  } else if (!strncmp(line, "group ", 6)) {
    unsigned long dm;
    if (sscanf(line + 6, "%lu %lu", &u, &dm) == 2) do_group(u, (int) dm); else say("group badop");
  } else if (!strncmp(line, "allow ", 6)) {
    char *c = strtok(line + 6, " "), *n = c ? strtok(NULL, " ") : NULL;
    if (c && n) do_allow(c, n); else say("allow badop");
  } else if (!strncmp(line, "restrict ", 9)) {
    char *s = strtok(line + 9, " "), *f = s ? strtok(NULL, " ") : NULL;
    if (s && f) do_restrict(s, strtoul(f, NULL, 10)); else say("restrict badop");
  } else if (!strncmp(line, "dist ", 5)) { do_dist(line + 5);
  } else if (!strncmp(line, "cpukind ", 8)) { do_cpukind(line + 8);
  } else if (!strncmp(line, "mattr ", 6)) {
    if (sscanf(line + 6, "%63s %lu", a, &u) == 2) do_mattr(a, u); else say("mattr badop");
  } else if (!strncmp(line, "mval ", 5)) {
    unsigned long long v; char ini[20000];
    if (strlen(line) < sizeof ini && sscanf(line + 5, "%63s %lu %s %llu", a, &u, ini, &v) == 4) do_mval(a, u, ini, v); else say("mval badop");
  } else if (!strcmp(line, "sideinit")) { do_side(1, 7);
  } else if (!strncmp(line, "observe ", 8)) { do_side(0, (unsigned) strtoul(line + 8, NULL, 10) & 7);
  } else { (void) b; say("badop"); }
}

/* ---------------------------------------------------------------- generators */
struct src { char path[1000]; };
static struct src *srcs; static unsigned nsrcs;

static int app(char *s, int off, int cap, const char *fmt, ...) {
  va_list ap; va_start(ap, fmt); int n = vsnprintf(s + off, cap - off, fmt, ap); va_end(ap); return off + n;
}
static const char *numa_attr(void) {
  switch (rng_below(5)) { case 0: return "(memory=1GB)"; case 1: return "(memorysidecachesize=64MB)";
    case 2: return "(memory=256MB memorysidecachesize=16MB)"; default: return ""; }
}
static void gen_synthetic(char *s, int cap) {
  int off = 0;
  unsigned budget = 96;  /* max PUs */
#define CNT() ({ unsigned c = 1 + rng_below(rng_chance(60) ? 2 : 4); if (c > budget) c = 1; budget /= c; c; })
  if (rng_chance(8)) { int n = 1 + rng_below(4); for (int i = 0; i < n; i++) off = app(s, off, cap, "%u ", CNT()); s[off - 1] = 0; return; }
  int numa_mode = rng_below(5); /* 0: default, 1: level, 2: attached once, 3: attached at two places, 4: attached to cores/low */
  if (rng_chance(30)) { off = app(s, off, cap, "group:%u ", CNT()); if (numa_mode == 3 && rng_chance(50)) off = app(s, off, cap, "[numa%s] ", numa_attr()); }
  if (rng_chance(75)) { off = app(s, off, cap, "pack:%u ", CNT()); if (numa_mode == 2 || numa_mode == 3) { off = app(s, off, cap, "[numa%s] ", numa_attr()); if (numa_mode == 2) numa_mode = 0; } }
  if (rng_chance(20)) off = app(s, off, cap, "die:%u ", rng_chance(50) ? 1u : CNT());
  if (numa_mode == 1) off = app(s, off, cap, "numa:%u%s ", CNT(), numa_attr());
  if (rng_chance(25)) off = app(s, off, cap, "group:%u ", rng_chance(40) ? 1u : CNT());
  if (rng_chance(40)) { off = app(s, off, cap, "l3:%u ", CNT()); if (numa_mode == 3) { off = app(s, off, cap, "[numa%s] ", numa_attr()); numa_mode = 0; } }
  if (rng_chance(35)) off = app(s, off, cap, "l2:%u ", rng_chance(50) ? 1u : CNT());
  if (rng_chance(25)) off = app(s, off, cap, "l1:%u ", 1u);
  int has_core = 0;
  if (rng_chance(80)) { has_core = 1; off = app(s, off, cap, "core:%u ", CNT()); if (numa_mode == 4) off = app(s, off, cap, "[numa%s] ", numa_attr()); }
  off = app(s, off, cap, "pu:%u", CNT());
  /* the interleaving loop may only name levels that exist: naming a missing one makes hwloc_synthetic_process_indexes() read
   * past data->level[] (topology-synthetic.c:212, heap-buffer-overflow; outside C08, reported to C07) */
  if (has_core && rng_chance(14)) off = app(s, off, cap, "(indexes=%s)", rng_chance(50) ? "core:pu" : "pu:core");
}
static void gen_filters(char *f) {
  for (int i = 0; i < 20; i++) f[i] = '-';
  f[20] = 0;
  switch (rng_below(9)) {
  case 8: for (int i = 0; i < 20; i++) f[i] = '2'; f[13] = '0'; return;          /* KEEP_STRUCTURE wherever legal but Groups KEEP_ALL
                                                                                    (child level below a Group level decides alone) */
  case 0: case 1: return;                                                        /* defaults (Groups KEEP_STRUCTURE, no I/O) */
  case 2: case 3: for (int i = 0; i < 20; i++) f[i] = '0'; f[13] = '-'; return;  /* all KEEP_ALL except Group */
  case 4: for (int i = 0; i < 20; i++) f[i] = '2'; return;                       /* KEEP_STRUCTURE wherever legal */
  case 5: f[16] = f[17] = f[18] = '0'; return;                                   /* I/O KEEP_ALL, rest default */
  case 6: for (int i = 0; i < 20; i++) f[i] = '0'; return;                       /* everything KEEP_ALL */
  default: { int n = 1 + rng_below(5); for (int k = 0; k < n; k++) f[rng_below(20)] = '0' + (rng_chance(60) ? 2 : rng_below(4)); f[16] = f[17] = f[18] = '0'; }
  }
}

static void emit(const char *fmt, ...) {
  char line[70000]; va_list ap; va_start(ap, fmt); vsnprintf(line, sizeof line, fmt, ap); va_end(ap);
  fprintf(fops, "%s\n", line); fflush(fops);
  exec_line(line);
}
static void emit_set_op(const char *pre, hwloc_const_bitmap_t s, const char *post) {
  /* sets can be long: stream them instead of formatting into a fixed buffer */
  char *buf = NULL; size_t len = 0; FILE *m = open_memstream(&buf, &len);
  fputs(pre, m); put_set(m, s); fputs(post, m); fclose(m);
  fprintf(fops, "%s\n", buf); fflush(fops);
  exec_line(buf); free(buf);
}

static void random_subset(hwloc_bitmap_t out, hwloc_const_bitmap_t from, unsigned pct) {
  int i; hwloc_bitmap_zero(out);
  hwloc_bitmap_foreach_begin(i, from) if (rng_chance(pct)) hwloc_bitmap_set(out, i); hwloc_bitmap_foreach_end();
}
static hwloc_obj_t random_obj_with_sets(int want_type /* -1 any */) {
  struct objlist l = {0}, f = {0};
  ol_collect(&l, hwloc_get_root_obj(topo));
  for (unsigned i = 0; i < l.n; i++) if (l.o[i]->cpuset && (want_type < 0 || (int) l.o[i]->type == want_type)) ol_add(&f, l.o[i]);
  hwloc_obj_t r = f.n ? f.o[rng_below(f.n)] : NULL;
  free(l.o); free(f.o);
  return r;
}

/* choose S for the loaded topology; bynode selects nodesets */
static void gen_restrict_set(hwloc_bitmap_t s, int bynode, const char **kindname) {
  hwloc_obj_t root = hwloc_get_root_obj(topo), o;
  hwloc_const_bitmap_t allowed = bynode ? hwloc_topology_get_allowed_nodeset(topo) : hwloc_topology_get_allowed_cpuset(topo);
  hwloc_const_bitmap_t complete = bynode ? root->complete_nodeset : root->complete_cpuset;
#define OSET(o) (bynode ? (o)->nodeset : (o)->cpuset)
  unsigned k = rng_below(15);
  hwloc_bitmap_zero(s);
  switch (k) {
  case 0: *kindname = "subset"; random_subset(s, allowed, rng_chance(50) ? 50 : rng_chance(50) ? 20 : 85); break;
  case 1: *kindname = "superset"; hwloc_bitmap_copy(s, complete); hwloc_bitmap_set_range(s, hwloc_bitmap_last(complete) + 1, hwloc_bitmap_last(complete) + 1 + rng_below(70)); break;
  case 2: *kindname = "disjoint"; if (rng_chance(30)) break; /* empty */
    hwloc_bitmap_not(s, allowed); hwloc_bitmap_clr_range(s, hwloc_bitmap_last(complete) + 2 + rng_below(80), -1); break;
  case 3: *kindname = "infinite"; { hwloc_bitmap_t t = hwloc_bitmap_alloc(); random_subset(t, complete, rng_chance(30) ? 0 : 40); hwloc_bitmap_not(s, t); hwloc_bitmap_free(t); } break;
  case 4: case 5: { *kindname = "straddle";   /* a run of PUs/nodes by logical index crossing sibling boundaries */
      hwloc_obj_type_t ty = bynode ? HWLOC_OBJ_NUMANODE : HWLOC_OBJ_PU;
      unsigned n = hwloc_get_nbobjs_by_type(topo, ty), a = rng_below(n), len = 1 + rng_below(n > 1 ? n - 1 : 1);
      for (unsigned i = a; i < a + len && i < n; i++) hwloc_bitmap_set(s, hwloc_get_obj_by_type(topo, ty, i)->os_index);
      break; }
  case 6: *kindname = "single"; { hwloc_obj_type_t ty = bynode ? HWLOC_OBJ_NUMANODE : HWLOC_OBJ_PU;
      hwloc_bitmap_set(s, hwloc_get_obj_by_type(topo, ty, rng_below(hwloc_get_nbobjs_by_type(topo, ty)))->os_index); } break;
  case 7: *kindname = "onenuma"; o = random_obj_with_sets(HWLOC_OBJ_NUMANODE); if (o) hwloc_bitmap_copy(s, OSET(o)); break;
  case 8: case 9: *kindname = "allbutone";   /* everything but one package / object */
    o = rng_chance(60) ? random_obj_with_sets(HWLOC_OBJ_PACKAGE) : NULL; if (!o) o = random_obj_with_sets(-1);
    hwloc_bitmap_andnot(s, complete, OSET(o)); break;
  case 10: *kindname = "oneobj"; o = random_obj_with_sets(-1); hwloc_bitmap_copy(s, OSET(o)); break;
  case 11: *kindname = "allbutnuma"; o = random_obj_with_sets(HWLOC_OBJ_NUMANODE); if (o) hwloc_bitmap_andnot(s, complete, OSET(o)); else hwloc_bitmap_copy(s, complete); break;
  case 12: *kindname = "twoobjs"; o = random_obj_with_sets(-1); hwloc_bitmap_copy(s, OSET(o)); o = random_obj_with_sets(-1); hwloc_bitmap_or(s, s, OSET(o)); break;
  case 13: *kindname = "cross";   /* the other kind of set of an object, interpreted as this kind: arbitrary small masks */
    o = random_obj_with_sets(-1); hwloc_bitmap_copy(s, bynode ? o->cpuset : o->nodeset); break;
  default: *kindname = "full"; hwloc_bitmap_copy(s, allowed); break;
  }
}


/* ---- side structures given to a share of the topologies before the restrict chain */
static hwloc_obj_t random_obj_any(void) {
  struct objlist l = {0};
  ol_collect(&l, hwloc_get_root_obj(topo));
  hwloc_obj_t r = l.o[rng_below(l.n)];
  free(l.o);
  return r;
}
static hwloc_obj_t random_obj_of_type(hwloc_obj_type_t ty) {
  int n = hwloc_get_nbobjs_by_type(topo, ty);
  return n > 0 ? hwloc_get_obj_by_type(topo, ty, rng_below((unsigned) n)) : NULL;
}
static void emit_cpuset_arg(FILE *m, hwloc_const_bitmap_t s) { put_set(m, s); }

static void gen_dist(unsigned long *budget, unsigned serial) {
  static const hwloc_obj_type_t homo[] = { HWLOC_OBJ_NUMANODE, HWLOC_OBJ_PU, HWLOC_OBJ_CORE, HWLOC_OBJ_PACKAGE, HWLOC_OBJ_NUMANODE, HWLOC_OBJ_PU,
                                           HWLOC_OBJ_L3CACHE, HWLOC_OBJ_L2CACHE, HWLOC_OBJ_GROUP, HWLOC_OBJ_DIE, HWLOC_OBJ_PCI_DEVICE, HWLOC_OBJ_OS_DEVICE, HWLOC_OBJ_MISC };
  hwloc_obj_t objs[16]; unsigned n = 0;
  int hetero = rng_chance(50);
  if (!hetero) {
    hwloc_obj_type_t ty = homo[rng_below(sizeof homo / sizeof *homo)];
    int nb = hwloc_get_nbobjs_by_type(topo, ty);
    if (nb < 2) { ty = HWLOC_OBJ_PU; nb = hwloc_get_nbobjs_by_type(topo, ty); }
    if (nb < 2) hetero = 1;
    else {
      unsigned want = 2 + rng_below(rng_chance(40) ? 2 : 7);
      if (rng_chance(50)) {   /* a run in logical order from a random start */
        unsigned a = rng_below((unsigned) nb);
        for (unsigned i = 0; i < want && a + i < (unsigned) nb; i++) objs[n++] = hwloc_get_obj_by_type(topo, ty, a + i);
      } else for (unsigned i = 0; i < want; i++) objs[n++] = hwloc_get_obj_by_type(topo, ty, rng_below((unsigned) nb));
      stat_hit("side.dist.homogeneous");
    }
  }
  if (hetero) {
    unsigned want = 2 + rng_below(rng_chance(30) ? 2 : 6);
    for (unsigned i = 0; i < want; i++) {
      hwloc_obj_t o = NULL;
      switch (rng_below(7)) {
      case 0: o = random_obj_of_type(HWLOC_OBJ_PU); break;
      case 1: o = random_obj_of_type(HWLOC_OBJ_CORE); break;
      case 2: o = random_obj_of_type(HWLOC_OBJ_PACKAGE); break;
      case 3: o = random_obj_of_type(HWLOC_OBJ_NUMANODE); break;
      case 4: o = random_obj_with_sets(-1); break;
      default: o = random_obj_any(); break;
      }
      if (!o) o = random_obj_any();
      objs[n++] = o;
    }
    stat_hit("side.dist.mixed-types");
  }
  static const unsigned long kinds[] = { 2 | 4, 2 | 8, 2 | 32, 1 | 4, 1 | 8, 2, 0, 8 };
  unsigned long kind = kinds[rng_below(sizeof kinds / sizeof *kinds)];
  if (rng_chance(3)) kind = rng_chance(50) ? (1 | 2 | 4) : (2 | 4 | 8);   /* refused */
  char *buf = NULL; size_t len = 0; FILE *m = open_memstream(&buf, &len);
  if (rng_chance(30)) fprintf(m, "dist - "); else fprintf(m, "dist %s%u ", rng_chance(20) ? "NVLinkBandwidth" : "ud", serial);
  fprintf(m, "%lu %u %u", kind, rng_below(1000000), n);
  for (unsigned i = 0; i < n; i++) fprintf(m, " %lu", k_of_obj(objs[i]));
  fclose(m);
  emit("%s", buf); free(buf);
  if (*budget) (*budget)--;
}

static void gen_cpukind(unsigned long *budget) {
  hwloc_obj_t root = hwloc_get_root_obj(topo), o;
  hwloc_bitmap_t c = hwloc_bitmap_alloc();
  switch (rng_below(6)) {
  case 0: random_subset(c, root->complete_cpuset, rng_chance(50) ? 50 : 25); break;
  case 1: o = random_obj_of_type(HWLOC_OBJ_PACKAGE); if (o) hwloc_bitmap_copy(c, o->cpuset); break;
  case 2: o = random_obj_of_type(HWLOC_OBJ_CORE); if (o) hwloc_bitmap_copy(c, o->cpuset); break;
  case 3: o = random_obj_of_type(HWLOC_OBJ_PU); if (o) hwloc_bitmap_copy(c, o->cpuset); break;
  case 4: o = random_obj_with_sets(-1); if (o) hwloc_bitmap_copy(c, o->cpuset); break;
  default: { /* the upper or lower half of the PUs */
      int n = hwloc_get_nbobjs_by_type(topo, HWLOC_OBJ_PU), h = rng_chance(50);
      for (int i = 0; i < n; i++) if ((i < n / 2) == h) hwloc_bitmap_set(c, hwloc_get_obj_by_type(topo, HWLOC_OBJ_PU, i)->os_index);
      if (rng_chance(15)) hwloc_bitmap_set(c, hwloc_bitmap_last(root->complete_cpuset) + 1 + rng_below(40));   /* a PU the topology does not have */
    }
  }
  if (hwloc_bitmap_iszero(c)) hwloc_bitmap_copy(c, root->cpuset);
  if (hwloc_bitmap_iszero(c)) hwloc_bitmap_set(c, 0);
  int forced = rng_chance(20) ? -1 : (int) rng_below(rng_chance(50) ? 3 : 6);
  static const char *const infos[][2] = { { "CoreType", "IntelAtom" }, { "CoreType", "IntelCore" }, { "FrequencyMaxMHz", "3400" }, { "FrequencyMaxMHz", "2100" },
    { "FrequencyBaseMHz", "1800" }, { "FrequencyBaseMHz", "1200" }, { "foo", "bar" }, { "FrequencyMaxMHz", "-7" } };
  unsigned ni = rng_chance(40) ? 0 : 1 + rng_below(3);
  char *buf = NULL; size_t len = 0; FILE *m = open_memstream(&buf, &len);
  fprintf(m, "cpukind "); emit_cpuset_arg(m, c); fprintf(m, " %d %u", forced, ni);
  for (unsigned i = 0; i < ni; i++) { unsigned k = rng_below(sizeof infos / sizeof *infos); fprintf(m, " %s %s", infos[k][0], infos[k][1]); }
  fclose(m);
  emit("%s", buf); free(buf);
  hwloc_bitmap_free(c);
  if (*budget) (*budget)--;
}

static void gen_mval(unsigned long *budget, unsigned ncustom, const unsigned long *cflags) {
  static const char *const builtin[] = { "Bandwidth", "Latency", "ReadBandwidth", "WriteLatency" };
  const char *an; char nm[16]; int needinit;
  if (ncustom && rng_chance(55)) { unsigned k = rng_below(ncustom); snprintf(nm, sizeof nm, "ma%u", k); an = nm; needinit = !!(cflags[k] & 4); }
  else { an = builtin[rng_below(4)]; needinit = 1; }
  hwloc_obj_t t = rng_chance(80) ? random_obj_of_type(HWLOC_OBJ_NUMANODE) : random_obj_with_sets(-1);
  if (!t) t = hwloc_get_root_obj(topo);
  char *buf = NULL; size_t len = 0; FILE *m = open_memstream(&buf, &len);
  fprintf(m, "mval %s %lu ", an, k_of_obj(t));
  if (!needinit && rng_chance(90)) fputc('-', m);
  else if (rng_chance(65)) {
    hwloc_bitmap_t c = hwloc_bitmap_alloc(); hwloc_obj_t o;
    switch (rng_below(4)) {
    case 0: random_subset(c, hwloc_get_root_obj(topo)->cpuset, rng_chance(50) ? 50 : 20); break;
    case 1: hwloc_bitmap_copy(c, t->cpuset); break;
    default: o = random_obj_with_sets(rng_chance(50) ? -1 : rng_chance(50) ? (int) HWLOC_OBJ_PACKAGE : (int) HWLOC_OBJ_CORE); if (!o) o = t; hwloc_bitmap_copy(c, o->cpuset); break;
    }
    if (hwloc_bitmap_iszero(c) && rng_chance(90)) hwloc_bitmap_copy(c, hwloc_get_root_obj(topo)->cpuset);
    fputc('c', m); put_set(m, c); hwloc_bitmap_free(c);
  } else {
    hwloc_obj_t o = rng_chance(60) ? random_obj_with_sets(-1) : random_obj_any();
    fprintf(m, "o%lu", k_of_obj(o));
  }
  fprintf(m, " %u", 1 + rng_below(rng_chance(30) ? 4 : 100000));
  fclose(m);
  emit("%s", buf); free(buf);
  if (*budget) (*budget)--;
}

static void gen_side_setup(unsigned long *budget) {
  unsigned nd = rng_chance(75) ? 1 + rng_below(3) : 0;
  for (unsigned i = 0; i < nd; i++) gen_dist(budget, i);
  if (rng_chance(65)) { unsigned nk = 2 + rng_below(3); for (unsigned i = 0; i < nk; i++) gen_cpukind(budget); stat_hit("side.cpukinds"); }
  if (rng_chance(65)) {
    unsigned ncustom = rng_below(3); unsigned long cflags[2] = { 0, 0 };
    static const unsigned long fl[] = { 1, 2, 5, 6, 5, 6 };
    for (unsigned i = 0; i < ncustom; i++) { cflags[i] = rng_chance(4) ? 3 : fl[rng_below(6)]; emit("mattr ma%u %lu", i, cflags[i]); if (*budget) (*budget)--; }
    unsigned nv = 2 + rng_below(7);
    for (unsigned i = 0; i < nv; i++) gen_mval(budget, ncustom, cflags);
    stat_hit("side.memattrs");
  }
}

static void gen_one_topology(unsigned long *budget) {
  char filters[32], arg[1200], line[2600];
  unsigned long tflags = rng_chance(25) ? 1 : 0;   /* INCLUDE_DISALLOWED */
  gen_filters(filters);
  if (nsrcs && rng_chance(40)) {
    if (filters[16] == '-') filters[16] = filters[17] = filters[18] = '0';    /* I/O objects kept for the bundled XML */
    snprintf(line, sizeof line, "topo X %lu %s %s", tflags, filters, srcs[rng_below(nsrcs)].path);
    stat_hit("topo.xml");
  } else {
    gen_synthetic(arg, sizeof arg);
    snprintf(line, sizeof line, "topo S %lu %s %s", tflags, filters, arg);
    stat_hit("topo.synthetic");
  }
  emit("%s", line); (*budget)--;
  if (!topo_loaded) { stat_hit("topo.loadfail"); return; }
  if (rng_chance(25)) {   /* user Groups, mostly with dont_merge, so that level merging has something it must not drop */
    unsigned ng = 1 + rng_below(2);
    for (unsigned i = 0; i < ng; i++) { emit("group %u %u", rng_below(100000), rng_chance(75) ? 1u : 0u); if (*budget) (*budget)--; }
    stat_hit("groups");
  }
  if (rng_chance(22)) {   /* a whole level wrapped in user Groups whose dont_merge flags are MIXED: one protected Group protects the level (C08-r8) */
    int depth = hwloc_topology_get_depth(topo);
    int d = depth > 2 ? 1 + (int) rng_below((unsigned) depth - 2) : -1;      /* neither the root nor the PU level */
    unsigned n = d > 0 ? hwloc_get_nbobjs_by_depth(topo, d) : 0;
    if (n >= 2 && n <= 12) {
      hwloc_obj_t objs[12]; unsigned forced = rng_below(n);
      for (unsigned i = 0; i < n; i++) objs[i] = hwloc_get_obj_by_depth(topo, d, i);
      for (unsigned i = 0; i < n; i++) {
        if (rng_chance(15) && i != forced) continue;                         /* sometimes a partial row */
        emit("group %lu %u", k_of_obj(objs[i]), (i == forced || rng_chance(35)) ? 1u : 0u); if (*budget) (*budget)--;
      }
      stat_hit("groups.mixed_row");
    }
  }
  /* side structures: a good share of the topologies get user distances, CPU kinds and memory attribute values; the bundled XML
   * files bring their own; both are observed (adopted) before the first restrict */
  int xml = line[5] == 'X';
  int side = 0;
  if (rng_chance(45)) { gen_side_setup(budget); side = 1; stat_hit("side.setup"); }
  else if (xml && rng_chance(50)) side = 1;
  if (side) { emit("sideinit"); if (*budget) (*budget)--; }
  unsigned nrestrict = side ? 2 + rng_below(4) : 1 + rng_below(4);
  stat_hit("chain.%u", nrestrict);
  for (unsigned r = 0; r < nrestrict && topo_loaded; r++) {
    unsigned nmisc = rng_chance(55) ? rng_below(5) : 0;
    for (unsigned i = 0; i < nmisc; i++) { emit("misc %u m%u", rng_below(100000), rng_below(1000)); if (*budget) (*budget)--; }
    if (tflags && rng_chance(30)) {
      hwloc_obj_t root = hwloc_get_root_obj(topo);
      hwloc_bitmap_t c = hwloc_bitmap_alloc(), n = hwloc_bitmap_alloc();
      random_subset(c, root->cpuset, 70); random_subset(n, root->nodeset, 70);
      if (hwloc_bitmap_iszero(c)) hwloc_bitmap_copy(c, root->cpuset);
      if (hwloc_bitmap_iszero(n)) hwloc_bitmap_copy(n, root->nodeset);
      char *buf = NULL; size_t len = 0; FILE *m = open_memstream(&buf, &len);
      fputs("allow ", m); put_set(m, c); fputc(' ', m); put_set(m, n); fclose(m);
      emit("%s", buf); free(buf);
      hwloc_bitmap_free(c); hwloc_bitmap_free(n);
      stat_hit("allow");
    }
    unsigned long flags = rng_below(32);
    /* bias towards consistent flag words so that most calls reach the algorithm */
    if (rng_chance(45)) { if (flags & HWLOC_RESTRICT_FLAG_BYNODESET) flags &= ~HWLOC_RESTRICT_FLAG_REMOVE_CPULESS; else flags &= ~HWLOC_RESTRICT_FLAG_REMOVE_MEMLESS; }
    if (rng_chance(3)) flags |= rng_chance(50) ? (1UL << 5) : rng_chance(50) ? (1UL << 17) : ~31UL;
    int bynode = !!(flags & HWLOC_RESTRICT_FLAG_BYNODESET);
    hwloc_bitmap_t s = hwloc_bitmap_alloc(); const char *kn = "?";
    gen_restrict_set(s, bynode, &kn);
    stat_hit("set.%s.%s", bynode ? "node" : "cpu", kn);
    stat_hit("flags.%lu", flags > 31 ? 99 : flags);
    unsigned before = 0, after = 0;
    { struct objlist l = {0}; ol_collect(&l, hwloc_get_root_obj(topo)); before = l.n; free(l.o); }
    int depth_before = hwloc_topology_get_depth(topo);
    char post[32]; snprintf(post, sizeof post, " %lu", flags);
    emit_set_op("restrict ", s, post);
    hwloc_bitmap_free(s);
    if (*budget) (*budget)--;
    { struct objlist l = {0}; ol_collect(&l, hwloc_get_root_obj(topo)); after = l.n; free(l.o); }
    stat_hit(after < before ? "effect.removed_objects" : "effect.no_object_removed");
    if (hwloc_topology_get_depth(topo) < depth_before) stat_hit("effect.fewer_levels");
    if (r > 0) stat_hit("repeat.call%u", r + 1);
    /* the side structures are refreshed lazily by the queries: observe after half of the calls only (and not always all three
     * families), so that the next restrict meets unrefreshed caches the other half of the time; always after the last call */
    if (side && topo_loaded && (r + 1 == nrestrict || rng_chance(50))) {
      unsigned mask = (r + 1 == nrestrict || rng_chance(60)) ? 7 : 1 + rng_below(6);
      emit("observe %u", mask); if (*budget) (*budget)--;
    }
  }
}

static void print_consts(void) {
  printf("FLAG REMOVE_CPULESS %lu\n", (unsigned long) HWLOC_RESTRICT_FLAG_REMOVE_CPULESS);
  printf("FLAG ADAPT_MISC %lu\n", (unsigned long) HWLOC_RESTRICT_FLAG_ADAPT_MISC);
  printf("FLAG ADAPT_IO %lu\n", (unsigned long) HWLOC_RESTRICT_FLAG_ADAPT_IO);
  printf("FLAG BYNODESET %lu\n", (unsigned long) HWLOC_RESTRICT_FLAG_BYNODESET);
  printf("FLAG REMOVE_MEMLESS %lu\n", (unsigned long) HWLOC_RESTRICT_FLAG_REMOVE_MEMLESS);
  printf("FILTER KEEP_STRUCTURE %d\n", (int) HWLOC_TYPE_FILTER_KEEP_STRUCTURE);
  printf("TOPOFLAG INCLUDE_DISALLOWED %lu\n", (unsigned long) HWLOC_TOPOLOGY_FLAG_INCLUDE_DISALLOWED);
  printf("ERRNO EINVAL %d\n", EINVAL);
  printf("NTYPES %d\n", (int) HWLOC_OBJ_TYPE_MAX);
  printf("ORDER"); for (int i = 0; i < HWLOC_OBJ_TYPE_MAX; i++) printf(" %u", obj_type_order[i]); printf("\n");
  printf("PRIORITY"); for (int i = 0; i < HWLOC_OBJ_TYPE_MAX; i++) printf(" %d", obj_type_priority[i]); printf("\n");
  printf("ENUM %d %d %d %d %d %d %d %d %d %d %d %d %d %d %d %d %d %d %d %d %d\n",
         HWLOC_OBJ_MACHINE, HWLOC_OBJ_PACKAGE, HWLOC_OBJ_DIE, HWLOC_OBJ_CORE, HWLOC_OBJ_PU,
         HWLOC_OBJ_L1CACHE, HWLOC_OBJ_L2CACHE, HWLOC_OBJ_L3CACHE, HWLOC_OBJ_L4CACHE, HWLOC_OBJ_L5CACHE,
         HWLOC_OBJ_L1ICACHE, HWLOC_OBJ_L2ICACHE, HWLOC_OBJ_L3ICACHE, HWLOC_OBJ_GROUP, HWLOC_OBJ_NUMANODE,
         HWLOC_OBJ_MEMCACHE, HWLOC_OBJ_BRIDGE, HWLOC_OBJ_PCI_DEVICE, HWLOC_OBJ_OS_DEVICE, HWLOC_OBJ_MISC, HWLOC_OBJ_TYPE_MAX);
}

int main(int argc, char **argv) {
  /* nothing from the caller's environment may influence discovery */
  unsetenv("HWLOC_XMLFILE"); unsetenv("HWLOC_SYNTHETIC"); unsetenv("HWLOC_FSROOT"); unsetenv("HWLOC_CPUID_PATH");
  unsetenv("HWLOC_COMPONENTS"); unsetenv("HWLOC_DEBUG_CHECK"); setenv("HWLOC_HIDE_ERRORS", "2", 1);
  if (argc >= 2 && !strcmp(argv[1], "--consts")) { print_consts(); return 0; }
  if (argc >= 4 && !strcmp(argv[1], "--replay")) {
    FILE *in = fopen(argv[2], "r"); fout = fopen(argv[3], "w");
    ftrace = argc >= 5 ? fopen(argv[4], "w") : NULL;
    if (!in || !fout) return 2;
    char *line = malloc(70000);
    while (fgets(line, 70000, in)) { if (line[0] == '#' || line[0] == '\n') continue; exec_line(line); }
    drop_topo(); free(line); fclose(in); fclose(fout); if (ftrace) fclose(ftrace);
    return 0;
  }
  if (argc < 6) { fprintf(stderr, "usage: restrict <nops> <ops> <cout> <stats> <trace> [sources]\n"); return 2; }
  unsigned long budget = strtoul(argv[1], NULL, 10);
  fops = fopen(argv[2], "w"); fout = fopen(argv[3], "w"); fstats = fopen(argv[4], "w"); ftrace = fopen(argv[5], "w");
  if (!fops || !fout || !fstats || !ftrace) return 2;
  if (argc >= 7) {
    FILE *fs = fopen(argv[6], "r"); char line[1100];
    while (fs && fgets(line, sizeof line, fs)) {
      line[strcspn(line, "\n")] = 0;
      if (line[0] != 'X' || strlen(line) < 3) continue;
      srcs = realloc(srcs, (nsrcs + 1) * sizeof(*srcs)); strncpy(srcs[nsrcs].path, line + 2, 999); srcs[nsrcs].path[999] = 0; nsrcs++;
    }
    if (fs) fclose(fs);
  }
  rng_seed(rng_seed_from_env());
  while (budget > 0) gen_one_topology(&budget);
  drop_topo();
  for (unsigned i = 0; i < nstats; i++) fprintf(fstats, "%s %lu\n", stats[i].k, stats[i].n);
  fclose(fops); fclose(fout); fclose(fstats); fclose(ftrace); free(srcs);
  return 0;
}
