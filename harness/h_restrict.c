/* C08 harness (engine `restrict`): hwloc_topology_restrict() on real topologies vs the Lean model.
 *
 * usage: restrict <nops> <ops-out> <c-out> <stats-out> <trace-out> [sources-file]     (seed = VERIF_SEED)
 *        restrict --replay <ops-in> <c-out> [trace-out]
 *        restrict --consts            prints the constants consumed by tools/gen_restrict.py
 *
 * op lines (the plan; replayable, every line independent of addresses):
 *   topo <S|X> <topology flags> <filters: 20 chars 0-3 or -> <synthetic string | xml path>
 *   misc <k> <name>                 insert a Misc object below the (k mod nobjs)-th object in DFS order
 *   group <k> <dont_merge>          insert a Group with the cpuset of the (k mod nobjs)-th object in DFS order (normal, not the root)
 *   allow <cpuset> <nodeset>        hwloc_topology_allow(CUSTOM) (only effective with INCLUDE_DISALLOWED)
 *   restrict <set> <flags>          set = <hex mask> | I<hex mask of the complement> (infinite set)
 * c-out: one line per op.  trace-out (input of the Lean driver): for topo/misc/allow one line `echo <c-out line>`;
 * for restrict: dump BEFORE (tag B), `restrict <set> <flags> <ret> <errno>`, dump AFTER (tag A).
 */
#include "topology.c"          /* only for the static tables obj_type_order[] / obj_type_priority[] (--consts) */
#include "dump.h"
#include "rng.h"
#include <errno.h>
#include <stdarg.h>

static FILE *fops, *fout, *ftrace, *fstats;
static hwloc_topology_t topo;
static int topo_loaded;

/* ---------------------------------------------------------------- statistics */
#define MAXSTAT 256
static struct { char k[48]; unsigned long n; } stats[MAXSTAT];
static unsigned nstats;
static void stat_hit(const char *fmt, ...) {
  char k[48]; va_list ap; va_start(ap, fmt); vsnprintf(k, sizeof k, fmt, ap); va_end(ap);
  for (unsigned i = 0; i < nstats; i++) if (!strcmp(stats[i].k, k)) { stats[i].n++; return; }
  if (nstats < MAXSTAT) { strcpy(stats[nstats].k, k); stats[nstats++].n = 1; }
}

/* ---------------------------------------------------------------- sets as text */
static void put_hex(FILE *f, hwloc_const_bitmap_t s) {
  int last = hwloc_bitmap_last(s);
  if (last < 0) { fputc('0', f); return; }
  int started = 0;
  for (int i = last / 64; i >= 0; i--) {
    unsigned long w = hwloc_bitmap_to_ith_ulong(s, i);
    if (started) fprintf(f, "%016lx", w); else { fprintf(f, "%lx", w); started = 1; }
  }
}
static void put_set(FILE *f, hwloc_const_bitmap_t s) {
  if (hwloc_bitmap_weight(s) == -1) {
    hwloc_bitmap_t c = hwloc_bitmap_alloc(); hwloc_bitmap_not(c, s);
    fputc('I', f); put_hex(f, c); hwloc_bitmap_free(c);
  } else put_hex(f, s);
}
static int hexval(int c) { return c >= '0' && c <= '9' ? c - '0' : c >= 'a' && c <= 'f' ? c - 'a' + 10 : -1; }
/* returns NULL when unparsable */
static hwloc_bitmap_t parse_set(const char *s) {
  int inf = 0;
  if (*s == 'I') { inf = 1; s++; }
  size_t n = strlen(s);
  if (!n) return NULL;
  hwloc_bitmap_t b = hwloc_bitmap_alloc();
  for (size_t i = 0; i < n; i++) {
    int v = hexval((unsigned char) s[n - 1 - i]);
    if (v < 0) { hwloc_bitmap_free(b); return NULL; }
    for (int k = 0; k < 4; k++) if (v & (1 << k)) hwloc_bitmap_set(b, (unsigned) (4 * i + k));
  }
  if (inf) hwloc_bitmap_not(b, b);
  return b;
}

static const char *errname(int e) {
  static char buf[24];
  switch (e) { case 0: return "ok"; case EINVAL: return "EINVAL"; case ENOENT: return "ENOENT"; case EPERM: return "EPERM";
    case ENOMEM: return "ENOMEM"; case ENOSYS: return "ENOSYS"; default: snprintf(buf, sizeof buf, "E%d", e); return buf; }
}

/* ---------------------------------------------------------------- executing ops */
static void say(const char *fmt, ...) {
  char b[256]; va_list ap; va_start(ap, fmt); vsnprintf(b, sizeof b, fmt, ap); va_end(ap);
  fprintf(fout, "%s\n", b); fflush(fout);
  if (ftrace) { fprintf(ftrace, "echo %s\n", b); fflush(ftrace); }
}

static void drop_topo(void) { if (topo) hwloc_topology_destroy(topo); topo = NULL; topo_loaded = 0; }

static void do_topo(char kind, unsigned long flags, const char *filters, const char *arg) {
  drop_topo();
  if (hwloc_topology_init(&topo) < 0) { topo = NULL; say("topo fail"); return; }
  for (int ty = 0; ty < HWLOC_OBJ_TYPE_MAX && filters[ty]; ty++)
    if (filters[ty] >= '0' && filters[ty] <= '3')
      hwloc_topology_set_type_filter(topo, (hwloc_obj_type_t) ty, (enum hwloc_type_filter_e) (filters[ty] - '0')); /* may be refused */
  int err = hwloc_topology_set_flags(topo, flags);
  if (!err) err = kind == 'S' ? hwloc_topology_set_synthetic(topo, arg) : kind == 'X' ? hwloc_topology_set_xml(topo, arg) : -1;
  if (!err) err = hwloc_topology_load(topo);
  if (err < 0) { drop_topo(); say("topo fail"); return; }
  topo_loaded = 1;
  say("topo ok");
}

struct objlist { hwloc_obj_t *o; unsigned n, cap; };
static void ol_add(struct objlist *l, hwloc_obj_t o) {
  if (l->n == l->cap) { l->cap = l->cap ? 2 * l->cap : 128; l->o = realloc(l->o, l->cap * sizeof(*l->o)); }
  l->o[l->n++] = o;
}
static void ol_collect(struct objlist *l, hwloc_obj_t o) {
  hwloc_obj_t c;
  ol_add(l, o);
  for (c = o->first_child; c; c = c->next_sibling) ol_collect(l, c);
  for (c = o->memory_first_child; c; c = c->next_sibling) ol_collect(l, c);
  for (c = o->io_first_child; c; c = c->next_sibling) ol_collect(l, c);
  for (c = o->misc_first_child; c; c = c->next_sibling) ol_collect(l, c);
}

static void do_misc(unsigned long k, const char *name) {
  if (!topo_loaded) { say("misc skip"); return; }
  struct objlist l = {0};
  ol_collect(&l, hwloc_get_root_obj(topo));
  hwloc_obj_t parent = l.o[k % l.n];
  free(l.o);
  errno = 0;
  hwloc_obj_t m = hwloc_topology_insert_misc_object(topo, parent, name);
  say("misc %s", m ? "ok" : errname(errno ? errno : -1));
}

static void do_group(unsigned long k, int dm) {
  if (!topo_loaded) { say("group skip"); return; }
  struct objlist l = {0};
  ol_collect(&l, hwloc_get_root_obj(topo));
  hwloc_obj_t target = l.o[k % l.n];
  free(l.o);
  if (!target->parent || !target->cpuset || hwloc_bitmap_iszero(target->cpuset) || (int) target->type > (int) HWLOC_OBJ_GROUP) { say("group none"); return; }
  hwloc_obj_t g = hwloc_topology_alloc_group_object(topo);
  if (!g) { say("group refused"); return; }
  g->cpuset = hwloc_bitmap_dup(target->cpuset);
  g->attr->group.dont_merge = dm ? 1 : 0;
  hwloc_obj_t res = hwloc_topology_insert_group_object(topo, g);
  say("group %s", !res ? "fail" : res == g ? "new" : "existing");
}

static void do_allow(const char *cs, const char *ns) {
  if (!topo_loaded) { say("allow skip"); return; }
  hwloc_bitmap_t c = parse_set(cs), n = parse_set(ns);
  if (!c || !n) { say("allow badset"); hwloc_bitmap_free(c); hwloc_bitmap_free(n); return; }
  errno = 0;
  int r = hwloc_topology_allow(topo, c, n, HWLOC_ALLOW_FLAG_CUSTOM);
  say("allow %d %s", r, r < 0 ? errname(errno) : "ok");
  hwloc_bitmap_free(c); hwloc_bitmap_free(n);
}

static void do_restrict(const char *ss, unsigned long flags) {
  if (!topo_loaded) { say("restrict skip"); return; }
  hwloc_bitmap_t s = parse_set(ss);
  if (!s) { say("restrict badset"); return; }
  if (ftrace) dump_topology(ftrace, topo, "B");
  errno = 0;
  int r = hwloc_topology_restrict(topo, s, flags);
  int e = r < 0 ? errno : 0;
  if (ftrace) {
    fprintf(ftrace, "restrict "); put_set(ftrace, s); fprintf(ftrace, " %lu %d %s\n", flags, r, errname(e));
    dump_topology(ftrace, topo, "A");
    fflush(ftrace);
  }
  fprintf(fout, "ret=%d errno=%s\n", r, errname(e)); fflush(fout);
  stat_hit("result.%s", errname(e));
  hwloc_bitmap_free(s);
}

static void exec_line(char *line) {
  char a[64], b[64]; unsigned long u; int pos = 0; char kind;
  line[strcspn(line, "\n")] = 0;
  if (!strncmp(line, "topo ", 5)) {
    if (sscanf(line + 5, " %c %lu %63s %n", &kind, &u, a, &pos) >= 3) do_topo(kind, u, a, line + 5 + pos); else say("topo badop");
  } else if (!strncmp(line, "misc ", 5)) {
    if (sscanf(line + 5, "%lu %63s", &u, a) == 2) do_misc(u, a); else say("misc badop");
  } else if (!strncmp(line, "group ", 6)) {
    unsigned long dm;
    if (sscanf(line + 6, "%lu %lu", &u, &dm) == 2) do_group(u, (int) dm); else say("group badop");
  } else if (!strncmp(line, "allow ", 6)) {
    char *c = strtok(line + 6, " "), *n = c ? strtok(NULL, " ") : NULL;
    if (c && n) do_allow(c, n); else say("allow badop");
  } else if (!strncmp(line, "restrict ", 9)) {
    char *s = strtok(line + 9, " "), *f = s ? strtok(NULL, " ") : NULL;
    if (s && f) do_restrict(s, strtoul(f, NULL, 10)); else say("restrict badop");
  } else { (void) b; say("badop"); }
}

/* ---------------------------------------------------------------- generators */
struct src { char path[1000]; };
static struct src *srcs; static unsigned nsrcs;

static int app(char *s, int off, int cap, const char *fmt, ...) {
  va_list ap; va_start(ap, fmt); int n = vsnprintf(s + off, cap - off, fmt, ap); va_end(ap); return off + n;
}
static const char *numa_attr(void) {
  switch (rng_below(5)) { case 0: return "(memory=1GB)"; case 1: return "(memorysidecachesize=64MB)";
    case 2: return "(memory=256MB memorysidecachesize=16MB)"; default: return ""; }
}
static void gen_synthetic(char *s, int cap) {
  int off = 0;
  unsigned budget = 96;  /* max PUs */
#define CNT() ({ unsigned c = 1 + rng_below(rng_chance(60) ? 2 : 4); if (c > budget) c = 1; budget /= c; c; })
  if (rng_chance(8)) { int n = 1 + rng_below(4); for (int i = 0; i < n; i++) off = app(s, off, cap, "%u ", CNT()); s[off - 1] = 0; return; }
  int numa_mode = rng_below(5); /* 0: default, 1: level, 2: attached once, 3: attached at two places, 4: attached to cores/low */
  if (rng_chance(30)) { off = app(s, off, cap, "group:%u ", CNT()); if (numa_mode == 3 && rng_chance(50)) off = app(s, off, cap, "[numa%s] ", numa_attr()); }
  if (rng_chance(75)) { off = app(s, off, cap, "pack:%u ", CNT()); if (numa_mode == 2 || numa_mode == 3) { off = app(s, off, cap, "[numa%s] ", numa_attr()); if (numa_mode == 2) numa_mode = 0; } }
  if (rng_chance(20)) off = app(s, off, cap, "die:%u ", rng_chance(50) ? 1u : CNT());
  if (numa_mode == 1) off = app(s, off, cap, "numa:%u%s ", CNT(), numa_attr());
  if (rng_chance(25)) off = app(s, off, cap, "group:%u ", rng_chance(40) ? 1u : CNT());
  if (rng_chance(40)) { off = app(s, off, cap, "l3:%u ", CNT()); if (numa_mode == 3) { off = app(s, off, cap, "[numa%s] ", numa_attr()); numa_mode = 0; } }
  if (rng_chance(35)) off = app(s, off, cap, "l2:%u ", rng_chance(50) ? 1u : CNT());
  if (rng_chance(25)) off = app(s, off, cap, "l1:%u ", 1u);
  int has_core = 0;
  if (rng_chance(80)) { has_core = 1; off = app(s, off, cap, "core:%u ", CNT()); if (numa_mode == 4) off = app(s, off, cap, "[numa%s] ", numa_attr()); }
  off = app(s, off, cap, "pu:%u", CNT());
  /* the interleaving loop may only name levels that exist: naming a missing one makes hwloc_synthetic_process_indexes() read
   * past data->level[] (topology-synthetic.c:212, heap-buffer-overflow; outside C08, reported to C07) */
  if (has_core && rng_chance(14)) off = app(s, off, cap, "(indexes=%s)", rng_chance(50) ? "core:pu" : "pu:core");
}
static void gen_filters(char *f) {
  for (int i = 0; i < 20; i++) f[i] = '-';
  f[20] = 0;
  switch (rng_below(9)) {
  case 8: for (int i = 0; i < 20; i++) f[i] = '2'; f[13] = '0'; return;          /* KEEP_STRUCTURE wherever legal but Groups KEEP_ALL
                                                                                    (child level below a Group level decides alone) */
  case 0: case 1: return;                                                        /* defaults (Groups KEEP_STRUCTURE, no I/O) */
  case 2: case 3: for (int i = 0; i < 20; i++) f[i] = '0'; f[13] = '-'; return;  /* all KEEP_ALL except Group */
  case 4: for (int i = 0; i < 20; i++) f[i] = '2'; return;                       /* KEEP_STRUCTURE wherever legal */
  case 5: f[16] = f[17] = f[18] = '0'; return;                                   /* I/O KEEP_ALL, rest default */
  case 6: for (int i = 0; i < 20; i++) f[i] = '0'; return;                       /* everything KEEP_ALL */
  default: { int n = 1 + rng_below(5); for (int k = 0; k < n; k++) f[rng_below(20)] = '0' + (rng_chance(60) ? 2 : rng_below(4)); f[16] = f[17] = f[18] = '0'; }
  }
}

static void emit(const char *fmt, ...) {
  char line[70000]; va_list ap; va_start(ap, fmt); vsnprintf(line, sizeof line, fmt, ap); va_end(ap);
  fprintf(fops, "%s\n", line); fflush(fops);
  exec_line(line);
}
static void emit_set_op(const char *pre, hwloc_const_bitmap_t s, const char *post) {
  /* sets can be long: stream them instead of formatting into a fixed buffer */
  char *buf = NULL; size_t len = 0; FILE *m = open_memstream(&buf, &len);
  fputs(pre, m); put_set(m, s); fputs(post, m); fclose(m);
  fprintf(fops, "%s\n", buf); fflush(fops);
  exec_line(buf); free(buf);
}

static void random_subset(hwloc_bitmap_t out, hwloc_const_bitmap_t from, unsigned pct) {
  int i; hwloc_bitmap_zero(out);
  hwloc_bitmap_foreach_begin(i, from) if (rng_chance(pct)) hwloc_bitmap_set(out, i); hwloc_bitmap_foreach_end();
}
static hwloc_obj_t random_obj_with_sets(int want_type /* -1 any */) {
  struct objlist l = {0}, f = {0};
  ol_collect(&l, hwloc_get_root_obj(topo));
  for (unsigned i = 0; i < l.n; i++) if (l.o[i]->cpuset && (want_type < 0 || (int) l.o[i]->type == want_type)) ol_add(&f, l.o[i]);
  hwloc_obj_t r = f.n ? f.o[rng_below(f.n)] : NULL;
  free(l.o); free(f.o);
  return r;
}

/* choose S for the loaded topology; bynode selects nodesets */
static void gen_restrict_set(hwloc_bitmap_t s, int bynode, const char **kindname) {
  hwloc_obj_t root = hwloc_get_root_obj(topo), o;
  hwloc_const_bitmap_t allowed = bynode ? hwloc_topology_get_allowed_nodeset(topo) : hwloc_topology_get_allowed_cpuset(topo);
  hwloc_const_bitmap_t complete = bynode ? root->complete_nodeset : root->complete_cpuset;
#define OSET(o) (bynode ? (o)->nodeset : (o)->cpuset)
  unsigned k = rng_below(15);
  hwloc_bitmap_zero(s);
  switch (k) {
  case 0: *kindname = "subset"; random_subset(s, allowed, rng_chance(50) ? 50 : rng_chance(50) ? 20 : 85); break;
  case 1: *kindname = "superset"; hwloc_bitmap_copy(s, complete); hwloc_bitmap_set_range(s, hwloc_bitmap_last(complete) + 1, hwloc_bitmap_last(complete) + 1 + rng_below(70)); break;
  case 2: *kindname = "disjoint"; if (rng_chance(30)) break; /* empty */
    hwloc_bitmap_not(s, allowed); hwloc_bitmap_clr_range(s, hwloc_bitmap_last(complete) + 2 + rng_below(80), -1); break;
  case 3: *kindname = "infinite"; { hwloc_bitmap_t t = hwloc_bitmap_alloc(); random_subset(t, complete, rng_chance(30) ? 0 : 40); hwloc_bitmap_not(s, t); hwloc_bitmap_free(t); } break;
  case 4: case 5: { *kindname = "straddle";   /* a run of PUs/nodes by logical index crossing sibling boundaries */
      hwloc_obj_type_t ty = bynode ? HWLOC_OBJ_NUMANODE : HWLOC_OBJ_PU;
      unsigned n = hwloc_get_nbobjs_by_type(topo, ty), a = rng_below(n), len = 1 + rng_below(n > 1 ? n - 1 : 1);
      for (unsigned i = a; i < a + len && i < n; i++) hwloc_bitmap_set(s, hwloc_get_obj_by_type(topo, ty, i)->os_index);
      break; }
  case 6: *kindname = "single"; { hwloc_obj_type_t ty = bynode ? HWLOC_OBJ_NUMANODE : HWLOC_OBJ_PU;
      hwloc_bitmap_set(s, hwloc_get_obj_by_type(topo, ty, rng_below(hwloc_get_nbobjs_by_type(topo, ty)))->os_index); } break;
  case 7: *kindname = "onenuma"; o = random_obj_with_sets(HWLOC_OBJ_NUMANODE); if (o) hwloc_bitmap_copy(s, OSET(o)); break;
  case 8: case 9: *kindname = "allbutone";   /* everything but one package / object */
    o = rng_chance(60) ? random_obj_with_sets(HWLOC_OBJ_PACKAGE) : NULL; if (!o) o = random_obj_with_sets(-1);
    hwloc_bitmap_andnot(s, complete, OSET(o)); break;
  case 10: *kindname = "oneobj"; o = random_obj_with_sets(-1); hwloc_bitmap_copy(s, OSET(o)); break;
  case 11: *kindname = "allbutnuma"; o = random_obj_with_sets(HWLOC_OBJ_NUMANODE); if (o) hwloc_bitmap_andnot(s, complete, OSET(o)); else hwloc_bitmap_copy(s, complete); break;
  case 12: *kindname = "twoobjs"; o = random_obj_with_sets(-1); hwloc_bitmap_copy(s, OSET(o)); o = random_obj_with_sets(-1); hwloc_bitmap_or(s, s, OSET(o)); break;
  case 13: *kindname = "cross";   /* the other kind of set of an object, interpreted as this kind: arbitrary small masks */
    o = random_obj_with_sets(-1); hwloc_bitmap_copy(s, bynode ? o->cpuset : o->nodeset); break;
  default: *kindname = "full"; hwloc_bitmap_copy(s, allowed); break;
  }
}

static void gen_one_topology(unsigned long *budget) {
  char filters[32], arg[1200], line[2600];
  unsigned long tflags = rng_chance(25) ? 1 : 0;   /* INCLUDE_DISALLOWED */
  gen_filters(filters);
  if (nsrcs && rng_chance(40)) {
    if (filters[16] == '-') filters[16] = filters[17] = filters[18] = '0';    /* I/O objects kept for the bundled XML */
    snprintf(line, sizeof line, "topo X %lu %s %s", tflags, filters, srcs[rng_below(nsrcs)].path);
    stat_hit("topo.xml");
  } else {
    gen_synthetic(arg, sizeof arg);
    snprintf(line, sizeof line, "topo S %lu %s %s", tflags, filters, arg);
    stat_hit("topo.synthetic");
  }
  emit("%s", line); (*budget)--;
  if (!topo_loaded) { stat_hit("topo.loadfail"); return; }
  if (rng_chance(25)) {   /* user Groups, mostly with dont_merge, so that level merging has something it must not drop */
    unsigned ng = 1 + rng_below(2);
    for (unsigned i = 0; i < ng; i++) { emit("group %u %u", rng_below(100000), rng_chance(75) ? 1u : 0u); if (*budget) (*budget)--; }
    stat_hit("groups");
  }
  unsigned nrestrict = 1 + rng_below(4);
  stat_hit("chain.%u", nrestrict);
  for (unsigned r = 0; r < nrestrict && topo_loaded; r++) {
    unsigned nmisc = rng_chance(55) ? rng_below(5) : 0;
    for (unsigned i = 0; i < nmisc; i++) { emit("misc %u m%u", rng_below(100000), rng_below(1000)); if (*budget) (*budget)--; }
    if (tflags && rng_chance(30)) {
      hwloc_obj_t root = hwloc_get_root_obj(topo);
      hwloc_bitmap_t c = hwloc_bitmap_alloc(), n = hwloc_bitmap_alloc();
      random_subset(c, root->cpuset, 70); random_subset(n, root->nodeset, 70);
      if (hwloc_bitmap_iszero(c)) hwloc_bitmap_copy(c, root->cpuset);
      if (hwloc_bitmap_iszero(n)) hwloc_bitmap_copy(n, root->nodeset);
      char *buf = NULL; size_t len = 0; FILE *m = open_memstream(&buf, &len);
      fputs("allow ", m); put_set(m, c); fputc(' ', m); put_set(m, n); fclose(m);
      emit("%s", buf); free(buf);
      hwloc_bitmap_free(c); hwloc_bitmap_free(n);
      stat_hit("allow");
    }
    unsigned long flags = rng_below(32);
    /* bias towards consistent flag words so that most calls reach the algorithm */
    if (rng_chance(45)) { if (flags & HWLOC_RESTRICT_FLAG_BYNODESET) flags &= ~HWLOC_RESTRICT_FLAG_REMOVE_CPULESS; else flags &= ~HWLOC_RESTRICT_FLAG_REMOVE_MEMLESS; }
    if (rng_chance(3)) flags |= rng_chance(50) ? (1UL << 5) : rng_chance(50) ? (1UL << 17) : ~31UL;
    int bynode = !!(flags & HWLOC_RESTRICT_FLAG_BYNODESET);
    hwloc_bitmap_t s = hwloc_bitmap_alloc(); const char *kn = "?";
    gen_restrict_set(s, bynode, &kn);
    stat_hit("set.%s.%s", bynode ? "node" : "cpu", kn);
    stat_hit("flags.%lu", flags > 31 ? 99 : flags);
    unsigned before = 0, after = 0;
    { struct objlist l = {0}; ol_collect(&l, hwloc_get_root_obj(topo)); before = l.n; free(l.o); }
    int depth_before = hwloc_topology_get_depth(topo);
    char post[32]; snprintf(post, sizeof post, " %lu", flags);
    emit_set_op("restrict ", s, post);
    hwloc_bitmap_free(s);
    if (*budget) (*budget)--;
    { struct objlist l = {0}; ol_collect(&l, hwloc_get_root_obj(topo)); after = l.n; free(l.o); }
    stat_hit(after < before ? "effect.removed_objects" : "effect.no_object_removed");
    if (hwloc_topology_get_depth(topo) < depth_before) stat_hit("effect.fewer_levels");
    if (r > 0) stat_hit("repeat.call%u", r + 1);
  }
}

static void print_consts(void) {
  printf("FLAG REMOVE_CPULESS %lu\n", (unsigned long) HWLOC_RESTRICT_FLAG_REMOVE_CPULESS);
  printf("FLAG ADAPT_MISC %lu\n", (unsigned long) HWLOC_RESTRICT_FLAG_ADAPT_MISC);
  printf("FLAG ADAPT_IO %lu\n", (unsigned long) HWLOC_RESTRICT_FLAG_ADAPT_IO);
  printf("FLAG BYNODESET %lu\n", (unsigned long) HWLOC_RESTRICT_FLAG_BYNODESET);
  printf("FLAG REMOVE_MEMLESS %lu\n", (unsigned long) HWLOC_RESTRICT_FLAG_REMOVE_MEMLESS);
  printf("FILTER KEEP_STRUCTURE %d\n", (int) HWLOC_TYPE_FILTER_KEEP_STRUCTURE);
  printf("TOPOFLAG INCLUDE_DISALLOWED %lu\n", (unsigned long) HWLOC_TOPOLOGY_FLAG_INCLUDE_DISALLOWED);
  printf("ERRNO EINVAL %d\n", EINVAL);
  printf("NTYPES %d\n", (int) HWLOC_OBJ_TYPE_MAX);
  printf("ORDER"); for (int i = 0; i < HWLOC_OBJ_TYPE_MAX; i++) printf(" %u", obj_type_order[i]); printf("\n");
  printf("PRIORITY"); for (int i = 0; i < HWLOC_OBJ_TYPE_MAX; i++) printf(" %d", obj_type_priority[i]); printf("\n");
  printf("ENUM %d %d %d %d %d %d %d %d %d %d %d %d %d %d %d %d %d %d %d %d %d\n",
         HWLOC_OBJ_MACHINE, HWLOC_OBJ_PACKAGE, HWLOC_OBJ_DIE, HWLOC_OBJ_CORE, HWLOC_OBJ_PU,
         HWLOC_OBJ_L1CACHE, HWLOC_OBJ_L2CACHE, HWLOC_OBJ_L3CACHE, HWLOC_OBJ_L4CACHE, HWLOC_OBJ_L5CACHE,
         HWLOC_OBJ_L1ICACHE, HWLOC_OBJ_L2ICACHE, HWLOC_OBJ_L3ICACHE, HWLOC_OBJ_GROUP, HWLOC_OBJ_NUMANODE,
         HWLOC_OBJ_MEMCACHE, HWLOC_OBJ_BRIDGE, HWLOC_OBJ_PCI_DEVICE, HWLOC_OBJ_OS_DEVICE, HWLOC_OBJ_MISC, HWLOC_OBJ_TYPE_MAX);
}

int main(int argc, char **argv) {
  /* nothing from the caller's environment may influence discovery */
  unsetenv("HWLOC_XMLFILE"); unsetenv("HWLOC_SYNTHETIC"); unsetenv("HWLOC_FSROOT"); unsetenv("HWLOC_CPUID_PATH");
  unsetenv("HWLOC_COMPONENTS"); unsetenv("HWLOC_DEBUG_CHECK"); setenv("HWLOC_HIDE_ERRORS", "2", 1);
  if (argc >= 2 && !strcmp(argv[1], "--consts")) { print_consts(); return 0; }
  if (argc >= 4 && !strcmp(argv[1], "--replay")) {
    FILE *in = fopen(argv[2], "r"); fout = fopen(argv[3], "w");
    ftrace = argc >= 5 ? fopen(argv[4], "w") : NULL;
    if (!in || !fout) return 2;
    char *line = malloc(70000);
    while (fgets(line, 70000, in)) { if (line[0] == '#' || line[0] == '\n') continue; exec_line(line); }
    drop_topo(); free(line); fclose(in); fclose(fout); if (ftrace) fclose(ftrace);
    return 0;
  }
  if (argc < 6) { fprintf(stderr, "usage: restrict <nops> <ops> <cout> <stats> <trace> [sources]\n"); return 2; }
  unsigned long budget = strtoul(argv[1], NULL, 10);
  fops = fopen(argv[2], "w"); fout = fopen(argv[3], "w"); fstats = fopen(argv[4], "w"); ftrace = fopen(argv[5], "w");
  if (!fops || !fout || !fstats || !ftrace) return 2;
  if (argc >= 7) {
    FILE *fs = fopen(argv[6], "r"); char line[1100];
    while (fs && fgets(line, sizeof line, fs)) {
      line[strcspn(line, "\n")] = 0;
      if (line[0] != 'X' || strlen(line) < 3) continue;
      srcs = realloc(srcs, (nsrcs + 1) * sizeof(*srcs)); strncpy(srcs[nsrcs].path, line + 2, 999); srcs[nsrcs].path[999] = 0; nsrcs++;
    }
    if (fs) fclose(fs);
  }
  rng_seed(rng_seed_from_env());
  while (budget > 0) gen_one_topology(&budget);
  drop_topo();
  for (unsigned i = 0; i < nstats; i++) fprintf(fstats, "%s %lu\n", stats[i].k, stats[i].n);
  fclose(fops); fclose(fout); fclose(fstats); fclose(ftrace); free(srcs);
  return 0;
}
