/* C06 harness (engine `xmlload`): structure-aware fuzzing of the XML import entry points
 *   hwloc_topology_set_xmlbuffer / hwloc_topology_set_xml (+ hwloc_topology_load) and hwloc_topology_diff_load_xmlbuffer.
 * Every case: set+load must return 0 or -1 (no sanitizer report, no abort, no hang: alarm(20)); after a failure the
 * topology is destroyed and (every 16th failure) a fresh topology must load a known valid document; after a success the
 * topology is dumped (harness/dump.h) for the Lean oracle wfCheck and a battery of read-only public functions runs on it
 * (incl. XML re-export + re-import, which must load, and hwloc_topology_dup; both are dumped too).
 *
 * usage: xmlload gen <ncases> <sources-file> <outdir>                (seed = VERIF_SEED, back end = HWLOC_LIBXML)
 *        xmlload replay <xml-file> <dump-out> [B|F|D] [flags] [u]    (the file IS the XML, loaded as len+1 bytes with a NUL)
 *   mode B = set_xmlbuffer, F = set_xml(path), D = diff_load_xmlbuffer; u = userdata import callback set
 *   flags  = hwloc topology flags | (filter mode << 16); filter mode 0 = default filters, 1 = all types KEEP_ALL,
 *            2 = I/O types KEEP_IMPORTANT
 * gen writes <outdir>/c<idx>.xml BEFORE loading it (removed again when the case failed/was skipped cleanly; kept when the
 * load succeeded so that the engine still has the bytes when the oracle verdict arrives), appends
 *   <caseid> <mode> <flags> <u> <len> <hash> <loaded|failed|skipped-F05x>      to <outdir>/plan.txt
 * and the dumps to <outdir>/dump.txt (tags <caseid>, <caseid>r = re-import of the v3 export, <caseid>d = dup).
 *
 * KNOWN DEFECT CLASSES of /repo (decided on the mutant BEFORE loading, see known_class(); each is re-enabled by
 * VERIF_INCLUDE_F05A=1 ... VERIF_INCLUDE_F05O=1; F05g-F05o were found by this engine):
 *  F05a nolibxml, modes B/F: after the <?xml / <!DOCTYPE lines sscanf("<topology version=\"%u.%u\">")==2 and no '>' up
 *       to the first NUL: hwloc_nolibxml_look_init() computes strchr(..)+1 = NULL+1.                       [exact]
 *  F05b size <= 0 given to set_xmlbuffer / diff_load_xmlbuffer: nolibxml writes buffer[size-1] of a malloc(size) block.
 *       Never generated unless the switch is set.                                                          [exact]
 *  F05c both back ends, modes B/F: version major 2, a <distances2 / <distances2hetero element without name attribute whose
 *       kind has the LATENCY bit: strcmp(NULL, "XGMIHops") (topology-xml.c:1422).  Predicate: NO_DISTANCES not set, the
 *       version is not positively known to be != 2, some "<distances2" tag text has no ` name="` and its kind is not
 *       positively known to lack bit 2.                                                                    [over-approximate]
 *  F05d both back ends, modes B/F: hwloc__xml_import_object() only checks cpuset and nodeset of normal/memory objects;
 *       complete_cpuset stays NULL when the attribute is absent (hwloc__xml_import_object_attr allocates it only when it
 *       sees the attribute).  After the children of an object are inserted, the loop at topology-xml.c:1038-1046 calls
 *       hwloc_bitmap_compare_first(next->complete_cpuset, cur->complete_cpuset) on every pair of consecutive NORMAL
 *       children (first_child list; memory/I-O/Misc children live in other lists), so the class is: an object ends up
 *       with >= 2 normal children one of which has no complete_cpuset attribute.  Children of ignored (filtered)
 *       objects are re-attached to the grand-parent, so "sibling" cannot be decided locally.  Predicate: some non-root
 *       <object tag of normal (or undecidable) type, see obj_type(), has no complete_cpuset attribute, and the document
 *       holds at least two non-root <object tags of normal (or undecidable) type.                                                                           [over-approximate]
 *       The same missing attribute on the ROOT object is F05h below.
 *  F05e nolibxml, all modes: the len content bytes end with `="`: hwloc__nolibxml_import_next_attr() reads value[1]
 *       one byte past the buffer (mode F: hwloc_nolibxml_read_file() allocates one spare byte that is never
 *       initialised, the scan then continues through it and past the allocation).                           [over-approximate: the
 *       `="` must also be reached as an attribute by the parser]
 *  F05f nolibxml + userdata import callback, modes B/F: a non-self-closing <userdata start tag whose `>` is followed by a
 *       byte other than '<' and whose length is 0/absent/unparsable: close_content() without get_content() writes '<'
 *       over that byte (the final NUL in the bad case) and the scanner runs off the buffer.                 [over-approximate]
 */
#define _GNU_SOURCE
#include "dump.h"
#include "rng.h"
#include <errno.h>
#include <unistd.h>
#include <stdarg.h>
#include <signal.h>
#include <ctype.h>
extern size_t __sanitizer_get_current_allocated_bytes(void);   /* ASan runtime */
extern int __lsan_do_recoverable_leak_check(void);

/* ------------------------------------------------------------------ small helpers */
struct buf { unsigned char *p; size_t n, cap; };
static void b_reserve(struct buf *b, size_t need) {
  if (need + 1 > b->cap) { b->cap = (need + 1) * 2; b->p = realloc(b->p, b->cap); }
}
static void b_set(struct buf *b, const void *src, size_t n) { b_reserve(b, n); memcpy(b->p, src, n); b->n = n; b->p[n] = 0; }
static void b_splice(struct buf *b, size_t off, size_t del, const void *ins, size_t inslen) {
  if (off > b->n) off = b->n;
  if (del > b->n - off) del = b->n - off;
  b_reserve(b, b->n - del + inslen);
  memmove(b->p + off + inslen, b->p + off + del, b->n - off - del);
  if (inslen) memcpy(b->p + off, ins, inslen);
  b->n = b->n - del + inslen; b->p[b->n] = 0;
}
static const unsigned char *xmemmem(const unsigned char *h, size_t hn, const char *needle) {
  size_t nn = strlen(needle);
  if (nn > hn) return NULL;
  return memmem(h, hn, needle, nn);
}
static uint64_t fnv(const unsigned char *p, size_t n) { uint64_t h = 1469598103934665603ULL; for (size_t i = 0; i < n; i++) { h ^= p[i]; h *= 1099511628211ULL; } return h; }
static char *read_file(const char *path, size_t *len) {
  FILE *f = fopen(path, "rb"); if (!f) return NULL;
  fseek(f, 0, SEEK_END); long n = ftell(f); fseek(f, 0, SEEK_SET);
  char *b = malloc(n + 1); if (fread(b, 1, n, f) != (size_t) n) { fclose(f); free(b); return NULL; }
  b[n] = 0; fclose(f); *len = n; return b;
}
static int env_on(const char *name) { const char *s = getenv(name); return s && *s && strcmp(s, "0"); }

static int nolibxml;            /* HWLOC_LIBXML=0 */
static int inc[16];             /* VERIF_INCLUDE_F05A.. */
#define INC(c) (inc[(c) - 'a'])

/* ------------------------------------------------------------------ known defect classes */
static int name_char(int c) { return (c >= 'a' && c <= 'z') || (c >= '0' && c <= '9') || c == '_'; }

/* value of attribute `name` inside the tag text [t, t+n): returns 1 and copies it when it occurs exactly once, is
 * preceded by a blank and holds no '&' (so that both back ends see these very bytes); 0 when absent; -1 otherwise */
static int tag_attr(const unsigned char *t, size_t n, const char *name, char *out, size_t cap) {
  size_t nl = strlen(name); int found = 0;
  for (size_t i = 0; i + nl + 2 <= n; i++) {
    if (memcmp(t + i, name, nl) || t[i + nl] != '=' ) continue;
    if (i > 0 && name_char(t[i - 1])) continue;       /* e.g. complete_cpuset vs cpuset */
    if (found) return -1;
    if (i == 0 || !isspace(t[i - 1]) || t[i + nl + 1] != '"') return -1;
    const unsigned char *q = memchr(t + i + nl + 2, '"', n - (i + nl + 2));
    if (!q) return -1;
    size_t vl = q - (t + i + nl + 2);
    if (vl + 1 > cap || memchr(t + i + nl + 2, '&', vl) || memchr(t + i + nl + 2, 0, vl)) return -1;
    memcpy(out, t + i + nl + 2, vl); out[vl] = 0; found = 1;
  }
  return found;
}
/* does the tag text hold the attribute name at all (any spelling the parsers could accept)? */
static int tag_has_attr(const unsigned char *t, size_t n, const char *name) {
  size_t nl = strlen(name);
  for (size_t i = 0; i + nl + 1 <= n; i++)
    if (!memcmp(t + i, name, nl) && (i == 0 || !name_char(t[i - 1])) && !name_char(t[i + nl])) return 1;
  return 0;
}
static size_t tag_end(const unsigned char *p, size_t n, size_t from) { /* offset of the first '>' at or after from, or n */
  const unsigned char *q = memchr(p + from, '>', n - from); return q ? (size_t) (q - p) : n;
}

/* is the tag text [t, t+n) (from '<' up to, not including, the first '>') a clean sequence of ` name="value"` pairs that both
 * back ends read identically?  (nolibxml stops reading attributes at the first malformed one, so an attribute only counts
 * as present when everything before it is clean as well.) */
static int tag_clean(const unsigned char *t, size_t n) {
  size_t i = 1;
  while (i < n && name_char(t[i])) i++;
  for (;;) {
    if (i == n) return 1;
    if (t[i] == '/' && i + 1 == n) return 1;
    if (t[i] != ' ') return 0;
    while (i < n && t[i] == ' ') i++;
    if (i == n) return 1;
    if (t[i] == '/' && i + 1 == n) return 1;
    size_t s = i; while (i < n && ((t[i] >= 'a' && t[i] <= 'z') || t[i] == '_')) i++;
    if (i == s || i + 1 >= n || t[i] != '=' || t[i + 1] != '"') return 0;
    i += 2;
    while (i < n && t[i] != '"') { if (t[i] == '&' || t[i] == '<' || t[i] < 0x20 || t[i] >= 0x7f) return 0; i++; }
    if (i == n) return 0;
    i++;
  }
}
/* attribute positively present (exactly once, in a clean tag) */
static int has_ok(const unsigned char *t, size_t n, const char *name) {
  char v[4096];
  return tag_clean(t, n) && tag_attr(t, n, name, v, sizeof v) == 1;
}

static int class_a(const char *copy) {
  const char *b = copy; unsigned ma, mi;
  while (!strncmp(b, "<?xml ", 6) || !strncmp(b, "<!DOCTYPE ", 10)) { b = strchr(b, '\n'); if (!b) return 0; b++; }
  return sscanf(b, "<topology version=\"%u.%u\">", &ma, &mi) == 2 && !strchr(b, '>');
}
static int version_maybe_2(const unsigned char *p, size_t n) {
  const unsigned char *t = xmemmem(p, n, "<topology");
  if (!t) return 1;
  size_t off = t - p, e = tag_end(p, n, off); char v[64]; unsigned ma, mi;
  if (tag_attr(p + off, e - off, "version", v, sizeof v) == 1 && sscanf(v, "%u.%u", &ma, &mi) == 2 && ma != 2) return 0;
  return 1;
}
static int class_c(const unsigned char *p, size_t n, unsigned long flags) {
  if (flags & HWLOC_TOPOLOGY_FLAG_NO_DISTANCES) return 0;
  if (!version_maybe_2(p, n)) return 0;
  size_t off = 0;
  for (;;) {
    const unsigned char *t = xmemmem(p + off, n - off, "<distances2");
    if (!t) return 0;
    size_t s = t - p, e = tag_end(p, n, s); char v[64];
    if (!has_ok(p + s, e - s, "name")) {
      int r = tag_clean(p + s, e - s) ? tag_attr(p + s, e - s, "kind", v, sizeof v) : -1;
      if (!(r == 1 && !(strtoul(v, NULL, 10) & HWLOC_DISTANCES_KIND_VALUE_LATENCY))) return 1;
    }
    off = s + 1;
  }
}
/* type of an <object tag as the importer will compute it (hwloc_type_sscanf itself is used): >= 0 hwloc type,
 * -1 the import of this object fails (no/unknown type), -2 cannot be decided here (be conservative) */
static int obj_type(const unsigned char *t, size_t n) {
  char v[64]; hwloc_obj_type_t ty;
  if (!tag_clean(t, n)) return -2;
  int r = tag_attr(t, n, "type", v, sizeof v);
  if (r == 0 && !tag_has_attr(t, n, "type")) return xmemmem(t, n, "=\"") ? -1 : -2;
  if (r != 1) return -2;
  for (char *c = v; *c; c++) if ((unsigned char) *c < 0x20 || (unsigned char) *c >= 0x7f) return -2;
  if (hwloc_type_sscanf(v, &ty, NULL, 0) < 0) return (!strcasecmp(v, "Tile") || !strcasecmp(v, "Module") || !strcasecmp(v, "Cluster")) ? (int) HWLOC_OBJ_GROUP : -1;
  return (int) ty;
}
static int class_d(const unsigned char *p, size_t n) {
  size_t off = 0; unsigned idx = 0, maybe_normal = 0, lacking = 0;
  for (;;) {
    const unsigned char *t = xmemmem(p + off, n - off, "<object");
    if (!t) break;
    size_t s = t - p, e = tag_end(p, n, s); char v[64];
    off = s + 1;
    if (idx++ == 0) continue;                               /* root object: see F05h */
    int ty = obj_type(p + s, e - s); (void) v;
    if (ty == -1 || (ty >= 0 && !hwloc_obj_type_is_normal((hwloc_obj_type_t) ty))) continue;
    maybe_normal++;
    if (!has_ok(p + s, e - s, "complete_cpuset")) lacking++;
  }
  return lacking && maybe_normal >= 2;
}
static int class_e(const unsigned char *p, size_t n) { return n >= 2 && p[n - 2] == '=' && p[n - 1] == '"'; }
static int class_f(const unsigned char *p, size_t n) {
  size_t off = 0;
  for (;;) {
    const unsigned char *t = xmemmem(p + off, n - off, "<userdata");
    if (!t) return 0;
    size_t s = t - p, e = tag_end(p, n, s); char v[64];
    off = s + 1;
    if (e >= n) continue;                                   /* no '>' at all: find_child fails */
    if (e > 0 && p[e - 1] == '/') continue;                 /* self-closing */
    if (e + 1 < n && p[e + 1] == '<') continue;             /* the '<' written by close_content is already there */
    if (tag_attr(p + s, e - s, "length", v, sizeof v) == 1 && strtoul(v, NULL, 10) != 0) continue;
    return 1;
  }
}

/* ---- classes found by this engine (see the report of the engine's author; same conventions) ----
 *  F05g libxml, all modes: a <!DOCTYPE without SYSTEM/PUBLIC identifier: dtd->SystemID is NULL and is given to strcmp()
 *       (topology-xml-libxml.c:190 and :289).  Predicate: some "<!DOCTYPE" whose text up to the next '>' holds neither
 *       "SYSTEM" nor "PUBLIC".                                                                            [over-approximate]
 */
static int class_g(const unsigned char *p, size_t n) {
  size_t off = 0;
  for (;;) {
    const unsigned char *t = xmemmem(p + off, n - off, "<!DOCTYPE");
    if (!t) return 0;
    size_t s = t - p, e = tag_end(p, n, s);
    off = s + 1;
    if (!xmemmem(p + s, e - s, "SYSTEM") && !xmemmem(p + s, e - s, "PUBLIC")) return 1;
  }
}

/*  F05h both back ends, modes B/F: hwloc__xml_import_object() never checks that the complete_* sets exist.  (1) root object
 *       without complete_cpuset / complete_nodeset attribute: hwloc_insert_object_by_parent() does
 *       hwloc_bitmap_set(root->complete_cpuset /complete_nodeset = NULL) as soon as a PU / NUMA node is inserted
 *       (topology.c:1970 / :1954).  (2) memory object (NUMANode, MemCache) without complete_nodeset: propagate_nodeset()
 *       ORs child->complete_nodeset = NULL (topology.c:2492).  Predicate: the first <object tag lacks one of the two
 *       attributes, or another <object tag of memory (or undecidable) type lacks complete_nodeset.
 *       (Same root cause as F05d.)                                                                        [over-approximate]
 *  F05i both back ends, mode D: hwloc__xml_import_diff() returns -1 on a bad <diff>/child without destroying the entries
 *       already built (topology-xml.c:1841-1852): leak.  Excluded by LeakSanitizer suppression of allocation stacks
 *       through hwloc__xml_import_diff_one.                                                               [by stack]
 *  F05j both back ends, modes B/F: <distances2* nbobjs >= 65536: nbobjs*nbobjs wraps in 32 bits (topology-xml.c:1239,
 *       1347, 1362, 1387), the values array is smaller than nbobjs^2: heap overflow in hwloc_internal_distances_restrict
 *       (distances.c:768) or in the user reading hwloc_distances_s.values.  Predicate: NO_DISTANCES not set and some
 *       <distances2 tag whose nbobjs is present and not positively < 65536.                               [over-approximate]
 *  F05k both back ends, modes B/F: a non-root object whose <info>/<page_type>/<userdata>/unknown child fails to import is
 *       left with `goto error` (topology-xml.c:753, :785) before it was inserted: the object is leaked.  Excluded by
 *       LeakSanitizer suppression of allocation stacks through hwloc__xml_import_object.                  [by stack]
 *  F05l both back ends, modes B/F: <memattr name="Capacity"|"Locality" flags=<the builtin flags>> with a <memattr_value>
 *       child: assert(id != HWLOC_MEMATTR_ID_CAPACITY/LOCALITY) in hwloc_internal_memattr_set_value (memattrs.c:948).
 *       Predicate: NO_MEMATTRS not set and some <memattr tag whose name is present and not positively another name.
 *                                                                                                         [over-approximate]
 *  F05m both back ends, modes B/F: a Bridge object whose downstream type is not PCI (bridge_type="x-y" with y != 1 is
 *       accepted, topology-xml.c:339-346 "FIXME verify"; or no bridge_type at all): hwloc_obj_type_snprintf() aborts on
 *       assert(downstream_type == HWLOC_OBJ_BRIDGE_PCI) (traversal.c:681).  Predicate: some <object tag of type Bridge (or
 *       undecidable) whose bridge_type is not positively "<u>-1".               [over-approximate]
 */
static int exact_type(const char *v, int set) { /* set 1 = normal, 2 = memory, 4 = I/O non-bridge + Misc */
  static const char *normal[] = {"Machine", "Package", "Die", "Core", "PU", "L1Cache", "L2Cache", "L3Cache", "L4Cache", "L5Cache", "L1iCache", "L2iCache", "L3iCache", "Group", NULL};
  static const char *mem[] = {"NUMANode", "MemCache", NULL};
  static const char *io[] = {"PCIDev", "OSDev", "Misc", NULL};
  if (set & 1) for (int i = 0; normal[i]; i++) if (!strcmp(v, normal[i])) return 1;
  if (set & 2) for (int i = 0; mem[i]; i++) if (!strcmp(v, mem[i])) return 1;
  if (set & 4) for (int i = 0; io[i]; i++) if (!strcmp(v, io[i])) return 1;
  return 0;
}
static int class_h(const unsigned char *p, size_t n) {
  size_t off = 0; unsigned idx = 0;
  for (;;) {
    const unsigned char *t = xmemmem(p + off, n - off, "<object");
    if (!t) return 0;
    size_t s = t - p, e = tag_end(p, n, s); char v[64];
    off = s + 1;
    if (idx++ == 0) { if (!has_ok(p + s, e - s, "complete_cpuset") || !has_ok(p + s, e - s, "complete_nodeset")) return 1; continue; }
    if (has_ok(p + s, e - s, "complete_nodeset")) continue;
    { int ty = obj_type(p + s, e - s); (void) v; if (ty == -1 || (ty >= 0 && !hwloc_obj_type_is_memory((hwloc_obj_type_t) ty))) continue; }
    return 1;
  }
}
static int class_j(const unsigned char *p, size_t n, unsigned long flags) {
  size_t off = 0;
  if (flags & HWLOC_TOPOLOGY_FLAG_NO_DISTANCES) return 0;
  for (;;) {
    const unsigned char *t = xmemmem(p + off, n - off, "<distances2");
    if (!t) return 0;
    size_t s = t - p, e = tag_end(p, n, s); char v[64];
    off = s + 1;
    if (!tag_has_attr(p + s, e - s, "nbobjs")) continue;
    if (tag_clean(p + s, e - s) && tag_attr(p + s, e - s, "nbobjs", v, sizeof v) == 1 && strlen(v) < 12 && strtoul(v, NULL, 10) < 65536) continue;
    return 1;
  }
}
static int class_l(const unsigned char *p, size_t n, unsigned long flags) {
  size_t off = 0;
  if (flags & HWLOC_TOPOLOGY_FLAG_NO_MEMATTRS) return 0;
  for (;;) {
    const unsigned char *t = xmemmem(p + off, n - off, "<memattr");
    if (!t) return 0;
    size_t s = t - p, e = tag_end(p, n, s); char v[64];
    off = s + 1;
    if (s + 8 < n && name_char(p[s + 8])) continue;        /* <memattr_value */
    if (!tag_has_attr(p + s, e - s, "name")) continue;
    if (tag_clean(p + s, e - s) && tag_attr(p + s, e - s, "name", v, sizeof v) == 1 && strcmp(v, "Capacity") && strcmp(v, "Locality")) continue;
    return 1;
  }
}
static int class_m(const unsigned char *p, size_t n) {
  size_t off = 0;
  for (;;) {
    const unsigned char *t = xmemmem(p + off, n - off, "<object");
    if (!t) return 0;
    size_t s = t - p, e = tag_end(p, n, s); char v[64]; unsigned a, b; char c;
    off = s + 1;
    { int ty = obj_type(p + s, e - s); if (ty == -1 || (ty >= 0 && ty != HWLOC_OBJ_BRIDGE)) continue; }
    if (tag_clean(p + s, e - s) && tag_attr(p + s, e - s, "bridge_type", v, sizeof v) == 1 && sscanf(v, "%u-%u%c", &a, &b, &c) == 2 && b == HWLOC_OBJ_BRIDGE_PCI) continue;
    return 1;
  }
}

/*  F05n nolibxml, mode D: hwloc_nolibxml_import_diff() tests `tag` after find_child() returned 0 (the first tag after the
 *       header lines is a closing tag "</..."): `tag` is uninitialised (topology-xml-nolibxml.c:446, :488-491), strcmp() on a
 *       stale pointer (ASan: heap-use-after-free / SEGV).  Predicate: the same header skipping, then blanks, then "</".  [exact]
 */
static int class_n(const char *copy) {
  const char *b = copy;
  while (!strncmp(b, "<?xml ", 6) || !strncmp(b, "<!DOCTYPE ", 10)) { b = strchr(b, '\n'); if (!b) return 0; b++; }
  b += strspn(b, " \t\n\r");
  return b[0] == '<' && b[1] == '/';
}

/*  F05o both back ends, modes B/F: a document whose root object ends up without normal child (Machine + NUMANode only; or all
 *       PUs outside allowed_cpuset / all normal objects with empty cpusets, which the core then removes):
 *       hwloc_connect_levels() calls memcpy(objs, root->children = NULL, 0) (topology.c:3237, UBSan nonnull).  Predicate:
 *       there is an <object tag but (scanning the object open/close tags in order) no positively kept PU inside
 *       the root object, see class_o().                  [over-approximate]
 */
static int class_o(const unsigned char *p, size_t n, unsigned long flags) {
  /* scan the <object ...> / <object .../> / </object> tags in order: safe only when a PU object that the core will keep
   * (its os_index is in the root's allowed_cpuset, or INCLUDE_DISALLOWED) is seen inside the root object: a kept PU keeps
   * all its ancestors (remove_empty() only drops childless objects), so the root keeps a normal child */
  size_t off = 0; int depth = 0; unsigned seen = 0; int allowed_known = 0; hwloc_bitmap_t allowed = NULL; int safe = 0;
  while (off < n && !safe) {
    const unsigned char *t = memchr(p + off, '<', n - off);
    if (!t) break;
    size_t s = t - p, e = tag_end(p, n, s); char v[4096];
    off = s + 1;
    if (e - s >= 8 && !memcmp(p + s, "</object", 8)) { depth--; if (depth <= 0 && seen) break; continue; }
    if (e - s < 7 || memcmp(p + s, "<object", 7) || (e - s > 7 && name_char(p[s + 7]))) continue;
    if (seen++ == 0) {       /* root: what will topology->allowed_cpuset be? */
      if (flags & HWLOC_TOPOLOGY_FLAG_INCLUDE_DISALLOWED) allowed_known = 2;                    /* irrelevant */
      else if (tag_clean(p + s, e - s)) {
        int r = tag_attr(p + s, e - s, "allowed_cpuset", v, sizeof v);
        if (r == 0 && !tag_has_attr(p + s, e - s, "allowed_cpuset")) allowed_known = 2;       /* stays full */
        else if (r == 1) { allowed = hwloc_bitmap_alloc(); hwloc_bitmap_sscanf(allowed, v); allowed_known = 1; }
      }
    } else if (depth >= 1 && allowed_known && obj_type(p + s, e - s) == (int) HWLOC_OBJ_PU) {
      if (allowed_known == 2) safe = 1;
      else if (tag_attr(p + s, e - s, "os_index", v, sizeof v) == 1 && strlen(v) < 10 && isdigit((unsigned char) v[0])
               && hwloc_bitmap_isset(allowed, (unsigned) strtoul(v, NULL, 10))) safe = 1;
    }
    if (!(e > s && p[e - 1] == '/')) depth++;
  }
  if (allowed) hwloc_bitmap_free(allowed);
  return seen >= 1 && !safe;
}

/* LeakSanitizer suppressions for the leak classes F05i and F05k (see above) */
__attribute__((visibility("default"))) const char *__lsan_default_suppressions(void) {
  static char s[160];
  s[0] = 0;
  if (!env_on("VERIF_INCLUDE_F05I")) strcat(s, "leak:hwloc__xml_import_diff_one\n");
  if (!env_on("VERIF_INCLUDE_F05K")) strcat(s, "leak:hwloc__xml_import_object\n");
  return s;
}

/* returns 0 or the letter of the (not re-enabled) known class the input belongs to.  `p` has n content bytes + NUL. */
static int known_class(const unsigned char *p, size_t n, char mode, unsigned long flags, int u) {
  int topo = (mode == 'B' || mode == 'F');
  if (nolibxml && topo && !INC('a') && class_a((const char *) p)) return 'a';
  /* F05c was fixed in /repo (a86a9a9 "importing a v2 XML with unnamed latency distances called strcmp() on a NULL name"): the class
   * is no longer excluded; VERIF_EXCLUDE_F05C=1 restores the exclusion for older trees */
  if (topo && getenv("VERIF_EXCLUDE_F05C") && !INC('c') && class_c(p, n, flags)) return 'c';
  if (topo && !INC('d') && class_d(p, n)) return 'd';
  if (nolibxml && !INC('e') && class_e(p, n)) return 'e';
  if (nolibxml && topo && u && !INC('f') && class_f(p, n)) return 'f';
  if (!nolibxml && !INC('g') && class_g(p, n)) return 'g';
  if (topo && !INC('h') && class_h(p, n)) return 'h';
  if (topo && !INC('j') && class_j(p, n, flags)) return 'j';
  if (topo && !INC('l') && class_l(p, n, flags)) return 'l';
  if (topo && !INC('m') && class_m(p, n)) return 'm';
  if (topo && !INC('o') && class_o(p, n, flags)) return 'o';
  if (nolibxml && mode == 'D' && !INC('n') && class_n((const char *) p)) return 'n';
  return 0;
}

/* ------------------------------------------------------------------ running one case */
static FILE *fdump;
static volatile unsigned long sink;
static unsigned long nfail;
static struct buf valid_doc;      /* a known valid topology document (for the "fresh topology after failure" check) */

static void die(const char *fmt, ...) {
  va_list ap; va_start(ap, fmt); fprintf(stderr, "HARNESS-CHECK-FAILED: "); vfprintf(stderr, fmt, ap); va_end(ap); fputc('\n', stderr);
  fflush(NULL); _exit(97);
}

static void ud_import_cb(hwloc_topology_t t, hwloc_obj_t o, const char *name, const void *buffer, size_t length) {
  const unsigned char *p = buffer; unsigned long s = 0;
  for (size_t i = 0; i < length; i++) s += p[i];
  if (name) s += strlen(name);
  if (o) s += o->type;
  sink += s; (void) t;
}

static void configure(hwloc_topology_t t, unsigned long xflags, int u) {
  unsigned long flags = xflags & 0xffff; unsigned fm = (xflags >> 16) & 3;
  if (hwloc_topology_set_flags(t, flags) < 0) die("set_flags(%lu) refused", flags);
  if (fm == 1) hwloc_topology_set_all_types_filter(t, HWLOC_TYPE_FILTER_KEEP_ALL);
  else if (fm == 2) hwloc_topology_set_io_types_filter(t, HWLOC_TYPE_FILTER_KEEP_IMPORTANT);
  if (u) hwloc_topology_set_userdata_import_callback(t, ud_import_cb);
}

static void walk_infos(struct hwloc_infos_s *infos) {
  if (!infos) return;
  for (unsigned i = 0; i < infos->count; i++) { sink += strlen(infos->array[i].name); sink += strlen(infos->array[i].value); }
}

static void check_snprintf(hwloc_obj_t o, int which, int verbose) {
  static const size_t sizes[] = {0, 1, 7, 256};
  int ref = -12345;
  for (unsigned k = 0; k < 4; k++) {
    char bufm[300]; memset(bufm, 0x5a, sizeof bufm);
    char *b = bufm + 8; size_t sz = sizes[k];
    int r = which ? hwloc_obj_attr_snprintf(b, sz, o, "#", verbose) : hwloc_obj_type_snprintf(b, sz, o, verbose);
    if (r < 0) die("%s_snprintf returned %d (type %d)", which ? "attr" : "type", r, (int) o->type);
    if (ref == -12345) ref = r;
    else if (r != ref) die("%s_snprintf(size %zu) returned %d, other sizes %d (type %d gp %llu)", which ? "attr" : "type", sz, r, ref, (int) o->type, (unsigned long long) o->gp_index);
    if (sz) {
      size_t want = (size_t) r < sz - 1 ? (size_t) r : sz - 1;
      size_t got = strnlen(b, sz);
      if (got != want) die("%s_snprintf(size %zu) ret %d but strlen %zu (type %d gp %llu)", which ? "attr" : "type", sz, r, got, (int) o->type, (unsigned long long) o->gp_index);
    }
    for (size_t i = sz; i < sz + 8; i++) if ((unsigned char) b[i] != 0x5a) die("snprintf wrote past size %zu", sz);
    for (size_t i = 0; i < 8; i++) if ((unsigned char) bufm[i] != 0x5a) die("snprintf wrote before the buffer");
  }
}

static void touch_location(struct hwloc_location *l) {
  if (l->type == HWLOC_LOCATION_TYPE_CPUSET) { if (l->location.cpuset) sink += hwloc_bitmap_weight(l->location.cpuset); }
  else if (l->type == HWLOC_LOCATION_TYPE_OBJECT) { if (l->location.object) sink += l->location.object->type + l->location.object->gp_index; }
}

static void battery(hwloc_topology_t t, const char *caseid, unsigned long xflags) {
  int depth = hwloc_topology_get_depth(t);
  static const int sdepths[] = {HWLOC_TYPE_DEPTH_NUMANODE, HWLOC_TYPE_DEPTH_BRIDGE, HWLOC_TYPE_DEPTH_PCI_DEVICE,
                                HWLOC_TYPE_DEPTH_OS_DEVICE, HWLOC_TYPE_DEPTH_MISC, HWLOC_TYPE_DEPTH_MEMCACHE};
  unsigned long nobj = 0;
  for (int di = 0; di < depth + 6; di++) {
    int d = di < depth ? di : sdepths[di - depth];
    hwloc_obj_t o = NULL;
    while ((o = hwloc_get_next_obj_by_depth(t, d, o)) != NULL) {
      if (++nobj > 3000000) die("level traversal does not end");
      for (int w = 0; w < 2; w++) for (int v = 0; v < 2; v++) check_snprintf(o, w, v);
      sink += (unsigned long) hwloc_obj_get_info_by_name(o, "Backend");
      sink += (unsigned long) hwloc_obj_get_info_by_name(o, "");
      walk_infos(&o->infos);
      if (o->name) sink += strlen(o->name);
      if (o->subtype) sink += strlen(o->subtype);
      if (o->type == HWLOC_OBJ_NUMANODE && o->attr)
        for (unsigned i = 0; i < o->attr->numanode.page_types_len; i++) sink += o->attr->numanode.page_types[i].size + o->attr->numanode.page_types[i].count;
    }
  }
  walk_infos(hwloc_topology_get_infos(t));
  { const struct hwloc_topology_support *s = hwloc_topology_get_support(t);
    if (s && s->discovery && s->cpubind && s->membind && s->misc) sink += s->discovery->pu + s->cpubind->set_thisproc_cpubind + s->membind->set_thisproc_membind + s->misc->imported_support; }
  sink += hwloc_topology_is_thissystem(t);

  /* distances */
  { struct hwloc_distances_s *ds[64]; unsigned nr = 64;
    if (hwloc_distances_get(t, &nr, ds, 0, 0) == 0) {
      for (unsigned k = 0; k < nr && k < 64; k++) {
        struct hwloc_distances_s *d = ds[k]; unsigned n = d->nbobjs;
        for (unsigned i = 0; i < n; i++) if (d->objs[i]) sink += d->objs[i]->type + d->objs[i]->gp_index;
        for (unsigned long i = 0; i < (unsigned long) n * n; i++) sink += d->values[i];
        const char *nm = hwloc_distances_get_name(t, d); if (nm) sink += strlen(nm);
        sink += d->kind;
        hwloc_distances_release(t, d);
      }
    } }

  /* memory attributes */
  { static const char *names[] = {"Capacity", "Locality", "Bandwidth", "ReadBandwidth", "WriteBandwidth", "Latency", "ReadLatency", "WriteLatency", "verifattr", "nosuchattr"};
    hwloc_memattr_id_t id;
    for (unsigned i = 0; i < sizeof names / sizeof *names; i++) if (hwloc_memattr_get_by_name(t, names[i], &id) == 0) sink += id;
    hwloc_obj_t root = hwloc_get_root_obj(t);
    for (id = 0; id < 64; id++) {
      const char *nm = NULL; unsigned long fl = 0;
      if (hwloc_memattr_get_name(t, id, &nm) < 0) break;
      if (nm) sink += strlen(nm);
      if (hwloc_memattr_get_flags(t, id, &fl) < 0) die("memattr %u has a name but no flags", id);
      hwloc_obj_t tg[16]; hwloc_uint64_t vals[16]; unsigned nt = 16;
      if (hwloc_memattr_get_targets(t, id, NULL, 0, &nt, tg, vals) < 0) continue;
      if (nt > 16) nt = 16;
      struct hwloc_location rootloc; rootloc.type = HWLOC_LOCATION_TYPE_CPUSET; rootloc.location.cpuset = root->cpuset;
      { hwloc_obj_t best = NULL; hwloc_uint64_t v = 0;
        if (hwloc_memattr_get_best_target(t, id, &rootloc, 0, &best, &v) == 0 && best) sink += best->gp_index + v; }
      for (unsigned j = 0; j < nt; j++) {
        if (!tg[j]) die("memattr %u target %u is NULL", id, j);
        sink += tg[j]->gp_index + tg[j]->type;
        hwloc_uint64_t v = 0;
        if (!(fl & HWLOC_MEMATTR_FLAG_NEED_INITIATOR)) { if (hwloc_memattr_get_value(t, id, tg[j], NULL, 0, &v) == 0) sink += v; }
        struct hwloc_location locs[8]; hwloc_uint64_t iv[8]; unsigned ni = 8;
        if (hwloc_memattr_get_initiators(t, id, tg[j], 0, &ni, locs, iv) == 0) {
          if (ni > 8) ni = 8;
          for (unsigned k = 0; k < ni; k++) {
            touch_location(&locs[k]); sink += iv[k];
            if (hwloc_memattr_get_value(t, id, tg[j], &locs[k], 0, &v) == 0) sink += v;
            hwloc_obj_t best = NULL;
            if (k < 2 && hwloc_memattr_get_best_target(t, id, &locs[k], 0, &best, &v) == 0 && best) sink += best->gp_index;
            struct hwloc_location bi;
            if (k == 0 && hwloc_memattr_get_best_initiator(t, id, tg[j], 0, &bi, &v) == 0) touch_location(&bi);
          }
        }
      }
    } }

  /* cpu kinds */
  { int nk = hwloc_cpukinds_get_nr(t, 0);
    hwloc_bitmap_t set = hwloc_bitmap_alloc();
    for (int k = 0; k < nk; k++) {
      int eff = 0; struct hwloc_infos_s *infos = NULL;
      if (hwloc_cpukinds_get_info(t, k, set, &eff, &infos, 0) == 0) { walk_infos(infos); sink += hwloc_bitmap_weight(set) + eff; }
    }
    hwloc_bitmap_free(set);
    sink += hwloc_cpukinds_get_by_cpuset(t, hwloc_get_root_obj(t)->cpuset, 0);
    hwloc_obj_t pu = NULL; int c = 0;
    while ((pu = hwloc_get_next_obj_by_type(t, HWLOC_OBJ_PU, pu)) != NULL && c++ < 4) sink += hwloc_cpukinds_get_by_cpuset(t, pu->cpuset, 0); }

  /* types and sets */
  for (int ty = 0; ty < HWLOC_OBJ_TYPE_MAX; ty++) { sink += hwloc_get_nbobjs_by_type(t, (hwloc_obj_type_t) ty); sink += hwloc_get_type_depth(t, (hwloc_obj_type_t) ty); }
  sink += hwloc_bitmap_weight(hwloc_topology_get_topology_cpuset(t)) + hwloc_bitmap_weight(hwloc_topology_get_complete_cpuset(t))
        + hwloc_bitmap_weight(hwloc_topology_get_allowed_cpuset(t)) + hwloc_bitmap_weight(hwloc_topology_get_topology_nodeset(t))
        + hwloc_bitmap_weight(hwloc_topology_get_complete_nodeset(t)) + hwloc_bitmap_weight(hwloc_topology_get_allowed_nodeset(t));

  /* synthetic export */
  { char sb[4096];
    int r = hwloc_topology_export_synthetic(t, sb, sizeof sb, 0); if (r >= 0) sink += strlen(sb);
    r = hwloc_topology_export_synthetic(t, sb, sizeof sb, HWLOC_TOPOLOGY_EXPORT_SYNTHETIC_FLAG_NO_EXTENDED_TYPES | HWLOC_TOPOLOGY_EXPORT_SYNTHETIC_FLAG_NO_ATTRS | HWLOC_TOPOLOGY_EXPORT_SYNTHETIC_FLAG_IGNORE_MEMORY);
    if (r >= 0) sink += strlen(sb); }

  /* XML export, v2 and v3; re-import of the v3 export */
  { char *xb = NULL; int xl = 0;
    if (hwloc_topology_export_xmlbuffer(t, &xb, &xl, HWLOC_TOPOLOGY_EXPORT_XML_FLAG_V2) == 0) { sink += strlen(xb); hwloc_free_xmlbuffer(t, xb); }
    xb = NULL;
    if (hwloc_topology_export_xmlbuffer(t, &xb, &xl, 0) < 0) die("v3 XML export of a loaded topology failed (errno %d)", errno);
    if (xl <= 0 || (size_t) xl != strlen(xb) + 1) die("export_xmlbuffer: buflen %d but strlen %zu", xl, strlen(xb));
    if (caseid) {
      char tag[80]; snprintf(tag, sizeof tag, "%sr", caseid);
      int kc = known_class((unsigned char *) xb, xl - 1, 'B', xflags, 0);
      if (!kc) {
        hwloc_topology_t t2;
        if (hwloc_topology_init(&t2) < 0) die("init");
        configure(t2, xflags, 0);
        if (hwloc_topology_set_xmlbuffer(t2, xb, xl) < 0 || hwloc_topology_load(t2) < 0) {
          fprintf(stderr, "---- exported document that does not load ----\n%.*s\n----\n", xl > 6000 ? 6000 : xl, xb);
          die("re-import of the v3 export failed");
        }
        dump_topology(fdump, t2, tag); fflush(fdump);
        hwloc_topology_destroy(t2);
      }
    }
    hwloc_free_xmlbuffer(t, xb); }

  /* dup */
  if (caseid) {
    hwloc_topology_t t2 = NULL; char tag[80]; snprintf(tag, sizeof tag, "%sd", caseid);
    if (hwloc_topology_dup(&t2, t) < 0) die("hwloc_topology_dup failed (errno %d)", errno);
    dump_topology(fdump, t2, tag); fflush(fdump);
    hwloc_topology_destroy(t2);
  }
}

static void fresh_topology_check(void) {
  hwloc_topology_t t;
  if (hwloc_topology_init(&t) < 0) die("init after failure");
  if (hwloc_topology_set_xmlbuffer(t, (char *) valid_doc.p, (int) valid_doc.n + 1) < 0) die("set_xmlbuffer(valid doc) failed after an earlier failure");
  if (hwloc_topology_load(t) < 0) die("load(valid doc) failed after an earlier failure");
  hwloc_topology_destroy(t);
}

static void walk_diff(hwloc_topology_diff_t d) {
  unsigned long n = 0;
  for (; d; d = d->generic.next) {
    if (++n > 10000000) die("diff list does not end");
    sink += d->generic.type;
    if (d->generic.type == HWLOC_TOPOLOGY_DIFF_OBJ_ATTR) {
      sink += d->obj_attr.obj_depth + d->obj_attr.obj_index + d->obj_attr.diff.generic.type;
      switch (d->obj_attr.diff.generic.type) {
      case HWLOC_TOPOLOGY_DIFF_OBJ_ATTR_SIZE: sink += d->obj_attr.diff.uint64.oldvalue + d->obj_attr.diff.uint64.newvalue + d->obj_attr.diff.uint64.index; break;
      case HWLOC_TOPOLOGY_DIFF_OBJ_ATTR_INFO: if (d->obj_attr.diff.string.name) sink += strlen(d->obj_attr.diff.string.name); /* FALLTHRU */
      case HWLOC_TOPOLOGY_DIFF_OBJ_ATTR_NAME:
        if (d->obj_attr.diff.string.oldvalue) sink += strlen(d->obj_attr.diff.string.oldvalue);
        if (d->obj_attr.diff.string.newvalue) sink += strlen(d->obj_attr.diff.string.newvalue);
        break;
      default: break;
      }
    } else if (d->generic.type == HWLOC_TOPOLOGY_DIFF_TOO_COMPLEX) sink += d->too_complex.obj_depth + d->too_complex.obj_index;
  }
}

/* returns 1 loaded, 2 failed cleanly, or the class letter when skipped.  `path` = file holding exactly the bytes. */
static int run_case(const char *caseid, const unsigned char *bytes, size_t len, char mode, unsigned long xflags, int u, const char *path, int size_override, int have_override) {
  alarm(60);   /* generous: the machine is shared and the build is ASan; an unreproduced hit is not reported */
  /* exact-size heap copy so that ASan sees the real bounds */
  unsigned char *copy = malloc(len + 1);
  memcpy(copy, bytes, len); copy[len] = 0;
  int kc = have_override ? 0 : known_class(copy, len, mode, xflags, u);
  if (kc) { free(copy); alarm(0); return kc; }
  int size = have_override ? size_override : (int) len + 1;
  int ok = 0;
  if (mode == 'D') {
    hwloc_topology_diff_t diff = NULL; char *refname = NULL;
    int r = hwloc_topology_diff_load_xmlbuffer((char *) copy, size, &diff, &refname);
    free(copy);
    if (r != 0 && r != -1) die("diff_load_xmlbuffer returned %d", r);
    if (r == 0) { walk_diff(diff); if (refname) sink += strlen(refname); hwloc_topology_diff_destroy(diff); free(refname); ok = 1; }
    else { if (diff) die("diff_load_xmlbuffer failed but returned a list"); }
  } else {
    hwloc_topology_t t;
    if (hwloc_topology_init(&t) < 0) die("init");
    configure(t, xflags, u);
    int r;
    if (mode == 'F') { r = hwloc_topology_set_xml(t, path); free(copy); }
    else { r = hwloc_topology_set_xmlbuffer(t, (char *) copy, size); free(copy); /* both back ends copy/parse at set time */ }
    if (r != 0 && r != -1) die("set_xml* returned %d", r);
    if (r == 0) { r = hwloc_topology_load(t); if (r != 0 && r != -1) die("load returned %d", r); }
    if (r == 0) {
      dump_topology(fdump, t, caseid); fflush(fdump);
      battery(t, caseid, xflags);
      ok = 1;
    }
    hwloc_topology_destroy(t);
  }
  if (!ok) { if ((nfail++ & 15) == 0 && valid_doc.n) fresh_topology_check(); }
  alarm(0);
  return ok ? 1 : 2;
}

/* run_case + attribution of leaks to the case: LeakSanitizer only runs when the heap grew over the case */
static int run_case_lc(const char *caseid, const unsigned char *bytes, size_t len, char mode, unsigned long xflags, int u, const char *path, int size_override, int have_override) {
  size_t before = __sanitizer_get_current_allocated_bytes();
  int r = run_case(caseid, bytes, len, mode, xflags, u, path, size_override, have_override);
  if (__sanitizer_get_current_allocated_bytes() > before && __lsan_do_recoverable_leak_check()) die("memory leaked by case %s", caseid);
  return r;
}

/* ------------------------------------------------------------------ seed documents */
struct doc { unsigned char *p; size_t n; int isdiff; int trusted; /* exported by this process: must load */ };
static struct doc *docs; static unsigned ndocs, ndiffdocs;
static void add_doc(const void *p, size_t n, int isdiff, int trusted) {
  if (!n || n > 65536) return;
  docs = realloc(docs, (ndocs + 1) * sizeof *docs);
  docs[ndocs].p = malloc(n + 1); memcpy(docs[ndocs].p, p, n); docs[ndocs].p[n] = 0; docs[ndocs].n = n; docs[ndocs].isdiff = isdiff; docs[ndocs].trusted = trusted; ndocs++;
  if (isdiff) ndiffdocs++;
}
static void add_exports(hwloc_topology_t t) {
  for (int v = 0; v < 2; v++) {
    char *xb = NULL; int xl = 0;
    if (hwloc_topology_export_xmlbuffer(t, &xb, &xl, v ? HWLOC_TOPOLOGY_EXPORT_XML_FLAG_V2 : 0) == 0) {
      add_doc(xb, xl - 1, 0, 1);
      if (!v && !valid_doc.n && xl < 20000) b_set(&valid_doc, xb, xl - 1);
      hwloc_free_xmlbuffer(t, xb);
    }
  }
}
static hwloc_topology_t load_buffer(const unsigned char *p, size_t n, unsigned long xflags) {
  hwloc_topology_t t;
  if (known_class(p, n, 'B', xflags, 0)) return NULL;
  if (hwloc_topology_init(&t) < 0) return NULL;
  configure(t, xflags, 0);
  if (hwloc_topology_set_xmlbuffer(t, (const char *) p, (int) n + 1) < 0 || hwloc_topology_load(t) < 0) { hwloc_topology_destroy(t); return NULL; }
  return t;
}

static void ud_export_cb(void *reserved, hwloc_topology_t t, hwloc_obj_t o) {
  if (o->type != HWLOC_OBJ_PU && o->type != HWLOC_OBJ_MACHINE) return;
  if (o->logical_index == 0) hwloc_export_obj_userdata(reserved, t, o, "ud", "hello world", 11);
  if (o->logical_index == 1) { static const unsigned char bin[7] = {0, 1, 2, 0xff, 0x80, 10, 13}; hwloc_export_obj_userdata_base64(reserved, t, o, NULL, bin, 7); }
  if (o->logical_index == 2) hwloc_export_obj_userdata(reserved, t, o, "empty", "", 0);
  if (o->logical_index == 3) hwloc_export_obj_userdata_base64(reserved, t, o, "b", "xyzw", 4);
}

static void annotate(hwloc_topology_t t, unsigned variant) {
  hwloc_obj_t root = hwloc_get_root_obj(t);
  unsigned npu = hwloc_get_nbobjs_by_type(t, HWLOC_OBJ_PU), nnuma = hwloc_get_nbobjs_by_type(t, HWLOC_OBJ_NUMANODE);
  hwloc_obj_add_info(root, "VerifInfo", "root value");
  hwloc_obj_add_info(hwloc_get_obj_by_type(t, HWLOC_OBJ_PU, 0), "PUInfo", "a&b<c>\"d\"");
  if (variant & 1) {
    hwloc_topology_insert_misc_object(t, root, "misc-root");
    hwloc_obj_t m = hwloc_topology_insert_misc_object(t, hwloc_get_obj_by_type(t, HWLOC_OBJ_PU, npu - 1), "misc-pu");
    if (m) { hwloc_topology_insert_misc_object(t, m, "misc-misc"); hwloc_obj_add_info(m, "MiscInfo", "x"); }
  }
  if ((variant & 2) && npu >= 3) {
    hwloc_obj_t g = hwloc_topology_alloc_group_object(t);
    if (g) {
      hwloc_bitmap_t s = hwloc_bitmap_alloc();
      hwloc_bitmap_or(s, hwloc_get_obj_by_type(t, HWLOC_OBJ_PU, 0)->cpuset, hwloc_get_obj_by_type(t, HWLOC_OBJ_PU, npu - 1)->cpuset);
      hwloc_obj_add_other_obj_sets(g, hwloc_get_obj_by_type(t, HWLOC_OBJ_PU, 0));
      hwloc_obj_add_other_obj_sets(g, hwloc_get_obj_by_type(t, HWLOC_OBJ_PU, npu - 1));
      g->attr->group.kind = 0x7777; g->attr->group.subkind = 3;
      hwloc_bitmap_free(s);
      hwloc_topology_insert_group_object(t, g);
    }
  }
  if (variant & 4) {
    hwloc_obj_type_t ty = nnuma >= 2 ? HWLOC_OBJ_NUMANODE : HWLOC_OBJ_PU;
    unsigned n = hwloc_get_nbobjs_by_type(t, ty); if (n > 6) n = 6;
    if (n >= 2) {
      hwloc_obj_t objs[6]; hwloc_uint64_t vals[36];
      for (unsigned i = 0; i < n; i++) objs[i] = hwloc_get_obj_by_type(t, ty, i);
      for (unsigned i = 0; i < n * n; i++) vals[i] = (i / n == i % n) ? 10 : 20 + i;
      hwloc_distances_add_handle_t h = hwloc_distances_add_create(t, (variant & 8) ? "verifdist" : NULL, HWLOC_DISTANCES_KIND_FROM_USER | ((variant & 16) ? HWLOC_DISTANCES_KIND_VALUE_BANDWIDTH : HWLOC_DISTANCES_KIND_VALUE_LATENCY), 0);
      if (h && hwloc_distances_add_values(t, h, n, objs, vals, 0) == 0) hwloc_distances_add_commit(t, h, 0);
    }
    if (npu >= 2 && hwloc_get_nbobjs_by_type(t, HWLOC_OBJ_CORE) >= 1) {    /* heterogeneous types */
      hwloc_obj_t objs[3]; hwloc_uint64_t vals[9] = {0, 1, 2, 1, 0, 3, 2, 3, 0};
      objs[0] = hwloc_get_obj_by_type(t, HWLOC_OBJ_PU, 0); objs[1] = hwloc_get_obj_by_type(t, HWLOC_OBJ_CORE, 0); objs[2] = hwloc_get_obj_by_type(t, HWLOC_OBJ_PU, npu - 1);
      hwloc_distances_add_handle_t h = hwloc_distances_add_create(t, "verifhetero", HWLOC_DISTANCES_KIND_FROM_USER | HWLOC_DISTANCES_KIND_VALUE_HOPS, 0);
      if (h && hwloc_distances_add_values(t, h, 3, objs, vals, 0) == 0) hwloc_distances_add_commit(t, h, 0);
    }
  }
  if ((variant & 32) && nnuma >= 1) {
    hwloc_memattr_id_t id;
    if (hwloc_memattr_register(t, "verifattr", HWLOC_MEMATTR_FLAG_HIGHER_FIRST, &id) == 0)
      for (unsigned i = 0; i < nnuma && i < 4; i++) hwloc_memattr_set_value(t, id, hwloc_get_obj_by_type(t, HWLOC_OBJ_NUMANODE, i), NULL, 0, 100 + i);
    if (hwloc_memattr_register(t, "verifinit", HWLOC_MEMATTR_FLAG_LOWER_FIRST | HWLOC_MEMATTR_FLAG_NEED_INITIATOR, &id) == 0) {
      struct hwloc_location loc;
      for (unsigned i = 0; i < nnuma && i < 3; i++) {
        loc.type = HWLOC_LOCATION_TYPE_CPUSET; loc.location.cpuset = hwloc_get_obj_by_type(t, HWLOC_OBJ_PU, i % npu)->cpuset;
        hwloc_memattr_set_value(t, id, hwloc_get_obj_by_type(t, HWLOC_OBJ_NUMANODE, i), &loc, 0, 7 + i);
        loc.type = HWLOC_LOCATION_TYPE_OBJECT; loc.location.object = hwloc_get_obj_by_type(t, HWLOC_OBJ_PU, npu - 1);
        hwloc_memattr_set_value(t, id, hwloc_get_obj_by_type(t, HWLOC_OBJ_NUMANODE, i), &loc, 0, 70 + i);
      }
    }
    struct hwloc_location loc; loc.type = HWLOC_LOCATION_TYPE_CPUSET; loc.location.cpuset = root->cpuset;
    hwloc_memattr_set_value(t, HWLOC_MEMATTR_ID_BANDWIDTH, hwloc_get_obj_by_type(t, HWLOC_OBJ_NUMANODE, 0), &loc, 0, 12345);
  }
  if ((variant & 64) && npu >= 2) {
    hwloc_bitmap_t s = hwloc_bitmap_alloc(); struct hwloc_infos_s infos = {0};
    for (unsigned i = 0; i < npu / 2; i++) hwloc_bitmap_or(s, s, hwloc_get_obj_by_type(t, HWLOC_OBJ_PU, i)->cpuset);
    hwloc_cpukinds_register(t, s, 5, NULL, 0);
    hwloc_bitmap_andnot(s, root->cpuset, s);
    hwloc_modify_infos(&infos, HWLOC_MODIFY_INFOS_OP_ADD, "CoreType", "verif-big");
    hwloc_cpukinds_register(t, s, -1, &infos, 0);
    hwloc_modify_infos(&infos, HWLOC_MODIFY_INFOS_OP_REMOVE, NULL, NULL); free(infos.array);
    hwloc_bitmap_free(s);
  }
  if (variant & 128) {
    static int token;
    hwloc_topology_set_userdata_export_callback(t, ud_export_cb);
    root->userdata = &token;
    for (unsigned i = 0; i < npu && i < 4; i++) hwloc_get_obj_by_type(t, HWLOC_OBJ_PU, i)->userdata = &token;
  }
}

static void build_seeds(const char *sources) {
  /* (c) synthetic topologies first (the first small v3 export becomes valid_doc) */
  static const char *synths[] = {
    "pack:2 core:2 pu:2", "pack:2 [numa] core:2 pu:2", "numa:2 pack:1 l3:1 l2:2 l1:1 l1i:1 core:1 pu:2",
    "group:2 pack:2 [numa(memory=1GB)] l3:1 core:2 pu:1", "pack:2 die:2 [numa] l2:2 core:1 pu:2", "numa:4 core:2 pu:1",
    "pack:1 [numa] [numa] core:4 pu:1", "pack:2 numa:2 l3:1 l2:1 l1:1 core:2 pu:2(indexes=core:pu)", "4 2 2", "pu:3",
    "pack:3 [numa(memory=256MB)] l3:2(size=8MB) core:1 pu:2", "group:2 group:2 pack:1 [numa] core:1 pu:2",
    "pack:2 [numa] l3:1 [numa] core:2 pu:2" };
  static const unsigned variants[] = {0, 1 | 2 | 4 | 8 | 32 | 64 | 128, 4 | 16 | 32, 1 | 128, 2 | 4 | 64, 255, 4 | 8 | 128, 32 | 64, 0, 1 | 4, 255 & ~16, 2 | 32, 4 | 32 | 128};
  hwloc_topology_t prev = NULL;
  for (unsigned i = 0; i < sizeof synths / sizeof *synths; i++) {
    hwloc_topology_t t;
    hwloc_topology_init(&t);
    if (i & 1) hwloc_topology_set_all_types_filter(t, HWLOC_TYPE_FILTER_KEEP_ALL);
    if (hwloc_topology_set_synthetic(t, synths[i]) < 0 || hwloc_topology_load(t) < 0) { hwloc_topology_destroy(t); continue; }
    if (i == 1) { hwloc_topology_dup(&prev, t); }
    annotate(t, variants[i]);
    add_exports(t);
    if (i == 1 && prev) {
      /* (d) diff documents: (plain, annotated) and a hand-made name/size change */
      hwloc_topology_diff_t diff = NULL;
      hwloc_topology_t t3 = NULL; hwloc_topology_dup(&t3, prev);
      if (t3) {
        hwloc_obj_add_info(hwloc_get_root_obj(t3), "Added", "by diff");
        hwloc_obj_add_info(hwloc_get_obj_by_type(t3, HWLOC_OBJ_PU, 1), "Foo", "Bar");
        hwloc_obj_t c = hwloc_get_obj_by_type(t3, HWLOC_OBJ_CORE, 0); if (c) { free(c->name); c->name = strdup("renamed core"); }
        hwloc_obj_t n = hwloc_get_obj_by_type(t3, HWLOC_OBJ_NUMANODE, 0); if (n) n->attr->numanode.local_memory += 4096;
        if (hwloc_topology_diff_build(prev, t3, 0, &diff) >= 0 && diff) {
          char *xb = NULL; int xl = 0;
          if (hwloc_topology_diff_export_xmlbuffer(diff, "verif-ref", &xb, &xl) == 0) { add_doc(xb, xl - 1, 1, 1); hwloc_free_xmlbuffer(prev, xb); }
          xb = NULL;
          if (hwloc_topology_diff_export_xmlbuffer(diff, NULL, &xb, &xl) == 0) { add_doc(xb, xl - 1, 1, 1); hwloc_free_xmlbuffer(prev, xb); }
          hwloc_topology_diff_destroy(diff);
        }
        hwloc_topology_destroy(t3);
      }
      diff = NULL;
      if (hwloc_topology_diff_build(prev, t, 0, &diff) >= 0 && diff) {   /* probably too complex */
        char *xb = NULL; int xl = 0;
        if (hwloc_topology_diff_export_xmlbuffer(diff, "complex", &xb, &xl) == 0) { add_doc(xb, xl - 1, 1, 1); hwloc_free_xmlbuffer(prev, xb); }
        hwloc_topology_diff_destroy(diff);
      }
      hwloc_topology_destroy(prev); prev = NULL;
    }
    hwloc_topology_destroy(t);
  }
  { static const char d1[] = "<?xml version=\"1.0\" encoding=\"UTF-8\"?>\n<!DOCTYPE topologydiff SYSTEM \"hwloc2-diff.dtd\">\n<topologydiff refname=\"r\">\n"
      "  <diff type=\"0\" obj_depth=\"1\" obj_index=\"0\" obj_attr_type=\"0\" obj_attr_index=\"0\" obj_attr_oldvalue=\"1024\" obj_attr_newvalue=\"0x800\"/>\n"
      "  <diff type=\"0\" obj_depth=\"2\" obj_index=\"1\" obj_attr_type=\"1\" obj_attr_oldvalue=\"old\" obj_attr_newvalue=\"new\"/>\n"
      "  <diff type=\"0\" obj_depth=\"-3\" obj_index=\"0\" obj_attr_type=\"2\" obj_attr_name=\"Key\" obj_attr_oldvalue=\"a\" obj_attr_newvalue=\"b\"/>\n"
      "  <diff type=\"1\" obj_depth=\"0\" obj_index=\"0\"/>\n</topologydiff>\n";
    add_doc(d1, sizeof d1 - 1, 1, 1); }
  /* (a) source files as they are, (b) re-exports of a random subset */
  FILE *fs = fopen(sources, "r");
  if (fs) {
    char line[1100];
    while (fgets(line, sizeof line, fs)) {
      line[strcspn(line, "\n")] = 0;
      if (line[0] != 'X' || strlen(line) < 3) continue;
      size_t len = 0; char *b = read_file(line + 2, &len);
      if (!b) continue;
      if (len < 65536) {
        add_doc(b, len, 0, 0);
        if (rng_chance(25)) {
          alarm(60);
          hwloc_topology_t t = load_buffer((unsigned char *) b, len, rng_chance(50) ? (1UL << 16) : 0);
          if (t) { add_exports(t); hwloc_topology_destroy(t); }
          alarm(0);
        }
      }
      free(b);
    }
    fclose(fs);
  }
}

/* ------------------------------------------------------------------ mutations */
struct span { size_t ns, nl, vs, vl; };
/* k-th attribute span (` name="value"`); returns the number of spans when k == (unsigned) -1 */
static unsigned attr_span(const struct buf *b, unsigned k, struct span *out) {
  unsigned cnt = 0;
  for (size_t i = 1; i + 1 < b->n; i++) {
    if (b->p[i] != '=' || b->p[i + 1] != '"') continue;
    size_t s = i; while (s > 0 && name_char(b->p[s - 1])) s--;
    if (s == i || s == 0 || b->p[s - 1] != ' ') continue;
    const unsigned char *q = memchr(b->p + i + 2, '"', b->n - (i + 2));
    if (!q) break;
    if (cnt == k) { out->ns = s; out->nl = i - s; out->vs = i + 2; out->vl = q - (b->p + i + 2); return cnt + 1; }
    cnt++;
  }
  return cnt;
}
static unsigned tag_span(const struct buf *b, unsigned k, struct span *out) { /* `<name` */
  unsigned cnt = 0;
  for (size_t i = 0; i + 1 < b->n; i++) {
    if (b->p[i] != '<') continue;
    size_t s = i + 1; if (s < b->n && b->p[s] == '/') s++;
    size_t e = s; while (e < b->n && name_char(b->p[e])) e++;
    if (e == s) continue;
    if (cnt == k) { out->ns = s; out->nl = e - s; return cnt + 1; }
    cnt++;
  }
  return cnt;
}
static unsigned line_span(const struct buf *b, unsigned k, size_t *start, size_t *len) { /* lines incl. their '\n' */
  unsigned cnt = 0; size_t s = 0;
  while (s < b->n) {
    const unsigned char *q = memchr(b->p + s, '\n', b->n - s);
    size_t e = q ? (size_t) (q - b->p) + 1 : b->n;
    if (cnt == k) { *start = s; *len = e - s; return cnt + 1; }
    cnt++; s = e;
  }
  return cnt;
}

static size_t gen_value(const struct buf *b, unsigned char *out, size_t cap) {
  static const char *fixed[] = {"0", "1", "-1", "2", "3", "4294967295", "4294967296", "18446744073709551615", "18446744073709551616",
    "65536", "65537", "2147483647", "2147483648", "-2147483649", "0x", "", "nan", "inf", "-0", "1e999", "0x10", "010", " 1", "1 ",
    "0xffffffff,,0x1", "0xf,0xffffffff,0xffffffff", "0x00000001,0x00000000,0x00000000", ",,", "0x1,0x0", "0xf...f", "0-3", "0xffffffff,0xffffffff,0xffffffff,0xffffffff",
    "Package", "NUMANode", "PU", "Bridge", "OSDev", "Misc", "Group", "L1Cache", "L3iCache", "MemCache", "Machine", "Die", "Core", "PCIDev", "L2Cache", "L1iCache",
    "base64", "os", "gp", "normal", "obj0", "obj1", "obj", "0000:00:00.0", "ffff:ff:ff.f", "0000:[00-ff]", "1-0", "0-1", "1-1", "7-7",
    "0300 [10de:1db8] [10de:12ab] a1 00", "4", "5", "8", "16", "32", "64", "127", "128", "255", "256", "1023", "1024", "XGMIHops", "NUMALatency", "Capacity", "Locality", "Bandwidth", "Latency" };
  unsigned r = rng_below(100);
  if (r < 55) { const char *s = fixed[rng_below(sizeof fixed / sizeof *fixed)]; size_t n = strlen(s); memcpy(out, s, n); return n; }
  if (r < 63) { size_t n = 20 + rng_below(cap - 40 > 600 ? 600 : cap - 40); memset(out, '0' + rng_below(10), n); if (rng_chance(30)) out[0] = '-'; return n; }
  if (r < 70) { size_t n = 2 + rng_below(300); out[0] = '0'; out[1] = 'x'; for (size_t i = 2; i < n; i++) out[i] = rng_chance(10) ? ',' : "0123456789abcdef"[rng_below(16)]; return n; }
  if (r < 80) { size_t n = 1 + rng_below(12); for (size_t i = 0; i < n; i++) out[i] = rng_chance(70) ? 32 + rng_below(95) : rng_below(256); return n; }
  if (r < 85) { unsigned long long v = rng_next(); if (rng_chance(50)) v >>= rng_below(64); return (size_t) sprintf((char *) out, "%llu", v); }
  /* an existing value from elsewhere in the document */
  { unsigned na = attr_span(b, (unsigned) -1, NULL); struct span sp;
    if (na && attr_span(b, rng_below(na), &sp) && sp.vl < cap) { memcpy(out, b->p + sp.vs, sp.vl); return sp.vl; } }
  out[0] = '7'; return 1;
}

static void mutate_once(struct buf *b) {
  unsigned char tmp[2048]; struct span sp, sp2; size_t ls, ll, ls2, ll2;
  unsigned na = attr_span(b, (unsigned) -1, NULL), nl = line_span(b, (unsigned) -1, NULL, NULL);
  unsigned op = rng_below(100);
  if (!b->n) { b_set(b, "<", 1); return; }
  if (op < 34 && na) {                                    /* replace an attribute value */
    attr_span(b, rng_below(na), &sp);
    size_t n = gen_value(b, tmp, sizeof tmp);
    b_splice(b, sp.vs, sp.vl, tmp, n);
  } else if (op < 39 && na >= 2) {                        /* rename an attribute to another one seen */
    attr_span(b, rng_below(na), &sp); attr_span(b, rng_below(na), &sp2);
    if (sp2.nl < sizeof tmp) { memcpy(tmp, b->p + sp2.ns, sp2.nl); b_splice(b, sp.ns, sp.nl, tmp, sp2.nl); }
  } else if (op < 43) {                                   /* rename a tag */
    unsigned nt = tag_span(b, (unsigned) -1, NULL);
    if (nt >= 2) { tag_span(b, rng_below(nt), &sp); tag_span(b, rng_below(nt), &sp2);
      if (sp2.nl < sizeof tmp) { memcpy(tmp, b->p + sp2.ns, sp2.nl); b_splice(b, sp.ns, sp.nl, tmp, sp2.nl); } }
  } else if (op < 49 && na) {                             /* drop an attribute */
    attr_span(b, rng_below(na), &sp);
    b_splice(b, sp.ns - 1, sp.vs + sp.vl + 1 - (sp.ns - 1), NULL, 0);
  } else if (op < 53 && na) {                             /* duplicate an attribute (maybe with another value) */
    attr_span(b, rng_below(na), &sp);
    size_t n = sp.vs + sp.vl + 1 - (sp.ns - 1);
    if (n < sizeof tmp) { memcpy(tmp, b->p + sp.ns - 1, n); b_splice(b, sp.vs + sp.vl + 1, 0, tmp, n); }
  } else if (op < 57 && na >= 2) {                        /* copy an attribute into another element */
    attr_span(b, rng_below(na), &sp); attr_span(b, rng_below(na), &sp2);
    size_t n = sp.vs + sp.vl + 1 - (sp.ns - 1);
    if (n < sizeof tmp) { memcpy(tmp, b->p + sp.ns - 1, n); b_splice(b, sp2.vs + sp2.vl + 1, 0, tmp, n); }
  } else if (op < 63 && nl >= 2) {                        /* drop a line (element) */
    line_span(b, rng_below(nl), &ls, &ll); b_splice(b, ls, ll, NULL, 0);
  } else if (op < 67 && nl >= 1) {                        /* duplicate a line */
    line_span(b, rng_below(nl), &ls, &ll);
    unsigned char *c = malloc(ll); memcpy(c, b->p + ls, ll); b_splice(b, ls, 0, c, ll); free(c);
  } else if (op < 71 && nl >= 2) {                        /* swap two lines */
    unsigned i = rng_below(nl), j = rng_chance(60) ? (i + 1) % nl : rng_below(nl);
    if (i > j) { unsigned x = i; i = j; j = x; }
    if (i != j) {
      line_span(b, i, &ls, &ll); line_span(b, j, &ls2, &ll2);
      unsigned char *a = malloc(ll), *c = malloc(ll2); memcpy(a, b->p + ls, ll); memcpy(c, b->p + ls2, ll2);
      b_splice(b, ls2, ll2, a, ll); b_splice(b, ls, ll, c, ll2); free(a); free(c);
    }
  } else if (op < 75 && nl >= 2) {                        /* move a line elsewhere */
    line_span(b, rng_below(nl), &ls, &ll);
    unsigned char *c = malloc(ll); memcpy(c, b->p + ls, ll); b_splice(b, ls, ll, NULL, 0);
    unsigned n2 = line_span(b, (unsigned) -1, NULL, NULL);
    if (n2) { line_span(b, rng_below(n2), &ls2, &ll2); b_splice(b, ls2, 0, c, ll); } else b_splice(b, 0, 0, c, ll);
    free(c);
  } else if (op < 79 && nl >= 2) {                        /* drop a closing tag / an opening tag */
    int want_close = rng_chance(50);
    for (unsigned tries = 0; tries < 30; tries++) {
      line_span(b, rng_below(nl), &ls, &ll);
      size_t s = ls; while (s < ls + ll && (b->p[s] == ' ' || b->p[s] == '\t')) s++;
      if (s + 2 >= ls + ll || b->p[s] != '<') continue;
      int is_close = b->p[s + 1] == '/';
      int selfclosing = ll >= 3 && b->p[ls + ll - 3] == '/' ;
      if (want_close ? is_close : (!is_close && !selfclosing && b->p[s + 1] != '?' && b->p[s + 1] != '!')) { b_splice(b, ls, ll, NULL, 0); break; }
    }
  } else if (op < 82) {                                   /* change the version */
    static const char *vers[] = {"2.0", "3.0", "1.0", "2.99", "3.1", "4.0", "0.9", "2", "2.", ".0", "2.0.0", "4294967298.0", "-2.0", "02.00", "3.x", ""};
    const unsigned char *q = xmemmem(b->p, b->n, "<topology version=\"");
    if (q) { size_t off = q - b->p + 19; const unsigned char *e = memchr(b->p + off, '"', b->n - off);
      if (e) { const char *v = vers[rng_below(sizeof vers / sizeof *vers)]; b_splice(b, off, e - (b->p + off), v, strlen(v)); } }
  } else if (op < 86) {                                   /* truncate */
    size_t at = rng_chance(30) && b->n > 40 ? b->n - 1 - rng_below(40) : rng_below(b->n);
    b_splice(b, at, b->n - at, NULL, 0);
  } else if (op < 90) {                                   /* insert random bytes */
    static const char *frag[] = {"<", ">", "/>", "\"", "=\"", "&", "&amp;", "&#10;", "&lt;", "</object>", "<object", "<info", " ", "\n", "<!--", "-->", "/", "<userdata length=\"0\">", "<userdata>", "<page_type size=\"4096\" count=\"1\"/>"};
    size_t at = rng_below(b->n + 1);
    if (rng_chance(60)) { const char *f = frag[rng_below(sizeof frag / sizeof *frag)]; b_splice(b, at, 0, f, strlen(f)); }
    else { size_t n = 1 + rng_below(6); for (size_t i = 0; i < n; i++) tmp[i] = rng_chance(60) ? 32 + rng_below(95) : rng_below(256); b_splice(b, at, 0, tmp, n); }
  } else if (op < 93) {                                   /* delete random bytes */
    size_t at = rng_below(b->n), n = 1 + rng_below(rng_chance(80) ? 4 : 60); b_splice(b, at, n, NULL, 0);
  } else if (op < 96) {                                   /* flip a byte */
    size_t at = rng_below(b->n); b->p[at] ^= 1u << rng_below(8);
  } else {                                                /* `/>` <-> `>` */
    unsigned cnt = 0; for (size_t i = 1; i < b->n; i++) if (b->p[i] == '>') cnt++;
    if (cnt) { unsigned k = rng_below(cnt); for (size_t i = 1; i < b->n; i++) if (b->p[i] == '>' && k-- == 0) {
      if (b->p[i - 1] == '/') b_splice(b, i - 1, 1, NULL, 0); else b_splice(b, i, 0, "/", 1); break; } }
  }
}

static unsigned long gen_xflags(void) {
  static const unsigned long bits[] = {HWLOC_TOPOLOGY_FLAG_INCLUDE_DISALLOWED, HWLOC_TOPOLOGY_FLAG_IMPORT_SUPPORT, HWLOC_TOPOLOGY_FLAG_NO_DISTANCES,
                                       HWLOC_TOPOLOGY_FLAG_NO_MEMATTRS, HWLOC_TOPOLOGY_FLAG_NO_CPUKINDS};
  unsigned long fl = 0;
  if (!rng_chance(40)) for (int i = 0; i < 5; i++) if (rng_chance(25)) fl |= bits[i];
  unsigned fm = rng_chance(50) ? 1 : (rng_chance(25) ? 2 : 0);
  return fl | ((unsigned long) fm << 16);
}

static int write_file(const char *path, const unsigned char *p, size_t n) {
  FILE *f = fopen(path, "wb"); if (!f) return -1;
  if (n && fwrite(p, 1, n, f) != n) { fclose(f); return -1; }
  return fclose(f);
}

int main(int argc, char **argv) {
  const char *lx = getenv("HWLOC_LIBXML");
  nolibxml = lx && !atoi(lx);
  for (int c = 'a'; c <= 'p'; c++) { char nm[32]; snprintf(nm, sizeof nm, "VERIF_INCLUDE_F05%c", toupper(c)); inc[c - 'a'] = env_on(nm); }
  signal(SIGALRM, SIG_DFL);

  if (argc >= 4 && !strcmp(argv[1], "replay")) {
    size_t len = 0; char *b = read_file(argv[2], &len);
    fdump = fopen(argv[3], "w");
    if (!b || !fdump) return 2;
    char mode = argc > 4 ? argv[4][0] : 'B';
    unsigned long xflags = argc > 5 ? strtoul(argv[5], NULL, 0) : 0;
    int u = argc > 6 && argv[6][0] == 'u';
    int have_override = 0, size_override = 0;
    if (argc > 7 && !strncmp(argv[7], "size=", 5)) { have_override = 1; size_override = atoi(argv[7] + 5); }
    int r = run_case_lc("c0", (unsigned char *) b, len, mode, xflags, u, argv[2], size_override, have_override);
    if (r == 1) printf("case: loaded\n"); else if (r == 2) printf("case: failed\n"); else printf("case: skipped-F05%c\n", r);
    free(b); fclose(fdump);
    return 0;
  }
  if (argc >= 4 && !strcmp(argv[1], "seeds")) {   /* debugging aid: write the seed documents to <outdir>/s<i>.xml */
    rng_seed(rng_seed_from_env()); fdump = fopen("/dev/null", "w"); build_seeds(argv[2]);
    for (unsigned i = 0; i < ndocs; i++) { char pth[1200]; snprintf(pth, sizeof pth, "%s/s%u%s.xml", argv[3], i, docs[i].isdiff ? "d" : ""); write_file(pth, docs[i].p, docs[i].n); }
    printf("%u seeds\n", ndocs); return 0;
  }
  if (argc < 5 || strcmp(argv[1], "gen")) { fprintf(stderr, "usage: xmlload gen <n> <sources> <outdir> | replay <file> <dump> [B|F|D] [flags] [u]\n"); return 2; }
  unsigned long n = strtoul(argv[2], NULL, 10);
  const char *outdir = argv[4];
  char path[1200];
  snprintf(path, sizeof path, "%s/plan.txt", outdir); FILE *fplan = fopen(path, "w");
  snprintf(path, sizeof path, "%s/dump.txt", outdir); fdump = fopen(path, "w");
  if (!fplan || !fdump) return 2;
  rng_seed(rng_seed_from_env());
  build_seeds(argv[3]);
  if (!ndocs || !valid_doc.n) { fprintf(stderr, "no seed documents\n"); return 2; }
  fprintf(fplan, "# seeds %u (diff %u) backend %s\n", ndocs, ndiffdocs, nolibxml ? "nolibxml" : "libxml"); fflush(fplan);
  struct buf m = {0};
  for (unsigned long i = 0; i < n; i++) {
    char id[32]; snprintf(id, sizeof id, "c%lu", i);
    unsigned r = rng_below(100);
    char mode = r < 70 ? 'B' : r < 85 ? 'F' : 'D';
    unsigned long xflags = gen_xflags();
    int u = rng_chance(30);
    /* pick a seed document: diff documents mostly for mode D; smaller documents preferred */
    struct doc *d;
    for (unsigned tries = 0;; tries++) {
      d = &docs[rng_below(ndocs)];
      int wantdiff = mode == 'D' ? rng_chance(75) : rng_chance(4);
      if (tries < 40 && d->isdiff != wantdiff) continue;
      if (tries < 40 && d->n > 12000 && !rng_chance(d->n > 30000 ? 8 : 25)) continue;
      break;
    }
    b_set(&m, d->p, d->n);
    unsigned kind = rng_below(100);
    int have_override = 0, size_override = 0;
    if (kind < 5) { size_t nn = 1 + rng_below(400); b_reserve(&m, nn); for (size_t k = 0; k < nn; k++) m.p[k] = rng_below(256); m.n = nn; m.p[nn] = 0; }
    else if (kind < 10) { /* unmutated */ }
    else { unsigned nm = 1 + rng_below(4); for (unsigned k = 0; k < nm; k++) mutate_once(&m); }
    if (m.n > 200000) { m.n = 200000; m.p[m.n] = 0; }
    if (INC('b') && mode != 'F' && rng_chance(2)) { have_override = 1; size_override = rng_chance(70) ? 0 : -(int) rng_below(3) - 1; }
    snprintf(path, sizeof path, "%s/%s.xml", outdir, id);
    if (write_file(path, m.p, m.n) < 0) return 2;
    if (mode == 'D') { u = 0; xflags = 0; }
    if (kind >= 5 && kind < 10) fprintf(fplan, "# unmutated %s\n", id);
    fprintf(fplan, "%s %c %lu %d %zu %016llx ", id, mode, xflags, u, m.n, (unsigned long long) fnv(m.p, m.n)); fflush(fplan);
    int res = run_case_lc(id, m.p, m.n, mode, xflags, u, path, size_override, have_override);
    if (res == 1) { fprintf(fplan, "loaded\n"); if (mode == 'D') remove(path); }
    else if (res == 2) { fprintf(fplan, "failed\n"); remove(path); }
    else { fprintf(fplan, "skipped-F05%c\n", res); if (!env_on("VERIF_KEEP_SKIPPED")) remove(path); }
    fflush(fplan);
    if (kind >= 5 && kind < 10 && res == 2 && d->trusted && !(mode == 'D' && !d->isdiff) && !(mode != 'D' && d->isdiff))
      die("unmutated seed document does not load (case %s mode %c)", id, mode);
  }
  fprintf(fplan, "# done\n");
  fclose(fplan); fclose(fdump);
  for (unsigned i = 0; i < ndocs; i++) free(docs[i].p);
  free(docs); free(m.p); free(valid_doc.p);
  return 0;
}
