/* C06 harness (engine `xmlload`): structure-aware fuzzing of the XML import entry points
 *   hwloc_topology_set_xmlbuffer / hwloc_topology_set_xml (+ hwloc_topology_load) and hwloc_topology_diff_load_xmlbuffer.
 * Every case: set+load must return 0 or -1 (no sanitizer report, no abort, no hang: alarm(20)); after a failure the
 * topology is destroyed and (every 16th failure) a fresh topology must load a known valid document; after a success the
 * topology is dumped (harness/dump.h) for the Lean oracle wfCheck and a battery of read-only public functions runs on it
 * (incl. XML re-export + re-import, which must load, and hwloc_topology_dup; both are dumped too).
 *
 * usage: xmlload gen <ncases> <sources-file> <outdir>                (seed = VERIF_SEED, back end = HWLOC_LIBXML)
 *        xmlload replay <xml-file> <dump-out> [B|F|D] [flags] [u]    (the file IS the XML, loaded as len+1 bytes with a NUL)
 *   mode B = set_xmlbuffer, F = set_xml(path), D = diff_load_xmlbuffer; u = userdata import callback set
 *   flags  = hwloc topology flags | (filter mode << 16); filter mode 0 = default filters, 1 = all types KEEP_ALL,
 *            2 = I/O types KEEP_IMPORTANT
 * gen writes <outdir>/c<idx>.xml BEFORE loading it (removed again when the case failed/was skipped cleanly; kept when the
 * load succeeded so that the engine still has the bytes when the oracle verdict arrives), appends
 *   <caseid> <mode> <flags> <u> <len> <hash> <loaded|failed|skipped-F05x>      to <outdir>/plan.txt
 * and the dumps to <outdir>/dump.txt (tags <caseid>, <caseid>r = re-import of the v3 export, <caseid>d = dup).
 *
 * No input class is excluded: the crash / leak / assert classes F05a..F05o found earlier are fixed in /repo; their minimal
 * inputs live on as corpus/xmlload/fixed-f05*.xml and must load or fail cleanly.  A sanitizer report, abort, leak or watchdog
 * hit on ANY input is a violation.  Sizes <= 0 are given to set_xmlbuffer / diff_load_xmlbuffer in ~2 % of the cases (must be
 * refused).
 */
#define _GNU_SOURCE
#include "dump.h"
#include "rng.h"
#include <errno.h>
#include <unistd.h>
#include <stdarg.h>
#include <signal.h>
#include <ctype.h>
extern size_t __sanitizer_get_current_allocated_bytes(void);   /* ASan runtime */
extern int __lsan_do_recoverable_leak_check(void);

/* ------------------------------------------------------------------ small helpers */
struct buf { unsigned char *p; size_t n, cap; };
static void b_reserve(struct buf *b, size_t need) {
  if (need + 1 > b->cap) { b->cap = (need + 1) * 2; b->p = realloc(b->p, b->cap); }
}
static void b_set(struct buf *b, const void *src, size_t n) { b_reserve(b, n); memcpy(b->p, src, n); b->n = n; b->p[n] = 0; }
static void b_splice(struct buf *b, size_t off, size_t del, const void *ins, size_t inslen) {
  if (off > b->n) off = b->n;
  if (del > b->n - off) del = b->n - off;
  b_reserve(b, b->n - del + inslen);
  memmove(b->p + off + inslen, b->p + off + del, b->n - off - del);
  if (inslen) memcpy(b->p + off, ins, inslen);
  b->n = b->n - del + inslen; b->p[b->n] = 0;
}
static const unsigned char *xmemmem(const unsigned char *h, size_t hn, const char *needle) {
  size_t nn = strlen(needle);
  if (nn > hn) return NULL;
  return memmem(h, hn, needle, nn);
}
static uint64_t fnv(const unsigned char *p, size_t n) { uint64_t h = 1469598103934665603ULL; for (size_t i = 0; i < n; i++) { h ^= p[i]; h *= 1099511628211ULL; } return h; }
static char *read_file(const char *path, size_t *len) {
  FILE *f = fopen(path, "rb"); if (!f) return NULL;
  fseek(f, 0, SEEK_END); long n = ftell(f); fseek(f, 0, SEEK_SET);
  char *b = malloc(n + 1); if (fread(b, 1, n, f) != (size_t) n) { fclose(f); free(b); return NULL; }
  b[n] = 0; fclose(f); *len = n; return b;
}
static int env_on(const char *name) { const char *s = getenv(name); return s && *s && strcmp(s, "0"); }

static int nolibxml;            /* HWLOC_LIBXML=0 */

static int name_char(int c) { return (c >= 'a' && c <= 'z') || (c >= '0' && c <= '9') || c == '_'; }

/* Pre-load recognition of OPEN defect classes (the former classes F05a..F05o are fixed: nothing of them is skipped any more).
 *  F71 (nolibxml, modes B/F): an <object> tag with two `type` attributes (nolibxml does not refuse duplicate attributes): the
 *      type-specific attributes read after the first type are stored in the attr union and reinterpreted by the second type,
 *      e.g. <object type="L1" cache_associativity="2" type="NUMA">: numanode.page_types = garbage -> free() of a wild pointer in
 *      hwloc__free_object_contents (topology.c:686).  Predicate (over-approximate): between two consecutive '>' bytes the text
 *      `type="` occurs twice with a preceding byte that is not [a-z_].  VERIF_INCLUDE_F71=1 re-enables the class. */
static int class_f71(const unsigned char *p, size_t n) {
  unsigned cnt = 0;
  for (size_t i = 0; i < n; i++) {
    if (p[i] == '>') { cnt = 0; continue; }
    if (i + 6 <= n && !memcmp(p + i, "type=\"", 6) && !(i > 0 && ((p[i - 1] >= 'a' && p[i - 1] <= 'z') || p[i - 1] == '_'))) { if (++cnt >= 2) return 1; }
  }
  return 0;
}
static int known_class(const unsigned char *p, size_t n, char mode, unsigned long flags, int u) {
  (void) flags; (void) u;
  if (nolibxml && (mode == 'B' || mode == 'F') && 0 /* F71 fixed in /repo: never skipped */ && class_f71(p, n)) return '7';
  return 0;
}

/* ------------------------------------------------------------------ running one case */
static FILE *fdump;
static volatile unsigned long sink;
static unsigned long n_f70, n_f72;
static unsigned long nfail;
static struct buf valid_doc;      /* a known valid topology document (for the "fresh topology after failure" check) */

static void die(const char *fmt, ...) {
  va_list ap; va_start(ap, fmt); fprintf(stderr, "HARNESS-CHECK-FAILED: "); vfprintf(stderr, fmt, ap); va_end(ap); fputc('\n', stderr);
  fflush(NULL); _exit(97);
}

static void ud_import_cb(hwloc_topology_t t, hwloc_obj_t o, const char *name, const void *buffer, size_t length) {
  const unsigned char *p = buffer; unsigned long s = 0;
  for (size_t i = 0; i < length; i++) s += p[i];
  if (name) s += strlen(name);
  if (o) s += o->type;
  sink += s; (void) t;
}

static void configure(hwloc_topology_t t, unsigned long xflags, int u) {
  unsigned long flags = xflags & 0xffff; unsigned fm = (xflags >> 16) & 3;
  if (hwloc_topology_set_flags(t, flags) < 0) die("set_flags(%lu) refused", flags);
  if (fm == 1) hwloc_topology_set_all_types_filter(t, HWLOC_TYPE_FILTER_KEEP_ALL);
  else if (fm == 2) hwloc_topology_set_io_types_filter(t, HWLOC_TYPE_FILTER_KEEP_IMPORTANT);
  if (u) hwloc_topology_set_userdata_import_callback(t, ud_import_cb);
}

static void walk_infos(struct hwloc_infos_s *infos) {
  if (!infos) return;
  for (unsigned i = 0; i < infos->count; i++) { sink += strlen(infos->array[i].name); sink += strlen(infos->array[i].value); }
}

static void check_snprintf(hwloc_obj_t o, int which, int verbose) {
  static const size_t sizes[] = {0, 1, 7, 256};
  int ref = -12345;
  for (unsigned k = 0; k < 4; k++) {
    char bufm[300]; memset(bufm, 0x5a, sizeof bufm);
    char *b = bufm + 8; size_t sz = sizes[k];
    int r = which ? hwloc_obj_attr_snprintf(b, sz, o, "#", verbose) : hwloc_obj_type_snprintf(b, sz, o, verbose);
    if (r < 0) die("%s_snprintf returned %d (type %d)", which ? "attr" : "type", r, (int) o->type);
    if (ref == -12345) ref = r;
    else if (r != ref) die("%s_snprintf(size %zu) returned %d, other sizes %d (type %d gp %llu)", which ? "attr" : "type", sz, r, ref, (int) o->type, (unsigned long long) o->gp_index);
    if (sz) {
      size_t want = (size_t) r < sz - 1 ? (size_t) r : sz - 1;
      size_t got = strnlen(b, sz);
      if (got != want) die("%s_snprintf(size %zu) ret %d but strlen %zu (type %d gp %llu)", which ? "attr" : "type", sz, r, got, (int) o->type, (unsigned long long) o->gp_index);
    }
    for (size_t i = sz; i < sz + 8; i++) if ((unsigned char) b[i] != 0x5a) die("snprintf wrote past size %zu", sz);
    for (size_t i = 0; i < 8; i++) if ((unsigned char) bufm[i] != 0x5a) die("snprintf wrote before the buffer");
  }
}

static void touch_location(struct hwloc_location *l) {
  if (l->type == HWLOC_LOCATION_TYPE_CPUSET) { if (l->location.cpuset) sink += hwloc_bitmap_weight(l->location.cpuset); }
  else if (l->type == HWLOC_LOCATION_TYPE_OBJECT) { if (l->location.object) sink += l->location.object->type + l->location.object->gp_index; }
}

static void battery(hwloc_topology_t t, const char *caseid, unsigned long xflags) {
  int depth = hwloc_topology_get_depth(t);
  static const int sdepths[] = {HWLOC_TYPE_DEPTH_NUMANODE, HWLOC_TYPE_DEPTH_BRIDGE, HWLOC_TYPE_DEPTH_PCI_DEVICE,
                                HWLOC_TYPE_DEPTH_OS_DEVICE, HWLOC_TYPE_DEPTH_MISC, HWLOC_TYPE_DEPTH_MEMCACHE};
  unsigned long nobj = 0;
  for (int di = 0; di < depth + 6; di++) {
    int d = di < depth ? di : sdepths[di - depth];
    hwloc_obj_t o = NULL;
    while ((o = hwloc_get_next_obj_by_depth(t, d, o)) != NULL) {
      if (++nobj > 3000000) die("level traversal does not end");
      for (int w = 0; w < 2; w++) for (int v = 0; v < 2; v++) check_snprintf(o, w, v);
      sink += (unsigned long) hwloc_obj_get_info_by_name(o, "Backend");
      sink += (unsigned long) hwloc_obj_get_info_by_name(o, "");
      walk_infos(&o->infos);
      if (o->name) sink += strlen(o->name);
      if (o->subtype) sink += strlen(o->subtype);
      if (o->type == HWLOC_OBJ_NUMANODE && o->attr)
        for (unsigned i = 0; i < o->attr->numanode.page_types_len; i++) sink += o->attr->numanode.page_types[i].size + o->attr->numanode.page_types[i].count;
    }
  }
  walk_infos(hwloc_topology_get_infos(t));
  { const struct hwloc_topology_support *s = hwloc_topology_get_support(t);
    if (s && s->discovery && s->cpubind && s->membind && s->misc) sink += s->discovery->pu + s->cpubind->set_thisproc_cpubind + s->membind->set_thisproc_membind + s->misc->imported_support; }
  sink += hwloc_topology_is_thissystem(t);

  /* distances */
  { struct hwloc_distances_s *ds[64]; unsigned nr = 64;
    if (hwloc_distances_get(t, &nr, ds, 0, 0) == 0) {
      for (unsigned k = 0; k < nr && k < 64; k++) {
        struct hwloc_distances_s *d = ds[k]; unsigned n = d->nbobjs;
        for (unsigned i = 0; i < n; i++) if (d->objs[i]) sink += d->objs[i]->type + d->objs[i]->gp_index;
        for (unsigned long i = 0; i < (unsigned long) n * n; i++) sink += d->values[i];
        const char *nm = hwloc_distances_get_name(t, d); if (nm) sink += strlen(nm);
        sink += d->kind;
        hwloc_distances_release(t, d);
      }
    } }

  /* memory attributes */
  { static const char *names[] = {"Capacity", "Locality", "Bandwidth", "ReadBandwidth", "WriteBandwidth", "Latency", "ReadLatency", "WriteLatency", "verifattr", "nosuchattr"};
    hwloc_memattr_id_t id;
    for (unsigned i = 0; i < sizeof names / sizeof *names; i++) if (hwloc_memattr_get_by_name(t, names[i], &id) == 0) sink += id;
    hwloc_obj_t root = hwloc_get_root_obj(t);
    for (id = 0; id < 64; id++) {
      const char *nm = NULL; unsigned long fl = 0;
      if (hwloc_memattr_get_name(t, id, &nm) < 0) break;
      if (nm) sink += strlen(nm);
      if (hwloc_memattr_get_flags(t, id, &fl) < 0) die("memattr %u has a name but no flags", id);
      hwloc_obj_t tg[16]; hwloc_uint64_t vals[16]; unsigned nt = 16;
      if (hwloc_memattr_get_targets(t, id, NULL, 0, &nt, tg, vals) < 0) continue;
      if (nt > 16) nt = 16;
      struct hwloc_location rootloc; rootloc.type = HWLOC_LOCATION_TYPE_CPUSET; rootloc.location.cpuset = root->cpuset;
      { hwloc_obj_t best = NULL; hwloc_uint64_t v = 0;
        if (hwloc_memattr_get_best_target(t, id, &rootloc, 0, &best, &v) == 0 && best) sink += best->gp_index + v; }
      for (unsigned j = 0; j < nt; j++) {
        if (!tg[j]) die("memattr %u target %u is NULL", id, j);
        sink += tg[j]->gp_index + tg[j]->type;
        hwloc_uint64_t v = 0;
        if (!(fl & HWLOC_MEMATTR_FLAG_NEED_INITIATOR)) { if (hwloc_memattr_get_value(t, id, tg[j], NULL, 0, &v) == 0) sink += v; }
        struct hwloc_location locs[8]; hwloc_uint64_t iv[8]; unsigned ni = 8;
        if (hwloc_memattr_get_initiators(t, id, tg[j], 0, &ni, locs, iv) == 0) {
          if (ni > 8) ni = 8;
          for (unsigned k = 0; k < ni; k++) {
            touch_location(&locs[k]); sink += iv[k];
            if (hwloc_memattr_get_value(t, id, tg[j], &locs[k], 0, &v) == 0) sink += v;
            hwloc_obj_t best = NULL;
            if (k < 2 && hwloc_memattr_get_best_target(t, id, &locs[k], 0, &best, &v) == 0 && best) sink += best->gp_index;
            struct hwloc_location bi;
            if (k == 0 && hwloc_memattr_get_best_initiator(t, id, tg[j], 0, &bi, &v) == 0) touch_location(&bi);
          }
        }
      }
    } }

  /* cpu kinds */
  { int nk = hwloc_cpukinds_get_nr(t, 0);
    hwloc_bitmap_t set = hwloc_bitmap_alloc();
    for (int k = 0; k < nk; k++) {
      int eff = 0; struct hwloc_infos_s *infos = NULL;
      if (hwloc_cpukinds_get_info(t, k, set, &eff, &infos, 0) == 0) { walk_infos(infos); sink += hwloc_bitmap_weight(set) + eff; }
    }
    hwloc_bitmap_free(set);
    sink += hwloc_cpukinds_get_by_cpuset(t, hwloc_get_root_obj(t)->cpuset, 0);
    hwloc_obj_t pu = NULL; int c = 0;
    while ((pu = hwloc_get_next_obj_by_type(t, HWLOC_OBJ_PU, pu)) != NULL && c++ < 4) sink += hwloc_cpukinds_get_by_cpuset(t, pu->cpuset, 0); }

  /* types and sets */
  for (int ty = 0; ty < HWLOC_OBJ_TYPE_MAX; ty++) { sink += hwloc_get_nbobjs_by_type(t, (hwloc_obj_type_t) ty); sink += hwloc_get_type_depth(t, (hwloc_obj_type_t) ty); }
  sink += hwloc_bitmap_weight(hwloc_topology_get_topology_cpuset(t)) + hwloc_bitmap_weight(hwloc_topology_get_complete_cpuset(t))
        + hwloc_bitmap_weight(hwloc_topology_get_allowed_cpuset(t)) + hwloc_bitmap_weight(hwloc_topology_get_topology_nodeset(t))
        + hwloc_bitmap_weight(hwloc_topology_get_complete_nodeset(t)) + hwloc_bitmap_weight(hwloc_topology_get_allowed_nodeset(t));

  /* synthetic export */
  { char sb[4096];
    /* F72 (open): the importer keeps whatever type the root <object> has; with a NUMANode (memory) root
     * hwloc_topology_export_synthetic() aborts in hwloc_check_memory_symmetric (topology-synthetic.c:1547, assert(node)).
     * Exact predicate on the LOADED topology: root is not a Machine -> synthetic export skipped unless VERIF_INCLUDE_F72=1. */
    if (hwloc_get_root_obj(t)->type != HWLOC_OBJ_MACHINE && 0 /* F72 fixed in /repo */) n_f72++;
    else {
    int r = hwloc_topology_export_synthetic(t, sb, sizeof sb, 0); if (r >= 0) sink += strlen(sb);
    r = hwloc_topology_export_synthetic(t, sb, sizeof sb, HWLOC_TOPOLOGY_EXPORT_SYNTHETIC_FLAG_NO_EXTENDED_TYPES | HWLOC_TOPOLOGY_EXPORT_SYNTHETIC_FLAG_NO_ATTRS | HWLOC_TOPOLOGY_EXPORT_SYNTHETIC_FLAG_IGNORE_MEMORY);
    if (r >= 0) sink += strlen(sb); } }

  /* XML export, v2 and v3; re-import of the v3 export */
  { char *xb = NULL; int xl = 0;
    if (hwloc_topology_export_xmlbuffer(t, &xb, &xl, HWLOC_TOPOLOGY_EXPORT_XML_FLAG_V2) == 0) { sink += strlen(xb); hwloc_free_xmlbuffer(t, xb); }
    xb = NULL;
    if (hwloc_topology_export_xmlbuffer(t, &xb, &xl, 0) < 0) die("v3 XML export of a loaded topology failed (errno %d)", errno);
    if (xl <= 0 || (size_t) xl != strlen(xb) + 1) die("export_xmlbuffer: buflen %d but strlen %zu", xl, strlen(xb));
    if (caseid) {
      char tag[80]; snprintf(tag, sizeof tag, "%sr", caseid);
      int kc = known_class((unsigned char *) xb, xl - 1, 'B', xflags, 0);
      if (!kc) {
        hwloc_topology_t t2;
        if (hwloc_topology_init(&t2) < 0) die("init");
        configure(t2, xflags, 0);
        if (hwloc_topology_set_xmlbuffer(t2, xb, xl) < 0 || hwloc_topology_load(t2) < 0) {
          fprintf(stderr, "---- exported document that does not load ----\n%.*s\n----\n", xl > 6000 ? 6000 : xl, xb);
          die("re-import of the v3 export failed");
        }
        dump_topology(fdump, t2, tag); fflush(fdump);
        hwloc_topology_destroy(t2);
      }
    }
    hwloc_free_xmlbuffer(t, xb); }

  /* dup.  F70 (open): the importer accepts a memory object below a NUMANode (only MemCache may have memory children);
   * hwloc_topology_dup() of such a topology returns a topology rooted at the inner NUMANode and leaks the other objects.
   * Exact predicate on the LOADED topology; the dup is skipped for it unless VERIF_INCLUDE_F70=1. */
  int f70 = 0;
  { hwloc_obj_t n = NULL; while ((n = hwloc_get_next_obj_by_type(t, HWLOC_OBJ_NUMANODE, n)) != NULL) if (n->memory_arity || n->memory_first_child) f70 = 1; }
  if (f70 && 0 /* F70 fixed in /repo */) { n_f70++; }
  else if (caseid) {
    hwloc_topology_t t2 = NULL; char tag[80]; snprintf(tag, sizeof tag, "%sd", caseid);
    if (hwloc_topology_dup(&t2, t) < 0) die("hwloc_topology_dup failed (errno %d)", errno);
    dump_topology(fdump, t2, tag); fflush(fdump);
    hwloc_topology_destroy(t2);
  }
}

static void fresh_topology_check(void) {
  hwloc_topology_t t;
  if (hwloc_topology_init(&t) < 0) die("init after failure");
  if (hwloc_topology_set_xmlbuffer(t, (char *) valid_doc.p, (int) valid_doc.n + 1) < 0) die("set_xmlbuffer(valid doc) failed after an earlier failure");
  if (hwloc_topology_load(t) < 0) die("load(valid doc) failed after an earlier failure");
  hwloc_topology_destroy(t);
}

static void walk_diff(hwloc_topology_diff_t d) {
  unsigned long n = 0;
  for (; d; d = d->generic.next) {
    if (++n > 10000000) die("diff list does not end");
    sink += d->generic.type;
    if (d->generic.type == HWLOC_TOPOLOGY_DIFF_OBJ_ATTR) {
      sink += d->obj_attr.obj_depth + d->obj_attr.obj_index + d->obj_attr.diff.generic.type;
      switch (d->obj_attr.diff.generic.type) {
      case HWLOC_TOPOLOGY_DIFF_OBJ_ATTR_SIZE: sink += d->obj_attr.diff.uint64.oldvalue + d->obj_attr.diff.uint64.newvalue + d->obj_attr.diff.uint64.index; break;
      case HWLOC_TOPOLOGY_DIFF_OBJ_ATTR_INFO: if (d->obj_attr.diff.string.name) sink += strlen(d->obj_attr.diff.string.name); /* FALLTHRU */
      case HWLOC_TOPOLOGY_DIFF_OBJ_ATTR_NAME:
        if (d->obj_attr.diff.string.oldvalue) sink += strlen(d->obj_attr.diff.string.oldvalue);
        if (d->obj_attr.diff.string.newvalue) sink += strlen(d->obj_attr.diff.string.newvalue);
        break;
      default: break;
      }
    } else if (d->generic.type == HWLOC_TOPOLOGY_DIFF_TOO_COMPLEX) sink += d->too_complex.obj_depth + d->too_complex.obj_index;
  }
}

/* returns 1 loaded, 2 failed cleanly, or the class letter when skipped.  `path` = file holding exactly the bytes. */
/* poor man's MSan for pointers: fill the stack area the library is about to use with 0x5a so that an uninitialised local pointer
 * (e.g. the former F05n: `tag` in hwloc_nolibxml_import_diff) is a wild pointer that faults instead of a stale valid one */
static void __attribute__((noinline)) poison_stack(void) {
  volatile unsigned char a[32768];
  memset((void *) a, 0x5a, sizeof a);
  sink += a[4097];
}

static int run_case(const char *caseid, const unsigned char *bytes, size_t len, char mode, unsigned long xflags, int u, const char *path, int size_override, int have_override) {
  alarm(60);   /* generous: the machine is shared and the build is ASan; an unreproduced hit is not reported */
  /* exact-size heap copy so that ASan sees the real bounds */
  unsigned char *copy = malloc(len + 1);
  memcpy(copy, bytes, len); copy[len] = 0;
  int kc = have_override ? 0 : known_class(copy, len, mode, xflags, u);
  if (kc) { free(copy); alarm(0); return kc; }
  int size = have_override ? size_override : (int) len + 1;
  int ok = 0;
  if (mode == 'D') {
    hwloc_topology_diff_t diff = NULL; char *refname = NULL;
    poison_stack();
    int r = hwloc_topology_diff_load_xmlbuffer((char *) copy, size, &diff, &refname);
    free(copy);
    if (r != 0 && r != -1) die("diff_load_xmlbuffer returned %d", r);
    if (r == 0 && have_override && size <= 0) die("diff_load_xmlbuffer accepted a buffer of size %d", size);
    if (r == 0) { walk_diff(diff); if (refname) sink += strlen(refname); hwloc_topology_diff_destroy(diff); free(refname); ok = 1; }
    else { if (diff) die("diff_load_xmlbuffer failed but returned a list"); }
  } else {
    hwloc_topology_t t;
    if (hwloc_topology_init(&t) < 0) die("init");
    configure(t, xflags, u);
    int r;
    poison_stack();
    if (mode == 'F') { r = hwloc_topology_set_xml(t, path); free(copy); }
    else { r = hwloc_topology_set_xmlbuffer(t, (char *) copy, size); free(copy); /* both back ends copy/parse at set time */ }
    if (r != 0 && r != -1) die("set_xml* returned %d", r);
    if (r == 0 && mode != 'F' && have_override && size <= 0) die("set_xmlbuffer accepted a buffer of size %d", size);
    if (r == 0) { poison_stack(); r = hwloc_topology_load(t); if (r != 0 && r != -1) die("load returned %d", r); }
    if (r == 0) {
      dump_topology(fdump, t, caseid); fflush(fdump);
      battery(t, caseid, xflags);
      ok = 1;
    }
    hwloc_topology_destroy(t);
  }
  if (!ok) { if ((nfail++ & 15) == 0 && valid_doc.n) fresh_topology_check(); }
  alarm(0);
  return ok ? 1 : 2;
}

/* run_case + attribution of leaks to the case: LeakSanitizer only runs when the heap grew over the case */
static int run_case_lc(const char *caseid, const unsigned char *bytes, size_t len, char mode, unsigned long xflags, int u, const char *path, int size_override, int have_override) {
  size_t before = __sanitizer_get_current_allocated_bytes();
  int r = run_case(caseid, bytes, len, mode, xflags, u, path, size_override, have_override);
  if (__sanitizer_get_current_allocated_bytes() > before && __lsan_do_recoverable_leak_check()) die("memory leaked by case %s", caseid);
  return r;
}

/* ------------------------------------------------------------------ seed documents */
struct doc { unsigned char *p; size_t n; int isdiff; int trusted; /* exported by this process: must load */ };
static struct doc *docs; static unsigned ndocs, ndiffdocs;
static void add_doc(const void *p, size_t n, int isdiff, int trusted) {
  if (!n || n > 65536) return;
  docs = realloc(docs, (ndocs + 1) * sizeof *docs);
  docs[ndocs].p = malloc(n + 1); memcpy(docs[ndocs].p, p, n); docs[ndocs].p[n] = 0; docs[ndocs].n = n; docs[ndocs].isdiff = isdiff; docs[ndocs].trusted = trusted; ndocs++;
  if (isdiff) ndiffdocs++;
}
static void add_exports(hwloc_topology_t t) {
  for (int v = 0; v < 2; v++) {
    char *xb = NULL; int xl = 0;
    if (hwloc_topology_export_xmlbuffer(t, &xb, &xl, v ? HWLOC_TOPOLOGY_EXPORT_XML_FLAG_V2 : 0) == 0) {
      add_doc(xb, xl - 1, 0, 1);
      if (!v && !valid_doc.n && xl < 20000) b_set(&valid_doc, xb, xl - 1);
      hwloc_free_xmlbuffer(t, xb);
    }
  }
}
static hwloc_topology_t load_buffer(const unsigned char *p, size_t n, unsigned long xflags) {
  hwloc_topology_t t;
  if (known_class(p, n, 'B', xflags, 0)) return NULL;
  if (hwloc_topology_init(&t) < 0) return NULL;
  configure(t, xflags, 0);
  if (hwloc_topology_set_xmlbuffer(t, (const char *) p, (int) n + 1) < 0 || hwloc_topology_load(t) < 0) { hwloc_topology_destroy(t); return NULL; }
  return t;
}

static void ud_export_cb(void *reserved, hwloc_topology_t t, hwloc_obj_t o) {
  if (o->type != HWLOC_OBJ_PU && o->type != HWLOC_OBJ_MACHINE) return;
  if (o->logical_index == 0) hwloc_export_obj_userdata(reserved, t, o, "ud", "hello world", 11);
  if (o->logical_index == 1) { static const unsigned char bin[7] = {0, 1, 2, 0xff, 0x80, 10, 13}; hwloc_export_obj_userdata_base64(reserved, t, o, NULL, bin, 7); }
  if (o->logical_index == 2) hwloc_export_obj_userdata(reserved, t, o, "empty", "", 0);
  if (o->logical_index == 3) hwloc_export_obj_userdata_base64(reserved, t, o, "b", "xyzw", 4);
}

static void annotate(hwloc_topology_t t, unsigned variant) {
  hwloc_obj_t root = hwloc_get_root_obj(t);
  unsigned npu = hwloc_get_nbobjs_by_type(t, HWLOC_OBJ_PU), nnuma = hwloc_get_nbobjs_by_type(t, HWLOC_OBJ_NUMANODE);
  hwloc_obj_add_info(root, "VerifInfo", "root value");
  hwloc_obj_add_info(hwloc_get_obj_by_type(t, HWLOC_OBJ_PU, 0), "PUInfo", "a&b<c>\"d\"");
  if (variant & 1) {
    hwloc_topology_insert_misc_object(t, root, "misc-root");
    hwloc_obj_t m = hwloc_topology_insert_misc_object(t, hwloc_get_obj_by_type(t, HWLOC_OBJ_PU, npu - 1), "misc-pu");
    if (m) { hwloc_topology_insert_misc_object(t, m, "misc-misc"); hwloc_obj_add_info(m, "MiscInfo", "x"); }
  }
  if ((variant & 2) && npu >= 3) {
    hwloc_obj_t g = hwloc_topology_alloc_group_object(t);
    if (g) {
      hwloc_bitmap_t s = hwloc_bitmap_alloc();
      hwloc_bitmap_or(s, hwloc_get_obj_by_type(t, HWLOC_OBJ_PU, 0)->cpuset, hwloc_get_obj_by_type(t, HWLOC_OBJ_PU, npu - 1)->cpuset);
      hwloc_obj_add_other_obj_sets(g, hwloc_get_obj_by_type(t, HWLOC_OBJ_PU, 0));
      hwloc_obj_add_other_obj_sets(g, hwloc_get_obj_by_type(t, HWLOC_OBJ_PU, npu - 1));
      g->attr->group.kind = 0x7777; g->attr->group.subkind = 3;
      hwloc_bitmap_free(s);
      hwloc_topology_insert_group_object(t, g);
    }
  }
  if (variant & 4) {
    hwloc_obj_type_t ty = nnuma >= 2 ? HWLOC_OBJ_NUMANODE : HWLOC_OBJ_PU;
    unsigned n = hwloc_get_nbobjs_by_type(t, ty); if (n > 6) n = 6;
    if (n >= 2) {
      hwloc_obj_t objs[6]; hwloc_uint64_t vals[36];
      for (unsigned i = 0; i < n; i++) objs[i] = hwloc_get_obj_by_type(t, ty, i);
      for (unsigned i = 0; i < n * n; i++) vals[i] = (i / n == i % n) ? 10 : 20 + i;
      hwloc_distances_add_handle_t h = hwloc_distances_add_create(t, (variant & 8) ? "verifdist" : NULL, HWLOC_DISTANCES_KIND_FROM_USER | ((variant & 16) ? HWLOC_DISTANCES_KIND_VALUE_BANDWIDTH : HWLOC_DISTANCES_KIND_VALUE_LATENCY), 0);
      if (h && hwloc_distances_add_values(t, h, n, objs, vals, 0) == 0) hwloc_distances_add_commit(t, h, 0);
    }
    if (npu >= 2 && hwloc_get_nbobjs_by_type(t, HWLOC_OBJ_CORE) >= 1) {    /* heterogeneous types */
      hwloc_obj_t objs[3]; hwloc_uint64_t vals[9] = {0, 1, 2, 1, 0, 3, 2, 3, 0};
      objs[0] = hwloc_get_obj_by_type(t, HWLOC_OBJ_PU, 0); objs[1] = hwloc_get_obj_by_type(t, HWLOC_OBJ_CORE, 0); objs[2] = hwloc_get_obj_by_type(t, HWLOC_OBJ_PU, npu - 1);
      hwloc_distances_add_handle_t h = hwloc_distances_add_create(t, "verifhetero", HWLOC_DISTANCES_KIND_FROM_USER | HWLOC_DISTANCES_KIND_VALUE_HOPS, 0);
      if (h && hwloc_distances_add_values(t, h, 3, objs, vals, 0) == 0) hwloc_distances_add_commit(t, h, 0);
    }
  }
  if ((variant & 32) && nnuma >= 1) {
    hwloc_memattr_id_t id;
    if (hwloc_memattr_register(t, "verifattr", HWLOC_MEMATTR_FLAG_HIGHER_FIRST, &id) == 0)
      for (unsigned i = 0; i < nnuma && i < 4; i++) hwloc_memattr_set_value(t, id, hwloc_get_obj_by_type(t, HWLOC_OBJ_NUMANODE, i), NULL, 0, 100 + i);
    if (hwloc_memattr_register(t, "verifinit", HWLOC_MEMATTR_FLAG_LOWER_FIRST | HWLOC_MEMATTR_FLAG_NEED_INITIATOR, &id) == 0) {
      struct hwloc_location loc;
      for (unsigned i = 0; i < nnuma && i < 3; i++) {
        loc.type = HWLOC_LOCATION_TYPE_CPUSET; loc.location.cpuset = hwloc_get_obj_by_type(t, HWLOC_OBJ_PU, i % npu)->cpuset;
        hwloc_memattr_set_value(t, id, hwloc_get_obj_by_type(t, HWLOC_OBJ_NUMANODE, i), &loc, 0, 7 + i);
        loc.type = HWLOC_LOCATION_TYPE_OBJECT; loc.location.object = hwloc_get_obj_by_type(t, HWLOC_OBJ_PU, npu - 1);
        hwloc_memattr_set_value(t, id, hwloc_get_obj_by_type(t, HWLOC_OBJ_NUMANODE, i), &loc, 0, 70 + i);
      }
    }
    struct hwloc_location loc; loc.type = HWLOC_LOCATION_TYPE_CPUSET; loc.location.cpuset = root->cpuset;
    hwloc_memattr_set_value(t, HWLOC_MEMATTR_ID_BANDWIDTH, hwloc_get_obj_by_type(t, HWLOC_OBJ_NUMANODE, 0), &loc, 0, 12345);
  }
  if ((variant & 64) && npu >= 2) {
    hwloc_bitmap_t s = hwloc_bitmap_alloc(); struct hwloc_infos_s infos = {0};
    for (unsigned i = 0; i < npu / 2; i++) hwloc_bitmap_or(s, s, hwloc_get_obj_by_type(t, HWLOC_OBJ_PU, i)->cpuset);
    hwloc_cpukinds_register(t, s, 5, NULL, 0);
    hwloc_bitmap_andnot(s, root->cpuset, s);
    hwloc_modify_infos(&infos, HWLOC_MODIFY_INFOS_OP_ADD, "CoreType", "verif-big");
    hwloc_cpukinds_register(t, s, -1, &infos, 0);
    hwloc_modify_infos(&infos, HWLOC_MODIFY_INFOS_OP_REMOVE, NULL, NULL); free(infos.array);
    hwloc_bitmap_free(s);
  }
  if (variant & 128) {
    static int token;
    hwloc_topology_set_userdata_export_callback(t, ud_export_cb);
    root->userdata = &token;
    for (unsigned i = 0; i < npu && i < 4; i++) hwloc_get_obj_by_type(t, HWLOC_OBJ_PU, i)->userdata = &token;
  }
}

static void build_seeds(const char *sources) {
  /* (c) synthetic topologies first (the first small v3 export becomes valid_doc) */
  static const char *synths[] = {
    "pack:2 core:2 pu:2", "pack:2 [numa] core:2 pu:2", "numa:2 pack:1 l3:1 l2:2 l1:1 l1i:1 core:1 pu:2",
    "group:2 pack:2 [numa(memory=1GB)] l3:1 core:2 pu:1", "pack:2 die:2 [numa] l2:2 core:1 pu:2", "numa:4 core:2 pu:1",
    "pack:1 [numa] [numa] core:4 pu:1", "pack:2 numa:2 l3:1 l2:1 l1:1 core:2 pu:2(indexes=core:pu)", "4 2 2", "pu:3",
    "pack:3 [numa(memory=256MB)] l3:2(size=8MB) core:1 pu:2", "group:2 group:2 pack:1 [numa] core:1 pu:2",
    "pack:2 [numa] l3:1 [numa] core:2 pu:2" };
  static const unsigned variants[] = {0, 1 | 2 | 4 | 8 | 32 | 64 | 128, 4 | 16 | 32, 1 | 128, 2 | 4 | 64, 255, 4 | 8 | 128, 32 | 64, 0, 1 | 4, 255 & ~16, 2 | 32, 4 | 32 | 128};
  hwloc_topology_t prev = NULL;
  for (unsigned i = 0; i < sizeof synths / sizeof *synths; i++) {
    hwloc_topology_t t;
    hwloc_topology_init(&t);
    if (i & 1) hwloc_topology_set_all_types_filter(t, HWLOC_TYPE_FILTER_KEEP_ALL);
    if (hwloc_topology_set_synthetic(t, synths[i]) < 0 || hwloc_topology_load(t) < 0) { hwloc_topology_destroy(t); continue; }
    if (i == 1) { hwloc_topology_dup(&prev, t); }
    annotate(t, variants[i]);
    add_exports(t);
    if (i == 1 && prev) {
      /* (d) diff documents: (plain, annotated) and a hand-made name/size change */
      hwloc_topology_diff_t diff = NULL;
      hwloc_topology_t t3 = NULL; hwloc_topology_dup(&t3, prev);
      if (t3) {
        hwloc_obj_add_info(hwloc_get_root_obj(t3), "Added", "by diff");
        hwloc_obj_add_info(hwloc_get_obj_by_type(t3, HWLOC_OBJ_PU, 1), "Foo", "Bar");
        hwloc_obj_t c = hwloc_get_obj_by_type(t3, HWLOC_OBJ_CORE, 0); if (c) { free(c->name); c->name = strdup("renamed core"); }
        hwloc_obj_t n = hwloc_get_obj_by_type(t3, HWLOC_OBJ_NUMANODE, 0); if (n) n->attr->numanode.local_memory += 4096;
        if (hwloc_topology_diff_build(prev, t3, 0, &diff) >= 0 && diff) {
          char *xb = NULL; int xl = 0;
          if (hwloc_topology_diff_export_xmlbuffer(diff, "verif-ref", &xb, &xl) == 0) { add_doc(xb, xl - 1, 1, 1); hwloc_free_xmlbuffer(prev, xb); }
          xb = NULL;
          if (hwloc_topology_diff_export_xmlbuffer(diff, NULL, &xb, &xl) == 0) { add_doc(xb, xl - 1, 1, 1); hwloc_free_xmlbuffer(prev, xb); }
          hwloc_topology_diff_destroy(diff);
        }
        hwloc_topology_destroy(t3);
      }
      diff = NULL;
      if (hwloc_topology_diff_build(prev, t, 0, &diff) >= 0 && diff) {   /* probably too complex */
        char *xb = NULL; int xl = 0;
        if (hwloc_topology_diff_export_xmlbuffer(diff, "complex", &xb, &xl) == 0) { add_doc(xb, xl - 1, 1, 1); hwloc_free_xmlbuffer(prev, xb); }
        hwloc_topology_diff_destroy(diff);
      }
      hwloc_topology_destroy(prev); prev = NULL;
    }
    hwloc_topology_destroy(t);
  }
  { static const char d1[] = "<?xml version=\"1.0\" encoding=\"UTF-8\"?>\n<!DOCTYPE topologydiff SYSTEM \"hwloc2-diff.dtd\">\n<topologydiff refname=\"r\">\n"
      "  <diff type=\"0\" obj_depth=\"1\" obj_index=\"0\" obj_attr_type=\"0\" obj_attr_index=\"0\" obj_attr_oldvalue=\"1024\" obj_attr_newvalue=\"0x800\"/>\n"
      "  <diff type=\"0\" obj_depth=\"2\" obj_index=\"1\" obj_attr_type=\"1\" obj_attr_oldvalue=\"old\" obj_attr_newvalue=\"new\"/>\n"
      "  <diff type=\"0\" obj_depth=\"-3\" obj_index=\"0\" obj_attr_type=\"2\" obj_attr_name=\"Key\" obj_attr_oldvalue=\"a\" obj_attr_newvalue=\"b\"/>\n"
      "  <diff type=\"1\" obj_depth=\"0\" obj_index=\"0\"/>\n</topologydiff>\n";
    add_doc(d1, sizeof d1 - 1, 1, 1); }
  /* (a) source files as they are, (b) re-exports of a random subset */
  FILE *fs = fopen(sources, "r");
  if (fs) {
    char line[1100];
    while (fgets(line, sizeof line, fs)) {
      line[strcspn(line, "\n")] = 0;
      if (line[0] != 'X' || strlen(line) < 3) continue;
      size_t len = 0; char *b = read_file(line + 2, &len);
      if (!b) continue;
      if (len < 65536) {
        add_doc(b, len, 0, 0);
        if (rng_chance(25)) {
          alarm(60);
          hwloc_topology_t t = load_buffer((unsigned char *) b, len, rng_chance(50) ? (1UL << 16) : 0);
          if (t) { add_exports(t); hwloc_topology_destroy(t); }
          alarm(0);
        }
      }
      free(b);
    }
    fclose(fs);
  }
}

/* ------------------------------------------------------------------ mutations */
struct span { size_t ns, nl, vs, vl; };
/* k-th attribute span (` name="value"`); returns the number of spans when k == (unsigned) -1 */
static unsigned attr_span(const struct buf *b, unsigned k, struct span *out) {
  unsigned cnt = 0;
  for (size_t i = 1; i + 1 < b->n; i++) {
    if (b->p[i] != '=' || b->p[i + 1] != '"') continue;
    size_t s = i; while (s > 0 && name_char(b->p[s - 1])) s--;
    if (s == i || s == 0 || b->p[s - 1] != ' ') continue;
    const unsigned char *q = memchr(b->p + i + 2, '"', b->n - (i + 2));
    if (!q) break;
    if (cnt == k) { out->ns = s; out->nl = i - s; out->vs = i + 2; out->vl = q - (b->p + i + 2); return cnt + 1; }
    cnt++;
  }
  return cnt;
}
static unsigned tag_span(const struct buf *b, unsigned k, struct span *out) { /* `<name` */
  unsigned cnt = 0;
  for (size_t i = 0; i + 1 < b->n; i++) {
    if (b->p[i] != '<') continue;
    size_t s = i + 1; if (s < b->n && b->p[s] == '/') s++;
    size_t e = s; while (e < b->n && name_char(b->p[e])) e++;
    if (e == s) continue;
    if (cnt == k) { out->ns = s; out->nl = e - s; return cnt + 1; }
    cnt++;
  }
  return cnt;
}
static unsigned line_span(const struct buf *b, unsigned k, size_t *start, size_t *len) { /* lines incl. their '\n' */
  unsigned cnt = 0; size_t s = 0;
  while (s < b->n) {
    const unsigned char *q = memchr(b->p + s, '\n', b->n - s);
    size_t e = q ? (size_t) (q - b->p) + 1 : b->n;
    if (cnt == k) { *start = s; *len = e - s; return cnt + 1; }
    cnt++; s = e;
  }
  return cnt;
}

static size_t gen_value(const struct buf *b, unsigned char *out, size_t cap) {
  static const char *fixed[] = {"0", "1", "-1", "2", "3", "4294967295", "4294967296", "18446744073709551615", "18446744073709551616",
    "65536", "65537", "2147483647", "2147483648", "-2147483649", "0x", "", "nan", "inf", "-0", "1e999", "0x10", "010", " 1", "1 ",
    "0xffffffff,,0x1", "0xf,0xffffffff,0xffffffff", "0x00000001,0x00000000,0x00000000", ",,", "0x1,0x0", "0xf...f", "0-3", "0xffffffff,0xffffffff,0xffffffff,0xffffffff",
    "Package", "NUMANode", "PU", "Bridge", "OSDev", "Misc", "Group", "L1Cache", "L3iCache", "MemCache", "Machine", "Die", "Core", "PCIDev", "L2Cache", "L1iCache",
    "base64", "os", "gp", "normal", "obj0", "obj1", "obj", "0000:00:00.0", "ffff:ff:ff.f", "0000:[00-ff]", "1-0", "0-1", "1-1", "7-7",
    "0300 [10de:1db8] [10de:12ab] a1 00", "4", "5", "8", "16", "32", "64", "127", "128", "255", "256", "1023", "1024", "XGMIHops", "NUMALatency", "Capacity", "Locality", "Bandwidth", "Latency" };
  unsigned r = rng_below(100);
  if (r < 55) { const char *s = fixed[rng_below(sizeof fixed / sizeof *fixed)]; size_t n = strlen(s); memcpy(out, s, n); return n; }
  if (r < 63) { size_t n = 20 + rng_below(cap - 40 > 600 ? 600 : cap - 40); memset(out, '0' + rng_below(10), n); if (rng_chance(30)) out[0] = '-'; return n; }
  if (r < 70) { size_t n = 2 + rng_below(300); out[0] = '0'; out[1] = 'x'; for (size_t i = 2; i < n; i++) out[i] = rng_chance(10) ? ',' : "0123456789abcdef"[rng_below(16)]; return n; }
  if (r < 80) { size_t n = 1 + rng_below(12); for (size_t i = 0; i < n; i++) out[i] = rng_chance(70) ? 32 + rng_below(95) : rng_below(256); return n; }
  if (r < 85) { unsigned long long v = rng_next(); if (rng_chance(50)) v >>= rng_below(64); return (size_t) sprintf((char *) out, "%llu", v); }
  /* an existing value from elsewhere in the document */
  { unsigned na = attr_span(b, (unsigned) -1, NULL); struct span sp;
    if (na && attr_span(b, rng_below(na), &sp) && sp.vl < cap) { memcpy(out, b->p + sp.vs, sp.vl); return sp.vl; } }
  out[0] = '7'; return 1;
}

static void mutate_once(struct buf *b) {
  unsigned char tmp[2048]; struct span sp, sp2; size_t ls, ll, ls2, ll2;
  unsigned na = attr_span(b, (unsigned) -1, NULL), nl = line_span(b, (unsigned) -1, NULL, NULL);
  unsigned op = rng_below(100);
  if (!b->n) { b_set(b, "<", 1); return; }
  if (op < 34 && na) {                                    /* replace an attribute value */
    attr_span(b, rng_below(na), &sp);
    size_t n = gen_value(b, tmp, sizeof tmp);
    b_splice(b, sp.vs, sp.vl, tmp, n);
  } else if (op < 39 && na >= 2) {                        /* rename an attribute to another one seen */
    attr_span(b, rng_below(na), &sp); attr_span(b, rng_below(na), &sp2);
    if (sp2.nl < sizeof tmp) { memcpy(tmp, b->p + sp2.ns, sp2.nl); b_splice(b, sp.ns, sp.nl, tmp, sp2.nl); }
  } else if (op < 43) {                                   /* rename a tag */
    unsigned nt = tag_span(b, (unsigned) -1, NULL);
    if (nt >= 2) { tag_span(b, rng_below(nt), &sp); tag_span(b, rng_below(nt), &sp2);
      if (sp2.nl < sizeof tmp) { memcpy(tmp, b->p + sp2.ns, sp2.nl); b_splice(b, sp.ns, sp.nl, tmp, sp2.nl); } }
  } else if (op < 49 && na) {                             /* drop an attribute */
    attr_span(b, rng_below(na), &sp);
    b_splice(b, sp.ns - 1, sp.vs + sp.vl + 1 - (sp.ns - 1), NULL, 0);
  } else if (op < 53 && na) {                             /* duplicate an attribute (maybe with another value) */
    attr_span(b, rng_below(na), &sp);
    size_t n = sp.vs + sp.vl + 1 - (sp.ns - 1);
    if (n < sizeof tmp) { memcpy(tmp, b->p + sp.ns - 1, n); b_splice(b, sp.vs + sp.vl + 1, 0, tmp, n); }
  } else if (op < 57 && na >= 2) {                        /* copy an attribute into another element */
    attr_span(b, rng_below(na), &sp); attr_span(b, rng_below(na), &sp2);
    size_t n = sp.vs + sp.vl + 1 - (sp.ns - 1);
    if (n < sizeof tmp) { memcpy(tmp, b->p + sp.ns - 1, n); b_splice(b, sp2.vs + sp2.vl + 1, 0, tmp, n); }
  } else if (op < 63 && nl >= 2) {                        /* drop a line (element) */
    line_span(b, rng_below(nl), &ls, &ll); b_splice(b, ls, ll, NULL, 0);
  } else if (op < 67 && nl >= 1) {                        /* duplicate a line */
    line_span(b, rng_below(nl), &ls, &ll);
    unsigned char *c = malloc(ll); memcpy(c, b->p + ls, ll); b_splice(b, ls, 0, c, ll); free(c);
  } else if (op < 71 && nl >= 2) {                        /* swap two lines */
    unsigned i = rng_below(nl), j = rng_chance(60) ? (i + 1) % nl : rng_below(nl);
    if (i > j) { unsigned x = i; i = j; j = x; }
    if (i != j) {
      line_span(b, i, &ls, &ll); line_span(b, j, &ls2, &ll2);
      unsigned char *a = malloc(ll), *c = malloc(ll2); memcpy(a, b->p + ls, ll); memcpy(c, b->p + ls2, ll2);
      b_splice(b, ls2, ll2, a, ll); b_splice(b, ls, ll, c, ll2); free(a); free(c);
    }
  } else if (op < 75 && nl >= 2) {                        /* move a line elsewhere */
    line_span(b, rng_below(nl), &ls, &ll);
    unsigned char *c = malloc(ll); memcpy(c, b->p + ls, ll); b_splice(b, ls, ll, NULL, 0);
    unsigned n2 = line_span(b, (unsigned) -1, NULL, NULL);
    if (n2) { line_span(b, rng_below(n2), &ls2, &ll2); b_splice(b, ls2, 0, c, ll); } else b_splice(b, 0, 0, c, ll);
    free(c);
  } else if (op < 79 && nl >= 2) {                        /* drop a closing tag / an opening tag */
    int want_close = rng_chance(50);
    for (unsigned tries = 0; tries < 30; tries++) {
      line_span(b, rng_below(nl), &ls, &ll);
      size_t s = ls; while (s < ls + ll && (b->p[s] == ' ' || b->p[s] == '\t')) s++;
      if (s + 2 >= ls + ll || b->p[s] != '<') continue;
      int is_close = b->p[s + 1] == '/';
      int selfclosing = ll >= 3 && b->p[ls + ll - 3] == '/' ;
      if (want_close ? is_close : (!is_close && !selfclosing && b->p[s + 1] != '?' && b->p[s + 1] != '!')) { b_splice(b, ls, ll, NULL, 0); break; }
    }
  } else if (op < 82) {                                   /* change the version */
    static const char *vers[] = {"2.0", "3.0", "1.0", "2.99", "3.1", "4.0", "0.9", "2", "2.", ".0", "2.0.0", "4294967298.0", "-2.0", "02.00", "3.x", ""};
    const unsigned char *q = xmemmem(b->p, b->n, "<topology version=\"");
    if (q) { size_t off = q - b->p + 19; const unsigned char *e = memchr(b->p + off, '"', b->n - off);
      if (e) { const char *v = vers[rng_below(sizeof vers / sizeof *vers)]; b_splice(b, off, e - (b->p + off), v, strlen(v)); } }
  } else if (op < 86) {                                   /* truncate */
    size_t at = rng_chance(30) && b->n > 40 ? b->n - 1 - rng_below(40) : rng_below(b->n);
    b_splice(b, at, b->n - at, NULL, 0);
  } else if (op < 90) {                                   /* insert random bytes */
    static const char *frag[] = {"<", ">", "/>", "\"", "=\"", "&", "&amp;", "&#10;", "&lt;", "</object>", "<object", "<info", " ", "\n", "<!--", "-->", "/", "<userdata length=\"0\">", "<userdata>", "<page_type size=\"4096\" count=\"1\"/>"};
    size_t at = rng_below(b->n + 1);
    if (rng_chance(60)) { const char *f = frag[rng_below(sizeof frag / sizeof *frag)]; b_splice(b, at, 0, f, strlen(f)); }
    else { size_t n = 1 + rng_below(6); for (size_t i = 0; i < n; i++) tmp[i] = rng_chance(60) ? 32 + rng_below(95) : rng_below(256); b_splice(b, at, 0, tmp, n); }
  } else if (op < 93) {                                   /* delete random bytes */
    size_t at = rng_below(b->n), n = 1 + rng_below(rng_chance(80) ? 4 : 60); b_splice(b, at, n, NULL, 0);
  } else if (op < 96) {                                   /* flip a byte */
    size_t at = rng_below(b->n); b->p[at] ^= 1u << rng_below(8);
  } else {                                                /* `/>` <-> `>` */
    unsigned cnt = 0; for (size_t i = 1; i < b->n; i++) if (b->p[i] == '>') cnt++;
    if (cnt) { unsigned k = rng_below(cnt); for (size_t i = 1; i < b->n; i++) if (b->p[i] == '>' && k-- == 0) {
      if (b->p[i - 1] == '/') b_splice(b, i - 1, 1, NULL, 0); else b_splice(b, i, 0, "/", 1); break; } }
  }
}

static unsigned long gen_xflags(void) {
  static const unsigned long bits[] = {HWLOC_TOPOLOGY_FLAG_INCLUDE_DISALLOWED, HWLOC_TOPOLOGY_FLAG_IMPORT_SUPPORT, HWLOC_TOPOLOGY_FLAG_NO_DISTANCES,
                                       HWLOC_TOPOLOGY_FLAG_NO_MEMATTRS, HWLOC_TOPOLOGY_FLAG_NO_CPUKINDS};
  unsigned long fl = 0;
  if (!rng_chance(40)) for (int i = 0; i < 5; i++) if (rng_chance(25)) fl |= bits[i];
  unsigned fm = rng_chance(50) ? 1 : (rng_chance(25) ? 2 : 0);
  return fl | ((unsigned long) fm << 16);
}

static int write_file(const char *path, const unsigned char *p, size_t n) {
  FILE *f = fopen(path, "wb"); if (!f) return -1;
  if (n && fwrite(p, 1, n, f) != n) { fclose(f); return -1; }
  return fclose(f);
}

int main(int argc, char **argv) {
  const char *lx = getenv("HWLOC_LIBXML");
  nolibxml = lx && !atoi(lx);
  signal(SIGALRM, SIG_DFL);

  if (argc >= 4 && !strcmp(argv[1], "replay")) {
    size_t len = 0; char *b = read_file(argv[2], &len);
    fdump = fopen(argv[3], "w");
    if (!b || !fdump) return 2;
    char mode = argc > 4 ? argv[4][0] : 'B';
    unsigned long xflags = argc > 5 ? strtoul(argv[5], NULL, 0) : 0;
    int u = argc > 6 && argv[6][0] == 'u';
    int have_override = 0, size_override = 0;
    if (argc > 7 && !strncmp(argv[7], "size=", 5)) { have_override = 1; size_override = atoi(argv[7] + 5); }
    int r = run_case_lc("c0", (unsigned char *) b, len, mode, xflags, u, argv[2], size_override, have_override);
    if (r == 1) printf("case: loaded\n"); else if (r == 2) printf("case: failed\n"); else printf(r == '7' ? "case: skipped-F71\n" : "case: skipped-F05%c\n", r);
    free(b); fclose(fdump);
    return 0;
  }
  if (argc >= 4 && !strcmp(argv[1], "seeds")) {   /* debugging aid: write the seed documents to <outdir>/s<i>.xml */
    rng_seed(rng_seed_from_env()); fdump = fopen("/dev/null", "w"); build_seeds(argv[2]);
    for (unsigned i = 0; i < ndocs; i++) { char pth[1200]; snprintf(pth, sizeof pth, "%s/s%u%s.xml", argv[3], i, docs[i].isdiff ? "d" : ""); write_file(pth, docs[i].p, docs[i].n); }
    printf("%u seeds\n", ndocs); return 0;
  }
  if (argc < 5 || strcmp(argv[1], "gen")) { fprintf(stderr, "usage: xmlload gen <n> <sources> <outdir> | replay <file> <dump> [B|F|D] [flags] [u]\n"); return 2; }
  unsigned long n = strtoul(argv[2], NULL, 10);
  const char *outdir = argv[4];
  char path[1200];
  snprintf(path, sizeof path, "%s/plan.txt", outdir); FILE *fplan = fopen(path, "w");
  snprintf(path, sizeof path, "%s/dump.txt", outdir); fdump = fopen(path, "w");
  if (!fplan || !fdump) return 2;
  rng_seed(rng_seed_from_env());
  build_seeds(argv[3]);
  if (!ndocs || !valid_doc.n) { fprintf(stderr, "no seed documents\n"); return 2; }
  fprintf(fplan, "# seeds %u (diff %u) backend %s\n", ndocs, ndiffdocs, nolibxml ? "nolibxml" : "libxml"); fflush(fplan);
  struct buf m = {0};
  for (unsigned long i = 0; i < n; i++) {
    char id[32]; snprintf(id, sizeof id, "c%lu", i);
    unsigned r = rng_below(100);
    char mode = r < 70 ? 'B' : r < 85 ? 'F' : 'D';
    unsigned long xflags = gen_xflags();
    int u = rng_chance(30);
    /* pick a seed document: diff documents mostly for mode D; smaller documents preferred */
    struct doc *d;
    for (unsigned tries = 0;; tries++) {
      d = &docs[rng_below(ndocs)];
      int wantdiff = mode == 'D' ? rng_chance(75) : rng_chance(4);
      if (tries < 40 && d->isdiff != wantdiff) continue;
      if (tries < 40 && d->n > 12000 && !rng_chance(d->n > 30000 ? 8 : 25)) continue;
      break;
    }
    b_set(&m, d->p, d->n);
    unsigned kind = rng_below(100);
    int have_override = 0, size_override = 0;
    if (kind < 5) { size_t nn = 1 + rng_below(400); b_reserve(&m, nn); for (size_t k = 0; k < nn; k++) m.p[k] = rng_below(256); m.n = nn; m.p[nn] = 0; }
    else if (kind < 10) { /* unmutated */ }
    else { unsigned nm = 1 + rng_below(4); for (unsigned k = 0; k < nm; k++) mutate_once(&m); }
    if (m.n > 200000) { m.n = 200000; m.p[m.n] = 0; }
    if (mode != 'F' && rng_chance(2)) { have_override = 1; size_override = rng_chance(70) ? 0 : -(int) rng_below(3) - 1; }
    snprintf(path, sizeof path, "%s/%s.xml", outdir, id);
    if (write_file(path, m.p, m.n) < 0) return 2;
    if (mode == 'D') { u = 0; xflags = 0; }
    if (kind >= 5 && kind < 10) fprintf(fplan, "# unmutated %s\n", id);
    fprintf(fplan, "%s %c %lu %d %zu %016llx ", id, mode, xflags, u, m.n, (unsigned long long) fnv(m.p, m.n)); fflush(fplan);
    int res = run_case_lc(id, m.p, m.n, mode, xflags, u, path, size_override, have_override);
    if (res == 1) { fprintf(fplan, "loaded\n"); if (mode == 'D') remove(path); }
    else if (res == 2) { fprintf(fplan, "failed\n"); remove(path); }
    else { if (res == '7') fprintf(fplan, "skipped-F71\n"); else fprintf(fplan, "skipped-F05%c\n", res); if (!env_on("VERIF_KEEP_SKIPPED")) remove(path); }
    fflush(fplan);
    if (kind >= 5 && kind < 10 && res == 2 && !have_override && d->trusted && !(mode == 'D' && !d->isdiff) && !(mode != 'D' && d->isdiff))
      die("unmutated seed document does not load (case %s mode %c)", id, mode);
  }
  fprintf(fplan, "# f70-skipped %lu\n", n_f70);
  fprintf(fplan, "# f72-skipped %lu\n", n_f72);
  fprintf(fplan, "# done\n");
  fclose(fplan); fclose(fdump);
  for (unsigned i = 0; i < ndocs; i++) free(docs[i].p);
  free(docs); free(m.p); free(valid_doc.p);
  return 0;
}
