/* C06 harness (engine `xmlload`): structure-aware fuzzing of the XML import entry points
 *   hwloc_topology_set_xmlbuffer / hwloc_topology_set_xml (+ hwloc_topology_load) and hwloc_topology_diff_load_xmlbuffer.
 * Every case: set+load must return 0 or -1 (no sanitizer report, no abort, no hang: alarm(20)); after a failure the
 * topology is destroyed and (every 16th failure) a fresh topology must load a known valid document; after a success the
 * topology is dumped (harness/dump.h) for the Lean oracle wfCheck and a battery of read-only public functions runs on it
 * (incl. XML re-export + re-import, which must load, and hwloc_topology_dup; both are dumped too).
 *
 * usage: xmlload gen <ncases> <sources-file> <outdir>                (seed = VERIF_SEED, back end = HWLOC_LIBXML)
 *        xmlload replay <xml-file> <dump-out> [B|F|D] [flags] [u]    (the file IS the XML, loaded as len+1 bytes with a NUL)
 *   mode B = set_xmlbuffer, F = set_xml(path), D = diff_load_xmlbuffer; u = userdata import callback set
 *   flags  = hwloc topology flags | (filter mode << 16); filter mode 0 = default filters, 1 = all types KEEP_ALL,
 *            2 = I/O types KEEP_IMPORTANT; bit (20 + type) set = hwloc_topology_set_type_filter(type, KEEP_NONE) afterwards
 *            (refused for PU/NUMANode/Machine: ignored)
 *   env VERIF_DISTORACLE=1 (replay): the distances oracle (see dist_oracle) is applied to the loaded topology
 * gen writes <outdir>/c<idx>.xml BEFORE loading it (removed again when the case failed/was skipped cleanly; kept when the
 * load succeeded so that the engine still has the bytes when the oracle verdict arrives), appends
 *   <caseid> <mode> <flags> <u> <len> <hash> <loaded|failed|skipped-F05x>      to <outdir>/plan.txt
 * and the dumps to <outdir>/dump.txt (tags <caseid>, <caseid>r = re-import of the v3 export, <caseid>d = dup).
 *
 * No input class is excluded: the crash / leak / assert classes F05a..F05o found earlier are fixed in /repo; their minimal
 * inputs live on as corpus/xmlload/fixed-f05*.xml and must load or fail cleanly.  A sanitizer report, abort, leak or watchdog
 * hit on ANY input is a violation.  Sizes <= 0 are given to set_xmlbuffer / diff_load_xmlbuffer in ~2 % of the cases (must be
 * refused).
 *
 * Distances-list class (C06-r2): documents with 1..5 <distances2>/<distances2hetero> elements (own exports of synthetic topologies
 * with several user matrices over NUMANode/PU (os indexing), Core/Package/L3/L2 (gp indexing) and heterogeneous objects, and the
 * bundled files that carry distances) in which the <indexes> of a chosen SUBSET of the elements are retargeted to objects that do
 * not exist (all of them, or all but one: the matrix becomes useless and is dropped by hwloc_internal_distances_refresh() at the
 * end of load) or of which some indexes are retargeted while >= 2 stay valid (the matrix is kept and compacted), and/or loaded with
 * a KEEP_NONE filter on the type of some matrices.  Every `gen` process first runs a prologue that enumerates EVERY subset (62 =
 * sum of 2^k, k = 1..5) of dropped elements, then DD_FILTER_CASES filter-driven cases; ~7 % of the random cases belong to the class
 * too.  Plan comment: `# distdrop <caseid> k=<elements> drop=<bit string, element order> mech=<r|f|rf|->`.
 * Oracle for those cases (dist_oracle): the surviving matrices, their order, names, objects (after compaction) and values are
 * recomputed from the document text + public lookups on the loaded topology and must be what hwloc_distances_get() returns; then
 * dist_list_probe() appends/removes matrices through the public API to exercise first_dist/last_dist/prev/next of the list.
 */
#define _GNU_SOURCE
#include "dump.h"
#include "rng.h"
#include <errno.h>
#include <fcntl.h>
#include <unistd.h>
#include <stdarg.h>
#include <signal.h>
#include <ctype.h>
#ifndef HWLOC_OBJ_TYPE_NONE
#define HWLOC_OBJ_TYPE_NONE ((hwloc_obj_type_t) -1)   /* as in include/private/misc.h */
#endif
extern size_t __sanitizer_get_current_allocated_bytes(void);   /* ASan runtime */
#ifdef VERIF_MSAN   /* MemorySanitizer build (clang): no LeakSanitizer in that runtime; leaks are the ASan build's business */
static int __lsan_do_recoverable_leak_check(void) { return 0; }
#else
extern int __lsan_do_recoverable_leak_check(void);
#endif

/* ------------------------------------------------------------------ small helpers */
struct buf { unsigned char *p; size_t n, cap; };
static void b_reserve(struct buf *b, size_t need) {
  if (need + 1 > b->cap) { b->cap = (need + 1) * 2; b->p = realloc(b->p, b->cap); }
}
static void b_set(struct buf *b, const void *src, size_t n) { b_reserve(b, n); memcpy(b->p, src, n); b->n = n; b->p[n] = 0; }
static void b_splice(struct buf *b, size_t off, size_t del, const void *ins, size_t inslen) {
  if (off > b->n) off = b->n;
  if (del > b->n - off) del = b->n - off;
  b_reserve(b, b->n - del + inslen);
  memmove(b->p + off + inslen, b->p + off + del, b->n - off - del);
  if (inslen) memcpy(b->p + off, ins, inslen);
  b->n = b->n - del + inslen; b->p[b->n] = 0;
}
static const unsigned char *xmemmem(const unsigned char *h, size_t hn, const char *needle) {
  size_t nn = strlen(needle);
  if (nn > hn) return NULL;
  return memmem(h, hn, needle, nn);
}
static uint64_t fnv(const unsigned char *p, size_t n) { uint64_t h = 1469598103934665603ULL; for (size_t i = 0; i < n; i++) { h ^= p[i]; h *= 1099511628211ULL; } return h; }
static char *read_file(const char *path, size_t *len) {
  FILE *f = fopen(path, "rb"); if (!f) return NULL;
  fseek(f, 0, SEEK_END); long n = ftell(f); fseek(f, 0, SEEK_SET);
  char *b = malloc(n + 1); if (fread(b, 1, n, f) != (size_t) n) { fclose(f); free(b); return NULL; }
  b[n] = 0; fclose(f); *len = n; return b;
}
static int env_on(const char *name) { const char *s = getenv(name); return s && *s && strcmp(s, "0"); }

static int nolibxml;            /* HWLOC_LIBXML=0 */

static int name_char(int c) { return (c >= 'a' && c <= 'z') || (c >= '0' && c <= '9') || c == '_'; }

/* Pre-load recognition of OPEN defect classes (the former classes F05a..F05o are fixed: nothing of them is skipped any more).
 *  F71 (nolibxml, modes B/F): an <object> tag with two `type` attributes (nolibxml does not refuse duplicate attributes): the
 *      type-specific attributes read after the first type are stored in the attr union and reinterpreted by the second type,
 *      e.g. <object type="L1" cache_associativity="2" type="NUMA">: numanode.page_types = garbage -> free() of a wild pointer in
 *      hwloc__free_object_contents (topology.c:686).  Predicate (over-approximate): between two consecutive '>' bytes the text
 *      `type="` occurs twice with a preceding byte that is not [a-z_].  VERIF_INCLUDE_F71=1 re-enables the class. */
static int class_f71(const unsigned char *p, size_t n) {
  unsigned cnt = 0;
  for (size_t i = 0; i < n; i++) {
    if (p[i] == '>') { cnt = 0; continue; }
    if (i + 6 <= n && !memcmp(p + i, "type=\"", 6) && !(i > 0 && ((p[i - 1] >= 'a' && p[i - 1] <= 'z') || p[i - 1] == '_'))) { if (++cnt >= 2) return 1; }
  }
  return 0;
}
static int known_class(const unsigned char *p, size_t n, char mode, unsigned long flags, int u) {
  (void) flags; (void) u;
  if (nolibxml && (mode == 'B' || mode == 'F') && 0 /* F71 fixed in /repo: never skipped */ && class_f71(p, n)) return '7';
  return 0;
}

/* ------------------------------------------------------------------ running one case */
static FILE *fdump;
static volatile unsigned long sink;
static unsigned long n_f70, n_f72, n_mcleaf;
static unsigned long nfail;
static int g_distoracle;        /* apply dist_oracle to the next case (gen: cases of the distances-list class; replay: VERIF_DISTORACLE) */
static char g_distpat[24];      /* effective drop pattern found by the oracle ("" = no opinion) */
static unsigned long n_oracle, n_oracle_noopinion, n_probe;
static struct buf valid_doc;      /* a known valid topology document (for the "fresh topology after failure" check) */
static struct buf valid_side_doc; /* a known valid document WITH cpukinds (and whatever else that export carries): the reconfigured load must
                                     also work when the failed load had already registered such structures (F82) */
static int g_force_reconf;        /* late-failure prologue: always reconfigure the failed topology, with valid_side_doc */
static unsigned long n_udcat, n_latefail;

static void die(const char *fmt, ...) {
  va_list ap; va_start(ap, fmt); fprintf(stderr, "HARNESS-CHECK-FAILED: "); vfprintf(stderr, fmt, ap); va_end(ap); fputc('\n', stderr);
  fflush(NULL); _exit(97);
}

#ifdef VERIF_MSAN
extern void __msan_check_mem_is_initialized(const volatile void *x, size_t size);
#endif
static void ud_import_cb(hwloc_topology_t t, hwloc_obj_t o, const char *name, const void *buffer, size_t length) {
  const unsigned char *p = buffer; unsigned long s = 0;
#ifdef VERIF_MSAN   /* the bytes handed to the application must be initialised (a sum would not make MemorySanitizer speak) */
  if (length) __msan_check_mem_is_initialized(buffer, length);
  if (name) __msan_check_mem_is_initialized(name, strlen(name) + 1);
#endif
  for (size_t i = 0; i < length; i++) s += p[i];
  if (name) s += strlen(name);
  if (o) s += o->type;
  sink += s; (void) t;
}

static void configure(hwloc_topology_t t, unsigned long xflags, int u) {
  unsigned long flags = xflags & 0xffff; unsigned fm = (xflags >> 16) & 3;
  if (hwloc_topology_set_flags(t, flags) < 0) die("set_flags(%lu) refused", flags);
  if (fm == 1) hwloc_topology_set_all_types_filter(t, HWLOC_TYPE_FILTER_KEEP_ALL);
  else if (fm == 2) hwloc_topology_set_io_types_filter(t, HWLOC_TYPE_FILTER_KEEP_IMPORTANT);
  for (int ty = 0; ty < HWLOC_OBJ_TYPE_MAX && ty < 40; ty++)
    if ((xflags >> (20 + ty)) & 1) hwloc_topology_set_type_filter(t, (hwloc_obj_type_t) ty, HWLOC_TYPE_FILTER_KEEP_NONE);   /* EINVAL for PU/NUMA/Machine: ignored */
  if (u) hwloc_topology_set_userdata_import_callback(t, ud_import_cb);
}

static void walk_infos(struct hwloc_infos_s *infos) {
  if (!infos) return;
  for (unsigned i = 0; i < infos->count; i++) { sink += strlen(infos->array[i].name); sink += strlen(infos->array[i].value); }
}

static void check_snprintf(hwloc_obj_t o, int which, int verbose) {
  static const size_t sizes[] = {0, 1, 7, 256};
  int ref = -12345;
  for (unsigned k = 0; k < 4; k++) {
    char bufm[300]; memset(bufm, 0x5a, sizeof bufm);
    char *b = bufm + 8; size_t sz = sizes[k];
    int r = which ? hwloc_obj_attr_snprintf(b, sz, o, "#", verbose) : hwloc_obj_type_snprintf(b, sz, o, verbose);
    if (r < 0) die("%s_snprintf returned %d (type %d)", which ? "attr" : "type", r, (int) o->type);
    if (ref == -12345) ref = r;
    else if (r != ref) die("%s_snprintf(size %zu) returned %d, other sizes %d (type %d gp %llu)", which ? "attr" : "type", sz, r, ref, (int) o->type, (unsigned long long) o->gp_index);
    if (sz) {
      size_t want = (size_t) r < sz - 1 ? (size_t) r : sz - 1;
      size_t got = strnlen(b, sz);
      if (got != want) die("%s_snprintf(size %zu) ret %d but strlen %zu (type %d gp %llu)", which ? "attr" : "type", sz, r, got, (int) o->type, (unsigned long long) o->gp_index);
    }
    for (size_t i = sz; i < sz + 8; i++) if ((unsigned char) b[i] != 0x5a) die("snprintf wrote past size %zu", sz);
    for (size_t i = 0; i < 8; i++) if ((unsigned char) bufm[i] != 0x5a) die("snprintf wrote before the buffer");
  }
}

static void touch_location(struct hwloc_location *l) {
  if (l->type == HWLOC_LOCATION_TYPE_CPUSET) { if (l->location.cpuset) sink += hwloc_bitmap_weight(l->location.cpuset); }
  else if (l->type == HWLOC_LOCATION_TYPE_OBJECT) { if (l->location.object) sink += l->location.object->type + l->location.object->gp_index; }
}

/* The shared well-formedness oracle (hwmodel topo) needs time and memory LINEAR in the largest gp_index of a dump (8 s / 16 GB at
 * 2^31, unbounded above): loaded topologies with a gp_index >= 2^22 (only reachable by mutating a gp_index attribute) are not
 * dumped for it (counted: `# hugegp-skipped`); everything else (battery, re-import, dup, distances probe, sanitizers) still runs. */
static int g_nodump; static unsigned long n_hugegp, n_macat, n_reconf_try, n_reconf_ok;
static int has_huge_gp(hwloc_topology_t t) {
  int depth = hwloc_topology_get_depth(t);
  static const int sd[] = {HWLOC_TYPE_DEPTH_NUMANODE, HWLOC_TYPE_DEPTH_BRIDGE, HWLOC_TYPE_DEPTH_PCI_DEVICE, HWLOC_TYPE_DEPTH_OS_DEVICE, HWLOC_TYPE_DEPTH_MISC, HWLOC_TYPE_DEPTH_MEMCACHE};
  unsigned long nobj = 0;
  for (int di = 0; di < depth + 6; di++) {
    hwloc_obj_t o = NULL;
    while ((o = hwloc_get_next_obj_by_depth(t, di < depth ? di : sd[di - depth], o)) != NULL) { if (o->gp_index >= (1ULL << 22)) return 1; if (++nobj > 3000000) return 0; }
  }
  return 0;
}
static void battery(hwloc_topology_t t, const char *caseid, unsigned long xflags) {
  int depth = hwloc_topology_get_depth(t);
  static const int sdepths[] = {HWLOC_TYPE_DEPTH_NUMANODE, HWLOC_TYPE_DEPTH_BRIDGE, HWLOC_TYPE_DEPTH_PCI_DEVICE,
                                HWLOC_TYPE_DEPTH_OS_DEVICE, HWLOC_TYPE_DEPTH_MISC, HWLOC_TYPE_DEPTH_MEMCACHE};
  unsigned long nobj = 0;
  for (int di = 0; di < depth + 6; di++) {
    int d = di < depth ? di : sdepths[di - depth];
    hwloc_obj_t o = NULL;
    while ((o = hwloc_get_next_obj_by_depth(t, d, o)) != NULL) {
      if (++nobj > 3000000) die("level traversal does not end");
      for (int w = 0; w < 2; w++) for (int v = 0; v < 2; v++) check_snprintf(o, w, v);
      sink += (unsigned long) hwloc_obj_get_info_by_name(o, "Backend");
      sink += (unsigned long) hwloc_obj_get_info_by_name(o, "");
      walk_infos(&o->infos);
      if (o->name) sink += strlen(o->name);
      if (o->subtype) sink += strlen(o->subtype);
      if (o->type == HWLOC_OBJ_NUMANODE && o->attr)
        for (unsigned i = 0; i < o->attr->numanode.page_types_len; i++) sink += o->attr->numanode.page_types[i].size + o->attr->numanode.page_types[i].count;
    }
  }
  walk_infos(hwloc_topology_get_infos(t));
  { const struct hwloc_topology_support *s = hwloc_topology_get_support(t);
    if (s && s->discovery && s->cpubind && s->membind && s->misc) sink += s->discovery->pu + s->cpubind->set_thisproc_cpubind + s->membind->set_thisproc_membind + s->misc->imported_support; }
  sink += hwloc_topology_is_thissystem(t);

  /* distances */
  { struct hwloc_distances_s *ds[64]; unsigned nr = 64;
    if (hwloc_distances_get(t, &nr, ds, 0, 0) == 0) {
      for (unsigned k = 0; k < nr && k < 64; k++) {
        struct hwloc_distances_s *d = ds[k]; unsigned n = d->nbobjs;
        for (unsigned i = 0; i < n; i++) if (d->objs[i]) sink += d->objs[i]->type + d->objs[i]->gp_index;
        for (unsigned long i = 0; i < (unsigned long) n * n; i++) sink += d->values[i];
        const char *nm = hwloc_distances_get_name(t, d); if (nm) sink += strlen(nm);
        sink += d->kind;
        hwloc_distances_release(t, d);
      }
    } }

  /* memory attributes */
  { static const char *names[] = {"Capacity", "Locality", "Bandwidth", "ReadBandwidth", "WriteBandwidth", "Latency", "ReadLatency", "WriteLatency", "verifattr", "nosuchattr"};
    hwloc_memattr_id_t id;
    for (unsigned i = 0; i < sizeof names / sizeof *names; i++) if (hwloc_memattr_get_by_name(t, names[i], &id) == 0) sink += id;
    hwloc_obj_t root = hwloc_get_root_obj(t);
    for (id = 0; id < 64; id++) {
      const char *nm = NULL; unsigned long fl = 0;
      if (hwloc_memattr_get_name(t, id, &nm) < 0) break;
      if (nm) sink += strlen(nm);
      if (hwloc_memattr_get_flags(t, id, &fl) < 0) die("memattr %u has a name but no flags", id);
      hwloc_obj_t tg[16]; hwloc_uint64_t vals[16]; unsigned nt = 16;
      if (hwloc_memattr_get_targets(t, id, NULL, 0, &nt, tg, vals) < 0) continue;
      if (nt > 16) nt = 16;
      struct hwloc_location rootloc; rootloc.type = HWLOC_LOCATION_TYPE_CPUSET; rootloc.location.cpuset = root->cpuset;
      { hwloc_obj_t best = NULL; hwloc_uint64_t v = 0;
        if (hwloc_memattr_get_best_target(t, id, &rootloc, 0, &best, &v) == 0 && best) sink += best->gp_index + v; }
      for (unsigned j = 0; j < nt; j++) {
        if (!tg[j]) die("memattr %u target %u is NULL", id, j);
        sink += tg[j]->gp_index + tg[j]->type;
        hwloc_uint64_t v = 0;
        if (!(fl & HWLOC_MEMATTR_FLAG_NEED_INITIATOR)) { if (hwloc_memattr_get_value(t, id, tg[j], NULL, 0, &v) == 0) sink += v; }
        struct hwloc_location locs[8]; hwloc_uint64_t iv[8]; unsigned ni = 8;
        if (hwloc_memattr_get_initiators(t, id, tg[j], 0, &ni, locs, iv) == 0) {
          if (ni > 8) ni = 8;
          for (unsigned k = 0; k < ni; k++) {
            touch_location(&locs[k]); sink += iv[k];
            if (hwloc_memattr_get_value(t, id, tg[j], &locs[k], 0, &v) == 0) sink += v;
            hwloc_obj_t best = NULL;
            if (k < 2 && hwloc_memattr_get_best_target(t, id, &locs[k], 0, &best, &v) == 0 && best) sink += best->gp_index;
            struct hwloc_location bi;
            if (k == 0 && hwloc_memattr_get_best_initiator(t, id, tg[j], 0, &bi, &v) == 0) touch_location(&bi);
          }
        }
      }
    } }

  /* cpu kinds */
  { int nk = hwloc_cpukinds_get_nr(t, 0);
    hwloc_bitmap_t set = hwloc_bitmap_alloc();
    for (int k = 0; k < nk; k++) {
      int eff = 0; struct hwloc_infos_s *infos = NULL;
      if (hwloc_cpukinds_get_info(t, k, set, &eff, &infos, 0) == 0) { walk_infos(infos); sink += hwloc_bitmap_weight(set) + eff; }
    }
    hwloc_bitmap_free(set);
    sink += hwloc_cpukinds_get_by_cpuset(t, hwloc_get_root_obj(t)->cpuset, 0);
    hwloc_obj_t pu = NULL; int c = 0;
    while ((pu = hwloc_get_next_obj_by_type(t, HWLOC_OBJ_PU, pu)) != NULL && c++ < 4) sink += hwloc_cpukinds_get_by_cpuset(t, pu->cpuset, 0); }

  /* types and sets */
  for (int ty = 0; ty < HWLOC_OBJ_TYPE_MAX; ty++) { sink += hwloc_get_nbobjs_by_type(t, (hwloc_obj_type_t) ty); sink += hwloc_get_type_depth(t, (hwloc_obj_type_t) ty); }
  sink += hwloc_bitmap_weight(hwloc_topology_get_topology_cpuset(t)) + hwloc_bitmap_weight(hwloc_topology_get_complete_cpuset(t))
        + hwloc_bitmap_weight(hwloc_topology_get_allowed_cpuset(t)) + hwloc_bitmap_weight(hwloc_topology_get_topology_nodeset(t))
        + hwloc_bitmap_weight(hwloc_topology_get_complete_nodeset(t)) + hwloc_bitmap_weight(hwloc_topology_get_allowed_nodeset(t));

  /* synthetic export */
  { char sb[4096];
    /* F72 (open): the importer keeps whatever type the root <object> has; with a NUMANode (memory) root
     * hwloc_topology_export_synthetic() aborts in hwloc_check_memory_symmetric (topology-synthetic.c:1547, assert(node)).
     * Exact predicate on the LOADED topology: root is not a Machine -> synthetic export skipped unless VERIF_INCLUDE_F72=1. */
    /* memcache-leaf (F77, fixed by ba284ff, exercised on every such topology now; it was a crash consequence of the known class F05w = the importer has no validity gate, here: a MemCache whose
     * nodeset is not that of NUMA nodes below it; found while widening C06 for the distances-list class, corpus/xmlload/
     * open-memcache-leaf.B.xml): the importer accepts a memory child chain that does not end in a NUMANode (e.g. a childless
     * <object type="MemCache"/>, filters KEEP_ALL); hwloc_topology_export_synthetic() then aborts in
     * hwloc__export_synthetic_memory_children (topology-synthetic.c:1523, assert(numanode)).  Predicate on the LOADED topology,
     * mirroring that loop: some memory child of a normal object whose memory_first_child chain has no NUMANode -> synthetic export
     * skipped unless VERIF_INCLUDE_F05W=1 (or VERIF_INCLUDE_MEMCACHE_LEAF=1). */
    int mcleaf = 0;
    for (int d = 0; d < depth && !mcleaf; d++) {
      hwloc_obj_t o = NULL;
      while (!mcleaf && (o = hwloc_get_next_obj_by_depth(t, d, o)) != NULL)
        for (hwloc_obj_t mc = o->memory_first_child; mc && !mcleaf; mc = mc->next_sibling) {
          hwloc_obj_t n = mc; unsigned guard = 0;
          while (n && n->type != HWLOC_OBJ_NUMANODE && guard++ < 100000) n = n->memory_first_child;
          if (!n) mcleaf = 1;
        }
    }
    if (hwloc_get_root_obj(t)->type != HWLOC_OBJ_MACHINE && 0 /* F72 fixed in /repo */) n_f72++;
    else if (mcleaf && 0 /* F77 fixed in /repo (ba284ff): the export returns -1/EINVAL */) n_mcleaf++;
    else {
    int r = hwloc_topology_export_synthetic(t, sb, sizeof sb, 0); if (r >= 0) sink += strlen(sb);
    r = hwloc_topology_export_synthetic(t, sb, sizeof sb, HWLOC_TOPOLOGY_EXPORT_SYNTHETIC_FLAG_NO_EXTENDED_TYPES | HWLOC_TOPOLOGY_EXPORT_SYNTHETIC_FLAG_NO_ATTRS | HWLOC_TOPOLOGY_EXPORT_SYNTHETIC_FLAG_IGNORE_MEMORY);
    if (r >= 0) sink += strlen(sb); } }

  /* XML export, v2 and v3; re-import of the v3 export */
  { char *xb = NULL; int xl = 0;
    if (hwloc_topology_export_xmlbuffer(t, &xb, &xl, HWLOC_TOPOLOGY_EXPORT_XML_FLAG_V2) == 0) { sink += strlen(xb); hwloc_free_xmlbuffer(t, xb); }
    xb = NULL;
    if (hwloc_topology_export_xmlbuffer(t, &xb, &xl, 0) < 0) die("v3 XML export of a loaded topology failed (errno %d)", errno);
    if (xl <= 0 || (size_t) xl != strlen(xb) + 1) die("export_xmlbuffer: buflen %d but strlen %zu", xl, strlen(xb));
    if (caseid) {
      char tag[80]; snprintf(tag, sizeof tag, "%sr", caseid);
      int kc = known_class((unsigned char *) xb, xl - 1, 'B', xflags, 0);
      if (!kc) {
        hwloc_topology_t t2;
        if (hwloc_topology_init(&t2) < 0) die("init");
        configure(t2, xflags, 0);
        if (hwloc_topology_set_xmlbuffer(t2, xb, xl) < 0 || hwloc_topology_load(t2) < 0) {
          fprintf(stderr, "---- exported document that does not load ----\n%.*s\n----\n", xl > 6000 ? 6000 : xl, xb);
          die("re-import of the v3 export failed");
        }
        if (!g_nodump) { dump_topology(fdump, t2, tag); fflush(fdump); }
        hwloc_topology_destroy(t2);
      }
    }
    hwloc_free_xmlbuffer(t, xb); }

  /* dup.  F70 (open): the importer accepts a memory object below a NUMANode (only MemCache may have memory children);
   * hwloc_topology_dup() of such a topology returns a topology rooted at the inner NUMANode and leaks the other objects.
   * Exact predicate on the LOADED topology; the dup is skipped for it unless VERIF_INCLUDE_F70=1. */
  int f70 = 0;
  { hwloc_obj_t n = NULL; while ((n = hwloc_get_next_obj_by_type(t, HWLOC_OBJ_NUMANODE, n)) != NULL) if (n->memory_arity || n->memory_first_child) f70 = 1; }
  if (f70 && 0 /* F70 fixed in /repo */) { n_f70++; }
  else if (caseid) {
    hwloc_topology_t t2 = NULL; char tag[80]; snprintf(tag, sizeof tag, "%sd", caseid);
    if (hwloc_topology_dup(&t2, t) < 0) die("hwloc_topology_dup failed (errno %d)", errno);
    if (!g_nodump) { dump_topology(fdump, t2, tag); fflush(fdump); }
    hwloc_topology_destroy(t2);
  }
}

/* ------------------------------------------------------------------ distances elements: finder, retargeting, oracle, list probe */
struct delem { size_t s, e; int hetero; };     /* [s,e) = `<distances2…>` … `</distances2…>` */
static unsigned find_delems(const unsigned char *p, size_t n, struct delem *out, unsigned cap) {
  unsigned cnt = 0; size_t i = 0;
  while (i + 12 < n) {
    const unsigned char *q = xmemmem(p + i, n - i, "<distances2");
    if (!q) break;
    size_t s = q - p; int het = s + 17 <= n && !memcmp(p + s + 11, "hetero", 6);
    const char *close = het ? "</distances2hetero>" : "</distances2>";
    size_t after = s + 11 + (het ? 6 : 0);
    if (after >= n || p[after] != ' ') { i = s + 11; continue; }
    const unsigned char *e = xmemmem(q, n - s, close);
    if (!e) break;
    if (cnt < cap) { out[cnt].s = s; out[cnt].e = (size_t) (e - p) + strlen(close); out[cnt].hetero = het; }
    cnt++; i = (size_t) (e - p) + strlen(close);
  }
  return cnt;
}
/* next `<tag length="L">content</tag>` child in [from,to): positions of the length digits and of the content; 0 if none / malformed */
static int next_array_child(const unsigned char *p, size_t from, size_t to, const char *tag, size_t *ls, size_t *ll, size_t *cs, size_t *cl, size_t *next) {
  char open[40]; snprintf(open, sizeof open, "<%s length=\"", tag);
  if (from >= to) return 0;
  const unsigned char *q = xmemmem(p + from, to - from, open);
  if (!q) return 0;
  size_t a = (size_t) (q - p) + strlen(open), b = a;
  while (b < to && isdigit(p[b])) b++;
  if (b == a || b + 2 > to || p[b] != '"' || p[b + 1] != '>') return 0;
  size_t c = b + 2, d = c;
  while (d < to && p[d] != '<') d++;
  if (d >= to) return 0;
  *ls = a; *ll = b - a; *cs = c; *cl = d - c; *next = d;
  return 1;
}
/* retarget the <indexes> of the j-th distances element: mode 0 = every index -> non-existing object, 1 = all but one,
 * 2 = some of them, at least 2 stay valid and (if there are >= 3) at least one goes.  Returns the number of index tokens or -1. */
static int retarget_elem(struct buf *b, unsigned j, int mode) {
  struct delem de[16]; unsigned nd = find_delems(b->p, b->n, de, 16);
  if (j >= nd || j >= 16) return -1;
  size_t s = de[j].s, e = de[j].e, pos, ls, ll, cs, cl, nx;
  unsigned ntok = 0;
  for (pos = s; next_array_child(b->p, pos, e, "indexes", &ls, &ll, &cs, &cl, &nx); pos = nx)
    for (size_t i = cs; i < cs + cl; i++) if (b->p[i] != ' ' && (i == cs || b->p[i - 1] == ' ')) ntok++;
  if (!ntok || ntok > 4096) return -1;
  unsigned char *inv = calloc(ntok, 1);
  if (mode == 0) memset(inv, 1, ntok);
  else if (mode == 1) { memset(inv, 1, ntok); inv[rng_below(ntok)] = 0; }
  else if (ntok >= 3) {
    unsigned nvalid = ntok;
    for (unsigned i = 0; i < ntok; i++) if (nvalid > 2 && rng_chance(40)) { inv[i] = 1; nvalid--; }
    if (nvalid == ntok) inv[rng_below(ntok)] = 1;
  }
  struct buf ne = {0}; b_set(&ne, "", 0);
  size_t copied = s; unsigned k = 0;
  for (pos = s; next_array_child(b->p, pos, e, "indexes", &ls, &ll, &cs, &cl, &nx); pos = nx) {
    char content[8192]; size_t cn = 0; size_t i = cs;
    while (i < cs + cl && cn + 64 < sizeof content) {
      if (b->p[i] == ' ') { content[cn++] = ' '; i++; continue; }
      size_t te = i; while (te < cs + cl && b->p[te] != ' ') te++;
      size_t colon = i; { const unsigned char *c = memchr(b->p + i, ':', te - i); colon = c ? (size_t) (c - b->p) + 1 : i; }
      if (k < ntok && inv[k] && te - colon < 24) {
        char num[32]; memcpy(num, b->p + colon, te - colon); num[te - colon] = 0;
        unsigned long long v = strtoull(num, NULL, 10);
        memcpy(content + cn, b->p + i, colon - i); cn += colon - i;
        unsigned r = rng_below(10);
        if (r < 7) cn += sprintf(content + cn, "%llu", v + 1000000ULL);
        else if (r < 9) cn += sprintf(content + cn, "%llu", 3000000000ULL + k);       /* > INT_MAX, < 2^32 */
        else cn += sprintf(content + cn, "%llu", 77777777777ULL + k);                 /* > 2^32 (low 32 bits: 474,301,649+k, no such os_index) */
      } else { if (te - i > 200) { free(inv); free(ne.p); return -1; } memcpy(content + cn, b->p + i, te - i); cn += te - i; }
      k++; i = te;
    }
    char lenstr[24]; int lenn = sprintf(lenstr, "%zu", cn);
    b_splice(&ne, ne.n, 0, b->p + copied, ls - copied);
    b_splice(&ne, ne.n, 0, lenstr, lenn);
    b_splice(&ne, ne.n, 0, b->p + ls + ll, cs - (ls + ll));
    b_splice(&ne, ne.n, 0, content, cn);
    copied = cs + cl;
  }
  b_splice(&ne, ne.n, 0, b->p + copied, e - copied);
  b_splice(b, s, e - s, ne.p, ne.n);
  free(ne.p); free(inv);
  return (int) ntok;
}

/* gp_index lookup exactly as hwloc_get_obj_by_type_and_gp_index(), through the public API */
static hwloc_obj_t obj_by_type_gp(hwloc_topology_t t, hwloc_obj_type_t type, unsigned long long gp) {
  int depth = hwloc_get_type_depth(t, type);
  if (depth == HWLOC_TYPE_DEPTH_UNKNOWN) return NULL;
  if (depth == HWLOC_TYPE_DEPTH_MULTIPLE) {
    int top = hwloc_topology_get_depth(t);
    for (depth = 1; depth < top - 1; depth++) if (hwloc_get_depth_type(t, depth) == type) {
      hwloc_obj_t o = NULL; while ((o = hwloc_get_next_obj_by_depth(t, depth, o)) != NULL) if (o->gp_index == gp) return o;
    }
    return NULL;
  }
  hwloc_obj_t o = NULL; while ((o = hwloc_get_next_obj_by_depth(t, depth, o)) != NULL) if (o->gp_index == gp) return o;
  return NULL;
}
static int all_digits(const unsigned char *p, size_t n, size_t maxlen) {
  if (!n || n > maxlen || (n > 1 && p[0] == '0')) return 0;
  for (size_t i = 0; i < n; i++) if (!isdigit(p[i])) return 0;
  return 1;
}
struct dexp { char name[64]; int has_name; unsigned nb; hwloc_obj_t objs[64]; unsigned long long *vals; unsigned long kind; };
/* Oracle of the distances-list class.  Applies to documents whose distances elements ALL have exactly the exporter's shape
 * (attributes type/nbobjs/kind/name/indexing once each, plain decimal numbers, children <indexes>/<u64values> only, lengths
 * right, nbobjs / nbobjs^2 tokens); anything else: returns -1 (no opinion).  Otherwise the list hwloc_distances_get() must return
 * = for each element in document order: ignored if nbobjs < 2, if its indexing does not fit its type, or under NO_DISTANCES; its
 * indexes resolved in the LOADED topology (PU/NUMANode: os_index truncated to unsigned; else (type, gp_index)); dropped when fewer
 * than 2 objects exist; else kept with the existing objects in order and the corresponding sub-matrix.  Returns #kept. */
static int dist_oracle(hwloc_topology_t t, const unsigned char *p, size_t n, unsigned long xflags, char *pattern, size_t patcap) {
  struct delem de[16]; unsigned nd = find_delems(p, n, de, 16);
  static struct dexp ex[16]; unsigned nex = 0; int rc = -1;
  if (nd > 16) return -1;
  /* the elements must be direct children of <topology>: no <object> may be open at their position (cheap exact test on the
   * exporter's layout: 2 spaces of indentation) */
  for (unsigned j = 0; j < nd; j++) ex[j].vals = NULL;
  if (patcap) pattern[0] = 0;
  for (unsigned j = 0; j < nd; j++) {
    size_t s = de[j].s, e = de[j].e;
    if (s < 3 || memcmp(p + s - 3, "\n  ", 3)) goto out;
    size_t i = s + 11 + (de[j].hetero ? 6 : 0);
    char type[32] = "", indexing[8] = "", name[64] = ""; int has_name = 0, has_type = 0, has_idx = 0, has_nb = 0, has_kind = 0;
    unsigned long nbobjs = 0, kind = 0;
    while (i < e && p[i] == ' ') {
      size_t a = ++i; while (i < e && name_char(p[i])) i++;
      if (i == a || i + 1 >= e || p[i] != '=' || p[i + 1] != '"') goto out;
      size_t vs = i + 2; const unsigned char *q = memchr(p + vs, '"', e - vs); if (!q) goto out;
      size_t vl = (size_t) (q - (p + vs)); i = vs + vl + 1;
      if (memchr(p + vs, '&', vl) || memchr(p + vs, '<', vl) || memchr(p + vs, '>', vl)) goto out;
      size_t al = vs - 2 - a;
#define IS(nm) (al == strlen(nm) && !memcmp(p + a, nm, al))
      if (IS("type")) { if (has_type++ || vl >= sizeof type || de[j].hetero) goto out; memcpy(type, p + vs, vl); type[vl] = 0; }
      else if (IS("nbobjs")) { if (has_nb++ || !all_digits(p + vs, vl, 5)) goto out; nbobjs = strtoul((const char *) p + vs, NULL, 10); }
      else if (IS("kind")) { if (has_kind++ || !all_digits(p + vs, vl, 9)) goto out; kind = strtoul((const char *) p + vs, NULL, 10); }
      else if (IS("name")) { if (has_name++ || vl >= sizeof name) goto out; memcpy(name, p + vs, vl); name[vl] = 0; }
      else if (IS("indexing")) { if (has_idx++ || vl >= sizeof indexing || de[j].hetero) goto out; memcpy(indexing, p + vs, vl); indexing[vl] = 0; }
      else goto out;
#undef IS
    }
    if (i >= e || p[i] != '>') goto out;
    i++;
    if (!has_nb || !has_kind || nbobjs < 1 || nbobjs > 64) goto out;
    hwloc_obj_type_t uty = HWLOC_OBJ_TYPE_NONE;
    if (!de[j].hetero) {
      if (!has_type || !has_idx || (strcmp(indexing, "os") && strcmp(indexing, "gp"))) goto out;
      if (hwloc_type_sscanf(type, &uty, NULL, 0) < 0 || strcmp(type, hwloc_obj_type_string(uty))) goto out;
    }
    /* children */
    unsigned long long idx[64]; hwloc_obj_type_t tys[64]; unsigned nidx = 0, nval = 0;
    unsigned long long *vals = malloc(sizeof *vals * nbobjs * nbobjs);
    ex[nex].vals = vals;   /* freed at out */
    size_t closelen = de[j].hetero ? 19 : 13;
    while (1) {
      while (i < e - closelen && (p[i] == ' ' || p[i] == '\n')) i++;
      if (i >= e - closelen) break;
      int isidx = e - i > 9 && !memcmp(p + i, "<indexes ", 9), isval = e - i > 11 && !memcmp(p + i, "<u64values ", 11);
      if (!isidx && !isval) goto out;
      size_t ls, ll, cs, cl, nx;
      if (!next_array_child(p, i, e, isidx ? "indexes" : "u64values", &ls, &ll, &cs, &cl, &nx) || ls != i + (isidx ? 17 : 19)) goto out;
      if (!all_digits(p + ls, ll, 6) || strtoul((const char *) p + ls, NULL, 10) != cl) goto out;
      const char *closetag = isidx ? "</indexes>" : "</u64values>";
      if (nx + strlen(closetag) > e || memcmp(p + nx, closetag, strlen(closetag))) goto out;
      /* tokens: each followed by exactly one space */
      size_t k = cs;
      while (k < cs + cl) {
        size_t te = k; while (te < cs + cl && p[te] != ' ') te++;
        if (te == k || te >= cs + cl) goto out;       /* empty token / no trailing space */
        if (isidx) {
          if (nidx >= nbobjs) goto out;
          size_t num = k;
          if (de[j].hetero) {
            const unsigned char *c = memchr(p + k, ':', te - k); if (!c) goto out;
            char tn[32]; size_t tl = (size_t) (c - (p + k)); if (tl >= sizeof tn) goto out; memcpy(tn, p + k, tl); tn[tl] = 0;
            if (hwloc_type_sscanf(tn, &tys[nidx], NULL, 0) < 0 || strcmp(tn, hwloc_obj_type_string(tys[nidx]))) goto out;
            num = k + tl + 1;
          } else tys[nidx] = uty;
          if (!all_digits(p + num, te - num, 19)) goto out;
          idx[nidx++] = strtoull((const char *) p + num, NULL, 10);
        } else {
          if (nval >= nbobjs * nbobjs || !all_digits(p + k, te - k, 19)) goto out;
          vals[nval++] = strtoull((const char *) p + k, NULL, 10);
        }
        k = te + 1;
      }
      i = nx + strlen(closetag);
    }
    if (nidx != nbobjs || nval != nbobjs * nbobjs) goto out;
    /* semantics of hwloc__xml_import_distances + hwloc_internal_distances_refresh_one */
    int ignored = 0;
    if (nbobjs < 2) ignored = 1;
    else if (!de[j].hetero) { int os = uty == HWLOC_OBJ_PU || uty == HWLOC_OBJ_NUMANODE; if (os != !strcmp(indexing, "os")) ignored = 1; }
    if (xflags & HWLOC_TOPOLOGY_FLAG_NO_DISTANCES) ignored = 1;
    struct dexp *x = &ex[nex];
    x->nb = 0; x->has_name = has_name; strcpy(x->name, name); x->kind = kind;
    if (!ignored) {
      unsigned char live[64];
      for (unsigned a = 0; a < nbobjs; a++) {
        hwloc_obj_t o;
        if (!de[j].hetero && uty == HWLOC_OBJ_PU) o = hwloc_get_pu_obj_by_os_index(t, (unsigned) idx[a]);
        else if (!de[j].hetero && uty == HWLOC_OBJ_NUMANODE) o = hwloc_get_numanode_obj_by_os_index(t, (unsigned) idx[a]);
        else o = obj_by_type_gp(t, tys[a], idx[a]);
        live[a] = o != NULL;
        if (o) x->objs[x->nb++] = o;
      }
      if (x->nb >= 2) {   /* kept: compact the values in place (row-major over the live indexes) */
        unsigned w = 0;
        for (unsigned a = 0; a < nbobjs; a++) if (live[a]) for (unsigned c = 0; c < nbobjs; c++) if (live[c]) vals[w++] = vals[a * nbobjs + c];
      }
    }
    if (j < patcap - 1) { pattern[j] = (ignored || x->nb < 2) ? '1' : '0'; pattern[j + 1] = 0; }
    if (!ignored && x->nb >= 2) nex++; else { free(vals); ex[nex].vals = NULL; }
  }
  /* compare with the public view */
  { struct hwloc_distances_s *ds[64]; unsigned nr = 64;
    if (hwloc_distances_get(t, &nr, ds, 0, 0) < 0) die("distances oracle: hwloc_distances_get failed (errno %d)", errno);
    if (nr != nex) die("distances oracle: %u matrices after load, expected %u (drop pattern %s)", nr, nex, patcap ? pattern : "?");
    for (unsigned k = 0; k < nr; k++) {
      struct hwloc_distances_s *d = ds[k]; struct dexp *x = &ex[k];
      const char *nm = hwloc_distances_get_name(t, d);
      if ((nm != NULL) != (x->has_name != 0) || (nm && strcmp(nm, x->name))) die("distances oracle: matrix %u is named %s, expected %s (drop pattern %s)", k, nm ? nm : "(null)", x->has_name ? x->name : "(null)", pattern);
      if (d->nbobjs != x->nb) die("distances oracle: matrix %u (%s) has %u objects, expected %u", k, nm ? nm : "", d->nbobjs, x->nb);
      for (unsigned a = 0; a < x->nb; a++) if (d->objs[a] != x->objs[a]) die("distances oracle: matrix %u (%s) object %u is not the expected one", k, nm ? nm : "", a);
      for (unsigned a = 0; a < x->nb * x->nb; a++) if (d->values[a] != x->vals[a]) die("distances oracle: matrix %u (%s) value %u is %llu, expected %llu", k, nm ? nm : "", a, (unsigned long long) d->values[a], x->vals[a]);
      if ((d->kind ^ x->kind) & ~(unsigned long) (HWLOC_DISTANCES_KIND_VALUE_LATENCY | HWLOC_DISTANCES_KIND_VALUE_HOPS | HWLOC_DISTANCES_KIND_HETEROGENEOUS_TYPES)) die("distances oracle: matrix %u (%s) kind %lu, expected %lu", k, nm ? nm : "", d->kind, x->kind);
    }
    for (unsigned k = 0; k < nr; k++) hwloc_distances_release(t, ds[k]); }
  rc = (int) nex;
out:
  for (unsigned j = 0; j < 16; j++) { free(ex[j].vals); ex[j].vals = NULL; }
  return rc;
}

/* Exercise the links of the internal distances list through the public API (the topology is destroyed right afterwards):
 * append a matrix (uses last_dist), remove the first one and the appended one (prev/next/first_dist/last_dist), remove all. */
struct dsig { char name[64]; int has_name; unsigned nb; unsigned long kind; hwloc_uint64_t v0; };
static unsigned dist_sigs(hwloc_topology_t t, struct dsig *sg, struct hwloc_distances_s **keep_first, struct hwloc_distances_s **keep_last) {
  struct hwloc_distances_s *ds[64]; unsigned nr = 64;
  if (hwloc_distances_get(t, &nr, ds, 0, 0) < 0) die("distances probe: hwloc_distances_get failed");
  if (nr > 64) { unsigned all = nr; nr = 64; (void) all; }
  for (unsigned k = 0; k < nr; k++) {
    const char *nm = hwloc_distances_get_name(t, ds[k]);
    sg[k].has_name = nm != NULL; snprintf(sg[k].name, sizeof sg[k].name, "%s", nm ? nm : "");
    sg[k].nb = ds[k]->nbobjs; sg[k].kind = ds[k]->kind; sg[k].v0 = ds[k]->nbobjs ? ds[k]->values[ds[k]->nbobjs > 1 ? 1 : 0] : 0;
    if ((keep_first && k == 0) || (keep_last && k == nr - 1 && !(keep_first && k == 0))) continue;
    hwloc_distances_release(t, ds[k]);
  }
  if (keep_first) *keep_first = nr ? ds[0] : NULL;
  if (keep_last) *keep_last = nr > (keep_first ? 1u : 0u) ? ds[nr - 1] : NULL;
  return nr;
}
static int dsig_eq(const struct dsig *a, const struct dsig *b) { return a->has_name == b->has_name && !strcmp(a->name, b->name) && a->nb == b->nb && a->kind == b->kind && a->v0 == b->v0; }
static void dist_list_probe(hwloc_topology_t t) {
  static struct dsig s0[64], s1[65], s2[64];
  unsigned n0 = dist_sigs(t, s0, NULL, NULL);
  if (n0 > 60) return;
  unsigned npu = hwloc_get_nbobjs_by_type(t, HWLOC_OBJ_PU);
  if (npu < 2) return;
  hwloc_obj_t objs[2] = { hwloc_get_obj_by_type(t, HWLOC_OBJ_PU, 0), hwloc_get_obj_by_type(t, HWLOC_OBJ_PU, npu - 1) };
  hwloc_uint64_t vals[4] = { 1, 424242, 424243, 1 };
  if (!objs[0] || !objs[1] || objs[0] == objs[1]) return;
  hwloc_distances_add_handle_t h = hwloc_distances_add_create(t, "verif-probe", HWLOC_DISTANCES_KIND_FROM_USER | HWLOC_DISTANCES_KIND_VALUE_BANDWIDTH, 0);
  if (!h) return;
  if (hwloc_distances_add_values(t, h, 2, objs, vals, 0) < 0) return;
  if (hwloc_distances_add_commit(t, h, 0) < 0) return;
  struct hwloc_distances_s *first = NULL, *last = NULL;
  unsigned n1 = dist_sigs(t, s1, &first, &last);
  if (n1 != n0 + 1) die("distances probe: %u matrices after appending one to %u", n1, n0);
  for (unsigned k = 0; k < n0; k++) if (!dsig_eq(&s0[k], &s1[k])) die("distances probe: matrix %u changed after an append", k);
  if (strcmp(s1[n0].name, "verif-probe") || s1[n0].nb != 2 || s1[n0].v0 != 424242) die("distances probe: the appended matrix is not the last one");
  /* remove the first one (if it is not the probe), then the probe (the last one) */
  if (n0 >= 1) {
    if (hwloc_distances_release_remove(t, first) < 0) die("distances probe: release_remove(first) failed");
    unsigned n2 = dist_sigs(t, s2, NULL, NULL);
    if (n2 != n0) die("distances probe: %u matrices after removing the first of %u", n2, n1);
    for (unsigned k = 0; k < n2; k++) if (!dsig_eq(&s1[k + 1], &s2[k])) die("distances probe: matrix %u wrong after removing the first", k);
    if (hwloc_distances_release_remove(t, last) < 0) die("distances probe: release_remove(last) failed");
    n2 = dist_sigs(t, s2, NULL, NULL);
    if (n2 != n0 - 1) die("distances probe: %u matrices after removing first and last of %u", n2, n1);
    for (unsigned k = 0; k < n2; k++) if (!dsig_eq(&s1[k + 1], &s2[k])) die("distances probe: matrix %u wrong after removing first and last", k);
  } else {
    if (hwloc_distances_release_remove(t, first) < 0) die("distances probe: release_remove(only) failed");
    if (dist_sigs(t, s2, NULL, NULL) != 0) die("distances probe: list not empty after removing the only matrix");
  }
  if (hwloc_distances_remove(t) < 0) die("distances probe: hwloc_distances_remove failed");
  if (dist_sigs(t, s2, NULL, NULL) != 0) die("distances probe: list not empty after hwloc_distances_remove");
}

static void fresh_topology_check(void) {
  hwloc_topology_t t;
  if (hwloc_topology_init(&t) < 0) die("init after failure");
  if (hwloc_topology_set_xmlbuffer(t, (char *) valid_doc.p, (int) valid_doc.n + 1) < 0) die("set_xmlbuffer(valid doc) failed after an earlier failure");
  if (hwloc_topology_load(t) < 0) die("load(valid doc) failed after an earlier failure");
  hwloc_topology_destroy(t);
}

static void walk_diff(hwloc_topology_diff_t d) {
  unsigned long n = 0;
  for (; d; d = d->generic.next) {
    if (++n > 10000000) die("diff list does not end");
    sink += d->generic.type;
    if (d->generic.type == HWLOC_TOPOLOGY_DIFF_OBJ_ATTR) {
      sink += d->obj_attr.obj_depth + d->obj_attr.obj_index + d->obj_attr.diff.generic.type;
      switch (d->obj_attr.diff.generic.type) {
      case HWLOC_TOPOLOGY_DIFF_OBJ_ATTR_SIZE: sink += d->obj_attr.diff.uint64.oldvalue + d->obj_attr.diff.uint64.newvalue + d->obj_attr.diff.uint64.index; break;
      case HWLOC_TOPOLOGY_DIFF_OBJ_ATTR_INFO: if (d->obj_attr.diff.string.name) sink += strlen(d->obj_attr.diff.string.name); /* FALLTHRU */
      case HWLOC_TOPOLOGY_DIFF_OBJ_ATTR_NAME:
        if (d->obj_attr.diff.string.oldvalue) sink += strlen(d->obj_attr.diff.string.oldvalue);
        if (d->obj_attr.diff.string.newvalue) sink += strlen(d->obj_attr.diff.string.newvalue);
        break;
      default: break;
      }
    } else if (d->generic.type == HWLOC_TOPOLOGY_DIFF_TOO_COMPLEX) sink += d->too_complex.obj_depth + d->too_complex.obj_index;
  }
}

/* returns 1 loaded, 2 failed cleanly, or the class letter when skipped.  `path` = file holding exactly the bytes. */
/* poor man's MSan for pointers: fill the stack area the library is about to use with 0x5a so that an uninitialised local pointer
 * (e.g. the former F05n: `tag` in hwloc_nolibxml_import_diff) is a wild pointer that faults instead of a stale valid one */
static void __attribute__((noinline)) poison_stack(void) {
  volatile unsigned char a[32768];
  memset((void *) a, 0x5a, sizeof a);
  sink += a[4097];
}

static int run_case(const char *caseid, const unsigned char *bytes, size_t len, char mode, unsigned long xflags, int u, const char *path, int size_override, int have_override) {
  alarm(60);   /* generous: the machine is shared and the build is ASan; an unreproduced hit is not reported */
  /* exact-size heap copy so that ASan sees the real bounds */
  unsigned char *copy = malloc(len + 1);
  memcpy(copy, bytes, len); copy[len] = 0;
  int kc = have_override ? 0 : known_class(copy, len, mode, xflags, u);
  if (kc) { free(copy); alarm(0); return kc; }
  int size = have_override ? size_override : (int) len + 1;
  int ok = 0;
  if (mode == 'D') {
    hwloc_topology_diff_t diff = NULL; char *refname = NULL;
    poison_stack();
    int r = hwloc_topology_diff_load_xmlbuffer((char *) copy, size, &diff, &refname);
    free(copy);
    if (r != 0 && r != -1) die("diff_load_xmlbuffer returned %d", r);
    if (r == 0 && have_override && size <= 0) die("diff_load_xmlbuffer accepted a buffer of size %d", size);
    if (r == 0) { walk_diff(diff); if (refname) sink += strlen(refname); hwloc_topology_diff_destroy(diff); free(refname); ok = 1; }
    else { if (diff) die("diff_load_xmlbuffer failed but returned a list"); }
  } else {
    hwloc_topology_t t;
    if (hwloc_topology_init(&t) < 0) die("init");
    configure(t, xflags, u);
    int r;
    poison_stack();
    if (mode == 'F') { r = hwloc_topology_set_xml(t, path); free(copy); }
    else { r = hwloc_topology_set_xmlbuffer(t, (char *) copy, size); free(copy); /* both back ends copy/parse at set time */ }
    if (r != 0 && r != -1) die("set_xml* returned %d", r);
    if (r == 0 && mode != 'F' && have_override && size <= 0) die("set_xmlbuffer accepted a buffer of size %d", size);
    if (r == 0) { poison_stack(); r = hwloc_topology_load(t); if (r != 0 && r != -1) die("load returned %d", r); }
    if (r == 0) {
      g_nodump = has_huge_gp(t); if (g_nodump) n_hugegp++;
      if (!g_nodump) { dump_topology(fdump, t, caseid); fflush(fdump); }
      g_distpat[0] = 0;
      if (g_distoracle && !have_override) { if (dist_oracle(t, bytes, len, xflags, g_distpat, sizeof g_distpat) >= 0) n_oracle++; else { n_oracle_noopinion++; g_distpat[0] = 0; } }
      battery(t, caseid, xflags);
      dist_list_probe(t); n_probe++;      /* modifies the distances of t: last */
      ok = 1;
    } else if (valid_doc.n && (g_force_reconf || (n_reconf_try++ & 3) == 0)) {
      const struct buf *vd = (valid_side_doc.n && (g_force_reconf || (n_reconf_try & 4))) ? &valid_side_doc : &valid_doc;
      /* "On failure, the topology is reinitialized. It should be either destroyed or configured and loaded again" (hwloc.h): every
       * fourth failed set / load is followed by a valid document given to THE SAME topology, which must load (fix F81) */
      if (hwloc_topology_set_xmlbuffer(t, (char *) vd->p, (int) vd->n + 1) < 0) die("case %s: set_xmlbuffer(valid doc) on the topology whose set/load just failed: refused", caseid);
      if (hwloc_topology_load(t) < 0) die("case %s: load(valid doc) on the topology whose set/load just failed: failed", caseid);
      if (hwloc_get_nbobjs_by_type(t, HWLOC_OBJ_PU) < 1) die("case %s: reloaded topology has no PU", caseid);
      if (vd == &valid_side_doc && !(hwloc_topology_get_flags(t) & HWLOC_TOPOLOGY_FLAG_NO_CPUKINDS) && hwloc_cpukinds_get_nr(t, 0) < 1) die("case %s: reloaded topology lost its CPU kinds", caseid);
      n_reconf_ok++;
    }
    hwloc_topology_destroy(t);
  }
  if (!ok) { if ((nfail++ & 15) == 0 && valid_doc.n) fresh_topology_check(); }
  alarm(0);
  return ok ? 1 : 2;
}

/* run_case + attribution of leaks to the case: LeakSanitizer only runs when the heap grew over the case */
static int run_case_lc(const char *caseid, const unsigned char *bytes, size_t len, char mode, unsigned long xflags, int u, const char *path, int size_override, int have_override) {
  size_t before = __sanitizer_get_current_allocated_bytes();
  unsigned fds_before = 0, fds_after = 0;
  for (int fd = 0; fd < 1024; fd++) if (fcntl(fd, F_GETFD) != -1) fds_before++;
  int r = run_case(caseid, bytes, len, mode, xflags, u, path, size_override, have_override);
  if (__sanitizer_get_current_allocated_bytes() > before && __lsan_do_recoverable_leak_check()) die("memory leaked by case %s", caseid);
  for (int fd = 0; fd < 1024; fd++) if (fcntl(fd, F_GETFD) != -1) fds_after++;
  if (fds_after != fds_before) die("file descriptor leaked by case %s (%u open before, %u after)", caseid, fds_before, fds_after);
  return r;
}

/* ------------------------------------------------------------------ seed documents */
struct doc { unsigned char *p; size_t n; int isdiff; int trusted; /* exported by this process: must load */ };
static struct doc *docs; static unsigned ndocs, ndiffdocs;
static void add_doc(const void *p, size_t n, int isdiff, int trusted) {
  if (!n || n > 65536) return;
  docs = realloc(docs, (ndocs + 1) * sizeof *docs);
  docs[ndocs].p = malloc(n + 1); memcpy(docs[ndocs].p, p, n); docs[ndocs].p[n] = 0; docs[ndocs].n = n; docs[ndocs].isdiff = isdiff; docs[ndocs].trusted = trusted; ndocs++;
  if (isdiff) ndiffdocs++;
}
static void add_exports(hwloc_topology_t t) {
  for (int v = 0; v < 2; v++) {
    char *xb = NULL; int xl = 0;
    if (hwloc_topology_export_xmlbuffer(t, &xb, &xl, v ? HWLOC_TOPOLOGY_EXPORT_XML_FLAG_V2 : 0) == 0) {
      add_doc(xb, xl - 1, 0, 1);
      if (!v && !valid_doc.n && xl < 20000) b_set(&valid_doc, xb, xl - 1);
      if (!v && !valid_side_doc.n && xl < 40000 && xmemmem((const unsigned char *) xb, (size_t) xl - 1, "<cpukind ")) b_set(&valid_side_doc, xb, xl - 1);
      hwloc_free_xmlbuffer(t, xb);
    }
  }
}
static hwloc_topology_t load_buffer(const unsigned char *p, size_t n, unsigned long xflags) {
  hwloc_topology_t t;
  if (known_class(p, n, 'B', xflags, 0)) return NULL;
  if (hwloc_topology_init(&t) < 0) return NULL;
  configure(t, xflags, 0);
  if (hwloc_topology_set_xmlbuffer(t, (const char *) p, (int) n + 1) < 0 || hwloc_topology_load(t) < 0) { hwloc_topology_destroy(t); return NULL; }
  return t;
}

static void ud_export_cb(void *reserved, hwloc_topology_t t, hwloc_obj_t o) {
  if (o->type != HWLOC_OBJ_PU && o->type != HWLOC_OBJ_MACHINE) return;
  if (o->logical_index == 0) hwloc_export_obj_userdata(reserved, t, o, "ud", "hello world", 11);
  if (o->logical_index == 1) { static const unsigned char bin[7] = {0, 1, 2, 0xff, 0x80, 10, 13}; hwloc_export_obj_userdata_base64(reserved, t, o, NULL, bin, 7); }
  if (o->logical_index == 2) hwloc_export_obj_userdata(reserved, t, o, "empty", "", 0);
  if (o->logical_index == 3) hwloc_export_obj_userdata_base64(reserved, t, o, "b", "xyzw", 4);
}

static void annotate(hwloc_topology_t t, unsigned variant) {
  hwloc_obj_t root = hwloc_get_root_obj(t);
  unsigned npu = hwloc_get_nbobjs_by_type(t, HWLOC_OBJ_PU), nnuma = hwloc_get_nbobjs_by_type(t, HWLOC_OBJ_NUMANODE);
  hwloc_obj_add_info(root, "VerifInfo", "root value");
  hwloc_obj_add_info(hwloc_get_obj_by_type(t, HWLOC_OBJ_PU, 0), "PUInfo", "a&b<c>\"d\"");
  /* NUMA nodes that already carry a subtype, as hwloc exports them on heterogeneous-memory machines: the memory-tier stage of the load
   * (re-run on top of imported subtypes under HWLOC_MEMTIERS_REFRESH / HWLOC_MEMTIERS) must cope with them (C06-r8) */
  if ((variant & 5) && nnuma) {
    static const char *const st[] = {"DRAM", "HBM", "NVM", "SPM", "GPUMemory", "CXL-DRAM", "VerifOdd"};
    for (unsigned i = 0; i < nnuma; i++)
      if ((variant & 4) || i == 0) hwloc_obj_set_subtype(t, hwloc_get_obj_by_type(t, HWLOC_OBJ_NUMANODE, i), st[((variant >> 3) + ((variant & 64) ? i : 0)) % 7]);
  }
  if (variant & 1) {
    hwloc_topology_insert_misc_object(t, root, "misc-root");
    hwloc_obj_t m = hwloc_topology_insert_misc_object(t, hwloc_get_obj_by_type(t, HWLOC_OBJ_PU, npu - 1), "misc-pu");
    if (m) { hwloc_topology_insert_misc_object(t, m, "misc-misc"); hwloc_obj_add_info(m, "MiscInfo", "x"); }
  }
  if ((variant & 2) && npu >= 3) {
    hwloc_obj_t g = hwloc_topology_alloc_group_object(t);
    if (g) {
      hwloc_bitmap_t s = hwloc_bitmap_alloc();
      hwloc_bitmap_or(s, hwloc_get_obj_by_type(t, HWLOC_OBJ_PU, 0)->cpuset, hwloc_get_obj_by_type(t, HWLOC_OBJ_PU, npu - 1)->cpuset);
      hwloc_obj_add_other_obj_sets(g, hwloc_get_obj_by_type(t, HWLOC_OBJ_PU, 0));
      hwloc_obj_add_other_obj_sets(g, hwloc_get_obj_by_type(t, HWLOC_OBJ_PU, npu - 1));
      g->attr->group.kind = 0x7777; g->attr->group.subkind = 3;
      hwloc_bitmap_free(s);
      hwloc_topology_insert_group_object(t, g);
    }
  }
  if (variant & 4) {
    hwloc_obj_type_t ty = nnuma >= 2 ? HWLOC_OBJ_NUMANODE : HWLOC_OBJ_PU;
    unsigned n = hwloc_get_nbobjs_by_type(t, ty); if (n > 6) n = 6;
    if (n >= 2) {
      hwloc_obj_t objs[6]; hwloc_uint64_t vals[36];
      for (unsigned i = 0; i < n; i++) objs[i] = hwloc_get_obj_by_type(t, ty, i);
      for (unsigned i = 0; i < n * n; i++) vals[i] = (i / n == i % n) ? 10 : 20 + i;
      hwloc_distances_add_handle_t h = hwloc_distances_add_create(t, (variant & 8) ? "verifdist" : NULL, HWLOC_DISTANCES_KIND_FROM_USER | ((variant & 16) ? HWLOC_DISTANCES_KIND_VALUE_BANDWIDTH : HWLOC_DISTANCES_KIND_VALUE_LATENCY), 0);
      if (h && hwloc_distances_add_values(t, h, n, objs, vals, 0) == 0) hwloc_distances_add_commit(t, h, 0);
    }
    if (npu >= 2 && hwloc_get_nbobjs_by_type(t, HWLOC_OBJ_CORE) >= 1) {    /* heterogeneous types */
      hwloc_obj_t objs[3]; hwloc_uint64_t vals[9] = {0, 1, 2, 1, 0, 3, 2, 3, 0};
      objs[0] = hwloc_get_obj_by_type(t, HWLOC_OBJ_PU, 0); objs[1] = hwloc_get_obj_by_type(t, HWLOC_OBJ_CORE, 0); objs[2] = hwloc_get_obj_by_type(t, HWLOC_OBJ_PU, npu - 1);
      hwloc_distances_add_handle_t h = hwloc_distances_add_create(t, "verifhetero", HWLOC_DISTANCES_KIND_FROM_USER | HWLOC_DISTANCES_KIND_VALUE_HOPS, 0);
      if (h && hwloc_distances_add_values(t, h, 3, objs, vals, 0) == 0) hwloc_distances_add_commit(t, h, 0);
    }
  }
  if ((variant & 32) && nnuma >= 1) {
    hwloc_memattr_id_t id;
    if (hwloc_memattr_register(t, "verifattr", HWLOC_MEMATTR_FLAG_HIGHER_FIRST, &id) == 0)
      for (unsigned i = 0; i < nnuma && i < 4; i++) hwloc_memattr_set_value(t, id, hwloc_get_obj_by_type(t, HWLOC_OBJ_NUMANODE, i), NULL, 0, 100 + i);
    if (hwloc_memattr_register(t, "verifinit", HWLOC_MEMATTR_FLAG_LOWER_FIRST | HWLOC_MEMATTR_FLAG_NEED_INITIATOR, &id) == 0) {
      struct hwloc_location loc;
      for (unsigned i = 0; i < nnuma && i < 3; i++) {
        loc.type = HWLOC_LOCATION_TYPE_CPUSET; loc.location.cpuset = hwloc_get_obj_by_type(t, HWLOC_OBJ_PU, i % npu)->cpuset;
        hwloc_memattr_set_value(t, id, hwloc_get_obj_by_type(t, HWLOC_OBJ_NUMANODE, i), &loc, 0, 7 + i);
        loc.type = HWLOC_LOCATION_TYPE_OBJECT; loc.location.object = hwloc_get_obj_by_type(t, HWLOC_OBJ_PU, npu - 1);
        hwloc_memattr_set_value(t, id, hwloc_get_obj_by_type(t, HWLOC_OBJ_NUMANODE, i), &loc, 0, 70 + i);
      }
    }
    struct hwloc_location loc; loc.type = HWLOC_LOCATION_TYPE_CPUSET; loc.location.cpuset = root->cpuset;
    hwloc_memattr_set_value(t, HWLOC_MEMATTR_ID_BANDWIDTH, hwloc_get_obj_by_type(t, HWLOC_OBJ_NUMANODE, 0), &loc, 0, 12345);
  }
  if ((variant & 64) && npu >= 2) {
    hwloc_bitmap_t s = hwloc_bitmap_alloc(); struct hwloc_infos_s infos = {0};
    for (unsigned i = 0; i < npu / 2; i++) hwloc_bitmap_or(s, s, hwloc_get_obj_by_type(t, HWLOC_OBJ_PU, i)->cpuset);
    hwloc_cpukinds_register(t, s, 5, NULL, 0);
    hwloc_bitmap_andnot(s, root->cpuset, s);
    hwloc_modify_infos(&infos, HWLOC_MODIFY_INFOS_OP_ADD, "CoreType", "verif-big");
    hwloc_cpukinds_register(t, s, -1, &infos, 0);
    hwloc_modify_infos(&infos, HWLOC_MODIFY_INFOS_OP_REMOVE, NULL, NULL); free(infos.array);
    hwloc_bitmap_free(s);
  }
  if (variant & 128) {
    static int token;
    hwloc_topology_set_userdata_export_callback(t, ud_export_cb);
    root->userdata = &token;
    for (unsigned i = 0; i < npu && i < 4; i++) hwloc_get_obj_by_type(t, HWLOC_OBJ_PU, i)->userdata = &token;
  }
}

static int build_ddoc(struct buf *out, unsigned k, int v2);
static void build_seeds(const char *sources) {
  /* (c) synthetic topologies first (the first small v3 export becomes valid_doc) */
  static const char *synths[] = {
    "pack:2 core:2 pu:2", "pack:2 [numa] core:2 pu:2", "numa:2 pack:1 l3:1 l2:2 l1:1 l1i:1 core:1 pu:2",
    "group:2 pack:2 [numa(memory=1GB)] l3:1 core:2 pu:1", "pack:2 die:2 [numa] l2:2 core:1 pu:2", "numa:4 core:2 pu:1",
    "pack:1 [numa] [numa] core:4 pu:1", "pack:2 numa:2 l3:1 l2:1 l1:1 core:2 pu:2(indexes=core:pu)", "4 2 2", "pu:3",
    "pack:3 [numa(memory=256MB)] l3:2(size=8MB) core:1 pu:2", "group:2 group:2 pack:1 [numa] core:1 pu:2",
    "pack:2 [numa] l3:1 [numa] core:2 pu:2" };
  static const unsigned variants[] = {0, 1 | 2 | 4 | 8 | 32 | 64 | 128, 4 | 16 | 32, 1 | 128, 2 | 4 | 64, 255, 4 | 8 | 128, 32 | 64, 0, 1 | 4, 255 & ~16, 2 | 32, 4 | 32 | 128};
  hwloc_topology_t prev = NULL;
  for (unsigned i = 0; i < sizeof synths / sizeof *synths; i++) {
    hwloc_topology_t t;
    hwloc_topology_init(&t);
    if (i & 1) hwloc_topology_set_all_types_filter(t, HWLOC_TYPE_FILTER_KEEP_ALL);
    if (hwloc_topology_set_synthetic(t, synths[i]) < 0 || hwloc_topology_load(t) < 0) { hwloc_topology_destroy(t); continue; }
    if (i == 1) { hwloc_topology_dup(&prev, t); }
    annotate(t, variants[i]);
    add_exports(t);
    if (i == 1 && prev) {
      /* (d) diff documents: (plain, annotated) and a hand-made name/size change */
      hwloc_topology_diff_t diff = NULL;
      hwloc_topology_t t3 = NULL; hwloc_topology_dup(&t3, prev);
      if (t3) {
        hwloc_obj_add_info(hwloc_get_root_obj(t3), "Added", "by diff");
        hwloc_obj_add_info(hwloc_get_obj_by_type(t3, HWLOC_OBJ_PU, 1), "Foo", "Bar");
        hwloc_obj_t c = hwloc_get_obj_by_type(t3, HWLOC_OBJ_CORE, 0); if (c) { free(c->name); c->name = strdup("renamed core"); }
        hwloc_obj_t n = hwloc_get_obj_by_type(t3, HWLOC_OBJ_NUMANODE, 0); if (n) n->attr->numanode.local_memory += 4096;
        if (hwloc_topology_diff_build(prev, t3, 0, &diff) >= 0 && diff) {
          char *xb = NULL; int xl = 0;
          if (hwloc_topology_diff_export_xmlbuffer(diff, "verif-ref", &xb, &xl) == 0) { add_doc(xb, xl - 1, 1, 1); hwloc_free_xmlbuffer(prev, xb); }
          xb = NULL;
          if (hwloc_topology_diff_export_xmlbuffer(diff, NULL, &xb, &xl) == 0) { add_doc(xb, xl - 1, 1, 1); hwloc_free_xmlbuffer(prev, xb); }
          hwloc_topology_diff_destroy(diff);
        }
        hwloc_topology_destroy(t3);
      }
      diff = NULL;
      if (hwloc_topology_diff_build(prev, t, 0, &diff) >= 0 && diff) {   /* probably too complex */
        char *xb = NULL; int xl = 0;
        if (hwloc_topology_diff_export_xmlbuffer(diff, "complex", &xb, &xl) == 0) { add_doc(xb, xl - 1, 1, 1); hwloc_free_xmlbuffer(prev, xb); }
        hwloc_topology_diff_destroy(diff);
      }
      hwloc_topology_destroy(prev); prev = NULL;
    }
    hwloc_topology_destroy(t);
  }
  /* (e) exports with several distances matrices (distances-list class) as ordinary seeds for the generic mutators */
  { struct buf dd = {0};
    for (unsigned k = 2; k <= 5; k++) if (build_ddoc(&dd, k, k == 3) == 0) add_doc(dd.p, dd.n, 0, 1);
    free(dd.p); }
  { static const char d1[] = "<?xml version=\"1.0\" encoding=\"UTF-8\"?>\n<!DOCTYPE topologydiff SYSTEM \"hwloc2-diff.dtd\">\n<topologydiff refname=\"r\">\n"
      "  <diff type=\"0\" obj_depth=\"1\" obj_index=\"0\" obj_attr_type=\"0\" obj_attr_index=\"0\" obj_attr_oldvalue=\"1024\" obj_attr_newvalue=\"0x800\"/>\n"
      "  <diff type=\"0\" obj_depth=\"2\" obj_index=\"1\" obj_attr_type=\"1\" obj_attr_oldvalue=\"old\" obj_attr_newvalue=\"new\"/>\n"
      "  <diff type=\"0\" obj_depth=\"-3\" obj_index=\"0\" obj_attr_type=\"2\" obj_attr_name=\"Key\" obj_attr_oldvalue=\"a\" obj_attr_newvalue=\"b\"/>\n"
      "  <diff type=\"1\" obj_depth=\"0\" obj_index=\"0\"/>\n</topologydiff>\n";
    add_doc(d1, sizeof d1 - 1, 1, 1); }
  /* (a) source files as they are, (b) re-exports of a random subset */
  FILE *fs = fopen(sources, "r");
  if (fs) {
    char line[1100];
    while (fgets(line, sizeof line, fs)) {
      line[strcspn(line, "\n")] = 0;
      if (line[0] != 'X' || strlen(line) < 3) continue;
      size_t len = 0; char *b = read_file(line + 2, &len);
      if (!b) continue;
      if (len < 65536) {
        add_doc(b, len, 0, 0);
        if (rng_chance(25)) {
          alarm(60);
          hwloc_topology_t t = load_buffer((unsigned char *) b, len, rng_chance(50) ? (1UL << 16) : 0);
          if (t) { add_exports(t); hwloc_topology_destroy(t); }
          alarm(0);
        }
      }
      free(b);
    }
    fclose(fs);
  }
}

/* ------------------------------------------------------------------ mutations */
struct span { size_t ns, nl, vs, vl; };
/* k-th attribute span (` name="value"`); returns the number of spans when k == (unsigned) -1 */
static unsigned attr_span(const struct buf *b, unsigned k, struct span *out) {
  unsigned cnt = 0;
  for (size_t i = 1; i + 1 < b->n; i++) {
    if (b->p[i] != '=' || b->p[i + 1] != '"') continue;
    size_t s = i; while (s > 0 && name_char(b->p[s - 1])) s--;
    if (s == i || s == 0 || b->p[s - 1] != ' ') continue;
    const unsigned char *q = memchr(b->p + i + 2, '"', b->n - (i + 2));
    if (!q) break;
    if (cnt == k) { out->ns = s; out->nl = i - s; out->vs = i + 2; out->vl = q - (b->p + i + 2); return cnt + 1; }
    cnt++;
  }
  return cnt;
}
static unsigned tag_span(const struct buf *b, unsigned k, struct span *out) { /* `<name` */
  unsigned cnt = 0;
  for (size_t i = 0; i + 1 < b->n; i++) {
    if (b->p[i] != '<') continue;
    size_t s = i + 1; if (s < b->n && b->p[s] == '/') s++;
    size_t e = s; while (e < b->n && name_char(b->p[e])) e++;
    if (e == s) continue;
    if (cnt == k) { out->ns = s; out->nl = e - s; return cnt + 1; }
    cnt++;
  }
  return cnt;
}
static unsigned line_span(const struct buf *b, unsigned k, size_t *start, size_t *len) { /* lines incl. their '\n' */
  unsigned cnt = 0; size_t s = 0;
  while (s < b->n) {
    const unsigned char *q = memchr(b->p + s, '\n', b->n - s);
    size_t e = q ? (size_t) (q - b->p) + 1 : b->n;
    if (cnt == k) { *start = s; *len = e - s; return cnt + 1; }
    cnt++; s = e;
  }
  return cnt;
}

static size_t gen_value(const struct buf *b, unsigned char *out, size_t cap) {
  static const char *fixed[] = {"0", "1", "-1", "2", "3", "4294967295", "4294967296", "18446744073709551615", "18446744073709551616",
    "65536", "65537", "2147483647", "2147483648", "-2147483649", "0x", "", "nan", "inf", "-0", "1e999", "0x10", "010", " 1", "1 ",
    "0xffffffff,,0x1", "0xf,0xffffffff,0xffffffff", "0x00000001,0x00000000,0x00000000", ",,", "0x1,0x0", "0xf...f", "0-3", "0xffffffff,0xffffffff,0xffffffff,0xffffffff",
    "Package", "NUMANode", "PU", "Bridge", "OSDev", "Misc", "Group", "L1Cache", "L3iCache", "MemCache", "Machine", "Die", "Core", "PCIDev", "L2Cache", "L1iCache",
    "base64", "os", "gp", "normal", "obj0", "obj1", "obj", "0000:00:00.0", "ffff:ff:ff.f", "0000:[00-ff]", "1-0", "0-1", "1-1", "7-7",
    "0300 [10de:1db8] [10de:12ab] a1 00", "4", "5", "8", "16", "32", "64", "127", "128", "255", "256", "1023", "1024", "XGMIHops", "NUMALatency", "Capacity", "Locality", "Bandwidth", "Latency" };
  unsigned r = rng_below(100);
  if (r < 55) { const char *s = fixed[rng_below(sizeof fixed / sizeof *fixed)]; size_t n = strlen(s); memcpy(out, s, n); return n; }
  if (r < 63) { size_t n = 20 + rng_below(cap - 40 > 600 ? 600 : cap - 40); memset(out, '0' + rng_below(10), n); if (rng_chance(30)) out[0] = '-'; return n; }
  if (r < 70) { size_t n = 2 + rng_below(300); out[0] = '0'; out[1] = 'x'; for (size_t i = 2; i < n; i++) out[i] = rng_chance(10) ? ',' : "0123456789abcdef"[rng_below(16)]; return n; }
  if (r < 80) { size_t n = 1 + rng_below(12); for (size_t i = 0; i < n; i++) out[i] = rng_chance(70) ? 32 + rng_below(95) : rng_below(256); return n; }
  if (r < 85) { unsigned long long v = rng_next(); if (rng_chance(50)) v >>= rng_below(64); return (size_t) sprintf((char *) out, "%llu", v); }
  /* an existing value from elsewhere in the document */
  { unsigned na = attr_span(b, (unsigned) -1, NULL); struct span sp;
    if (na && attr_span(b, rng_below(na), &sp) && sp.vl < cap) { memcpy(out, b->p + sp.vs, sp.vl); return sp.vl; } }
  out[0] = '7'; return 1;
}

static void mutate_once(struct buf *b) {
  unsigned char tmp[2048]; struct span sp, sp2; size_t ls, ll, ls2, ll2;
  unsigned na = attr_span(b, (unsigned) -1, NULL), nl = line_span(b, (unsigned) -1, NULL, NULL);
  unsigned op = rng_below(100);
  if (!b->n) { b_set(b, "<", 1); return; }
  if (op < 4 && na) {                                     /* one value for a whole family of attributes: every attribute of the same
                                                             name, or every allowed_* / complete_* / *cpuset / *nodeset attribute */
    attr_span(b, rng_below(na), &sp);
    char fam[64]; size_t fl = sp.nl < sizeof fam - 1 ? sp.nl : sizeof fam - 1; memcpy(fam, b->p + sp.ns, fl); fam[fl] = 0;
    int mode = 0;   /* 0 same name, 1 same prefix up to '_', 2 same suffix after '_' */
    char *us = strchr(fam, '_');
    if (us && rng_chance(60)) { if (rng_chance(50)) { us[1] = 0; mode = 1; } else { memmove(fam, us, strlen(us) + 1); mode = 2; } }
    size_t fn = strlen(fam);
    size_t n = rng_chance(50) ? (size_t) sprintf((char *) tmp, "%s", rng_chance(70) ? "0x0" : "0x00000001") : gen_value(b, tmp, sizeof tmp);
    for (unsigned k = na; k-- > 0; ) {      /* from the last one: earlier spans stay valid */
      attr_span(b, k, &sp2);
      int hit = mode == 0 ? (sp2.nl == fn && !memcmp(b->p + sp2.ns, fam, fn))
              : mode == 1 ? (sp2.nl >= fn && !memcmp(b->p + sp2.ns, fam, fn))
              : (sp2.nl >= fn && !memcmp(b->p + sp2.ns + sp2.nl - fn, fam, fn));
      if (hit) b_splice(b, sp2.vs, sp2.vl, tmp, n);
    }
  } else if (op < 34 && na) {                             /* replace an attribute value */
    attr_span(b, rng_below(na), &sp);
    size_t n = gen_value(b, tmp, sizeof tmp);
    b_splice(b, sp.vs, sp.vl, tmp, n);
  } else if (op < 39 && na >= 2) {                        /* rename an attribute to another one seen */
    attr_span(b, rng_below(na), &sp); attr_span(b, rng_below(na), &sp2);
    if (sp2.nl < sizeof tmp) { memcpy(tmp, b->p + sp2.ns, sp2.nl); b_splice(b, sp.ns, sp.nl, tmp, sp2.nl); }
  } else if (op < 43) {                                   /* rename a tag */
    unsigned nt = tag_span(b, (unsigned) -1, NULL);
    if (nt >= 2) { tag_span(b, rng_below(nt), &sp); tag_span(b, rng_below(nt), &sp2);
      if (sp2.nl < sizeof tmp) { memcpy(tmp, b->p + sp2.ns, sp2.nl); b_splice(b, sp.ns, sp.nl, tmp, sp2.nl); } }
  } else if (op < 49 && na) {                             /* drop an attribute */
    attr_span(b, rng_below(na), &sp);
    b_splice(b, sp.ns - 1, sp.vs + sp.vl + 1 - (sp.ns - 1), NULL, 0);
  } else if (op < 53 && na) {                             /* duplicate an attribute (maybe with another value) */
    attr_span(b, rng_below(na), &sp);
    size_t n = sp.vs + sp.vl + 1 - (sp.ns - 1);
    if (n < sizeof tmp) { memcpy(tmp, b->p + sp.ns - 1, n); b_splice(b, sp.vs + sp.vl + 1, 0, tmp, n); }
  } else if (op < 57 && na >= 2) {                        /* copy an attribute into another element */
    attr_span(b, rng_below(na), &sp); attr_span(b, rng_below(na), &sp2);
    size_t n = sp.vs + sp.vl + 1 - (sp.ns - 1);
    if (n < sizeof tmp) { memcpy(tmp, b->p + sp.ns - 1, n); b_splice(b, sp2.vs + sp2.vl + 1, 0, tmp, n); }
  } else if (op < 63 && nl >= 2) {                        /* drop a line (element) */
    line_span(b, rng_below(nl), &ls, &ll); b_splice(b, ls, ll, NULL, 0);
  } else if (op < 67 && nl >= 1) {                        /* duplicate a line */
    line_span(b, rng_below(nl), &ls, &ll);
    unsigned char *c = malloc(ll); memcpy(c, b->p + ls, ll); b_splice(b, ls, 0, c, ll); free(c);
  } else if (op < 71 && nl >= 2) {                        /* swap two lines */
    unsigned i = rng_below(nl), j = rng_chance(60) ? (i + 1) % nl : rng_below(nl);
    if (i > j) { unsigned x = i; i = j; j = x; }
    if (i != j) {
      line_span(b, i, &ls, &ll); line_span(b, j, &ls2, &ll2);
      unsigned char *a = malloc(ll), *c = malloc(ll2); memcpy(a, b->p + ls, ll); memcpy(c, b->p + ls2, ll2);
      b_splice(b, ls2, ll2, a, ll); b_splice(b, ls, ll, c, ll2); free(a); free(c);
    }
  } else if (op < 75 && nl >= 2) {                        /* move a line elsewhere */
    line_span(b, rng_below(nl), &ls, &ll);
    unsigned char *c = malloc(ll); memcpy(c, b->p + ls, ll); b_splice(b, ls, ll, NULL, 0);
    unsigned n2 = line_span(b, (unsigned) -1, NULL, NULL);
    if (n2) { line_span(b, rng_below(n2), &ls2, &ll2); b_splice(b, ls2, 0, c, ll); } else b_splice(b, 0, 0, c, ll);
    free(c);
  } else if (op < 79 && nl >= 2) {                        /* drop a closing tag / an opening tag */
    int want_close = rng_chance(50);
    for (unsigned tries = 0; tries < 30; tries++) {
      line_span(b, rng_below(nl), &ls, &ll);
      size_t s = ls; while (s < ls + ll && (b->p[s] == ' ' || b->p[s] == '\t')) s++;
      if (s + 2 >= ls + ll || b->p[s] != '<') continue;
      int is_close = b->p[s + 1] == '/';
      int selfclosing = ll >= 3 && b->p[ls + ll - 3] == '/' ;
      if (want_close ? is_close : (!is_close && !selfclosing && b->p[s + 1] != '?' && b->p[s + 1] != '!')) { b_splice(b, ls, ll, NULL, 0); break; }
    }
  } else if (op < 82) {                                   /* change the version */
    static const char *vers[] = {"2.0", "3.0", "1.0", "2.99", "3.1", "4.0", "0.9", "2", "2.", ".0", "2.0.0", "4294967298.0", "-2.0", "02.00", "3.x", ""};
    const unsigned char *q = xmemmem(b->p, b->n, "<topology version=\"");
    if (q) { size_t off = q - b->p + 19; const unsigned char *e = memchr(b->p + off, '"', b->n - off);
      if (e) { const char *v = vers[rng_below(sizeof vers / sizeof *vers)]; b_splice(b, off, e - (b->p + off), v, strlen(v)); } }
  } else if (op < 86) {                                   /* truncate */
    size_t at = rng_chance(30) && b->n > 40 ? b->n - 1 - rng_below(40) : rng_below(b->n);
    b_splice(b, at, b->n - at, NULL, 0);
  } else if (op < 90) {                                   /* insert random bytes */
    static const char *frag[] = {"<", ">", "/>", "\"", "=\"", "&", "&amp;", "&#10;", "&lt;", "</object>", "<object", "<info", " ", "\n", "<!--", "-->", "/", "<userdata length=\"0\">", "<userdata>", "<page_type size=\"4096\" count=\"1\"/>"};
    size_t at = rng_below(b->n + 1);
    if (rng_chance(60)) { const char *f = frag[rng_below(sizeof frag / sizeof *frag)]; b_splice(b, at, 0, f, strlen(f)); }
    else { size_t n = 1 + rng_below(6); for (size_t i = 0; i < n; i++) tmp[i] = rng_chance(60) ? 32 + rng_below(95) : rng_below(256); b_splice(b, at, 0, tmp, n); }
  } else if (op < 93) {                                   /* delete random bytes */
    size_t at = rng_below(b->n), n = 1 + rng_below(rng_chance(80) ? 4 : 60); b_splice(b, at, n, NULL, 0);
  } else if (op < 96) {                                   /* flip a byte */
    size_t at = rng_below(b->n); b->p[at] ^= 1u << rng_below(8);
  } else {                                                /* `/>` <-> `>` */
    unsigned cnt = 0; for (size_t i = 1; i < b->n; i++) if (b->p[i] == '>') cnt++;
    if (cnt) { unsigned k = rng_below(cnt); for (size_t i = 1; i < b->n; i++) if (b->p[i] == '>' && k-- == 0) {
      if (b->p[i - 1] == '/') b_splice(b, i - 1, 1, NULL, 0); else b_splice(b, i, 0, "/", 1); break; } }
  }
}

/* ------------------------------------------------------------------ distances-list class: documents and cases */
#define DD_FILTER_CASES 16
static const hwloc_obj_type_t dd_none_types[] = {HWLOC_OBJ_CORE, HWLOC_OBJ_PACKAGE, HWLOC_OBJ_L3CACHE, HWLOC_OBJ_L2CACHE};
/* export (v3 or v2) of a synthetic topology with k user distances matrices of random object types; 0 on success */
static int build_ddoc(struct buf *out, unsigned k, int v2) {
  static const char *synths[] = {"pack:2 [numa] l3:2 core:2 pu:2", "numa:3 pack:1 l2:2 core:1 pu:2", "pack:3 [numa] [numa] core:2 pu:1",
                                 "numa:2 pack:2 l3:1 l2:2 core:1 pu:2", "pack:2 [numa] [numa] l3:1 l2:3 core:1 pu:1"};
  static const hwloc_obj_type_t cand[] = {HWLOC_OBJ_NUMANODE, HWLOC_OBJ_PU, HWLOC_OBJ_CORE, HWLOC_OBJ_PACKAGE, HWLOC_OBJ_L3CACHE, HWLOC_OBJ_L2CACHE,
                                          HWLOC_OBJ_TYPE_NONE /* heterogeneous */, HWLOC_OBJ_NUMANODE, HWLOC_OBJ_TYPE_NONE};
  hwloc_topology_t t;
  if (hwloc_topology_init(&t) < 0) return -1;
  hwloc_topology_set_all_types_filter(t, HWLOC_TYPE_FILTER_KEEP_ALL);
  if (hwloc_topology_set_synthetic(t, synths[rng_below(sizeof synths / sizeof *synths)]) < 0 || hwloc_topology_load(t) < 0) { hwloc_topology_destroy(t); return -1; }
  unsigned npu = hwloc_get_nbobjs_by_type(t, HWLOC_OBJ_PU), ncore = hwloc_get_nbobjs_by_type(t, HWLOC_OBJ_CORE);
  for (unsigned j = 0; j < k; j++) {
    hwloc_obj_t objs[6]; hwloc_uint64_t vals[36]; unsigned n = 0;
    hwloc_obj_type_t ty; unsigned cnt = 0;
    for (unsigned tries = 0; tries < 50; tries++) {
      ty = cand[rng_below(sizeof cand / sizeof *cand)];
      if (ty == HWLOC_OBJ_TYPE_NONE) break;
      cnt = hwloc_get_nbobjs_by_type(t, ty);
      if (cnt >= 2) break;
      ty = HWLOC_OBJ_PU; cnt = npu;
    }
    if (ty == HWLOC_OBJ_TYPE_NONE) {
      hwloc_obj_t pool[6] = { hwloc_get_obj_by_type(t, HWLOC_OBJ_PU, 0), hwloc_get_obj_by_type(t, HWLOC_OBJ_CORE, 0), hwloc_get_obj_by_type(t, HWLOC_OBJ_NUMANODE, 0),
                              hwloc_get_obj_by_type(t, HWLOC_OBJ_PACKAGE, 0), hwloc_get_obj_by_type(t, HWLOC_OBJ_PU, npu - 1), hwloc_get_obj_by_type(t, HWLOC_OBJ_CORE, ncore - 1) };
      n = 2 + rng_below(4); unsigned first = rng_below(6 - n + 1);
      for (unsigned i = 0; i < n; i++) objs[i] = pool[first + i];
    } else {
      unsigned mx = cnt < 5 ? cnt : 5;
      n = 2 + rng_below(mx - 1); unsigned first = rng_below(cnt - n + 1);
      for (unsigned i = 0; i < n; i++) objs[i] = hwloc_get_obj_by_type(t, ty, first + i);
    }
    for (unsigned i = 0; i < n; i++) if (!objs[i]) { hwloc_topology_destroy(t); return -1; }
    for (unsigned i = 0; i < n * n; i++) vals[i] = (i / n == i % n) ? 10 + j : 1000 * (j + 1) + i;
    static const unsigned long kinds[] = {HWLOC_DISTANCES_KIND_VALUE_LATENCY, HWLOC_DISTANCES_KIND_VALUE_BANDWIDTH, HWLOC_DISTANCES_KIND_VALUE_HOPS};
    char name[16]; snprintf(name, sizeof name, "m%u", j);
    hwloc_distances_add_handle_t h = hwloc_distances_add_create(t, rng_chance(15) ? NULL : name, HWLOC_DISTANCES_KIND_FROM_USER | kinds[rng_below(3)], 0);
    if (!h || hwloc_distances_add_values(t, h, n, objs, vals, 0) < 0 || hwloc_distances_add_commit(t, h, 0) < 0) { hwloc_topology_destroy(t); return -1; }
  }
  char *xb = NULL; int xl = 0;
  if (hwloc_topology_export_xmlbuffer(t, &xb, &xl, v2 ? HWLOC_TOPOLOGY_EXPORT_XML_FLAG_V2 : 0) < 0) { hwloc_topology_destroy(t); return -1; }
  b_set(out, xb, xl - 1);
  hwloc_free_xmlbuffer(t, xb);
  hwloc_topology_destroy(t);
  struct delem de[16];
  return find_delems(out->p, out->n, de, 16) == k ? 0 : -1;
}
/* retarget the elements selected by `mask` so that they get dropped; shrink (keep) some of the others */
static void dd_apply_mask(struct buf *m, unsigned nd, unsigned mask) {
  for (unsigned j = 0; j < nd && j < 16; j++) {
    if ((mask >> j) & 1) retarget_elem(m, j, rng_chance(60) ? 0 : 1);
    else if (rng_chance(25)) retarget_elem(m, j, 2);
  }
}
/* KEEP_NONE filter bits: preferably the gp-indexed type of one of the document's matrices (all its objects vanish) */
static unsigned long dd_none_filter(const struct buf *m) {
  struct delem de[16]; unsigned nd = find_delems(m->p, m->n, de, 16); if (nd > 16) nd = 16;
  unsigned long x = 0;
  for (unsigned tries = 0; tries < 8 && !x && nd; tries++) {
    struct delem *d = &de[rng_below(nd)];
    for (unsigned i = 0; i < 4; i++) {
      char pat[40]; snprintf(pat, sizeof pat, "%s%s%s", d->hetero ? "" : "type=\"", hwloc_obj_type_string(dd_none_types[i]), d->hetero ? ":" : "\"");
      const unsigned char *q = xmemmem(m->p + d->s, d->e - d->s, pat);
      if (q && (!x || rng_chance(50))) x = 1UL << (20 + dd_none_types[i]);
    }
  }
  if (!x) x = 1UL << (20 + dd_none_types[rng_below(4)]);
  if (rng_chance(30)) x |= 1UL << (20 + dd_none_types[rng_below(4)]);
  return x;
}
static void mask_str(char *out, unsigned k, unsigned mask) { for (unsigned j = 0; j < k; j++) out[j] = ((mask >> j) & 1) ? '1' : '0'; out[k] = 0; }

static unsigned long gen_xflags(void) {
  static const unsigned long bits[] = {HWLOC_TOPOLOGY_FLAG_INCLUDE_DISALLOWED, HWLOC_TOPOLOGY_FLAG_IMPORT_SUPPORT, HWLOC_TOPOLOGY_FLAG_NO_DISTANCES,
                                       HWLOC_TOPOLOGY_FLAG_NO_MEMATTRS, HWLOC_TOPOLOGY_FLAG_NO_CPUKINDS};
  unsigned long fl = 0;
  if (!rng_chance(40)) for (int i = 0; i < 5; i++) if (rng_chance(25)) fl |= bits[i];
  unsigned fm = rng_chance(50) ? 1 : (rng_chance(25) ? 2 : 0);
  return fl | ((unsigned long) fm << 16);
}

static int write_file(const char *path, const unsigned char *p, size_t n) {
  FILE *f = fopen(path, "wb"); if (!f) return -1;
  if (n && fwrite(p, 1, n, f) != n) { fclose(f); return -1; }
  return fclose(f);
}

/* one case of the distances-list class: plan lines, run, coverage comment.  `want` = drop pattern the generator intended (NULL: none) */
static int dd_exec(FILE *fplan, const char *outdir, const char *id, struct buf *m, char mode, unsigned long xflags, int u, unsigned k, const char *want, const char *mech, int pristine, int strict) {
  char path[1200];
  snprintf(path, sizeof path, "%s/%s.xml", outdir, id);
  if (write_file(path, m->p, m->n) < 0) _exit(2);
  if (pristine) fprintf(fplan, "# unmutated %s\n", id);     /* the topology part is untouched: the result must be well-formed */
  fprintf(fplan, "# distdrop-plan %s k=%u want=%s mech=%s\n", id, k, want ? want : "-", mech);
  fprintf(fplan, "%s %c %lu %d %zu %016llx ", id, mode, xflags, u, m->n, (unsigned long long) fnv(m->p, m->n)); fflush(fplan);
  g_distoracle = pristine;
  int res = run_case_lc(id, m->p, m->n, mode, xflags, u, path, 0, 0);
  g_distoracle = 0;
  if (res == 1) fprintf(fplan, "loaded\n"); else { fprintf(fplan, "failed\n"); remove(path); }
  if (res == 1 && strict && !g_distpat[0]) die("distances-list class: the oracle has no opinion on a pristine document (case %s)", id);
  if (res == 1 && g_distpat[0]) {
    if (want && strcmp(want, g_distpat)) die("distances-list class: generator wanted drop pattern %s, the loaded document has %s (case %s)", want, g_distpat, id);
    fprintf(fplan, "# distdrop %s k=%zu drop=%s mech=%s\n", id, strlen(g_distpat), g_distpat, mech);
  }
  fflush(fplan);
  if (res != 1 && strict) die("distances-list class: a valid document with retargeted <indexes> / type filters does not load (case %s mode %c)", id, mode);
  return res;
}
/* prologue of every gen process: every subset of dropped elements for k = 1..5 (62 cases), then DD_FILTER_CASES filter-driven cases */
static void dd_prologue(FILE *fplan, const char *outdir) {
  struct { unsigned char k, mask; } pat[62]; unsigned np = 0;
  for (unsigned k = 1; k <= 5; k++) for (unsigned mask = 0; mask < (1u << k); mask++) { pat[np].k = k; pat[np].mask = mask; np++; }
  for (unsigned i = np - 1; i > 0; i--) { unsigned j = rng_below(i + 1); unsigned char a = pat[i].k, b = pat[i].mask; pat[i] = pat[j]; pat[j].k = a; pat[j].mask = b; }
  struct buf m = {0}; unsigned idn = 0;
  for (unsigned i = 0; i < np + DD_FILTER_CASES; i++) {
    unsigned k = i < np ? pat[i].k : 2 + rng_below(4), mask = i < np ? pat[i].mask : 0;
    if (build_ddoc(&m, k, rng_chance(25)) < 0) die("distances-list class: cannot build a document with %u matrices", k);
    unsigned long xflags = gen_xflags() & ~(unsigned long) HWLOC_TOPOLOGY_FLAG_NO_DISTANCES;
    const char *mech = "r"; char want[8];
    if (i >= np) { xflags |= dd_none_filter(&m); mech = "f"; if (rng_chance(50)) { mask = rng_below(1u << k); mech = "rf"; } }
    dd_apply_mask(&m, k, mask);
    mask_str(want, k, mask);
    char id[32]; snprintf(id, sizeof id, "p%u", idn++);
    dd_exec(fplan, outdir, id, &m, rng_chance(85) ? 'B' : 'F', xflags, 0, k, i < np ? want : NULL, mech, 1, 1);
  }
  free(m.p);
}

/* memory-attribute catalogue: a valid export with one user attribute that has values (with and without initiators), renamed to every
 * built-in attribute name (incl. the virtual ones, Capacity and Locality, which cannot hold values) x every flags word the importer may
 * compare with: each document must load or fail cleanly, and the loaded topology must survive the read-only probes */
static int build_mdoc(struct buf *out, unsigned long maflags, int v2) {
  hwloc_topology_t t; hwloc_memattr_id_t id;
  if (hwloc_topology_init(&t) < 0) return -1;
  if (hwloc_topology_set_synthetic(t, "pack:2 [numa] core:2 pu:1") < 0 || hwloc_topology_load(t) < 0) { hwloc_topology_destroy(t); return -1; }
  if (hwloc_memattr_register(t, "VerifCatAttr", maflags, &id) < 0) { hwloc_topology_destroy(t); return -1; }
  for (unsigned i = 0; i < 2; i++) {
    hwloc_obj_t n = hwloc_get_obj_by_type(t, HWLOC_OBJ_NUMANODE, i);
    struct hwloc_location loc, *lp = NULL;
    if (maflags & HWLOC_MEMATTR_FLAG_NEED_INITIATOR) { loc.type = HWLOC_LOCATION_TYPE_CPUSET; loc.location.cpuset = hwloc_get_obj_by_type(t, HWLOC_OBJ_PACKAGE, i)->cpuset; lp = &loc; }
    hwloc_memattr_set_value(t, id, n, lp, 0, 100 + i);
  }
  char *xb = NULL; int xl = 0;
  int err = hwloc_topology_export_xmlbuffer(t, &xb, &xl, v2 ? HWLOC_TOPOLOGY_EXPORT_XML_FLAG_V2 : 0);
  if (!err) { b_set(out, xb, (size_t) xl - 1); hwloc_free_xmlbuffer(t, xb); }
  hwloc_topology_destroy(t);
  return err;
}
static void ma_prologue(FILE *fplan, const char *outdir) {
  static const char *names[] = {"Capacity", "Locality", "Bandwidth", "Latency", "ReadBandwidth", "WriteBandwidth", "ReadLatency", "WriteLatency", "VerifCatAttr", ""};
  static const unsigned long regflags[] = {HWLOC_MEMATTR_FLAG_HIGHER_FIRST, HWLOC_MEMATTR_FLAG_LOWER_FIRST,
                                           HWLOC_MEMATTR_FLAG_HIGHER_FIRST | HWLOC_MEMATTR_FLAG_NEED_INITIATOR, HWLOC_MEMATTR_FLAG_LOWER_FIRST | HWLOC_MEMATTR_FLAG_NEED_INITIATOR};
  struct buf m = {0}; unsigned idn = 0; char path[1200];
  for (unsigned f = 0; f < 4; f++) for (unsigned k = 0; k < sizeof names / sizeof *names; k++) {
    if (build_mdoc(&m, regflags[f], rng_chance(25)) < 0) die("memattr catalogue: cannot build a document");
    const unsigned char *q = xmemmem(m.p, m.n, "name=\"VerifCatAttr\"");
    if (!q) die("memattr catalogue: exported attribute not found");
    size_t off = (size_t) (q - m.p) + 6;
    b_splice(&m, off, strlen("VerifCatAttr"), names[k], strlen(names[k]));
    char id[32]; snprintf(id, sizeof id, "m%u", idn++);
    unsigned long xflags = gen_xflags() & ~(unsigned long) HWLOC_TOPOLOGY_FLAG_NO_MEMATTRS;
    char mode = rng_chance(85) ? 'B' : 'F';
    snprintf(path, sizeof path, "%s/%s.xml", outdir, id);
    if (write_file(path, m.p, m.n) < 0) _exit(2);
    fprintf(fplan, "%s %c %lu %d %zu %016llx ", id, mode, xflags, 0, m.n, (unsigned long long) fnv(m.p, m.n)); fflush(fplan);
    int res = run_case_lc(id, m.p, m.n, mode, xflags, 0, path, 0, 0);
    if (res == 1) fprintf(fplan, "loaded\n"); else if (res == 2) { fprintf(fplan, "failed\n"); remove(path); }
    else { if (res == '7') fprintf(fplan, "skipped-F71\n"); else fprintf(fplan, "skipped-F05%c\n", res); remove(path); }
    fflush(fplan);
    n_macat++;
  }
  free(m.p);
}

/* one prologue case: plan line, run, result */
static int pro_exec(FILE *fplan, const char *outdir, const char *id, struct buf *m, char mode, unsigned long xflags, int u) {
  char path[1200];
  snprintf(path, sizeof path, "%s/%s.xml", outdir, id);
  if (write_file(path, m->p, m->n) < 0) _exit(2);
  fprintf(fplan, "%s %c %lu %d %zu %016llx ", id, mode, xflags, u, m->n, (unsigned long long) fnv(m->p, m->n)); fflush(fplan);
  int res = run_case_lc(id, m->p, m->n, mode, xflags, u, path, 0, 0);
  if (res == 1) fprintf(fplan, "loaded\n"); else if (res == 2) { fprintf(fplan, "failed\n"); remove(path); }
  else { if (res == '7') fprintf(fplan, "skipped-F71\n"); else fprintf(fplan, "skipped-F05%c\n", res); remove(path); }
  fflush(fplan);
  return res;
}
/* userdata catalogue (C06-r7): a valid export whose objects carry plain and base64 userdata; for every <userdata> element the `length`
 * attribute is nudged (the encoded length of base64 data is the same for 3 consecutive lengths, so a decoder that accepts a short
 * decode hands uninitialised bytes to the application), the encoding attribute dropped / added, the content shortened; loaded with the
 * import callback set.  Each document must load or fail cleanly; under MemorySanitizer the callback checks the bytes it is given. */
static void ud_prologue(FILE *fplan, const char *outdir) {
  static const int deltas[] = {1, 2, 3, -1, -2, 5, 16, -3};
  struct buf base = {0}, m = {0}; unsigned idn = 0;
  for (unsigned i = 0; i < ndocs && !base.n; i++)
    if (docs[i].trusted && !docs[i].isdiff && xmemmem(docs[i].p, docs[i].n, "<userdata ") && xmemmem(docs[i].p, docs[i].n, "encoding=\"base64\"")) b_set(&base, docs[i].p, docs[i].n);
  if (!base.n) die("userdata catalogue: no seed document with base64 userdata");
  size_t pos = 0;
  for (;;) {
    const unsigned char *q = xmemmem(base.p + pos, base.n - pos, "<userdata ");
    if (!q) break;
    size_t es = (size_t) (q - base.p); pos = es + 10;
    const unsigned char *ee = memchr(q, '>', base.n - es); if (!ee) break;
    const unsigned char *la = xmemmem(q, (size_t) (ee - q), " length=\""); if (!la) continue;
    size_t vs = (size_t) (la - base.p) + 9; size_t vl = 0; while (vs + vl < base.n && base.p[vs + vl] >= '0' && base.p[vs + vl] <= '9') vl++;
    long len0 = strtol((const char *) base.p + vs, NULL, 10);
    for (unsigned d = 0; d < sizeof deltas / sizeof *deltas + 2; d++) {
      b_set(&m, base.p, base.n);
      if (d < sizeof deltas / sizeof *deltas) {
        long nl = len0 + deltas[d]; if (nl < 0) nl = 0;
        char num[32]; int k = sprintf(num, "%ld", nl);
        b_splice(&m, vs, vl, num, (size_t) k);
      } else if (d == sizeof deltas / sizeof *deltas) {            /* encoding attribute dropped or added */
        const unsigned char *en = xmemmem(m.p + es, (size_t) (ee - q), " encoding=\"base64\"");
        if (en) b_splice(&m, (size_t) (en - m.p), 18, NULL, 0); else b_splice(&m, es + 9, 0, " encoding=\"base64\"", 18);
      } else {                                                      /* one content character removed */
        size_t cs = (size_t) (ee - base.p) + 1;
        if (cs < m.n && m.p[cs] != '<') b_splice(&m, cs, 1, NULL, 0);
      }
      char id[32]; snprintf(id, sizeof id, "u%u", idn++);
      pro_exec(fplan, outdir, id, &m, rng_chance(80) ? 'B' : 'F', gen_xflags(), 1);
      n_udcat++;
    }
  }
  free(base.p); free(m.p);
}
/* late failures (F82): a valid document with CPU kinds (+ distances / memattrs when the seed has them) made invalid only AFTER those
 * elements were imported (a junk or incomplete element right before </topology>); the load must fail cleanly and THE SAME topology must
 * then accept and load a valid document that registers CPU kinds again */
static void latefail_prologue(FILE *fplan, const char *outdir) {
  static const char *junk[] = {
    "<distances2 type=\"PU\" nbobjs=\"2\" kind=\"5\" indexing=\"os\"></distances2>", "<cpukind/>", "<cpukind cpuset=\"\"/>", "<memattr/>",
    "<memattr name=\"X\" flags=\"0\"/>", "<distances2/>", "<unknownelement/>", "<object type=\"PU\"/>", "<info/>", "<distances2hetero nbobjs=\"2\"/>",
    "<support/>", "<cpukind cpuset=\"0xf...f\" forced_efficiency=\"x\"><info/></cpukind>", "<memattr name=\"Bandwidth\" flags=\"9\"><memattr_value/></memattr>" };
  if (!valid_side_doc.n) return;
  struct buf m = {0}; unsigned idn = 0;
  g_force_reconf = 1;
  for (unsigned k = 0; k < sizeof junk / sizeof *junk; k++) {
    b_set(&m, valid_side_doc.p, valid_side_doc.n);
    const unsigned char *q = xmemmem(m.p, m.n, "</topology>"); if (!q) break;
    b_splice(&m, (size_t) (q - m.p), 0, junk[k], strlen(junk[k]));
    char id[32]; snprintf(id, sizeof id, "l%u", idn++);
    pro_exec(fplan, outdir, id, &m, rng_chance(80) ? 'B' : 'F', gen_xflags() & ~(unsigned long) (HWLOC_TOPOLOGY_FLAG_NO_CPUKINDS | HWLOC_TOPOLOGY_FLAG_NO_DISTANCES | HWLOC_TOPOLOGY_FLAG_NO_MEMATTRS), 0);
    n_latefail++;
  }
  g_force_reconf = 0;
  free(m.p);
}

/* degenerate documents through every entry point (buffer, file, diff): zero-length, one byte, a lone NUL, only white space, only the
 * XML declaration: each must be refused (or loaded) in bounded time */
static void edge_prologue(FILE *fplan, const char *outdir) {
  static const struct { const char *p; size_t n; } docs0[] = { {"", 0}, {"<", 1}, {"\0", 1}, {"\n", 1}, {" \n\t ", 4}, {"<?xml version=\"1.0\" encoding=\"UTF-8\"?>\n", 39},
    {"<topology>", 10}, {"<topology version=\"3.0\">", 24}, {"<topologydiff>", 14}, {"<topology version=\"3.0\"></topology>\n", 36} };
  static const char modes[] = "BFD";
  struct buf m = {0}; unsigned idn = 0; char path[1200];
  for (unsigned d = 0; d < sizeof docs0 / sizeof *docs0; d++) for (unsigned k = 0; k < 3; k++) {
    b_set(&m, docs0[d].p, docs0[d].n);
    char id[32]; snprintf(id, sizeof id, "e%u", idn++);
    char mode = modes[k]; unsigned long xflags = mode == 'D' ? 0 : gen_xflags();
    snprintf(path, sizeof path, "%s/%s.xml", outdir, id);
    if (write_file(path, m.p, m.n) < 0) _exit(2);
    fprintf(fplan, "%s %c %lu %d %zu %016llx ", id, mode, xflags, 0, m.n, (unsigned long long) fnv(m.p, m.n)); fflush(fplan);
    int res = run_case_lc(id, m.p, m.n, mode, xflags, 0, path, 0, 0);
    if (res == 1) fprintf(fplan, "loaded\n"); else if (res == 2) fprintf(fplan, "failed\n");
    else { if (res == '7') fprintf(fplan, "skipped-F71\n"); else fprintf(fplan, "skipped-F05%c\n", res); }
    remove(path);
    fflush(fplan);
  }
  free(m.p);
}

int main(int argc, char **argv) {
  const char *lx = getenv("HWLOC_LIBXML");
  nolibxml = lx && !atoi(lx);
  signal(SIGALRM, SIG_DFL);

  if (argc >= 4 && !strcmp(argv[1], "replay")) {
    size_t len = 0; char *b = read_file(argv[2], &len);
    fdump = fopen(argv[3], "w");
    if (!b || !fdump) return 2;
    char mode = argc > 4 ? argv[4][0] : 'B';
    unsigned long xflags = argc > 5 ? strtoul(argv[5], NULL, 0) : 0;
    int u = argc > 6 && argv[6][0] == 'u';
    int have_override = 0, size_override = 0;
    if (argc > 7 && !strncmp(argv[7], "size=", 5)) { have_override = 1; size_override = atoi(argv[7] + 5); }
    g_distoracle = env_on("VERIF_DISTORACLE");
    int r = run_case_lc("c0", (unsigned char *) b, len, mode, xflags, u, argv[2], size_override, have_override);
    if (g_distoracle && r == 1) printf("distances oracle: %s\n", g_distpat[0] ? g_distpat : "no opinion");
    if (r == 1) printf("case: loaded\n"); else if (r == 2) printf("case: failed\n"); else printf(r == '7' ? "case: skipped-F71\n" : "case: skipped-F05%c\n", r);
    free(b); fclose(fdump);
    return 0;
  }
  if (argc >= 4 && !strcmp(argv[1], "seeds")) {   /* debugging aid: write the seed documents to <outdir>/s<i>.xml */
    rng_seed(rng_seed_from_env()); fdump = fopen("/dev/null", "w"); build_seeds(argv[2]);
    for (unsigned i = 0; i < ndocs; i++) { char pth[1200]; snprintf(pth, sizeof pth, "%s/s%u%s.xml", argv[3], i, docs[i].isdiff ? "d" : ""); write_file(pth, docs[i].p, docs[i].n); }
    printf("%u seeds\n", ndocs); return 0;
  }
  if (argc < 5 || strcmp(argv[1], "gen")) { fprintf(stderr, "usage: xmlload gen <n> <sources> <outdir> | replay <file> <dump> [B|F|D] [flags] [u]\n"); return 2; }
  unsigned long n = strtoul(argv[2], NULL, 10);
  const char *outdir = argv[4];
  char path[1200];
  snprintf(path, sizeof path, "%s/plan.txt", outdir); FILE *fplan = fopen(path, "w");
  snprintf(path, sizeof path, "%s/dump.txt", outdir); fdump = fopen(path, "w");
  if (!fplan || !fdump) return 2;
  rng_seed(rng_seed_from_env());
  build_seeds(argv[3]);
  if (!ndocs || !valid_doc.n) { fprintf(stderr, "no seed documents\n"); return 2; }
  /* seed documents that carry distances elements (bundled files, own exports) */
  unsigned *distdocs = malloc(sizeof *distdocs * ndocs), ndistdocs = 0;
  for (unsigned i = 0; i < ndocs; i++) { struct delem de[2]; if (!docs[i].isdiff && find_delems(docs[i].p, docs[i].n, de, 2) >= 1) distdocs[ndistdocs++] = i; }
  fprintf(fplan, "# seeds %u (diff %u, with distances %u) backend %s\n", ndocs, ndiffdocs, ndistdocs, nolibxml ? "nolibxml" : "libxml"); fflush(fplan);
  if (!env_on("VERIF_NO_DISTDROP")) dd_prologue(fplan, outdir);
  if (!env_on("VERIF_NO_MACAT")) ma_prologue(fplan, outdir);
  edge_prologue(fplan, outdir);
  ud_prologue(fplan, outdir);
  latefail_prologue(fplan, outdir);
  struct buf m = {0};
  for (unsigned long i = 0; i < n; i++) {
    char id[32]; snprintf(id, sizeof id, "c%lu", i);
    if (rng_chance(7) && !env_on("VERIF_NO_DISTDROP")) {
      /* distances-list class, random member: a document with distances (seed document or fresh export with 1..5 matrices), random
       * subset retargeted, sometimes a KEEP_NONE filter, sometimes 1-2 generic mutations on top (then no oracle) */
      unsigned long xflags = gen_xflags(); const char *mech = "r"; unsigned nd;
      int strict = 1;
      if (ndistdocs && rng_chance(45)) { struct doc *d = &docs[distdocs[rng_below(ndistdocs)]]; b_set(&m, d->p, d->n); strict = 0; }
      else if (build_ddoc(&m, 1 + rng_below(5), rng_chance(25)) < 0) die("distances-list class: cannot build a document");
      { struct delem de[16]; nd = find_delems(m.p, m.n, de, 16); if (nd > 16) nd = 16; }
      unsigned mask = rng_below(1u << nd);
      dd_apply_mask(&m, nd, mask);
      if (rng_chance(30)) { xflags |= dd_none_filter(&m); mech = mask ? "rf" : "f"; }
      int pristine = 1;
      if (rng_chance(35)) { pristine = 0; mech = "r+mut"; unsigned nm = 1 + rng_below(2); for (unsigned k = 0; k < nm; k++) mutate_once(&m); }
      unsigned r = rng_below(100);
      if (pristine) dd_exec(fplan, outdir, id, &m, r < 80 ? 'B' : 'F', xflags, rng_chance(20), nd, NULL, mech, 1, strict);
      else {
        /* not pristine: an ordinary mutated case (may fail to load); no oracle, no expectation */
        char mode = r < 80 ? 'B' : 'F'; int u = rng_chance(20);
        snprintf(path, sizeof path, "%s/%s.xml", outdir, id);
        if (write_file(path, m.p, m.n) < 0) return 2;
        fprintf(fplan, "# distdrop-plan %s k=%u want=- mech=%s\n", id, nd, mech);
        fprintf(fplan, "%s %c %lu %d %zu %016llx ", id, mode, xflags, u, m.n, (unsigned long long) fnv(m.p, m.n)); fflush(fplan);
        int res = run_case_lc(id, m.p, m.n, mode, xflags, u, path, 0, 0);
        if (res == 1) fprintf(fplan, "loaded\n"); else { fprintf(fplan, "failed\n"); remove(path); }
        fflush(fplan);
      }
      continue;
    }
    unsigned r = rng_below(100);
    char mode = r < 70 ? 'B' : r < 85 ? 'F' : 'D';
    unsigned long xflags = gen_xflags();
    int u = rng_chance(30);
    /* pick a seed document: diff documents mostly for mode D; smaller documents preferred */
    struct doc *d;
    for (unsigned tries = 0;; tries++) {
      d = &docs[rng_below(ndocs)];
      int wantdiff = mode == 'D' ? rng_chance(75) : rng_chance(4);
      if (tries < 40 && d->isdiff != wantdiff) continue;
      if (tries < 40 && d->n > 12000 && !rng_chance(d->n > 30000 ? 8 : 25)) continue;
      break;
    }
    b_set(&m, d->p, d->n);
    unsigned kind = rng_below(100);
    int have_override = 0, size_override = 0;
    if (kind < 5) { size_t nn = 1 + rng_below(400); b_reserve(&m, nn); for (size_t k = 0; k < nn; k++) m.p[k] = rng_below(256); m.n = nn; m.p[nn] = 0; }
    else if (kind < 10) { /* unmutated */ }
    else { unsigned nm = 1 + rng_below(4); for (unsigned k = 0; k < nm; k++) mutate_once(&m); }
    if (m.n > 200000) { m.n = 200000; m.p[m.n] = 0; }
    if (mode != 'F' && rng_chance(2)) { have_override = 1; size_override = rng_chance(70) ? 0 : -(int) rng_below(3) - 1; }
    snprintf(path, sizeof path, "%s/%s.xml", outdir, id);
    if (write_file(path, m.p, m.n) < 0) return 2;
    if (mode == 'D') { u = 0; xflags = 0; }
    if (kind >= 5 && kind < 10) fprintf(fplan, "# unmutated %s\n", id);
    fprintf(fplan, "%s %c %lu %d %zu %016llx ", id, mode, xflags, u, m.n, (unsigned long long) fnv(m.p, m.n)); fflush(fplan);
    int res = run_case_lc(id, m.p, m.n, mode, xflags, u, path, size_override, have_override);
    if (res == 1) { fprintf(fplan, "loaded\n"); if (mode == 'D') remove(path); }
    else if (res == 2) { fprintf(fplan, "failed\n"); remove(path); }
    else { if (res == '7') fprintf(fplan, "skipped-F71\n"); else fprintf(fplan, "skipped-F05%c\n", res); if (!env_on("VERIF_KEEP_SKIPPED")) remove(path); }
    fflush(fplan);
    if (kind >= 5 && kind < 10 && res == 2 && !have_override && d->trusted && !(mode == 'D' && !d->isdiff) && !(mode != 'D' && d->isdiff))
      die("unmutated seed document does not load (case %s mode %c)", id, mode);
  }
  fprintf(fplan, "# f70-skipped %lu\n", n_f70);
  fprintf(fplan, "# f72-skipped %lu\n", n_f72);
  fprintf(fplan, "# memcache-leaf-skipped %lu\n", n_mcleaf);
  fprintf(fplan, "# hugegp-skipped %lu\n", n_hugegp);
  fprintf(fplan, "# memattr-catalogue %lu\n", n_macat);
  fprintf(fplan, "# userdata-catalogue %lu\n", n_udcat);
  fprintf(fplan, "# late-failures %lu\n", n_latefail);
  fprintf(fplan, "# reconfigured-after-failure %lu\n", n_reconf_ok);
  fprintf(fplan, "# distoracle applied %lu noopinion %lu probes %lu\n", n_oracle, n_oracle_noopinion, n_probe);
  fprintf(fplan, "# done\n");
  fclose(fplan); fclose(fdump);
  for (unsigned i = 0; i < ndocs; i++) free(docs[i].p);
  free(docs); free(m.p); free(valid_doc.p); free(valid_side_doc.p); free(distdocs);
  return 0;
}
